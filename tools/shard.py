#!/usr/bin/env python3
"""One shard of the correspondence run: generate histories on the implementation,
run the model on the same operations, compare, run the monitors; write shard.<k>.json."""
import json
import os
import subprocess
import sys

V = os.path.dirname(os.path.dirname(os.path.abspath(__file__)))
sys.path.insert(0, os.path.join(V, "tools"))
import monitors  # noqa: E402


def main():
    d, k, seed, nhist, blocks = sys.argv[1], int(sys.argv[2]), int(sys.argv[3]), int(sys.argv[4]), int(sys.argv[5])
    ops = os.path.join(d, "ops.%d.txt" % k)
    obs = os.path.join(d, "obs.%d.jsonl" % k)
    mobs = os.path.join(d, "model.%d.jsonl" % k)
    stats = os.path.join(d, "stats.%d.json" % k)
    subprocess.run([os.path.join(V, "harness/bin/harness"), "gen", "-seed", str(seed), "-n", str(nhist), "-blocks", str(blocks),
                    "-ops", ops, "-obs", obs, "-stats", stats], check=True)
    with open(mobs, "w") as f:
        subprocess.run([os.path.join(V, "model/hub_model_run"), ops], stdout=f, check=True)
    cmp_out = subprocess.run([sys.executable, os.path.join(V, "tools/compare.py"), obs, mobs, "--max", "60"],
                             stdout=subprocess.PIPE, check=True, text=True).stdout
    cmp_res = json.loads(cmp_out)
    viol, nontriv = monitors.run_monitors(obs, ops)
    # which histories left the configuration domain of DESIGN section 5 (Model/Domain.v, evaluated by the model runner), and where
    outdom = {}
    nh = set()
    with open(mobs) as f:
        for line in f:
            o = json.loads(line)
            nh.add(o["h"])
            if o.get("dom") is False and o["h"] not in outdom:
                outdom[o["h"]] = o["i"]
    # lines per history, to attribute op kinds
    res = {"k": k, "seed": seed, "ops": cmp_res["ops"], "histories": cmp_res["histories"],
           "sections": cmp_res["sections"], "mismatches": cmp_res["mismatches"],
           "violations": viol[:200], "n_violations": len(viol), "nontrivial": nontriv,
           "out_of_domain": outdom, "in_domain": len(nh) - len(outdom),
           "stats": json.load(open(stats))}
    json.dump(res, open(os.path.join(d, "shard.%d.json" % k), "w"))
    os.remove(obs)
    os.remove(mobs)


if __name__ == "__main__":
    main()
