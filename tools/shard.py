#!/usr/bin/env python3
"""One shard of the correspondence run: generate histories on the implementation,
run the model on the same operations, compare, run the monitors; write shard.<k>.json."""
import json
import os
import subprocess
import sys

V = os.path.dirname(os.path.dirname(os.path.abspath(__file__)))
sys.path.insert(0, os.path.join(V, "tools"))
import monitors  # noqa: E402


def main():
    d, k, seed, nhist, blocks = sys.argv[1], int(sys.argv[2]), int(sys.argv[3]), int(sys.argv[4]), int(sys.argv[5])
    ops = os.path.join(d, "ops.%d.txt" % k)
    obs = os.path.join(d, "obs.%d.jsonl" % k)
    mobs = os.path.join(d, "model.%d.jsonl" % k)
    stats = os.path.join(d, "stats.%d.json" % k)
    subprocess.run([os.path.join(V, "harness/bin/harness"), "gen", "-seed", str(seed), "-n", str(nhist), "-blocks", str(blocks),
                    "-ops", ops, "-obs", obs, "-stats", stats], check=True)
    with open(mobs, "w") as f:
        subprocess.run([os.path.join(V, "model/hub_model_run"), ops], stdout=f, check=True)
    cmp_out = subprocess.run([sys.executable, os.path.join(V, "tools/compare.py"), obs, mobs, "--max", "60"],
                             stdout=subprocess.PIPE, check=True, text=True).stdout
    cmp_res = json.loads(cmp_out)
    viol, nontriv = monitors.run_monitors(obs, ops)
    # the same operations on the REAL application (app.NewApp: InitChain, BaseApp.BeginBlock/EndBlock/Commit, MsgServiceRouter),
    # compared with the keeper-mode observations: validates the glue the keeper-mode harness re-implements (module order, wiring
    # of keepers and services, genesis through the app)
    aobs = os.path.join(d, "app.%d.jsonl" % k)
    aops = os.path.join(d, "app-ops.%d.txt" % k)
    app_res = {"ops": 0, "histories": 0, "mismatches": [], "sections": {}, "error": ""}
    try:
        subprocess.run([os.path.join(V, "harness/bin/harness"), "replay", "-app", "-in", ops, "-ops", aops, "-obs", aobs], check=True,
                       stdout=subprocess.PIPE, stderr=subprocess.STDOUT, timeout=1500)
        app_res = json.loads(subprocess.run([sys.executable, os.path.join(V, "tools/compare.py"), obs, aobs, "--max", "40", "--app", "--ops", ops],
                                            stdout=subprocess.PIPE, check=True, text=True).stdout)
        app_res["error"] = ""
    except subprocess.CalledProcessError as ex:
        app_res["error"] = "app-mode replay failed: %s" % ((ex.stdout or b"")[-600:] if isinstance(ex.stdout, bytes) else str(ex.stdout)[-600:])
    except subprocess.TimeoutExpired:
        app_res["error"] = "app-mode replay timed out"
    for f in (aobs, aops):
        try:
            os.remove(f)
        except OSError:
            pass
    # which histories left the configuration domain of DESIGN section 5 (Model/Domain.v, evaluated by the model runner), and where
    outdom = {}
    nh = set()
    with open(mobs) as f:
        for line in f:
            o = json.loads(line)
            nh.add(o["h"])
            if o.get("dom") is False and o["h"] not in outdom:
                outdom[o["h"]] = o["i"]
    # lines per history, to attribute op kinds
    res = {"k": k, "seed": seed, "ops": cmp_res["ops"], "histories": cmp_res["histories"],
           "sections": cmp_res["sections"], "mismatches": cmp_res["mismatches"],
           "violations": viol[:200], "n_violations": len(viol), "nontrivial": nontriv,
           "out_of_domain": outdom, "in_domain": len(nh) - len(outdom),
           "app_ops": app_res.get("ops", 0), "app_histories": app_res.get("histories", 0), "app_mismatches": app_res.get("mismatches", []),
           "app_error": app_res.get("error", ""),
           "stats": json.load(open(stats))}
    json.dump(res, open(os.path.join(d, "shard.%d.json" % k), "w"))
    os.remove(obs)
    os.remove(mobs)


if __name__ == "__main__":
    main()
