"""C17 plug-in for /verif/check: addresses and store keys.

run():  1. translator  (translator/keys2coq.py: x/*/types/keys.go ... -> coq/theories/Gen/KeysGen.v; fail closed)
        2. rebuild Gen/KeysGen.vo and the model runner model/keys/keys_run when their inputs changed
        3. `harness keys` on the REAL constructors / decoders / bech32 codecs / store prefixes
        4. implementation-side pairwise monitor on the real lines (injectivity, no key a prefix of another,
           listing-prefix isolation, decoders, queue order, address round trip and role separation)
           -> a concrete failing pair is written to the replay file
        5. model runner on the same inputs, line-by-line diff (correspondence)
        6. proof cone: make theories/Props/C17.vo  (KeysThm.v re-checked against the regenerated KeysGen.v)
"""
import bisect
import fcntl
import hashlib
import json
import os
import re
import subprocess
import sys
import time

GOENV = dict(os.environ, GOFLAGS="-mod=mod", GOPROXY="off", GOSUMDB="off", GOTOOLCHAIN="local")
CASES = {"quick": 20000, "thorough": 400000}
WORKERS = 8

# ---------------------------------------------------------------------------------------------
# what the monitor knows about the key space (written from the module documentation, independent
# of the Coq model): record families and listing prefixes with the K-line arguments they use
# ---------------------------------------------------------------------------------------------
# family -> (module, arguments)
RECORDS = {
    "deposit_DepositKey": ("deposit", ("a1",)),
    "provider_ActiveProviderKey": ("provider", ("a1",)),
    "provider_InactiveProviderKey": ("provider", ("a1",)),
    "node_ActiveNodeKey": ("node", ("a1",)),
    "node_InactiveNodeKey": ("node", ("a1",)),
    "node_NodeForInactiveAtKey": ("node", ("t", "a1")),
    "node_NodeForPlanKey": ("node", ("id1", "a1")),
    "plan_ActivePlanKey": ("plan", ("id1",)),
    "plan_InactivePlanKey": ("plan", ("id1",)),
    "plan_PlanForProviderKey": ("plan", ("a1", "id1")),
    "subscription_SubscriptionKey": ("subscription", ("id1",)),
    "subscription_SubscriptionForInactiveAtKey": ("subscription", ("t", "id1")),
    "subscription_SubscriptionForAccountKey": ("subscription", ("a1", "id1")),
    "subscription_SubscriptionForNodeKey": ("subscription", ("a1", "id1")),
    "subscription_SubscriptionForPlanKey": ("subscription", ("id1", "id2")),
    "subscription_AllocationKey": ("subscription", ("id1", "a1")),
    "subscription_PayoutKey": ("subscription", ("id1",)),
    "subscription_PayoutForNextAtKey": ("subscription", ("t", "id1")),
    "subscription_PayoutForAccountKey": ("subscription", ("a1", "id1")),
    "subscription_PayoutForNodeKey": ("subscription", ("a1", "id1")),
    "subscription_PayoutForAccountByNodeKey": ("subscription", ("a1", "a2", "id1")),
    "session_SessionKey": ("session", ("id1",)),
    "session_SessionForInactiveAtKey": ("session", ("t", "id1")),
    "session_SessionForAccountKey": ("session", ("a1", "id1")),
    "session_SessionForNodeKey": ("session", ("a1", "id1")),
    "session_SessionForSubscriptionKey": ("session", ("id1", "id2")),
    "session_SessionForAllocationKey": ("session", ("id1", "a1", "id2")),
    "swap_SwapKey": ("swap", ("h",)),
    "mint_InflationKey": ("mint", ("t",)),
}
# the fixed keys (no components), taken from the P line
FIXED = {"plan_CountKey": "plan", "subscription_CountKey": "subscription", "session_CountKey": "session"}
# listing prefix function -> (family, number of leading arguments of the family it fixes)
LISTINGS = {
    "node_GetNodeForPlanKeyPrefix": ("node_NodeForPlanKey", 1),
    "node_GetNodeForInactiveAtKeyPrefix": ("node_NodeForInactiveAtKey", 1),
    "plan_GetPlanForProviderKeyPrefix": ("plan_PlanForProviderKey", 1),
    "session_GetSessionForAccountKeyPrefix": ("session_SessionForAccountKey", 1),
    "session_GetSessionForNodeKeyPrefix": ("session_SessionForNodeKey", 1),
    "session_GetSessionForSubscriptionKeyPrefix": ("session_SessionForSubscriptionKey", 1),
    "session_GetSessionForAllocationKeyPrefix": ("session_SessionForAllocationKey", 2),
    "session_GetSessionForInactiveAtKeyPrefix": ("session_SessionForInactiveAtKey", 1),
    "subscription_GetSubscriptionForAccountKeyPrefix": ("subscription_SubscriptionForAccountKey", 1),
    "subscription_GetSubscriptionForNodeKeyPrefix": ("subscription_SubscriptionForNodeKey", 1),
    "subscription_GetSubscriptionForPlanKeyPrefix": ("subscription_SubscriptionForPlanKey", 1),
    "subscription_GetSubscriptionForInactiveAtKeyPrefix": ("subscription_SubscriptionForInactiveAtKey", 1),
    "subscription_GetAllocationForSubscriptionKeyPrefix": ("subscription_AllocationKey", 1),
    "subscription_GetPayoutForNextAtKeyPrefix": ("subscription_PayoutForNextAtKey", 1),
    "subscription_GetPayoutForAccountKeyPrefix": ("subscription_PayoutForAccountKey", 1),
    "subscription_GetPayoutForNodeKeyPrefix": ("subscription_PayoutForNodeKey", 1),
    "subscription_GetPayoutForAccountByNodeKeyPrefix": ("subscription_PayoutForAccountByNodeKey", 2),
}
# whole-family prefix constants -> the families they list
FAMILY_PREFIX = {
    "deposit_DepositKeyPrefix": {"deposit_DepositKey"},
    "provider_ProviderKeyPrefix": {"provider_ActiveProviderKey", "provider_InactiveProviderKey"},
    "provider_ActiveProviderKeyPrefix": {"provider_ActiveProviderKey"},
    "provider_InactiveProviderKeyPrefix": {"provider_InactiveProviderKey"},
    "node_NodeKeyPrefix": {"node_ActiveNodeKey", "node_InactiveNodeKey"},
    "node_ActiveNodeKeyPrefix": {"node_ActiveNodeKey"},
    "node_InactiveNodeKeyPrefix": {"node_InactiveNodeKey"},
    "node_NodeForInactiveAtKeyPrefix": {"node_NodeForInactiveAtKey"},
    "node_NodeForPlanKeyPrefix": {"node_NodeForPlanKey"},
    "plan_PlanKeyPrefix": {"plan_ActivePlanKey", "plan_InactivePlanKey"},
    "plan_ActivePlanKeyPrefix": {"plan_ActivePlanKey"},
    "plan_InactivePlanKeyPrefix": {"plan_InactivePlanKey"},
    "plan_PlanForProviderKeyPrefix": {"plan_PlanForProviderKey"},
    "subscription_SubscriptionKeyPrefix": {"subscription_SubscriptionKey"},
    "subscription_SubscriptionForInactiveAtKeyPrefix": {"subscription_SubscriptionForInactiveAtKey"},
    "subscription_SubscriptionForAccountKeyPrefix": {"subscription_SubscriptionForAccountKey"},
    "subscription_SubscriptionForNodeKeyPrefix": {"subscription_SubscriptionForNodeKey"},
    "subscription_SubscriptionForPlanKeyPrefix": {"subscription_SubscriptionForPlanKey"},
    "subscription_AllocationKeyPrefix": {"subscription_AllocationKey"},
    "subscription_PayoutKeyPrefix": {"subscription_PayoutKey"},
    "subscription_PayoutForNextAtKeyPrefix": {"subscription_PayoutForNextAtKey"},
    "subscription_PayoutForAccountKeyPrefix": {"subscription_PayoutForAccountKey"},
    "subscription_PayoutForNodeKeyPrefix": {"subscription_PayoutForNodeKey"},
    "subscription_PayoutForAccountByNodeKeyPrefix": {"subscription_PayoutForAccountByNodeKey"},
    "session_SessionKeyPrefix": {"session_SessionKey"},
    "session_SessionForInactiveAtKeyPrefix": {"session_SessionForInactiveAtKey"},
    "session_SessionForAccountKeyPrefix": {"session_SessionForAccountKey"},
    "session_SessionForNodeKeyPrefix": {"session_SessionForNodeKey"},
    "session_SessionForSubscriptionKeyPrefix": {"session_SessionForSubscriptionKey"},
    "session_SessionForAllocationKeyPrefix": {"session_SessionForAllocationKey"},
    "swap_SwapKeyPrefix": {"swap_SwapKey"},
    "mint_InflationKeyPrefix": {"mint_InflationKey"},
}
# decoder -> (family, index of the component it returns)
DECODERS = {
    "node_AddressFromNodeForPlanKey": ("node_NodeForPlanKey", 1),
    "node_AddressFromNodeForInactiveAtKey": ("node_NodeForInactiveAtKey", 1),
    "plan_IDFromPlanForProviderKey": ("plan_PlanForProviderKey", 1),
    "session_IDFromSessionForAccountKey": ("session_SessionForAccountKey", 1),
    "session_IDFromSessionForNodeKey": ("session_SessionForNodeKey", 1),
    "session_IDFromSessionForSubscriptionKey": ("session_SessionForSubscriptionKey", 1),
    "session_IDFromSessionForAllocationKey": ("session_SessionForAllocationKey", 2),
    "session_IDFromSessionForInactiveAtKey": ("session_SessionForInactiveAtKey", 1),
    "subscription_AccAddrFromSubscriptionForAccountKey": ("subscription_SubscriptionForAccountKey", 0),
    "subscription_IDFromSubscriptionForAccountKey": ("subscription_SubscriptionForAccountKey", 1),
    "subscription_IDFromSubscriptionForNodeKey": ("subscription_SubscriptionForNodeKey", 1),
    "subscription_IDFromSubscriptionForPlanKey": ("subscription_SubscriptionForPlanKey", 1),
    "subscription_IDFromSubscriptionForInactiveAtKey": ("subscription_SubscriptionForInactiveAtKey", 1),
    "subscription_IDFromPayoutForAccountKey": ("subscription_PayoutForAccountKey", 1),
    "subscription_IDFromPayoutForNodeKey": ("subscription_PayoutForNodeKey", 1),
    "subscription_IDFromPayoutForAccountByNodeKey": ("subscription_PayoutForAccountByNodeKey", 2),
    "subscription_IDFromPayoutForNextAtKey": ("subscription_PayoutForNextAtKey", 1),
}
QUEUE_TIE = {  # queue family -> tie-break after the timestamp
    "node_NodeForInactiveAtKey": "addr",
    "subscription_SubscriptionForInactiveAtKey": "id",
    "subscription_PayoutForNextAtKey": "id",
    "session_SessionForInactiveAtKey": "id",
    "mint_InflationKey": None,
}
KV_OF = {"deposit": "vpn", "provider": "vpn", "node": "vpn", "plan": "vpn", "subscription": "vpn", "session": "vpn",
         "swap": "swap", "mint": "custommint"}


def _sh(cmd, cwd=None, env=None, timeout=3600, log=None):
    t0 = time.time()
    try:
        p = subprocess.run(cmd, shell=True, cwd=cwd, env=env, stdout=subprocess.PIPE, stderr=subprocess.STDOUT, timeout=timeout, text=True)
        rc, out = p.returncode, p.stdout
    except subprocess.TimeoutExpired as e:
        rc, out = 124, "timeout: %s" % e
    if log:
        with open(log, "a") as f:
            f.write("$ %s\n%s\n[exit %d, %.1fs]\n" % (cmd, out[-4000:], rc, time.time() - t0))
    return rc, out


class _Lock:
    def __init__(self, path):
        self.path = path

    def __enter__(self):
        os.makedirs(os.path.dirname(self.path), exist_ok=True)
        self.f = open(self.path, "w")
        fcntl.flock(self.f, fcntl.LOCK_EX)

    def __exit__(self, *a):
        fcntl.flock(self.f, fcntl.LOCK_UN)
        self.f.close()


def _hash(paths):
    h = hashlib.sha256()
    for p in paths:
        h.update(p.encode())
        try:
            h.update(open(p, "rb").read())
        except OSError:
            h.update(b"<missing>")
    return h.hexdigest()


def repo_path(V):
    """the tree the harness is linked against (replace directive of harness/go.mod)"""
    try:
        for line in open(os.path.join(V, "harness", "go.mod")):
            m = re.search(r"sentinel-official/hub/v12\s*=>\s*(\S+)", line)
            if m:
                return m.group(1)
    except OSError:
        pass
    return "/repo"


def _translate(V, log):
    sys.path.insert(0, os.path.join(V, "translator"))
    try:
        import importlib
        import keys2coq
        importlib.reload(keys2coq)
        rc, msg = keys2coq.translate(repo_path(V), os.path.join(V, "coq", "theories", "Gen", "KeysGen.v"))
    finally:
        sys.path.pop(0)
    if log:
        with open(log, "a") as f:
            f.write("keys2coq: rc=%d %s\n" % (rc, msg))
    return rc, msg


def _coq_make(V, target, log):
    coq = os.path.join(V, "coq")
    with _Lock(os.path.join(V, "out", "coq.lock")):
        if not os.path.exists(os.path.join(coq, "Makefile")):
            _sh("coq_makefile -f _CoqProject -o Makefile", cwd=coq, log=log)
        rc, out = _sh("timeout 3000 make -j8 %s" % target, cwd=coq, log=log, timeout=3100)
    fail = None
    if rc != 0:
        m = re.search(r'File "\./([^"]+)", line (\d+)', out)
        fail = ("%s line %s: %s" % (m.group(1), m.group(2), out[m.end():m.end() + 400].strip().replace("\n", " "))) if m else out[-600:]
    return rc == 0, fail


def _build_model(V, log):
    """model/keys/keys_run from Extract.v + driver.ml; cached on the hash of its inputs"""
    mdir = os.path.join(V, "model", "keys")
    th = os.path.join(V, "coq", "theories")
    inputs = [os.path.join(th, "Base", f) for f in ("Prelude.v", "Bytes.v", "Time.v", "Bech32.v")] + \
             [os.path.join(th, "Gen", "KeysGen.v"), os.path.join(mdir, "Extract.v"), os.path.join(mdir, "driver.ml")]
    stamp = os.path.join(mdir, ".built")
    h = _hash(inputs)
    exe = os.path.join(mdir, "keys_run")
    if os.path.exists(exe) and os.path.exists(stamp) and open(stamp).read() == h:
        return True, ""
    with _Lock(os.path.join(V, "out", "model.lock")):
        rc, out = _sh("COQ=%s sh ./build.sh" % os.path.join(V, "coq"), cwd=mdir, log=log, timeout=1200)
    if rc != 0:
        return False, out[-600:]
    open(stamp, "w").write(h)
    return True, ""


def build(V, log):
    """translator binary, Gen/KeysGen.vo, model runner (idempotent)"""
    rc, msg = _translate(V, log)
    if rc != 0:
        return False, "keys2coq: " + msg
    ok, fail = _coq_make(V, "theories/Gen/KeysGen.vo", log)
    if not ok:
        return False, "Gen/KeysGen.v does not compile: %s" % fail
    ok, err = _build_model(V, log)
    if not ok:
        return False, "model runner: " + err
    return True, ""


# ---------------------------------------------------------------------------------------------
# parsing of the case file
# ---------------------------------------------------------------------------------------------
def _unhex(s):
    return b"" if s == "-" else bytes.fromhex(s)


def _kv(rhs):
    d = {}
    for tok in rhs.split():
        k, _, v = tok.partition("=")
        d[k] = v
    return d


def _split(line):
    lhs, _, rhs = line.partition(" =>")
    return lhs.split(), rhs.strip()


MIN_T = -62135596800 * 10**9
MAX_T = 253402300799 * 10**9 + 999999999


def monitor(lines):
    """implementation-side checks on the REAL lines; returns (findings, stats) with findings = list of
    dict(kind, what, detail) each holding a concrete failing pair"""
    findings = []
    seen_kind = set()
    stats = {"keys": 0, "prefix_related_address_pairs": 0, "adjacent_time_pairs": 0, "year_boundary_pairs": 0,
             "listing_checks": 0, "decoder_checks": 0, "order_checks": 0, "address_checks": 0}

    def report(kind, what, detail):
        if kind in seen_kind:
            return
        seen_kind.add(kind)
        findings.append({"kind": kind, "what": what, "detail": detail})

    prefixes, stores = {}, {}
    per_kv = {}      # kv -> {full key -> (family, args)}
    per_mod = {}     # module -> list of (relative key, family, args)
    listings = []    # (module, listing name, bytes, family, leading args)
    addrs = set()
    for line in lines:
        if not line or line[0] == "#":
            continue
        toks, rhs = _split(line)
        tag = toks[0]
        if tag == "P":
            prefixes = {k: _unhex(v) for k, v in _kv(rhs).items()}
        elif tag == "S":
            stores = {k: (None if v == "notfound" else _unhex(v)) for k, v in _kv(rhs).items()}
            for m, v in stores.items():
                if v is None:
                    report("store-prefix", "store prefix of module %s could not be observed" % m, {"module": m})
        elif tag == "K":
            a1, a2, id1, id2, t, h = _unhex(toks[1]), _unhex(toks[2]), int(toks[3]), int(toks[4]), int(toks[5]), _unhex(toks[6])
            if not (1 <= len(a1) <= 255 and 1 <= len(a2) <= 255 and MIN_T <= t <= MAX_T):
                continue
            addrs.add(a1)
            addrs.add(a2)
            args = {"a1": a1, "a2": a2, "id1": id1, "id2": id2, "t": t, "h": h}
            out = _kv(rhs)
            for fam, (mod, spec) in RECORDS.items():
                v = out.get(fam)
                if v is None or v == "panic":
                    report("constructor-panic", "constructor %s panicked / is missing on an in-domain input" % fam, {"line": line[:400]})
                    continue
                key = _unhex(v)
                comp = tuple(args[x] for x in spec)
                stats["keys"] += 1
                full = (stores.get(mod) or b"") + key
                tbl = per_kv.setdefault(KV_OF[mod], {})
                old = tbl.get(full)
                if old is not None and old != (fam, comp):
                    report("injective", "two different records have the same store key",
                           {"store": KV_OF[mod], "key": full.hex(), "record1": _show(old), "record2": _show((fam, comp))})
                tbl[full] = (fam, comp)
                per_mod.setdefault(mod, []).append((key, fam, comp))
            for lname, (fam, n) in LISTINGS.items():
                v = out.get(lname)
                if v is None or v == "panic":
                    continue
                mod, spec = RECORDS[fam]
                listings.append((mod, lname, _unhex(v), fam, tuple(args[x] for x in spec[:n])))
            for dname, (fam, idx) in DECODERS.items():
                v = out.get(dname)
                want = args[RECORDS[fam][1][idx]]
                want_s = str(want) if isinstance(want, int) else (want.hex() if want else "-")
                stats["decoder_checks"] += 1
                if v != want_s:
                    report("decoder", "decoder %s does not return the component the key was built from" % dname,
                           {"decoder": dname, "key": out.get(fam), "returned": v, "expected": want_s})
        elif tag == "O":
            fam, t1, id1, a1, t2, id2, a2 = toks[1], int(toks[2]), int(toks[3]), _unhex(toks[4]), int(toks[5]), int(toks[6]), _unhex(toks[7])
            tie = QUEUE_TIE[fam]
            if tie == "addr" and not (1 <= len(a1) <= 255 and 1 <= len(a2) <= 255):
                continue
            if tie == "id":
                x1, x2 = (t1, id1), (t2, id2)
            elif tie == "addr":
                x1, x2 = (t1, len(a1), a1), (t2, len(a2), a2)
            else:
                x1, x2 = (t1,), (t2,)
            want = (x1 > x2) - (x1 < x2)
            stats["order_checks"] += 1
            if abs(t1 - t2) == 1:
                stats["adjacent_time_pairs"] += 1
            if t1 != t2 and abs(t1 - t2) <= 2 * 10**9 and _year(t1) != _year(t2):
                stats["year_boundary_pairs"] += 1
            if rhs != str(want):
                report("order", "byte order of two %s keys differs from (timestamp, then %s) order" % (fam, tie or "nothing"),
                       {"family": fam, "t1": t1, "id1": id1, "a1": a1.hex(), "t2": t2, "id2": id2, "a2": a2.hex(),
                        "bytes_compare": rhs, "expected": want})
        elif tag == "B":
            role, a = toks[1], _unhex(toks[2])
            if not 1 <= len(a) <= 255:
                continue
            out = _kv(rhs)
            stats["address_checks"] += 1
            for r in ("acc", "node", "prov"):
                want = "ok:" + a.hex() if r == role else "err"
                if out.get(r) != want:
                    what = "address text does not parse back to the same bytes" if r == role else \
                        "address text of role %s is accepted by the parser of role %s" % (role, r)
                    report("address-" + ("roundtrip" if r == role else "role"), what,
                           {"role": role, "bytes": a.hex(), "text": _unhex(out.get("text", "-")).decode("latin1"), "parsed_as": r, "result": out.get(r)})

    # fixed keys take part in the prefix checks
    for name, mod in FIXED.items():
        if name in prefixes:
            key = prefixes[name]
            full = (stores.get(mod) or b"") + key
            per_kv.setdefault(KV_OF[mod], {})[full] = (name, ())
            per_mod.setdefault(mod, []).append((key, name, ()))

    # no key is a prefix of the key of a different record (adjacent in sorted order suffices)
    for kv, tbl in per_kv.items():
        ks = sorted(tbl)
        for x, y in zip(ks, ks[1:]):
            if y.startswith(x):
                report("prefix", "the store key of one record is a prefix of the store key of a different record",
                       {"store": kv, "key1": x.hex(), "record1": _show(tbl[x]), "key2": y.hex(), "record2": _show(tbl[y])})
                break

    # listing prefixes: the keys they match are exactly the keys of the family with those leading components
    for mod, recs in per_mod.items():
        recs_u = sorted(set(recs))
        keys = [r[0] for r in recs_u]
        count = {}
        for key, fam, comp in recs_u:
            for n in range(0, len(comp) + 1):
                count[(fam, comp[:n])] = count.get((fam, comp[:n]), 0) + 1
        per_mod[mod] = (recs_u, keys, count)
    done = set()
    for mod, lname, lb, fam, lead in listings:
        if (lname, lb) in done:
            continue
        done.add((lname, lb))
        recs_u, keys, count = per_mod[mod]
        lo = bisect.bisect_left(keys, lb)
        hi = lo
        stats["listing_checks"] += 1
        while hi < len(keys) and keys[hi].startswith(lb):
            k, f, comp = recs_u[hi]
            if f != fam or comp[:len(lead)] != lead:
                report("listing", "listing prefix %s matches a key it must not match" % lname,
                       {"listing": lname, "listing_components": _showc(lead), "prefix": lb.hex(), "matched_key": k.hex(), "matched_record": _show((f, comp))})
                break
            hi += 1
        else:
            pass
        if hi - lo != count.get((fam, lead), 0) and ("listing" not in seen_kind):
            missing = [r for r in recs_u if r[1] == fam and r[2][:len(lead)] == lead and not r[0].startswith(lb)]
            if missing:
                report("listing", "listing prefix %s misses a key of its own owner" % lname,
                       {"listing": lname, "listing_components": _showc(lead), "prefix": lb.hex(), "missed_key": missing[0][0].hex(), "missed_record": _show(missing[0][1:])})
    for pname, fams in FAMILY_PREFIX.items():
        if pname not in prefixes:
            report("prefix-constant", "prefix constant %s is missing" % pname, {})
            continue
        mod = next(RECORDS[f][0] for f in fams)
        if mod not in per_mod or not isinstance(per_mod[mod], tuple):
            continue
        recs_u, keys, count = per_mod[mod]
        lb = prefixes[pname]
        stats["listing_checks"] += 1
        for k, f, comp in recs_u:
            if k.startswith(lb) != (f in fams):
                report("family-prefix", "family prefix %s %s" % (pname, "matches a key of another family" if k.startswith(lb) else "misses a key of its family"),
                       {"prefix_constant": pname, "prefix": lb.hex(), "key": k.hex(), "record": _show((f, comp))})
                break

    al = sorted(addrs)
    stats["prefix_related_address_pairs"] = sum(1 for x, y in zip(al, al[1:]) if y.startswith(x))
    return findings, stats


def _year(t):
    # proleptic Gregorian year of an instant (nanoseconds since the Unix epoch)
    days = (t // 10**9) // 86400
    z = days + 719468
    era = z // 146097
    doe = z % 146097
    yoe = (doe - doe // 1460 + doe // 36524 - doe // 146096) // 365
    doy = doe - (365 * yoe + yoe // 4 - yoe // 100)
    mp = (5 * doy + 2) // 153
    m = mp + 3 if mp < 10 else mp - 9
    return yoe + era * 400 + (1 if m <= 2 else 0)


def _showc(comp):
    return [c if isinstance(c, int) else c.hex() for c in comp]


def _show(rec):
    return {"family": rec[0], "components": _showc(rec[1])}


# ---------------------------------------------------------------------------------------------
def _run_model(V, real, out, log):
    """keys_run over the case file, in parallel chunks"""
    lines = open(real).read().split("\n")
    if lines and lines[-1] == "":
        lines.pop()
    n = max(1, min(WORKERS, len(lines) // 500))
    procs = []
    exe = os.path.join(V, "model", "keys", "keys_run")
    for i in range(n):   # round-robin split: the expensive line kinds are spread over all workers
        part = "%s.part%d" % (real, i)
        open(part, "w").write("\n".join(lines[i::n]) + "\n")
        procs.append((part, subprocess.Popen([exe, part], stdout=open(part + ".model", "w"), stderr=subprocess.PIPE)))
    ok = True
    err = ""
    outs = []
    for part, p in procs:
        _, e = p.communicate()
        if p.returncode != 0:
            ok = False
            err += e.decode("utf8", "replace")[-300:]
        o = open(part + ".model").read().split("\n")
        if o and o[-1] == "":
            o.pop()
        outs.append(o)
        os.remove(part)
        os.remove(part + ".model")
    merged = []
    for j in range(len(lines)):
        o = outs[j % n]
        k = j // n
        merged.append(o[k] if k < len(o) else "<missing model line>")
    open(out, "w").write("\n".join(merged) + "\n")
    return ok, err


def _replay(V, tag, obj):
    d = os.path.join(V, "out", "replay")
    os.makedirs(d, exist_ok=True)
    p = os.path.join(d, "C17-%s.json" % tag)
    json.dump(obj, open(p, "w"), indent=1)
    return p


def run(tier, seed, V, log, coq=True):
    t0 = time.time()
    findings = []
    stats = {}
    samples = []
    work = os.path.join(V, "out", "cache", "c17")
    os.makedirs(work, exist_ok=True)
    n = CASES.get(tier, CASES["quick"])

    # 1-2: translator, KeysGen.vo, model runner
    trans_rc, msg = _translate(V, log)
    model_ok = True
    if trans_rc != 0:
        model_ok = False
        findings.append({"what": "keys2coq cannot translate the current key definitions: %s" % msg[:300], "concrete": False,
                         "key": "C17:translator", "replay": _replay(V, "translator", {"broken": "translator keys2coq (fail closed)", "detail": msg})})
    else:
        ok, fail = _coq_make(V, "theories/Gen/KeysGen.vo", log)
        if not ok:
            model_ok = False
            findings.append({"what": "the regenerated Gen/KeysGen.v does not compile: %s" % (fail or "")[:300], "concrete": False,
                             "key": "C17:keysgen", "replay": _replay(V, "keysgen", {"broken": "Gen/KeysGen.v", "detail": fail})})
        else:
            ok, err = _build_model(V, log)
            if not ok:
                model_ok = False
                findings.append({"what": "the key model runner does not build: %s" % err[:300], "concrete": False,
                                 "key": "C17:model-build", "replay": _replay(V, "model-build", {"broken": "model/keys", "detail": err})})
    stats["t_translate_build_s"] = int(time.time() - t0)

    # 3: the real code
    real = os.path.join(work, "keys-%s-%d.real" % (tier, seed))
    t1 = time.time()
    rc, out = _sh("%s keys -seed %d -n %d -out %s" % (os.path.join(V, "harness", "bin", "harness"), seed, n, real), log=log, env=GOENV)
    if rc != 0:
        findings.append({"what": "harness keys failed: %s" % out[-300:], "concrete": False, "key": "C17:harness",
                         "replay": _replay(V, "harness", {"broken": "harness keys", "detail": out[-2000:]})})
        return _result(findings, 0, 0, stats, samples, "harness keys failed", t0)
    lines = open(real).read().split("\n")
    cases = [l for l in lines if l and l[0] != "#"]
    for l in lines:
        if l.startswith("# alias-probe"):
            m = re.search(r"overwritten=(\d+)", l)
            stats["alias_probe_overwritten"] = int(m.group(1)) if m else -1
    stats["t_harness_s"] = int(time.time() - t1)
    for tag in "KDOBT":
        stats["cases_" + tag] = sum(1 for l in cases if l.startswith(tag + " "))

    # 4: implementation-side monitor
    t1 = time.time()
    mf, mstats = monitor(cases)
    stats.update(mstats)
    stats["t_monitor_s"] = int(time.time() - t1)
    for f in mf:
        rp = _replay(V, "monitor-" + f["kind"], {"property": "C17", "violated": f["what"], "failing_input": f["detail"],
                                                 "how": "harness keys -seed %d -n %d; monitor of tools/ext_c17.py on the real lines" % (seed, n)})
        findings.append({"what": f["what"], "concrete": True, "key": "C17:monitor:" + f["kind"], "replay": rp})

    # 5: correspondence with the model
    if model_ok:
        t1 = time.time()
        modelf = real[:-5] + ".model"
        ok, err = _run_model(V, real, modelf, log)
        stats["t_model_s"] = int(time.time() - t1)
        mlines = open(modelf).read().split("\n")
        diffs = [(i, a, b) for i, (a, b) in enumerate(zip(lines, mlines)) if a != b]
        if not ok or len(lines) != len(mlines):
            findings.append({"what": "the key model runner failed: %s" % err[:200], "concrete": False, "key": "C17:model-run",
                             "replay": _replay(V, "model-run", {"broken": "model runner", "detail": err})})
        stats["correspondence_diffs"] = len(diffs)
        if diffs:
            i, a, b = diffs[0]
            what = _first_difference(a, b)
            findings.append({"what": "correspondence: the real code and the model generated from keys.go differ on %d of %d cases; first: %s" % (len(diffs), len(cases), what[:300]),
                             "concrete": False, "key": "C17:correspondence",
                             "replay": _replay(V, "correspondence", {"broken": "correspondence real vs model", "line": i + 1, "real": a[:4000], "model": b[:4000],
                                                                     "difference": what, "reproduce": "harness keys -seed %d -n %d" % (seed, n)})})

    # 6: proofs over the regenerated definitions (skipped when the translator failed: Gen/KeysGen.v is stale)
    if coq and trans_rc == 0:
        t1 = time.time()
        ok, fail = _coq_make(V, "theories/Props/C17.vo", log)
        stats["t_coq_s"] = int(time.time() - t1)
        if not ok:
            findings.append({"what": "proof cone of C17 no longer checks: %s" % (fail or "")[:300], "concrete": False, "key": "C17:proof",
                             "replay": _replay(V, "proof", {"broken": "proof obligation", "theorem_or_file": fail})})

    findings.sort(key=lambda f: not f["concrete"])
    for tag in "KOBT":
        samples += [l[:300] for l in cases if l.startswith(tag + " ")][:1]
    nontrivial = stats.get("prefix_related_address_pairs", 0) + stats.get("adjacent_time_pairs", 0) + stats.get("year_boundary_pairs", 0)
    summary = "%d key/address cases (%d keys checked pairwise, %d prefix-related address pairs, %d timestamp pairs 1 ns apart, %d across a year boundary), %d differences to the model" % (
        len(cases), stats.get("keys", 0), stats.get("prefix_related_address_pairs", 0), stats.get("adjacent_time_pairs", 0),
        stats.get("year_boundary_pairs", 0), stats.get("correspondence_diffs", 0))
    return _result(findings, len(cases), nontrivial, stats, samples, summary, t0)


def _first_difference(a, b):
    la, ra = a.partition(" =>")[0], a.partition(" =>")[2].split()
    rb = b.partition(" =>")[2].split()
    for x, y in zip(ra, rb):
        if x != y:
            return "input `%s`: real %s, model %s" % (la[:200], x[:200], y[:200])
    return "input `%s`: real `%s` model `%s`" % (la[:200], " ".join(ra)[:200], " ".join(rb)[:200])


def _result(findings, cases, nontrivial, stats, samples, summary, t0):
    stats["t_total_s"] = int(time.time() - t0)
    return {"findings": findings, "histories": cases, "ops": cases, "nontrivial": nontrivial, "stats": stats,
            "samples": samples, "summary": summary}


if __name__ == "__main__":
    V = os.path.dirname(os.path.dirname(os.path.abspath(__file__)))
    tier = sys.argv[1] if len(sys.argv) > 1 else "quick"
    seed = int(sys.argv[2]) if len(sys.argv) > 2 else 1
    log = os.path.join(V, "out", "ext-c17.log")
    os.makedirs(os.path.dirname(log), exist_ok=True)
    open(log, "w").write("")
    r = run(tier, seed, V, log)
    print(json.dumps(r, indent=1)[:6000])
    sys.exit(1 if r["findings"] else 0)
