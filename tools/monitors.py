#!/usr/bin/env python3
"""Property monitors over an observation stream (implementation side).

Written from the property texts, independent of the Coq model: they are the
failing-input search.  Each monitor looks at (previous state, operation, new
state, events) of one history and yields violations (property id, history, op
index, description).  The same code can be pointed at the model's stream.
"""
import json

TZERO = -62135596800000000000
GB = 10 ** 9
P18 = 10 ** 18
HOUR = 3600 * 10 ** 9


def I(x):
    return int(x)


def coins_dict(m):
    return {int(k): int(v) for k, v in m.items() if k != "_a"}


class Hist:
    """monitors for one history"""

    def __init__(self, h, cfg):
        self.h = h
        self.cfg = cfg            # dict: deposit, feecoll, distr, swap (hex)
        self.prev = None          # previous state
        self.viol = []            # (prop, h, i, what)
        self.ledger = {}          # sub id -> dict(deposit, denom, paid, refunded)
        self.seen_sub = set()
        self.seen_sess = set()
        self.seen_plan = set()
        self.sess_sub = {}        # session id -> subscription id (for C18)
        self.nontrivial = {}      # property -> count of non-trivial events in this history
        self.block_time = None

    def v(self, prop, i, what):
        self.viol.append({"property": prop, "h": self.h, "i": i, "what": what})

    def nt(self, prop, n=1):
        self.nontrivial[prop] = self.nontrivial.get(prop, 0) + n

    # ---------- helpers on a state ----------
    @staticmethod
    def subs(st):
        return {I(s["id"]): s for s in st["sub"]}

    @staticmethod
    def sessions(st):
        return {I(s["id"]): s for s in st["sess"]}

    @staticmethod
    def nodes(st):
        return {n["a"]: n for n in st["node"]}

    @staticmethod
    def plans(st):
        return {I(p["id"]): p for p in st["plan"]}

    @staticmethod
    def allocs(st):
        return {(I(a["id"]), a["a"]): a for a in st["alloc"]}

    @staticmethod
    def payouts(st):
        return {I(p["id"]): p for p in st["payout"]}

    # ---------- the step ----------
    def step(self, o, toks):
        i = o["i"]
        op = o["op"]
        res = o["res"]
        st = o.get("st")
        ev = o.get("ev", [])
        prev = self.prev
        kind = toks[1] if op == "T" else None
        self._toks = toks

        if res == "halt":
            err = o.get("err", "")
            self.v("C03", i, "block hook panicked: %s" % err[:200])
            if "insufficient deposit" in err or "deposit not found" in err or ("deposit for address" in err and "does not exist" in err):
                # a payout, settlement or refund the escrow record of its subscriber does not cover: the record is no longer the sum of
                # the unsettled parts of that account's subscriptions (somebody was charged beyond the deposit before this step)
                self.v("C02", i, "a block hook could not take a payout/settlement/refund out of the subscriber's escrow record: %s" % err[:160])
            return
        if res == "rej":
            if o.get("same") is False:
                self.v("C07", i, "rejected transaction %s changed the state" % kind)
                self.v("C18", i, "rejected transaction %s changed the state" % kind)
            if prev is not None:
                self.rejected(i, kind, toks, prev)
            return
        if st is None:
            return
        if op == "B":
            self.block_time = I(toks[1])
        now = I(st["now"])

        self.m_c01(i, op, kind, toks, prev, st, ev)
        self.m_c02(i, op, kind, prev, st, ev)
        self.m_c04(i, op, kind, toks, prev, st, ev, now)
        self.m_c05(i, op, kind, toks, prev, st, ev)
        self.m_c06(i, op, kind, toks, prev, st, ev)
        if op == "T" and prev is not None:
            self.m_c07(i, kind, toks, prev, st)
            self.m_c08(i, kind, toks, prev, st)
        self.m_c08_inv(i, st)
        self.m_c09(i, st)
        self.m_c11(i, op, kind, toks, prev, st)
        self.m_c14(i, op, kind, toks, prev, st)
        self.m_c15(i, op, toks, prev, st)
        self.m_c18(i, op, kind, prev, st, ev)
        self.m_c03_params(i, op, st)
        self.prev = st

    # ---------- C03: the stored parameter sets always satisfy the single-parameter conditions the block hooks rely on ----------
    def m_c03_params(self, i, op, st):
        if op not in ("V", "G"):
            return
        par = st["par"]
        one = 10 ** 18
        bad = []
        for k in ("node_share", "prov_share"):
            if not (0 <= I(par[k]) <= one):
                bad.append("%s = %s/10^18 is outside [0, 1]" % (k, par[k]))
        for k in ("sub_delay", "sess_delay", "node_active", "max_sub_gb", "min_sub_gb", "max_sub_hr", "min_sub_hr"):
            if k in par and I(par[k]) <= 0:
                bad.append("%s = %s is not positive" % (k, par[k]))
        for k in ("node_deposit", "prov_deposit"):
            if k in par and par[k] and I(par[k][1]) < 0:
                bad.append("%s is negative" % k)
        for k in ("max_gb", "min_gb", "max_hr", "min_hr"):
            for c in par.get(k, []):
                if I(c[1]) <= 0:
                    bad.append("%s holds a non-positive amount" % k)
        for b in bad:
            self.v("C03", i, "a governance proposal left an invalid parameter in the store: %s" % b)
        if op == "V":
            self.nt("C03.gov")

    # ---------- C01 ----------
    def m_c01(self, i, op, kind, toks, prev, st, ev):
        dep_addr = self.cfg["deposit"]
        esc = coins_dict(st["bal"].get(dep_addr, {}))
        tot = {}
        for a, m in st["dep"].items():
            for d, v in coins_dict(m).items():
                tot[d] = tot.get(d, 0) + v
        for d in set(esc) | set(tot):
            if esc.get(d, 0) != tot.get(d, 0):
                self.v("C01", i, "escrow balance %d of denom %d differs from the sum of deposit records %d" % (esc.get(d, 0), d, tot.get(d, 0)))
        # conservation: sum of balances = supply
        sums = {}
        for a, m in st["bal"].items():
            for d, v in coins_dict(m).items():
                sums[d] = sums.get(d, 0) + v
        sup = coins_dict(st["supply"])
        for d in set(sums) | set(sup):
            if sums.get(d, 0) != sup.get(d, 0):
                self.v("C01", i, "sum of balances %d differs from supply %d (denom %d)" % (sums.get(d, 0), sup.get(d, 0), d))
        if prev is None:
            return
        psup = coins_dict(prev["supply"])
        if kind != "swap":
            if psup != sup:
                self.v("C01", i, "supply changed from %s to %s in a step that is not a swap" % (psup, sup))
        # who may gain: escrow, fee collector, community pool, and the addresses named by the step's events / message
        named = {self.cfg["deposit"], self.cfg["feecoll"], self.cfg["distr"]}
        for name, vals in ev:
            for x in vals:
                if "t" in x:
                    named.add(x["t"].split(":", 1)[1])
        if kind == "swap":
            named.add(toks[4].split(":", 1)[1])
            named.add(self.cfg["swap"])
        moved = False
        for a in set(st["bal"]) | set(prev["bal"]):
            na, pa = coins_dict(st["bal"].get(a, {})), coins_dict(prev["bal"].get(a, {}))
            for d in set(na) | set(pa):
                if na.get(d, 0) != pa.get(d, 0):
                    moved = True
                if na.get(d, 0) > pa.get(d, 0) and a not in named:
                    self.v("C01", i, "account %s gained %d of denom %d without being a party of the step" % (a[:16], na.get(d, 0) - pa.get(d, 0), d))
        if moved and op in ("B", "E"):
            self.nt("C01")

    # ---------- C02 ----------
    def unsettled(self, st, s):
        """unsettled part of a node subscription (denom, amount)"""
        d, dep = int(s["dep"][0]), I(s["dep"][1])
        gb, hr = I(s["gb"]), I(s["hr"])
        if gb != 0:
            al = self.allocs(st).get((I(s["id"]), s["a"]))
            if al is None:
                return d, None
            price = dep // gb
            return d, dep - -((-price * I(al["u"])) // GB)
        po = self.payouts(st).get(I(s["id"]))
        if po is None:
            return d, None
        return d, I(po["price"][1]) * I(po["h"])

    def m_c02(self, i, op, kind, prev, st, ev):
        subs = self.subs(st)
        # bookkeeping of payments per subscription (events of this step)
        for name, vals in ev:
            if name == "subscription.EventPayForSession":
                sid = I(vals[5]["z"])
                amt = sum(I(c[1]) for c in vals[2]["c"]) + sum(I(c[1]) for c in vals[3]["c"])
                self.ledger.setdefault(sid, {"paid": 0, "refunded": 0})["paid"] += amt
            elif name == "subscription.EventPayForPayout":
                sid = I(vals[4]["z"])
                amt = sum(I(c[1]) for c in vals[2]["c"]) + sum(I(c[1]) for c in vals[3]["c"])
                self.ledger.setdefault(sid, {"paid": 0, "refunded": 0})["paid"] += amt
            elif name == "subscription.EventRefund":
                sid = I(vals[2]["z"])
                self.ledger.setdefault(sid, {"paid": 0, "refunded": 0})["refunded"] += sum(I(c[1]) for c in vals[1]["c"])
        for sid, s in subs.items():
            if s["k"] == "node":
                L = self.ledger.setdefault(sid, {"paid": 0, "refunded": 0})
                L["deposit"] = I(s["dep"][1])
                if L["paid"] > L["deposit"]:
                    self.v("C02", i, "subscription %d charged %d beyond its deposit %d" % (sid, L["paid"], L["deposit"]))
        if prev is not None:
            for sid, s in self.subs(prev).items():
                if sid not in subs and s["k"] == "node":
                    L = self.ledger.get(sid, {"paid": 0, "refunded": 0})
                    dep = I(s["dep"][1])
                    if L["paid"] + L["refunded"] != dep:
                        self.v("C02", i, "subscription %d removed: paid %d + refunded %d != deposit %d" % (sid, L["paid"], L["refunded"], dep))
                    self.nt("C02")
        # ledger decomposition at block boundaries (and genesis)
        if op in ("E", "G"):
            want = {}
            for sid, s in subs.items():
                if s["k"] != "node":
                    continue
                d, u = self.unsettled(st, s)
                if u is None:
                    self.v("C02", i, "subscription %d has no allocation/payout record" % sid)
                    continue
                key = (s["a"], d)
                want[key] = want.get(key, 0) + u
            have = {}
            for a, m in st["dep"].items():
                for d, v in coins_dict(m).items():
                    have[(a, d)] = v
            for key in set(want) | set(have):
                if want.get(key, 0) != have.get(key, 0):
                    self.v("C02", i, "deposit of %s denom %d is %d but the unsettled parts of its subscriptions add up to %d" % (key[0][:16], key[1], have.get(key, 0), want.get(key, 0)))

    # ---------- C04 ----------
    def m_c04(self, i, op, kind, toks, prev, st, ev, now):
        subs, sess, nodes = self.subs(st), self.sessions(st), self.nodes(st)
        if op == "E":
            for a, n in nodes.items():
                if n["st"] == 1 and I(n["iat"]) <= now:
                    self.v("C04", i, "node %s still active with deadline %s <= block time" % (a[:16], n["iat"]))
            for sid, s in subs.items():
                if I(s["iat"]) <= now:
                    self.v("C04", i, "subscription %d remains with deadline %s <= block time %d" % (sid, s["iat"], now))
            for sid, s in sess.items():
                if I(s["iat"]) <= now:
                    self.v("C04", i, "session %d remains with deadline %s <= block time %d" % (sid, s["iat"], now))
        if prev is None:
            for sid in subs:
                self.seen_sub.add(sid)
            for sid in sess:
                self.seen_sess.add(sid)
            return
        psubs, psess, pnodes = self.subs(prev), self.sessions(prev), self.nodes(prev)
        ppar = prev["par"]
        sub_delay, sess_delay = I(ppar["sub_delay"]), I(ppar["sess_delay"])
        if op == "V":
            return
        went_inactive_subs = set()
        for sid, s in subs.items():
            p = psubs.get(sid)
            if p is None:
                if sid in self.seen_sub:
                    self.v("C04", i, "subscription %d reappeared after removal" % sid)
                self.seen_sub.add(sid)
                if s["st"] != 1:
                    self.v("C04", i, "subscription %d created with status %d" % (sid, s["st"]))
                continue
            if (p["st"], s["st"]) not in ((1, 1), (1, 2), (2, 2)):
                self.v("C04", i, "subscription %d moved from status %d to %d" % (sid, p["st"], s["st"]))
            if p["st"] == 1 and s["st"] == 2:
                went_inactive_subs.add(sid)
                cause_owner = kind == "sub_cancel" and I(toks[3]) == sid
                cause_dead = op == "E" and I(p["iat"]) <= now
                if not (cause_owner or cause_dead):
                    self.v("C04", i, "subscription %d demoted before its deadline %s (now %d) without its owner's request" % (sid, p["iat"], now))
                if I(s["iat"]) != now + sub_delay:
                    self.v("C04", i, "subscription %d pending until %s, expected now+delay = %d" % (sid, s["iat"], now + sub_delay))
                self.nt("C04")
            if p["st"] == s["st"] and p["iat"] != s["iat"]:
                self.v("C04", i, "subscription %d deadline changed without a status change" % sid)
        for sid, p in psubs.items():
            if sid not in subs:
                went_inactive_subs.add(sid)
                if p["st"] != 2:
                    self.v("C04", i, "subscription %d removed while in status %d" % (sid, p["st"]))
                if not (op == "E" and I(p["iat"]) <= now):
                    self.v("C04", i, "subscription %d removed before its deadline %s (now %d)" % (sid, p["iat"], now))
                self.nt("C04")
        for sid, s in sess.items():
            p = psess.get(sid)
            if p is None:
                if sid in self.seen_sess:
                    self.v("C04", i, "session %d reappeared after removal" % sid)
                self.seen_sess.add(sid)
                continue
            if (p["st"], s["st"]) not in ((1, 1), (1, 2), (2, 2)):
                self.v("C04", i, "session %d moved from status %d to %d" % (sid, p["st"], s["st"]))
            if p["st"] == 1 and s["st"] == 2:
                cause_owner = kind == "sess_end" and I(toks[3]) == sid
                cause_dead = op == "E" and I(p["iat"]) <= now
                cause_sub = I(p["sub"]) in went_inactive_subs
                if not (cause_owner or cause_dead or cause_sub):
                    self.v("C04", i, "session %d demoted before its deadline without cause" % sid)
                if I(s["iat"]) != now + sess_delay:
                    self.v("C04", i, "session %d pending until %s, expected now+delay = %d" % (sid, s["iat"], now + sess_delay))
            if p["st"] == 2 and s["st"] == 2 and p["iat"] != s["iat"]:
                self.v("C04", i, "pending session %d deadline moved" % sid)
        settled = {}
        for name, vals in ev:
            if name == "session.EventUpdateStatus" and vals[0]["s"] == 3:
                sid = I(vals[3]["z"])
                settled[sid] = settled.get(sid, 0) + 1
        for sid, p in psess.items():
            if sid not in sess:
                if p["st"] != 2:
                    self.v("C04", i, "session %d removed while in status %d" % (sid, p["st"]))
                if not (op == "E" and I(p["iat"]) <= now):
                    self.v("C04", i, "session %d removed before its deadline %s (now %d)" % (sid, p["iat"], now))
                if settled.get(sid, 0) != 1:
                    self.v("C04", i, "session %d removed but settled %d times" % (sid, settled.get(sid, 0)))
                self.nt("C04")
        for sid, c in settled.items():
            if c > 1 or sid not in psess:
                self.v("C04", i, "session %d settled %d times / without being live" % (sid, c))
        for a, n in nodes.items():
            p = pnodes.get(a)
            if p is None:
                continue
            if p["st"] == 1 and n["st"] == 3:
                own = kind == "node_update_status" and toks[2].lower().split(":", 1)[1] == a
                dead = op == "E" and I(p["iat"]) <= now
                if not (own or dead):
                    self.v("C04", i, "node %s became inactive without its own request before its deadline" % a[:16])
            if n["st"] == 1 and (p["st"] != 1 or p["iat"] != n["iat"]):
                if I(n["iat"]) != now + I(ppar["node_active"]):
                    self.v("C04", i, "node %s lease ends %s, expected now + active_duration" % (a[:16], n["iat"]))
        # payouts: only in BeginBlock, at most one per payout per block, never before due
        paid = {}
        for name, vals in ev:
            if name == "subscription.EventPayForPayout":
                pid = I(vals[4]["z"])
                paid[pid] = paid.get(pid, 0) + 1
                if op != "B":
                    self.v("C04", i, "hourly payout outside BeginBlock")
                pp = self.payouts(prev).get(pid)
                if pp is None or I(pp["nx"]) > now or I(pp["nx"]) == TZERO:
                    self.v("C04", i, "payout %d paid before it is due" % pid)
                elif psubs.get(pid, {}).get("st") != 1:
                    self.v("C04", i, "payout %d paid although its subscription is not active" % pid)
                else:
                    np_ = self.payouts(st).get(pid)
                    if np_ is None or I(np_["h"]) != I(pp["h"]) - 1:
                        self.v("C04", i, "payout %d hours not decremented by one" % pid)
                    elif I(np_["h"]) > 0 and I(np_["nx"]) != I(pp["nx"]) + HOUR:
                        self.v("C04", i, "payout %d next_at not advanced by one hour" % pid)
        for pid, c in paid.items():
            if c > 1:
                self.v("C04", i, "payout %d made %d times in one block" % (pid, c))

    # ---------- C05 ----------
    def fee_ok(self, fee, pay, share):
        # fee is the half-even rounding of share*pay: within half a unit
        return abs(fee * P18 - share * pay) * 2 <= P18 and 0 <= fee <= pay

    def m_c05(self, i, op, kind, toks, prev, st, ev):
        if prev is None:
            return
        par = prev["par"]
        settled_now = set()
        for name, vals in ev:
            if name == "subscription.EventPayForPlan":
                pay = sum(I(c[1]) for c in vals[1]["c"])
                fee = sum(I(c[1]) for c in vals[3]["c"])
                pid = I(vals[4]["z"])
                pl = self.plans(prev).get(pid)
                dn = int(toks[4])
                price = dict((int(c[0]), I(c[1])) for c in pl["prices"]).get(dn) if pl else None
                if price is None or pay + fee != price:
                    self.v("C05", i, "plan subscription paid %d + fee %d, plan price %s" % (pay, fee, price))
                elif not self.fee_ok(fee, price, I(par["prov_share"])):
                    self.v("C05", i, "plan payment %d: fee %d is not within one unit of share" % (price, fee))
                self.nt("C05")
            elif name in ("subscription.EventPayForPayout", "subscription.EventPayForSession"):
                pay = sum(I(c[1]) for c in vals[2]["c"])
                fee = sum(I(c[1]) for c in vals[3]["c"])
                if not self.fee_ok(fee, pay + fee, I(par["node_share"])):
                    self.v("C05", i, "%s: payment %d fee %d not within one unit of share" % (name, pay + fee, fee))
                if name.endswith("Payout"):
                    po = self.payouts(prev).get(I(vals[4]["z"]))
                    if po and pay + fee != I(po["price"][1]):
                        self.v("C05", i, "hourly payout %d differs from the hourly price %s" % (pay + fee, po["price"][1]))
                else:
                    # metered usage: the cumulative charge of a per-gigabyte subscription is the per-gigabyte price on the
                    # cumulative settled bytes, rounded up once
                    sid = I(vals[5]["z"])
                    if not hasattr(self, "metered_paid"):
                        self.metered_paid = {}
                    self.metered_paid[sid] = self.metered_paid.get(sid, 0) + pay + fee
                    settled_now.add(sid)
                self.nt("C05")
        # metered usage (all settlements of this step applied): the cumulative charge of a per-gigabyte subscription is the
        # per-gigabyte price on the cumulative settled bytes, rounded up once
        for sid in sorted(settled_now):
            sb = self.subs(st).get(sid)
            if sb and sb["k"] == "node" and I(sb["gb"]) != 0:
                al = self.allocs(st).get((sid, sb["a"]))
                if al is not None:
                    price = I(sb["dep"][1]) // I(sb["gb"])
                    want = -((-price * I(al["u"])) // GB)
                    if self.metered_paid[sid] != want:
                        self.v("C05", i, "subscription %d: cumulative metered charge %d, but price %d/GB on %d settled bytes rounds up to %d" %
                               (sid, self.metered_paid[sid], price, I(al["u"]), want))
        if kind == "node_subscribe":
            node = self.nodes(prev).get(toks[3].lower().split(":", 1)[1])
            gb, hr, dn = I(toks[4]), I(toks[5]), int(toks[6])
            quote = None
            if node:
                quote = dict((int(c[0]), I(c[1])) for c in (node["gb"] if gb else node["hr"])).get(dn)
            addv = [vals for name, vals in ev if name == "deposit.EventAdd"]
            escrowed = sum(I(c[1]) for v_ in addv for c in v_[1]["c"] if int(c[0]) == dn)
            if quote is None:
                self.v("C05", i, "node subscription accepted in a denomination the node does not quote")
            elif escrowed != quote * (gb if gb else hr):
                self.v("C05", i, "node subscription escrowed %d, quoted price %d x quantity %d" % (escrowed, quote, gb if gb else hr))
            if hr and quote is not None:
                # the hourly payout of the new subscription is booked at exactly the quoted hourly price (what each later
                # payout pays, and what the refund of the unpaid hours is computed from)
                old = set(self.payouts(prev))
                for pid_, po in self.payouts(st).items():
                    if pid_ not in old and (int(po["price"][0]) != dn or I(po["price"][1]) != quote):
                        self.v("C05", i, "hourly subscription %d booked a payout price of %s (denom %s), quoted hourly price %d (denom %d)" %
                               (pid_, po["price"][1], po["price"][0], quote, dn))
            sender = toks[2].lower().split(":", 1)[1]
            pb = coins_dict(prev["bal"].get(sender, {})).get(dn, 0)
            nb = coins_dict(st["bal"].get(sender, {})).get(dn, 0)
            if pb - nb != escrowed and sender != self.cfg["deposit"]:
                self.v("C05", i, "subscriber paid %d but %d was escrowed" % (pb - nb, escrowed))
        # metered usage: cumulative charge = ceil(price * used / 10^9), from the deposit records (see C02 ledger)

    # ---------- C06 ----------
    def m_c06(self, i, op, kind, toks, prev, st, ev):
        allocs = self.allocs(st)
        subs = self.subs(st)
        plans = self.plans(st)
        tot = {}
        for (sid, a), al in allocs.items():
            g, u = I(al["g"]), I(al["u"])
            if not (0 <= u <= g):
                self.v("C06", i, "allocation %d/%s: used %d granted %d" % (sid, a[:12], u, g))
            tot[sid] = tot.get(sid, 0) + g
        for sid, t in tot.items():
            s = subs.get(sid)
            if s is None:
                self.v("C06", i, "allocation of a removed subscription %d" % sid)
                continue
            if s["k"] == "plan":
                pl = plans.get(I(s["plan"]))
                bought = I(pl["gb"]) * GB if pl else None
            else:
                bought = I(s["gb"]) * GB
            if bought is not None and t != bought:
                self.v("C06", i, "subscription %d: granted bytes add up to %d, bought %d" % (sid, t, bought))
        if prev is None:
            return
        pallocs = self.allocs(prev)
        settled_for = {}
        for name, vals in ev:
            if name == "session.EventUpdateStatus" and vals[0]["s"] == 3:
                sid = I(vals[3]["z"])
                ps = self.sessions(prev).get(sid)
                if ps:
                    key = (I(ps["sub"]), ps["a"])
                    settled_for[key] = settled_for.get(key, 0) + I(ps["up"]) + I(ps["down"])
        for key, al in allocs.items():
            p = pallocs.get(key)
            if p is None:
                continue
            du = I(al["u"]) - I(p["u"])
            if du < 0:
                self.v("C06", i, "allocation %s used decreased" % (key,))
            if du > 0:
                if du > settled_for.get(key, 0):
                    self.v("C06", i, "allocation %s used grew by %d, sessions settled for it reported %d" % (key, du, settled_for.get(key, 0)))
                self.nt("C06")
        if kind == "sub_allocate":
            fa = toks[2].lower().split(":", 1)[1]
            sid = I(toks[3])
            p = pallocs.get((sid, fa))
            if p is not None and (I(p["u"]) > 0 or any(I(a["u"]) > 0 for k, a in pallocs.items() if k[0] == sid)):
                self.nt("C06")
        if kind == "sess_start":
            sid = I(toks[3])
            acc = toks[2].lower().split(":", 1)[1]
            s = self.subs(prev).get(sid)
            hourly = s is not None and s["k"] == "node" and I(s["hr"]) != 0
            if not hourly:
                p = pallocs.get((sid, acc))
                if p is None or I(p["u"]) >= I(p["g"]):
                    self.v("C06", i, "session started by a holder without unexhausted quota")

    # ---------- C07 ----------
    def m_c07(self, i, kind, toks, prev, st):
        def low(t):
            return t.split(":", 1)[1]
        sender = toks[2]
        sb = low(sender)
        ok = True
        what = ""
        if kind in ("node_update_details", "node_update_status"):
            # acts on the record of the sender itself: any other node record must be unchanged
            pn, nn = self.nodes(prev), self.nodes(st)
            for a in pn:
                if a != sb and json.dumps(pn[a], sort_keys=True) != json.dumps(nn.get(a), sort_keys=True):
                    ok, what = False, "node %s changed by a message of %s" % (a[:12], sb[:12])
        elif kind == "prov_update":
            pp = {p["a"]: p for p in prev["prov"]}
            np_ = {p["a"]: p for p in st["prov"]}
            for a in pp:
                if a != sb and json.dumps(pp[a], sort_keys=True) != json.dumps(np_.get(a), sort_keys=True):
                    ok, what = False, "provider %s changed by a message of %s" % (a[:12], sb[:12])
        elif kind in ("plan_update_status", "plan_link", "plan_unlink"):
            pl = self.plans(prev).get(I(toks[3]))
            if pl is None or pl["prov"] != sb or sender[0] != "p":
                ok, what = False, "plan %s changed by non-owner %s" % (toks[3], sender[:14])
        elif kind in ("sub_cancel", "sub_allocate"):
            s = self.subs(prev).get(I(toks[3]))
            if s is None or s["a"] != sb:
                ok, what = False, "subscription %s changed by non-owner" % toks[3]
        elif kind == "sess_end":
            s = self.sessions(prev).get(I(toks[3]))
            if s is None or s["a"] != sb or sender[0] != "a":
                ok, what = False, "session %s ended by a stranger" % toks[3]
        elif kind == "sess_update":
            s = self.sessions(prev).get(I(toks[3]))
            if s is None or s["node"] != sb or sender[0] != "n":
                ok, what = False, "usage of session %s reported by a stranger" % toks[3]
            elif prev["par"]["sess_proof"] and toks[8] != "1":
                ok, what = False, "usage report accepted without a valid signature of the subscriber"
            self.nt("C07") if prev["par"]["sess_proof"] else None
        elif kind == "swap":
            if prev["par"]["swap_approver"] != sender:
                ok, what = False, "swap executed by %s, approver is %s" % (sender[:14], prev["par"]["swap_approver"][:14])
        if not ok:
            self.v("C07", i, what)

    def rejected(self, i, kind, toks, prev):
        # a non-owner attempt against an existing record (non-trivial case for C07)
        if kind in ("plan_update_status", "plan_link", "plan_unlink") and self.plans(prev).get(I(toks[3])):
            self.nt("C07")
        if kind in ("sub_cancel", "sub_allocate") and self.subs(prev).get(I(toks[3])):
            self.nt("C07")
        if kind in ("sess_end", "sess_update") and self.sessions(prev).get(I(toks[3])):
            self.nt("C07")
        if kind in ("node_subscribe", "plan_subscribe", "sess_start"):
            self.nt("C08")

    # ---------- C08 ----------
    def m_c08(self, i, kind, toks, prev, st):
        par = prev["par"]
        if kind == "node_subscribe":
            n = self.nodes(prev).get(toks[3].lower().split(":", 1)[1])
            gb, hr = I(toks[4]), I(toks[5])
            if n is None or n["st"] != 1:
                self.v("C08", i, "subscription bought against a node that is not active")
            if gb and not (I(par["min_sub_gb"]) <= gb <= I(par["max_sub_gb"])):
                self.v("C08", i, "gigabytes %d outside limits" % gb)
                self.v("C11", i, "gigabytes %d outside limits" % gb)
            if hr and not (I(par["min_sub_hr"]) <= hr <= I(par["max_sub_hr"])):
                self.v("C08", i, "hours %d outside limits" % hr)
                self.v("C11", i, "hours %d outside limits" % hr)
            self.nt("C08")
        elif kind == "plan_subscribe":
            p = self.plans(prev).get(I(toks[3]))
            if p is None or p["st"] != 1:
                self.v("C08", i, "subscription bought against a plan that is not active")
            self.nt("C08")
        elif kind == "prov_register":
            if any(p["a"] == toks[2].lower().split(":", 1)[1] for p in prev["prov"]):
                self.v("C08", i, "provider registered twice")
        elif kind == "node_register":
            if toks[2].lower().split(":", 1)[1] in self.nodes(prev):
                self.v("C08", i, "node registered twice")
        elif kind == "plan_create":
            if not any(p["a"] == toks[2].lower().split(":", 1)[1] for p in prev["prov"]):
                self.v("C08", i, "plan created without a registered provider")
        elif kind == "plan_link":
            if toks[4].lower().split(":", 1)[1] not in self.nodes(prev):
                self.v("C08", i, "link to an unregistered node")
        elif kind == "sess_start":
            sid = I(toks[3])
            acc = toks[2].lower().split(":", 1)[1]
            na = toks[4].lower().split(":", 1)[1]
            s = self.subs(prev).get(sid)
            n = self.nodes(prev).get(na)
            if s is None or s["st"] != 1:
                self.v("C08", i, "session started on a subscription that is not active")
                return
            if n is None or n["st"] != 1:
                self.v("C08", i, "session started on a node that is not active")
            if s["k"] == "node":
                if s["node"] != na:
                    self.v("C08", i, "session started on a node the subscription does not cover")
                if s["a"] != acc:
                    self.v("C08", i, "session on a node subscription started by a stranger")
                    self.v("C07", i, "session on a node subscription started by a stranger")
            else:
                pid = I(s["plan"])
                pl = self.plans(prev).get(pid)
                linked = [str(pid), na] in prev["ix"]["node_plan"]
                # "currently leased": the plan's provider holds an ACTIVE hourly subscription to the node -- decided on the
                # primary records, not on the lease index MsgStart itself consults (an index entry that outlives its
                # subscription must not fool the monitor: seed C08_3)
                leased = pl is not None and any(x["k"] == "node" and x["a"] == pl["prov"] and x["node"] == na and x["st"] == 1 and I(x["hr"]) > 0
                                                for x in prev["sub"])
                if not linked or not leased:
                    self.v("C08", i, "session started on a node not linked to / not leased by the plan (linked=%s leased=%s)" % (linked, leased))
            for x in self.sessions(prev).values():
                if I(x["sub"]) == sid and x["a"] == acc and x["st"] == 1:
                    self.v("C08", i, "second active session %s for the same subscription and address" % x["id"])
            self.nt("C08")

    def m_c08_inv(self, i, st):
        seen = {}
        for x in st["sess"]:
            if x["st"] == 1:
                k = (x["sub"], x["a"])
                if k in seen:
                    self.v("C08", i, "two active sessions %s and %s of one (subscription, address)" % (seen[k], x["id"]))
                seen[k] = x["id"]

    # ---------- C09 ----------
    def m_c09(self, i, st):
        ix = st["ix"]
        subs, sess = self.subs(st), self.sessions(st)

        def S(l):
            return set(json.dumps(x) for x in l)

        def expect(name, want):
            have = ix[name]
            if len(have) != len(set(json.dumps(x) for x in have)):
                self.v("C09", i, "index %s lists an entry twice" % name)
            if S(have) != S(want):
                extra = S(have) - S(want)
                missing = S(want) - S(have)
                self.v("C09", i, "index %s: dangling %s missing %s" % (name, sorted(extra)[:3], sorted(missing)[:3]))
                if name.endswith("_q"):
                    self.v("C03", i, "queue %s out of step with its records: dangling %s missing %s" % (name, sorted(extra)[:2], sorted(missing)[:2]))
        if ix["unknown"]:
            self.v("C09", i, "unknown keys in the store: %s" % ix["unknown"][:3])
        expect("node_q", [[n["iat"], n["a"]] for n in st["node"] if n["st"] == 1])
        expect("plan_prov", [[p["prov"], p["id"]] for p in st["plan"]])
        expect("sub_q", [[s["iat"], s["id"]] for s in st["sub"]])
        expect("sub_acc", [list(x) for x in set([(s["a"], s["id"]) for s in st["sub"]] + [(a["a"], a["id"]) for a in st["alloc"]])])
        expect("sub_node", [[s["node"], s["id"]] for s in st["sub"] if s["k"] == "node"])
        expect("sub_plan", [[s["plan"], s["id"]] for s in st["sub"] if s["k"] == "plan"])
        expect("pay_q", [[p["nx"], p["id"]] for p in st["payout"] if I(p["nx"]) != TZERO])
        expect("pay_acc", [[p["a"], p["id"]] for p in st["payout"]])
        expect("pay_node", [[p["node"], p["id"]] for p in st["payout"]])
        expect("pay_acc_node", [[p["a"], p["node"], p["id"]] for p in st["payout"] if subs.get(I(p["id"]), {}).get("st") == 1])
        expect("sess_q", [[s["iat"], s["id"]] for s in st["sess"]])
        expect("sess_acc", [[s["a"], s["id"]] for s in st["sess"]])
        expect("sess_node", [[s["node"], s["id"]] for s in st["sess"]])
        expect("sess_sub", [[s["sub"], s["id"]] for s in st["sess"]])
        expect("sess_alloc", [[s["sub"], s["a"], s["id"]] for s in st["sess"]])
        plans, nodes = self.plans(st), self.nodes(st)
        for pid, a in ix["node_plan"]:
            if I(pid) not in plans or a not in nodes:
                self.v("C09", i, "node link (%s,%s) points at a missing plan or node" % (pid, a[:12]))
        # key / value agreement and partitions
        for kind in ("prov", "node"):
            seen = set()
            for r in st[kind]:
                if r["ka"] != r["a"]:
                    self.v("C09", i, "%s stored under a key of another address" % kind)
                if r["a"] in seen:
                    self.v("C09", i, "%s %s listed in both status partitions" % (kind, r["a"][:12]))
                seen.add(r["a"])
                if (r["part"], r["st"]) not in ((1, 1), (2, 3)):
                    self.v("C09", i, "%s %s in partition %d with status %d" % (kind, r["a"][:12], r["part"], r["st"]))
        seen = set()
        for r in st["plan"]:
            if r["kid"] != r["id"] or r["id"] in seen or (r["part"], r["st"]) not in ((1, 1), (2, 3)):
                self.v("C09", i, "plan %s: key/partition inconsistency" % r["id"])
            seen.add(r["id"])
        for r in st["sub"] + st["payout"] + st["sess"]:
            if r["kid"] != r["id"]:
                self.v("C09", i, "record %s stored under key id %s" % (r["id"], r["kid"]))
                self.v("C18", i, "record %s stored under key id %s" % (r["id"], r["kid"]))
        for r in st["alloc"]:
            if r["kid"] != r["id"] or r["ka"] != r["a"]:
                self.v("C09", i, "allocation %s/%s stored under key %s/%s" % (r["id"], r["a"][:8], r["kid"], r["ka"][:8]))
                self.v("C18", i, "allocation carries id %s under key id %s" % (r["id"], r["kid"]))
            if I(r["id"]) not in subs:
                self.v("C09", i, "allocation of a removed subscription %s" % r["id"])
        for r in st["payout"]:
            s = subs.get(I(r["id"]))
            if s is None or s["k"] != "node" or I(s["hr"]) == 0:
                self.v("C09", i, "payout %s without an hourly subscription" % r["id"])
        for r in st["sess"]:
            if I(r["sub"]) not in subs:
                self.v("C09", i, "session %s of a removed subscription %s" % (r["id"], r["sub"]))
        for a, m in st["dep"].items():
            if m.get("_a") != a:
                self.v("C09", i, "deposit stored under a key of another address")
        for w in st["swap"]:
            if w["kh"] != w["h"]:
                self.v("C14", i, "swap %s stored under key %s" % (w["h"][:16], w["kh"][:16]))
        for x in st["infl"]:
            if x["kt"] != x["ts"]:
                self.v("C15", i, "inflation entry %s stored under key time %s" % (x["ts"], x["kt"]))

    # ---------- C11 ----------
    def m_c11(self, i, op, kind, toks, prev, st):
        par = st["par"]

        def within(prices, mx, mn):
            p = dict((int(c[0]), I(c[1])) for c in prices)
            for d, a in mx:
                if p.get(int(d), 0) > I(a):
                    return "price %d above maximum %s (denom %s)" % (p.get(int(d), 0), a, d)
            for d, a in mn:
                if p.get(int(d), 0) < I(a):
                    return "price %d below minimum %s (denom %s)" % (p.get(int(d), 0), a, d)
            return None
        def consistent(mx, mn):
            m = dict((int(d), I(a)) for d, a in mx)
            return all(I(a) <= m[int(d)] for d, a in mn if int(d) in m)
        in_domain = consistent(par["max_gb"], par["min_gb"]) and consistent(par["max_hr"], par["min_hr"])
        if op == "G":
            self.c11_left = False
        if not in_domain:
            self.c11_left = True             # sticky: DESIGN section 5.1 quantifies over histories that never cross the bounds
        in_domain = in_domain and not getattr(self, "c11_left", False)
        if op in ("E", "G") and not in_domain:
            self.nt("C11.out_of_domain")     # DESIGN section 5.1 (min <= max) does not hold: the statement does not apply
        if op in ("E", "G") and in_domain:
            for n in st["node"]:
                for w, mx, mn in (("gb", par["max_gb"], par["min_gb"]), ("hr", par["max_hr"], par["min_hr"])):
                    bad = within(n[w], mx, mn)
                    if bad:
                        self.v("C11", i, "node %s %s %s" % (n["a"][:12], w, bad))
            if prev is not None and any(prev["mod"]) and st["node"]:
                self.nt("C11")
        if kind in ("node_register", "node_update_details") and prev is not None:
            n = self.nodes(st).get(toks[2].lower().split(":", 1)[1])
            pp = prev["par"]
            if n:
                for w, tok, mx, mn in (("gb", toks[3], pp["max_gb"], pp["min_gb"]), ("hr", toks[4], pp["max_hr"], pp["min_hr"])):
                    if tok == "nil":
                        continue
                    bad = within(n[w], mx, mn)
                    if bad:
                        self.v("C11", i, "%s accepted with %s" % (kind, bad))

    # ---------- C14 ----------
    def m_c14(self, i, op, kind, toks, prev, st):
        hs = [w["h"] for w in st["swap"]]
        if len(hs) != len(set(hs)):
            self.v("C14", i, "two swaps recorded for one hash")
        if prev is None:
            return
        ph = {w["h"]: w for w in prev["swap"]}
        for h, w in ph.items():
            if json.dumps(w, sort_keys=True) not in [json.dumps(x, sort_keys=True) for x in st["swap"]]:
                self.v("C14", i, "recorded swap %s changed or disappeared" % h[:16])
        new = [w for w in st["swap"] if w["h"] not in ph]
        if kind != "swap":
            if new:
                self.v("C14", i, "swap recorded by a step that is not a swap request")
            return
        par = prev["par"]
        h = toks[3][2:].rjust(64, "0")[-64:]
        amount = I(toks[5])
        rcv = toks[4].lower().split(":", 1)[1]
        if len(new) != 1:
            self.v("C14", i, "accepted swap recorded %d entries" % len(new))
            return
        w = new[0]
        if h in ph:
            self.v("C14", i, "hash %s swapped twice" % h[:16])
        if not par["swap_enabled"]:
            self.v("C14", i, "swap executed while swaps are disabled")
        if par["swap_approver"] != toks[2]:
            self.v("C14", i, "swap executed for a sender that is not the approver")
            self.v("C07", i, "swap executed for a sender that is not the approver")
        d = int(par["swap_denom"])
        if int(w["amt"][0]) != d or I(w["amt"][1]) != amount // 100:
            self.v("C14", i, "recorded amount %s, expected %d of denom %d" % (w["amt"], amount // 100, d))
        pb = coins_dict(prev["bal"].get(rcv, {})).get(d, 0)
        nb = coins_dict(st["bal"].get(rcv, {})).get(d, 0)
        if nb - pb != amount // 100:
            self.v("C14", i, "receiver credited %d, expected %d" % (nb - pb, amount // 100))
        ps, ns = coins_dict(prev["supply"]), coins_dict(st["supply"])
        for dd in set(ps) | set(ns):
            delta = ns.get(dd, 0) - ps.get(dd, 0)
            if delta != (amount // 100 if dd == d else 0):
                self.v("C14", i, "supply of denom %d changed by %d" % (dd, delta))
        self.nt("C14")

    # ---------- C15 ----------
    def m_c15(self, i, op, toks, prev, st):
        if prev is None:
            return
        if op != "B":
            if prev["mint"] != st["mint"] or sorted(map(json.dumps, prev["infl"])) != sorted(map(json.dumps, st["infl"])):
                self.v("C15", i, "minting parameters or schedule changed outside BeginBlock")
            return
        t = I(toks[1])
        due = sorted([x for x in prev["infl"] if I(x["ts"]) <= t], key=lambda x: I(x["ts"]))
        later = [x for x in prev["infl"] if I(x["ts"]) > t]
        if sorted(map(json.dumps, later)) != sorted(map(json.dumps, st["infl"])):
            self.v("C15", i, "remaining schedule is not exactly the entries after block time")
        if due:
            last = due[-1]
            want = [last["max"], last["min"], last["rate"], last["min"]]
            if st["mint"] != want:
                self.v("C15", i, "mint parameters %s, latest due entry gives %s" % (st["mint"], want))
            self.nt("C15", 2 if len(due) > 1 else 1)
        elif st["mint"] != prev["mint"]:
            self.v("C15", i, "mint parameters changed although no entry was due")

    # ---------- C18 ----------
    def m_c18(self, i, op, kind, prev, st, ev):
        cnt = st["cnt"]
        for name, coll in (("plan", st["plan"]), ("sub", st["sub"]), ("sess", st["sess"])):
            for r in coll:
                if not (1 <= I(r["id"]) <= I(cnt[name])):
                    self.v("C18", i, "%s id %s above the counter %s" % (name, r["id"], cnt[name]))
        for r in st["payout"]:
            if I(r["id"]) not in self.subs(st):
                self.v("C18", i, "payout %s without subscription" % r["id"])
        if prev is None:
            return
        pc = prev["cnt"]
        for name, coll, pcoll, seen in (("plan", st["plan"], prev["plan"], self.seen_plan), ("sub", st["sub"], prev["sub"], None), ("sess", st["sess"], prev["sess"], None)):
            new = [I(r["id"]) for r in coll if I(r["id"]) not in {I(x["id"]) for x in pcoll}]
            if I(cnt[name]) < I(pc[name]):
                self.v("C18", i, "%s counter decreased" % name)
            if len(new) > 1:
                self.v("C18", i, "several %s created in one step" % name)
            if new:
                if new[0] != I(pc[name]) + 1 or I(cnt[name]) != I(pc[name]) + 1:
                    self.v("C18", i, "%s created with id %d, counter was %s now %s" % (name, new[0], pc[name], cnt[name]))
                self.nt("C18")
            elif I(cnt[name]) != I(pc[name]):
                self.v("C18", i, "%s counter moved without a creation" % name)
        # allocations and payouts are created under the identifier of the subscription the operation is about
        pal = {(I(a["id"]), a["a"]) for a in prev["alloc"]}
        new_al = [(I(a["id"]), a["a"]) for a in st["alloc"] if (I(a["id"]), a["a"]) not in pal]
        ppo = {I(p_["id"]) for p_ in prev["payout"]}
        new_po = [I(p_["id"]) for p_ in st["payout"] if I(p_["id"]) not in ppo]
        if new_al or new_po:
            if kind == "sub_allocate":
                want = I(self._toks[3])
                to = self._toks[4].lower().split(":", 1)[1]
                for (aid, aa) in new_al:
                    if aid != want or aa != to:
                        self.v("C18", i, "sharing on subscription %d created an allocation carrying identifier %d (holder %s)" % (want, aid, aa[:12]))
                if new_po:
                    self.v("C18", i, "sharing created a payout")
            elif kind in ("node_subscribe", "plan_subscribe"):
                want = I(cnt["sub"])
                for (aid, aa) in new_al:
                    if aid != want:
                        self.v("C18", i, "subscription %d created with an allocation carrying identifier %d" % (want, aid))
                for pid in new_po:
                    if pid != want:
                        self.v("C18", i, "subscription %d created with a payout carrying identifier %d" % (want, pid))
            else:
                self.v("C18", i, "allocation/payout %s%s created by an operation that creates no subscription" % (new_al[:2], new_po[:2]))
        for name, vals in ev:
            if name == "subscription.EventPayForSession":
                sess_id, sub_id = I(vals[4]["z"]), I(vals[5]["z"])
                ps = self.sessions(prev).get(sess_id)
                if ps is None or I(ps["sub"]) != sub_id:
                    self.v("C18", i, "session %d settled against subscription %d" % (sess_id, sub_id))


def run_monitors(obs_path, ops_path):
    """returns (violations, nontrivial counts per property per history, history count)"""
    ops_by_h = {}
    cfg_by_h = {}
    h = None
    with open(ops_path) as f:
        for line in f:
            t = line.split()
            if not t:
                continue
            if t[0] == "H":
                h = int(t[1])
                ops_by_h[h] = [["G"]]
            elif t[0] == "G":
                if t[1] == "cfg":
                    cfg_by_h[h] = {"deposit": t[2], "feecoll": t[3], "distr": t[4], "swap": t[5]}
            else:
                ops_by_h[h].append(t)
    viol = []
    nontriv = {}
    mon = None
    cur = None
    with open(obs_path) as f:
        for line in f:
            o = json.loads(line)
            if o["h"] != cur:
                if mon is not None:
                    viol.extend(mon.viol)
                    nontriv[cur] = mon.nontrivial
                cur = o["h"]
                mon = Hist(cur, cfg_by_h[cur])
            toks = ops_by_h[cur][o["i"]] if o["i"] < len(ops_by_h[cur]) else ["?"]
            try:
                mon.step(o, toks)
            except Exception as e:  # a monitor must never take the check down silently
                mon.v("MONITOR-ERROR", o["i"], "%s: %r" % (type(e).__name__, e))
    if mon is not None:
        viol.extend(mon.viol)
        nontriv[cur] = mon.nontrivial
    return viol, nontriv


if __name__ == "__main__":
    import sys
    v, nt = run_monitors(sys.argv[1], sys.argv[2])
    agg = {}
    for h, m in nt.items():
        for p, c in m.items():
            agg[p] = agg.get(p, 0) + (1 if c else 0)
    print(json.dumps({"violations": v[:40], "n_violations": len(v), "nontrivial_histories": agg}, indent=1))
