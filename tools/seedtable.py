#!/usr/bin/env python3
"""Print the markdown table of DESIGN §13 from seeded/*/meta.json and seeded/*/check_*.out."""
import glob, json, os, re
V = os.path.dirname(os.path.dirname(os.path.abspath(__file__)))
rows = []
def _key(x):
    t = x.split("_")
    return (t[0], int(t[1]) if len(t) > 1 and t[1].isdigit() else 1, x)
for d in sorted(os.listdir(os.path.join(V, "seeded")), key=_key):
    p = os.path.join(V, "seeded", d)
    try:
        m = json.load(open(os.path.join(p, "meta.json")))
    except Exception:
        continue
    summ = re.sub(r"\s+", " ", (m.get("summary") or m.get("what") or "")).strip()
    summ = summ[:260] + ("…" if len(summ) > 260 else "")
    res = []
    for f in sorted(glob.glob(os.path.join(p, "check_*.out"))):
        pid = os.path.basename(f)[6:-4]
        txt = open(f).read()
        v = re.findall(r"VIOLATION property=(\S+) replay=(\S+)( no-failing-input-found)?", txt)
        if v:
            kind = "proof/correspondence broken, no failing input" if v[-1][2] else "concrete replay"
            what = [l for l in txt.splitlines() if l.startswith(pid + ":")]
            res.append("**%s**: %s — %s" % (pid, kind, re.sub(r"\|", "/", (what[-1][len(pid) + 2:] if what else "")[:150])))
        elif ": ok (" in txt:
            own = m.get("property") or d.split("_")[0]
            res.append("**%s**: MISSED (check passed)" % pid if pid == own else "%s: passes (cross-check of another property, earlier run)" % pid)
        else:
            res.append("**%s**: check did not complete" % pid)
    rows.append("| `%s` | %s | %s |" % (d, summ.replace("|", "/"), "<br>".join(res) or "not re-run"))
print("| seeded change | what it does | caught by |")
print("|---|---|---|")
print("\n".join(rows))
