"""C13 - paged queries enumerate the complete result exactly once.  Plug-in for /verif/check.

  * proof (coq/theories/Props/C13.v, re-checked by check through `make theories/Props/C13.vo`): the cosmos-sdk
    v0.47.10 paginators query.Paginate / query.FilteredPaginate modelled in Model/Paginate.v page every store
    completely (key mode, offset mode, totals, forward and reverse, every limit with |store|+limit+1 < 2^64) for
    every callback whose hit does not depend on `accumulate`; `all_list_queries_complete` quantifies over the rows
    of Gen/QueryShapes.v.
  * translator (translator/queries2coq.py, run here and by check's gen step): regenerates Gen/QueryShapes.v from
    the query servers of /repo; a handler whose callback's hit depends on accumulate, appends outside
    `if accumulate`, or has a shape it cannot classify is reported here (and makes the theorem fail).
  * monitor (`harness pages`): on generated + dense states every paginated list query of the REAL query servers is
    paged with limits {1,2,3,7,100,default}, key and offset mode, forward/reverse, count_total on/off and every
    status filter; concatenation of pages = full listing = matching records of the store, total = their number.
    A failure is a concrete page request with a replay file.
  * correspondence (model/pages/pages_model_run): the extracted Coq model recomputes every response (pages,
    next_key, total, errors, panics; boundary requests included) from the raw (key, hit) list of the prefix store
    and is diffed with what the real servers returned.
"""
import hashlib
import importlib.util
import json
import os
import subprocess
import sys
import time

REPO = os.environ.get("VERIF_REPO", "/repo")
PLAN = {"quick": {"n": 6, "blocks": 14}, "thorough": {"n": 60, "blocks": 16}}


def _sh(cmd, cwd=None, log=None, timeout=3600):
    p = subprocess.run(cmd, shell=True, cwd=cwd, stdout=subprocess.PIPE, stderr=subprocess.STDOUT, text=True, timeout=timeout)
    if log:
        with open(log, "a") as f:
            f.write("$ %s\n%s\n" % (cmd, p.stdout[-3000:]))
    return p.returncode, p.stdout


def _write_replay(V, tag, body):
    d = os.path.join(V, "out", "replay")
    os.makedirs(d, exist_ok=True)
    if not isinstance(body, str):
        body = json.dumps(body, indent=1, sort_keys=True)
    p = os.path.join(d, "C13-%s-%s.txt" % (tag, hashlib.sha256(body.encode()).hexdigest()[:10]))
    open(p, "w").write(body)
    return p


def _translator(V):
    path = os.path.join(V, "translator", "queries2coq.py")
    spec = importlib.util.spec_from_file_location("queries2coq", path)
    mod = importlib.util.module_from_spec(spec)
    spec.loader.exec_module(mod)
    return mod


def build(V, log):
    """the OCaml runner of the extracted paginator model (cached by mtime)"""
    coq = os.path.join(V, "coq")
    mdir = os.path.join(V, "model", "pages")
    binp = os.path.join(mdir, "pages_model_run")
    pvo = os.path.join(coq, "theories/Model/Paginate.vo")
    pv = os.path.join(coq, "theories/Model/Paginate.v")
    if not os.path.exists(pv):
        return False, "missing theories/Model/Paginate.v"
    if not os.path.exists(pvo) or os.path.getmtime(pvo) < os.path.getmtime(pv):
        for f in ("theories/Base/Prelude.v", "theories/Model/Paginate.v"):
            vo = os.path.join(coq, f[:-2] + ".vo")
            if os.path.exists(vo) and os.path.getmtime(vo) >= os.path.getmtime(os.path.join(coq, f)):
                continue
            rc, out = _sh("timeout 600 coqc -Q theories Hub -w -notation-overridden %s" % f, cwd=coq, log=log)
            if rc != 0:
                return False, "cannot compile %s: %s" % (f, out[-400:])
    srcs = [os.path.join(mdir, "ExtractPages.v"), os.path.join(mdir, "pages_driver.ml"), pvo]
    if os.path.exists(binp) and all(os.path.getmtime(binp) >= os.path.getmtime(s) for s in srcs):
        return True, ""
    rc, out = _sh("timeout 600 coqc -Q %s/theories Hub ExtractPages.v" % coq, cwd=mdir, log=log)
    if rc != 0:
        return False, "extraction of the paginator model failed: " + out[-400:]
    rc, out = _sh("ocamlfind ocamlopt -package zarith -linkpkg -w -a pages_model.mli pages_model.ml pages_driver.ml -o pages_model_run",
                  cwd=mdir, log=log)
    if rc != 0:
        return False, "paginator model runner does not compile: " + out[-400:]
    return True, ""


def _context(lines, idx):
    """the H / Q / S lines in force at line idx of the harness output"""
    ctx = {}
    for j in range(idx, -1, -1):
        t = lines[j][:2]
        if t in ("H ", "Q ", "S ", "S") and t[0] not in ctx:
            ctx[t[0]] = lines[j]
        if len(ctx) == 3:
            break
    return [ctx.get(k, "") for k in "HQS"]


def run(tier, seed, V, log):
    t0 = time.time()
    findings = []
    stats = {}
    plan = PLAN[tier]
    d = os.path.join(V, "out", "c13-run")
    os.makedirs(d, exist_ok=True)

    # 1. translator: the handlers' shapes, straight from the source
    rows = []
    try:
        tr = _translator(V)
        cwd = os.getcwd()
        try:
            os.chdir(REPO)
            rows = tr.scan(REPO)
        finally:
            os.chdir(cwd)
        text = tr.render(rows)
        gen = os.path.join(V, "coq", "theories", "Gen", "QueryShapes.v")
        if not os.path.exists(gen) or open(gen).read() != text:
            os.makedirs(os.path.dirname(gen), exist_ok=True)
            open(gen, "w").write(text)
        for r in rows:
            if r["hit_depends_on_accumulate"] or r["appends_unguarded"]:
                why = "reports a hit only under a condition on `accumulate`" if r["hit_depends_on_accumulate"] else \
                      "appends to its result outside `if accumulate`"
                findings.append({"what": "%s: the FilteredPaginate callback of %s %s, so records outside the requested page are "
                                         "miscounted; theorem all_list_queries_complete no longer holds for the generated table" %
                                         (r["file"], r["handler"], why),
                                 "replay": _write_replay(V, "shape-" + r["handler"], r), "concrete": False,
                                 "key": "shape:%s.%s" % (r["module"], r["handler"])})
    except Exception as ex:  # Unclassifiable and anything unexpected: fail closed
        findings.append({"what": "translator queries2coq cannot classify the query servers: %s" % ex,
                         "replay": _write_replay(V, "translator", str(ex)), "concrete": False, "key": "translator"})
    stats["list_handlers"] = len(rows)
    stats["filtered_handlers"] = sum(r["paginator"] == "FilteredPaginate" for r in rows)

    # 2. the real query servers
    out = os.path.join(d, "pages-%d.txt" % seed)
    harness = os.path.join(V, "harness", "bin", "harness")
    rc, o = _sh("%s pages -seed %d -n %d -blocks %d -out %s -replay %s" %
                (harness, seed, plan["n"], plan["blocks"], out, os.path.join(V, "out", "replay")), log=log, timeout=3000)
    if rc != 0:
        findings.append({"what": "harness pages failed: %s" % o[-400:], "replay": _write_replay(V, "harness", o[-3000:]),
                         "concrete": False, "key": "harness"})
        return {"findings": findings, "histories": 0, "ops": 0, "nontrivial": 0, "stats": stats, "samples": [],
                "summary": "harness pages did not run"}
    lines = open(out).read().split("\n")

    # 3. implementation-side monitor
    per_key = {}
    replays = {}
    for ln in lines:
        if ln.startswith("F-replay "):
            _, key, path = ln.split(" ", 2)
            replays.setdefault(key, path)
        elif ln.startswith("F "):
            key, _, rest = ln[2:].partition(" | ")
            per_key.setdefault(key, []).append(rest)
    by_handler = {}
    for key, msgs in sorted(per_key.items()):
        if key == "maxlimit-wrap":
            findings.append({"what": "cosmos-sdk v0.47.10 FilteredPaginate computes end+1 in uint64: with limit=2^64-1, no count_total and a first "
                                     "index entry rejected by the status filter the page is empty although records match: %s  (%d such requests in this run)" %
                                     (msgs[0][:500], len(msgs)),
                             "replay": replays.get(key) or _write_replay(V, "monitor", "\n".join(msgs[:20])),
                             "concrete": True, "key": key})
            continue
        kind, _, handler = key.partition(":")
        h = by_handler.setdefault(handler, {"kinds": [], "msgs": [], "n": 0, "replay": None})
        h["kinds"].append(kind)
        h["msgs"].append(msgs[0])
        h["n"] += len(msgs)
        h["replay"] = h["replay"] or replays.get(key)
    for handler, h in sorted(by_handler.items()):
        findings.append({"what": "paging of %s on the real query server is wrong (%s; %d failing page requests reported): %s" %
                                 (handler, ", ".join(h["kinds"]), h["n"], h["msgs"][0][:600]),
                         "replay": h["replay"] or _write_replay(V, "monitor-" + handler, "\n".join(h["msgs"])),
                         "concrete": True, "key": "paging:" + handler})
    for ln in lines:
        if ln.startswith("X "):
            t = ln.split(" ")
            if len(t) == 3 and t[2].lstrip("-").isdigit():
                stats[t[1]] = int(t[2])

    # 4. correspondence with the extracted model
    mout = out + ".model"
    runner = os.path.join(V, "model", "pages", "pages_model_run")
    rc, o = _sh("%s %s > %s" % (runner, out, mout), log=log, timeout=3000)
    if rc != 0:
        findings.append({"what": "the extracted paginator model could not process the dump: %s" % o[-300:],
                         "replay": _write_replay(V, "model-run", o[-3000:]), "concrete": False, "key": "model-run"})
    else:
        mlines = open(mout).read().split("\n")
        hyp = [l for l in mlines if l.startswith("E ")]
        if hyp:
            findings.append({"what": "a prefix store violates a hypothesis of the paging theorems: %s (%d times)" % (hyp[0], len(hyp)),
                             "replay": _write_replay(V, "hypothesis", "\n".join(hyp[:50])), "concrete": False, "key": "hypothesis"})
            mlines = [l for l in mlines if not l.startswith("E ")]
        ndiff = 0
        first = None
        if len(mlines) != len(lines):
            ndiff = abs(len(mlines) - len(lines))
            first = (min(len(mlines), len(lines)) - 1, "line count %d" % len(lines), "line count %d" % len(mlines))
        else:
            for i, (a, b) in enumerate(zip(lines, mlines)):
                if a != b:
                    ndiff += 1
                    if first is None:
                        first = (i, a, b)
        stats["model_disagreements"] = ndiff
        if first is not None:
            i, a, b = first
            ctx = _context(lines, i)
            body = "\n".join(["# the real query server and the proved paginator model disagree",
                              "# implementation: " + a, "# model:          " + b,
                              "# context (history/point, query, store entries key:hit:id):"] + ctx +
                             ["# re-run: harness pages -seed %d -n %d -blocks %d" % (seed, plan["n"], plan["blocks"])])
            findings.append({"what": "the real server and the Coq paginator model disagree on %d responses; first: %s  impl `%s`  model `%s`" %
                                     (ndiff, ctx[1][:160], a[:200], b[:200]),
                             "replay": _write_replay(V, "model-diff", body), "concrete": False, "key": "model-diff"})

    # 5. coverage: every handler the translator found was paged, and nothing else
    paged = set()
    for ln in lines:
        if ln.startswith("X handlers "):
            paged = set(x for x in ln[len("X handlers "):].split(",") if x and not x.startswith("synthetic."))
    found = set("%s.%s" % (r["module"], r["handler"]) for r in rows)
    if rows and paged != found:
        findings.append({"what": "list handlers in the source and list handlers exercised by `harness pages` differ: only in source %s; only in harness %s" %
                                 (sorted(found - paged), sorted(paged - found)),
                         "replay": _write_replay(V, "coverage", {"source": sorted(found), "harness": sorted(paged)}),
                         "concrete": False, "key": "coverage"})
    nontrivial = stats.get("chains.multi_page", 0)
    if nontrivial == 0 or stats.get("instances.filter_rejects", 0) == 0:
        findings.append({"what": "vacuous run: no result set larger than a page or no filter rejecting a record",
                         "replay": _write_replay(V, "vacuous", stats), "concrete": False, "key": "vacuous"})

    # the dumps are large (thorough: ~200 MB each): keep them only when something has to be looked at
    if all(f["key"] == "maxlimit-wrap" for f in findings):
        for pth in (out, mout):
            try:
                os.remove(pth)
            except OSError:
                pass
    samples = [l[:300] for l in lines if l.startswith("R ") and "=> ok " in l and "," in l and "|-|" not in l][:3]
    stats["wall_s"] = int(time.time() - t0)
    return {"findings": findings,
            "histories": stats.get("histories", 0),
            "ops": stats.get("requests", 0) + stats.get("requests.boundary", 0),
            "nontrivial": nontrivial,
            "stats": stats,
            "samples": samples,
            "summary": "%d list handlers (%d filtered) classified; %d page requests on %d query instances of the real servers agree with "
                       "the model (%d disagreements), %d paging chains, %d with more than one page, %d instances with a rejecting filter; "
                       "%d monitor failures" %
                       (len(rows), stats["filtered_handlers"], stats.get("requests", 0) + stats.get("requests.boundary", 0),
                        stats.get("instances", 0), stats.get("model_disagreements", 0), stats.get("chains", 0), nontrivial,
                        stats.get("instances.filter_rejects", 0), stats.get("monitor.failures", 0))}


if __name__ == "__main__":
    V = sys.argv[1] if len(sys.argv) > 1 else "/verif"
    tier = sys.argv[2] if len(sys.argv) > 2 else "quick"
    seed = int(sys.argv[3]) if len(sys.argv) > 3 else 1
    ok, err = build(V, None)
    print("build:", ok, err)
    res = run(tier, seed, V, None)
    print(json.dumps({k: v for k, v in res.items() if k != "stats"}, indent=1)[:6000])
    print(json.dumps(res["stats"], sort_keys=True))
