#!/bin/bash
# seedrun.sh <PID> <worktree> [check ids...]: archive a confirmed seeded change as seeded/<PID>[_n], run the given checks (default: PID) against it on /repo, undo.
set -u
PID=$1; WT=$2; shift 2
CHECKS=${@:-$PID}
export GOFLAGS=-mod=mod GOPROXY=off GOSUMDB=off GOTOOLCHAIN=local
D=/verif/seeded/$PID
N=1; while [ -e "$D" ]; do N=$((N+1)); D=/verif/seeded/${PID}_$N; done
mkdir -p $D && cp -r $WT/SEED/* $D/
echo "== archived to $D"
if [ -n "$(git -C /repo status --porcelain)" ]; then echo "/repo is dirty, abort"; exit 2; fi
git -C /repo apply --check $D/patch.diff || { echo "patch does not apply"; exit 2; }
git -C /repo apply $D/patch.diff
for c in $CHECKS; do
  echo "== mutant: check $c"; (cd /verif && ./check $c --tier quick > $D/check_$c.out 2>&1; echo "exit $?" >> $D/check_$c.out; tail -4 $D/check_$c.out | cut -c1-400)
done
git -C /repo checkout -- . && git -C /repo status --porcelain
