"""C19 — messages, records and genesis survive binary and JSON encoding unchanged.  Plug-in for /verif/check.

C19 is claimed PARTIAL:
  * proof  (coq/theories/Props/C19.v, re-checked by check through `make theories/Props/C19.vo`): the hand-written codec
    code — Status <-> JSON over tables regenerated from types/status.go + types/status.pb.go by translator/status2coq.py,
    EthereumHash bytes/hex/JSON.
  * monitor (this file, `harness codec`): the gogoproto-GENERATED binary codec and jsonpb are not modelled; generated
    values of every message type registered under `sentinel.` are round-tripped through the chain's own codec, plus the
    AppModule genesis entry points and the transaction JSON file flow.
  * correspondence (this file): what the real code computes (`harness codec -dump`: Status(x).String(), the JSON text
    jsonpb writes for a Status field, what it accepts back, the registered Status_value table at run time,
    StatusFromString, BytesToHash, EthereumHash JSON) is compared with the Coq model by evaluating the model inside
    Coq (vm_compute) on the dumped inputs.
"""
import hashlib
import json
import os
import re
import subprocess
import sys
import time

sys.path.insert(0, os.path.dirname(os.path.abspath(__file__)))

REPO = os.environ.get("VERIF_REPO", "/repo")
PLAN = {"quick": {"n": 25, "gh": 4, "gb": 16}, "thorough": {"n": 2500, "gh": 150, "gb": 24}}

COQ_FILES = ["theories/Gen/StatusTables.v", "theories/Model/StatusCodec.v", "theories/Model/HashCodec.v"]


def _sh(cmd, cwd=None, env=None, log=None, timeout=3600):
    e = dict(os.environ)
    if env:
        e.update(env)
    p = subprocess.run(cmd, shell=True, cwd=cwd, stdout=subprocess.PIPE, stderr=subprocess.STDOUT, text=True, env=e, timeout=timeout)
    if log:
        with open(log, "a") as f:
            f.write("$ %s\n%s\n" % (cmd, p.stdout[-3000:]))
    return p.returncode, p.stdout


def _write_replay(V, tag, body, ext="json"):
    d = os.path.join(V, "out", "replay")
    os.makedirs(d, exist_ok=True)
    if not isinstance(body, str):
        body = json.dumps(body, indent=1, sort_keys=True)
    p = os.path.join(d, "C19-%s-%s.%s" % (tag, hashlib.sha256(body.encode()).hexdigest()[:10], ext))
    open(p, "w").write(body)
    return p


def build(V, log):
    """the model files must be compiled for the correspondence (check normally did that through the C19 proof cone)"""
    coq = os.path.join(V, "coq")
    need = [f for f in COQ_FILES if not os.path.exists(os.path.join(coq, f[:-2] + ".vo"))
            or os.path.getmtime(os.path.join(coq, f[:-2] + ".vo")) < os.path.getmtime(os.path.join(coq, f))]
    if not need:
        return True, ""
    for f in COQ_FILES:
        if not os.path.exists(os.path.join(coq, f)):
            return False, "missing " + f
        rc, out = _sh("timeout 600 coqc -Q theories Hub %s" % f, cwd=coq, log=log)
        if rc != 0:
            return False, "cannot compile %s: %s" % (f, out[-400:])
    return True, ""


# ------------------------------------------------------------------------------------------------
# correspondence: the dump of the real code against the Coq model, evaluated inside Coq
# ------------------------------------------------------------------------------------------------
def _nl(hexs):
    b = bytes.fromhex("" if hexs == "-" else hexs)
    return "[" + "; ".join("%d" % x for x in b) + "]%N"


def _z(n):
    n = int(n)
    return "(%d)" % n if n < 0 else "%d" % n


def make_cases_v(dump_path):
    """returns (text of the .v file, list of check names in the order of the Eval commands, number of cases)"""
    groups = {k: [] for k in ("status_value", "status_name", "status_string", "status_valid", "status_print", "status_parse",
                              "status_from_string", "hash_bytes", "hash_marshal", "hash_json_m", "hash_json_u")}
    extra = []
    for line in open(dump_path):
        t = line.split()
        if not t:
            continue
        if t[0] in groups:
            groups[t[0]].append(t[1:])
        else:
            extra.append(line.strip())
    L = []
    A = L.append
    A("From Coq Require Import ZArith NArith String Ascii List Bool.")
    A("From Hub Require Import Gen.StatusTables Model.StatusCodec Model.HashCodec.")
    A("Import ListNotations.")
    A("Local Open Scope Z_scope.")
    A("Definition S (l : list N) : string := string_of_list_ascii (map ascii_of_N l).")
    A("Definition L (s : string) : list N := map N_of_ascii (list_ascii_of_string s).")
    A("Definition oz (a b : option Z) : bool := match a, b with Some x, Some y => Z.eqb x y | None, None => true | _, _ => false end.")
    A("Definition ln (a b : list N) : bool := if list_eq_dec N.eq_dec a b then true else false.")
    names = []

    def group(name, typ, items, pred, render=None):
        A("Definition cases_%s : list (%s) := [%s]." % (name, typ, "; ".join(items)))
        A("Definition bad_%s := filter (fun p => negb (%s)) cases_%s." % (name, pred, name))
        names.append(name)

    group("status_value", "list N * Z", ["(%s, %s)" % (_nl(a), _z(b)) for a, b in groups["status_value"]],
          "oz (assoc_s (S (fst p)) status_value_runtime) (Some (snd p))")
    # every key of the model's table exists at run time
    A("Definition runtime_keys : list string := map (fun p => S (fst p)) cases_status_value.")
    A("Definition bad_model_keys := filter (fun p => negb (existsb (String.eqb (fst p)) runtime_keys)) status_value_runtime.")
    group("status_name", "Z * list N", ["(%s, %s)" % (_z(a), _nl(b)) for a, b in groups["status_name"]],
          "match assoc_z (fst p) status_name_pb with Some s => String.eqb s (S (snd p)) | None => false end")
    A("Definition bad_name_count := if Nat.eqb (length status_name_pb) (length cases_status_name) then @nil nat else [length status_name_pb].")
    group("status_string", "Z * list N", ["(%s, %s)" % (_z(a), _nl(b)) for a, b in groups["status_string"]],
          "String.eqb (status_string (fst p)) (S (snd p))")
    group("status_valid", "Z * bool", ["(%s, %s)" % (_z(a), b) for a, b in groups["status_valid"]],
          "Bool.eqb (status_is_valid (fst p)) (snd p)")
    group("status_print", "Z * list N", ["(%s, %s)" % (_z(a), _nl(b)) for a, b in groups["status_print"]],
          "String.eqb (print_status_json (fst p)) (S (snd p))")
    group("status_parse", "list N * option Z", ["(%s, %s)" % (_nl(x[0]), "Some %s" % _z(x[2]) if x[1] == "ok" else "None") for x in groups["status_parse"]],
          "oz (parse_status_json (S (fst p))) (snd p)")
    group("status_from_string", "list N * Z", ["(%s, %s)" % (_nl(a), _z(b)) for a, b in groups["status_from_string"]],
          "Z.eqb (status_from_string (S (fst p))) (snd p)")
    group("hash_bytes", "list N * list N", ["(%s, %s)" % (_nl(a), _nl(b)) for a, b in groups["hash_bytes"]],
          "ln (bytes_to_hash (fst p)) (snd p)")
    group("hash_marshal", "list N * list N", ["(%s, %s)" % (_nl(a), _nl(b)) for a, b in groups["hash_marshal"]],
          "ln (hash_marshal (fst p)) (snd p)")
    group("hash_json_m", "list N * list N", ["(%s, %s)" % (_nl(a), _nl(b)) for a, b in groups["hash_json_m"]],
          "String.eqb (hash_marshal_json (fst p)) (S (snd p))")
    group("hash_json_u", "list N * option (list N)",
          ["(%s, %s)" % (_nl(x[0]), "Some %s" % _nl(x[2]) if x[1] == "ok" else "None") for x in groups["hash_json_u"]],
          "match hash_unmarshal_json (S (fst p)), snd p with JOk a, Some b => ln a b | JErr, None => true | JOutside, _ => true | _, _ => false end")
    A("Definition outside_count := length (filter (fun p => match hash_unmarshal_json (S (fst p)) with JOutside => true | _ => false end) cases_hash_json_u).")
    evals = names + ["model_keys", "name_count"]
    for n in names:
        A("Eval vm_compute in bad_%s." % n)
    A("Eval vm_compute in (map fst bad_model_keys).")
    A("Eval vm_compute in bad_name_count.")
    A("Eval vm_compute in outside_count.")
    ncases = sum(len(v) for v in groups.values())
    return "\n".join(L) + "\n", evals, ncases, extra


def correspondence(V, d, dump_path, log):
    findings = []
    stats = {}
    text, evals, ncases, extra = make_cases_v(dump_path)
    stats["model_cases"] = ncases
    vpath = os.path.join(d, "C19Cases.v")
    open(vpath, "w").write(text)
    rc, out = _sh("timeout 600 coqc -Q %s Hub -Q %s C19Run C19Cases.v" % (os.path.join(V, "coq", "theories"), d), cwd=d, log=log)
    if rc != 0:
        findings.append({"what": "the model could not be evaluated on the dumped cases: %s" % out[-300:],
                         "replay": _write_replay(V, "model-run", {"coqc": out[-2000:]}), "concrete": False, "key": "model-run"})
        return findings, stats
    # split the output into the results of the Eval commands
    chunks = re.split(r"^\s*= ", out, flags=re.M)[1:]
    if len(chunks) != len(evals) + 1:
        findings.append({"what": "unexpected output of the model evaluation (%d results for %d checks)" % (len(chunks), len(evals) + 1),
                         "replay": _write_replay(V, "model-run", {"coqc": out[-2000:]}), "concrete": False, "key": "model-run"})
        return findings, stats
    for name, ch in zip(evals, chunks):
        val = ch.split("\n     :")[0].strip()
        if val.startswith("[]"):
            continue
        # a case on which the real code and the model disagree: a concrete input
        findings.append({"what": "the hand-written codec no longer behaves as the proved model (%s): disagreeing cases (input bytes, implementation result): %s" %
                                 (name, " ".join(val.split())[:400]),
                         "replay": _write_replay(V, "model-" + name, {"check": name, "disagreeing_cases": " ".join(val.split()),
                                                                        "dump_lines": [l for l in open(dump_path) if l.startswith(name.replace("model_keys", "status_value").replace("name_count", "status_name"))][:200]}),
                         "concrete": True, "key": "model:" + name})
    m = re.match(r"\s*(\d+)", chunks[-1])
    stats["hash_json_inputs_outside_model"] = int(m.group(1)) if m else -1
    for e in extra:
        findings.append({"what": "dump reports: " + e, "replay": _write_replay(V, "dump", {"line": e}), "concrete": True, "key": "dump"})
    return findings, stats


# ------------------------------------------------------------------------------------------------
def run(tier, seed, V, log):
    t0 = time.time()
    d = os.path.join(V, "out", "c19-run")
    os.makedirs(d, exist_ok=True)
    for f in os.listdir(d):
        try:
            os.remove(os.path.join(d, f))
        except OSError:
            pass
    findings = []
    stats = {}
    plan = PLAN[tier]

    # 1. translator: must still understand the source, and the tables in the tree must be the ones it produces now
    tr = os.path.join(V, "translator", "status2coq.py")
    tmp_tables = os.path.join(d, "StatusTables.v")
    rc, out = _sh("python3 %s --repo %s --out %s" % (tr, REPO, tmp_tables), log=log)
    if rc != 0:
        findings.append({"what": "translator status2coq cannot translate the current types/status.go / status.pb.go: %s" % out.strip()[-300:],
                         "replay": _write_replay(V, "translator", {"output": out[-2000:]}), "concrete": False, "key": "translator"})
    else:
        cur = os.path.join(V, "coq", "theories", "Gen", "StatusTables.v")
        same = os.path.exists(cur) and open(cur).read() == open(tmp_tables).read()
        stats["tables_fresh"] = int(same)
        if not same:
            findings.append({"what": "coq/theories/Gen/StatusTables.v is not what the translator produces from the current source (stale generated file)",
                             "replay": _write_replay(V, "translator", {"expected": open(tmp_tables).read()}), "concrete": False, "key": "stale-tables"})

    # 2. round-trip monitor on the real codec + dump
    harness = os.path.join(V, "harness", "bin", "harness")
    outp, dump, samples_p = os.path.join(d, "codec.txt"), os.path.join(d, "dump.txt"), os.path.join(d, "samples.txt")
    rc, out = _sh("%s codec -seed %d -n %d -genesis-histories %d -genesis-blocks %d -out %s -dump %s -samples %s" %
                  (harness, seed, plan["n"], plan["gh"], plan["gb"], outp, dump, samples_p), log=log, timeout=3000)
    cases = fails = 0
    types = set()
    samples = []
    if rc != 0 or not os.path.exists(outp):
        findings.append({"what": "codec monitor did not run: %s" % out[-300:], "replay": _write_replay(V, "run-error", {"output": out[-2000:]}),
                         "concrete": False, "key": "run-error"})
    else:
        m = re.search(r"stats=(\{.*\})", out)
        if m:
            try:
                stats.update(json.loads(m.group(1)))
            except ValueError:
                pass
        by_key = {}
        for line in open(outp, errors="replace"):
            t = line.split(" ", 3)
            if len(t) < 3:
                continue
            if t[2].strip() == "NOTE" or t[2].startswith("NOTE"):
                stats["note." + t[0] + "." + t[1]] = 1
                continue
            cases += 1
            types.add(t[0])
            if t[2].strip() == "ok":
                continue
            fails += 1
            by_key.setdefault((t[0], t[1]), []).append(line)
        for (typ, kind), lines in sorted(by_key.items())[:25]:
            detail = lines[0].split(" ", 4)[3] if len(lines[0].split(" ", 4)) > 3 else ""
            rp = _write_replay(V, "codec", "".join(lines[:5]), ext="txt")
            findings.append({"what": "%s does not survive %s encoding (%d of the generated values): %s" % (typ, kind, len(lines), detail[:300]),
                             "replay": rp, "concrete": True, "key": "codec:%s:%s" % (typ, kind)})
        if os.path.exists(samples_p):
            samples = [l.strip()[:400] for l in open(samples_p, errors="replace").readlines()[:6]]
        stats["types"] = len(types)
        stats["cases"] = cases
        stats["failing_cases"] = fails

        # 3. correspondence of the hand-written codec model
        ok, err = build(V, log)
        if not ok:
            findings.append({"what": "model files do not compile: " + err[:300], "replay": _write_replay(V, "model-build", {"error": err}),
                             "concrete": False, "key": "model-build"})
        elif os.path.exists(dump):
            f3, s3 = correspondence(V, d, dump, log)
            findings += f3
            stats.update(s3)
    stats["wall_s"] = int(time.time() - t0)
    return {"findings": findings, "histories": plan["gh"], "ops": cases + stats.get("model_cases", 0), "nontrivial": cases, "stats": stats, "samples": samples,
            "level": "proof (hand-written codec) + monitor (generated codec): partial",
            "summary": "%d message types, %d round-trip cases (binary, JSON, interface, genesis, tx) all unchanged; %d model cases agree" %
                       (len(types), cases, stats.get("model_cases", 0)) if not findings else "%d finding(s)" % len(findings)}


def replay(path, V, log):
    """re-run the FAIL records of a replay file on the current tree"""
    d = os.path.join(V, "out", "c19-run")
    os.makedirs(d, exist_ok=True)
    if path.endswith(".json"):
        return {"findings": [{"what": "replay file names a broken obligation: " + open(path).read()[:300], "replay": path, "concrete": False, "key": "obligation"}],
                "histories": 0, "ops": 0, "nontrivial": 0, "stats": {}, "samples": [], "summary": ""}
    outp = os.path.join(d, "replay.txt")
    rc, out = _sh("%s codec -replay %s -out %s" % (os.path.join(V, "harness", "bin", "harness"), path, outp), log=log)
    findings = []
    n = 0
    if rc != 0:
        findings.append({"what": "replay did not run: " + out[-300:], "replay": path, "concrete": False, "key": "run-error"})
    else:
        for line in open(outp, errors="replace"):
            t = line.split(" ", 4)
            n += 1
            if len(t) > 2 and t[2].strip() != "ok":
                findings.append({"what": "%s does not survive %s encoding: %s" % (t[0], t[1], t[3][:300] if len(t) > 3 else ""), "replay": path,
                                 "concrete": True, "key": "codec:%s:%s" % (t[0], t[1])})
    return {"findings": findings, "histories": 0, "ops": n, "nontrivial": n, "stats": {}, "samples": [], "summary": "replayed %d checks" % n}


if __name__ == "__main__":
    V = os.environ.get("VERIF_DIR", os.path.dirname(os.path.dirname(os.path.abspath(__file__))))
    tier = sys.argv[1] if len(sys.argv) > 1 else "quick"
    if tier == "replay":
        r = replay(sys.argv[2], V, None)
    else:
        seed = int(sys.argv[2]) if len(sys.argv) > 2 else 1
        ok, err = build(V, None)
        if not ok:
            print("build failed:", err)
        r = run(tier, seed, V, os.path.join(V, "out", "ext_c19.log"))
    print(json.dumps(r, indent=1))
