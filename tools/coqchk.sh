#!/bin/bash
# Re-check every compiled property file (and everything it depends on) with Coq's independent checker and list the axioms.
# Usage: tools/coqchk.sh   (expects a complete `make` in coq/; writes evidence/coqchk.txt)
cd "$(dirname "$0")/../coq" || exit 2
mods=$(ls theories/Props/C*.v | sed 's#theories/Props/\(.*\)\.v#Hub.Props.\1#' | tr '\n' ' ')
out=../evidence/coqchk.txt
{ echo "# coqchk -silent -o -Q theories Hub $mods"; echo "# tree: $(cd .. && git rev-parse --short HEAD) $(date -u +%FT%TZ)"; } > $out
( time timeout 7200 coqchk -silent -o -Q theories Hub $mods ) >> $out 2>&1
echo "exit $?" >> $out
tail -25 $out
