"""C10 — state transitions are deterministic.  Plug-in for /verif/check (see out/AGENT_BRIEF.md).

Level: translation validation.  programs = histories x processes.

 (1) `harness digest` is run in N separate processes (quick 3, thorough 8) on the very histories of the main
     correspondence run (same shard seeds, same per-history PRNG seeding as `harness gen`), each process with a
     different GOMAXPROCS / GOGC / GODEBUG setting and a different amount of background scheduler+collector
     noise (and, being a fresh process, a different map-iteration seed).  Each writes per operation a SHA-256
     over every KV pair of every mounted store, a SHA-256 of the ordered ABCI event list and, at the end of a
     block, the app hash.  The files are compared byte for byte.  A difference is a concrete finding; the
     replay file is the history prefix up to the first differing operation in gen/replay syntax.
 (2) `harness scan` (go/parser + go/types) lists every map range, time.Now, math/rand, go statement, select,
     channel operation, float, unsafe, environment read in the non-test, non-generated, non-CLI hub sources.
     Every site must be in WHITELIST below (keyed by kind, file, function and expression text, not by line);
     a site that is not listed is a finding without a failing input (it names the site).
"""
import hashlib
import json
import os
import re
import subprocess
import sys
import time

sys.path.insert(0, os.path.dirname(os.path.abspath(__file__)))

REPO = os.environ.get("VERIF_REPO", "/repo")

# must follow TIERS of /verif/check so that the digested histories are those of the main correspondence run
MAIN = {"quick": {"hist": 14, "blocks": 22}, "thorough": {"hist": 150, "blocks": 26}}
PLAN = {"quick": {"procs": 3, "shards": 6}, "thorough": {"procs": 8, "shards": 12}}

# process settings; the first one is the reference
SETTINGS = [
    {"GOMAXPROCS": "1", "GOGC": "100", "GODEBUG": "", "noise": 0},
    {"GOMAXPROCS": "4", "GOGC": "5", "GODEBUG": "gcstoptheworld=1", "noise": 4, "order": "reverse"},
    {"GOMAXPROCS": "16", "GOGC": "400", "GODEBUG": "asyncpreemptoff=1", "noise": 0},
    {"GOMAXPROCS": "16", "GOGC": "10", "GODEBUG": "madvdontneed=1", "noise": 16},
    {"GOMAXPROCS": "4", "GOGC": "50", "GODEBUG": "gcshrinkstackoff=1", "noise": 1},
    {"GOMAXPROCS": "1", "GOGC": "5", "GODEBUG": "", "noise": 2, "order": "reverse"},
    {"GOMAXPROCS": "16", "GOGC": "200", "GODEBUG": "gcstoptheworld=2,asyncpreemptoff=1", "noise": 8},
    {"GOMAXPROCS": "4", "GOGC": "25", "GODEBUG": "scavtrace=0", "noise": 3},
]

# (kind, file, function, text) -> reason.  Reviewed on the unchanged tree.
WHITELIST = {
    ("map-range", "types/status.go", "init", "range Status_name"):
        "registers the printed Status names as JSON parse aliases; the printed names of the declared values are pairwise distinct, "
        "so the resulting table does not depend on the order (Coq: C19_status_json_roundtrip_any_init_order / status_value_runtime_order_independent); "
        "the table is used for JSON parsing only, never for state",
    ("map-range", "app/upgrade.go", "UpgradeHandler", "range keyTables"):
        "each iteration only attaches the key table of its own, distinct params subspace (WithKeyTable on a not-yet-initialised subspace); "
        "no store write, no event, iterations commute; a missing subspace aborts the upgrade whichever key is met first",
    ("ptr-print", "types/address.go", "(ProvAddress).Format", '"%p"'):
        "fmt.Formatter arm for the %p verb; reached only when a caller formats an address with %p, which no hub code does (the scan lists every %p literal)",
    ("ptr-print", "types/address.go", "(NodeAddress).Format", '"%p"'):
        "fmt.Formatter arm for the %p verb; reached only when a caller formats an address with %p, which no hub code does (the scan lists every %p literal)",
    ("global-write", "types/config.go", "(*Config).SetBech32PrefixForProvider", 'config.prefixes["provider_addr"] = addr'):
        "process configuration before the config is sealed (assert() panics once Seal() was called at start-up); not reachable from message handling or block hooks",
    ("global-write", "types/config.go", "(*Config).SetBech32PrefixForProvider", 'config.prefixes["provider_pub"] = pub'):
        "process configuration before the config is sealed; not reachable from message handling or block hooks",
    ("global-write", "types/config.go", "(*Config).SetBech32PrefixForNode", 'config.prefixes["node_addr"] = addr'):
        "process configuration before the config is sealed; not reachable from message handling or block hooks",
    ("global-write", "types/config.go", "(*Config).SetBech32PrefixForNode", 'config.prefixes["node_pub"] = pub'):
        "process configuration before the config is sealed; not reachable from message handling or block hooks",
    ("time-now", "types/test_utils.go", "(package level)", "Now"):
        "package-level test fixture TestTimeNow, referenced from *_test.go files only (checked on every run: GUARDS)",
}

# identifiers that must not be referenced from non-test sources for a whitelist entry to stay valid
GUARDS = {
    ("time-now", "types/test_utils.go", "(package level)", "Now"): ("TestTimeNow", "types/test_utils.go"),
}


def build(V, log):
    return True, ""


def _sh(cmd, env=None, log=None, timeout=3600):
    e = dict(os.environ)
    if env:
        e.update(env)
    p = subprocess.run(cmd, shell=True, stdout=subprocess.PIPE, stderr=subprocess.STDOUT, text=True, env=e, timeout=timeout)
    if log:
        with open(log, "a") as f:
            f.write("$ %s\n%s\n" % (cmd, p.stdout[-2000:]))
    return p.returncode, p.stdout


def _write_json_replay(V, tag, obj):
    d = os.path.join(V, "out", "replay")
    os.makedirs(d, exist_ok=True)
    body = json.dumps(obj, indent=1, sort_keys=True)
    p = os.path.join(d, "C10-%s-%s.json" % (tag, hashlib.sha256(body.encode()).hexdigest()[:10]))
    open(p, "w").write(body)
    return p


def _history_prefix(ops_path, h, upto):
    try:
        import props
        return props.history_prefix(ops_path, h, upto)
    except Exception:
        out, cur, idx = [], None, 0
        for line in open(ops_path):
            t = line.split()
            if not t:
                continue
            if t[0] == "H":
                cur, idx = int(t[1]), 0
                if cur == h:
                    out.append(line)
                continue
            if cur != h:
                continue
            if t[0] == "G":
                out.append(line)
                continue
            idx += 1
            if idx > upto:
                break
            out.append(line)
        return out


def _write_ops_replay(V, tag, lines, meta):
    try:
        import props
        return props.write_replay(V, "C10", tag, lines, meta)
    except Exception:
        d = os.path.join(V, "out", "replay")
        os.makedirs(d, exist_ok=True)
        body = "".join(lines)
        hh = hashlib.sha256((body + json.dumps(meta, sort_keys=True)).encode()).hexdigest()[:10]
        p = os.path.join(d, "C10-%s-%s.ops" % (tag, hh))
        with open(p, "w") as f:
            f.write("# replay for C10: %s\n" % json.dumps(meta, sort_keys=True))
            f.write(body)
        return p


def _env_of(s):
    env = {"GOMAXPROCS": s["GOMAXPROCS"], "GOGC": s["GOGC"]}
    if s["GODEBUG"]:
        env["GODEBUG"] = s["GODEBUG"]
    return env


def _label(s):
    return "GOMAXPROCS=%s GOGC=%s GODEBUG=%s noise=%d%s" % (s["GOMAXPROCS"], s["GOGC"], s["GODEBUG"] or "-", s["noise"],
                                                            " histories in reverse order" if s.get("order") == "reverse" else "")


def _first_difference(a_path, b_path):
    """(line number, line a, line b) of the first differing line, or None"""
    with open(a_path) as fa, open(b_path) as fb:
        n = 0
        while True:
            la, lb = fa.readline(), fb.readline()
            n += 1
            if la != lb:
                return n, la.rstrip("\n"), lb.rstrip("\n")
            if not la:
                return None


def _run_digests(V, d, shard_args, nprocs, log):
    """shard_args: {shard_id: "<args of harness digest except -out/-ops/-noise>"}.
    Runs nprocs x len(shard_args) processes (bounded parallelism); returns {shard: [paths per process]}, errors"""
    harness = os.path.join(V, "harness", "bin", "harness")
    pending = []
    for k, a in shard_args.items():
        for pi in range(nprocs):
            s = SETTINGS[pi % len(SETTINGS)]
            out = os.path.join(d, "digest.%s.p%d.txt" % (k, pi))
            cmd = "%s digest %s -out %s -noise %d" % (harness, a, out, s["noise"])
            if s.get("order") == "reverse":
                # the same histories, executed in the opposite order inside the process: a result that depends on what the
                # process did before (a package-level cache, a counter) shows as a different digest of the same history
                cmd += " -order reverse"
            if pi == 0:
                cmd += " -ops %s" % os.path.join(d, "digest.%s.ops" % k)
            pending.append((k, pi, cmd, _env_of(s), out))
    outs = {k: [None] * nprocs for k in shard_args}
    errors = []
    running = []
    ncpu = os.cpu_count() or 4
    limit = max(2, min(16, ncpu))
    while pending or running:
        while pending and len(running) < limit:
            k, pi, cmd, env, out = pending.pop(0)
            e = dict(os.environ)
            e.update(env)
            p = subprocess.Popen(cmd, shell=True, stdout=subprocess.PIPE, stderr=subprocess.STDOUT, text=True, env=e)
            running.append((k, pi, cmd, out, p))
        still = []
        for k, pi, cmd, out, p in running:
            if p.poll() is None:
                still.append((k, pi, cmd, out, p))
                continue
            o = p.stdout.read()
            if p.returncode != 0:
                errors.append("digest process %s/p%d failed (%s): %s" % (k, pi, cmd, o[-400:]))
            else:
                outs[k][pi] = out
        running = still
        if running:
            time.sleep(0.05)
    if log:
        with open(log, "a") as f:
            f.write("ext_c10: %d digest processes, %d errors\n" % (nprocs * len(shard_args), len(errors)))
    return outs, errors


EMPTY_SHA = hashlib.sha256(b"").hexdigest()


def _evaluate(V, d, outs, errors, seeds, nprocs):
    findings = []
    ops = hist = nontriv = 0
    stats = {"processes": nprocs, "process_runs": 0, "digest_lines_compared": 0, "blocks_with_events": 0}
    samples = []
    for e in errors[:3]:
        findings.append({"what": e[:400], "replay": _write_json_replay(V, "run-error", {"error": e}), "concrete": False, "key": "run-error"})
    for k, paths in sorted(outs.items()):
        ref = paths[0]
        if ref is None:
            continue
        ops_path = os.path.join(d, "digest.%s.ops" % k)
        nt = set()
        hs = set()
        with open(ref) as f:
            for line in f:
                t = line.split()
                ops += 1
                hs.add(t[0])
                if t[2] in ("B", "E") and len(t) > 6 and int(t[6]) >= 2:
                    nt.add(t[0])
                    stats["blocks_with_events"] += 1
                stats["op." + t[2].split(":")[0] + "." + t[3]] = stats.get("op." + t[2].split(":")[0] + "." + t[3], 0) + 1
        hist += len(hs)
        nontriv += len(nt)
        if not samples:
            samples = [l.rstrip("\n") for l in open(ref).readlines()[:8]]
        for pi, pth in enumerate(paths):
            if pth is None:
                continue
            stats["process_runs"] += 1
            if pi == 0:
                continue
            stats["digest_lines_compared"] += sum(1 for _ in open(ref))
            diff = _first_difference(ref, pth)
            if diff is None:
                continue
            n, la, lb = diff
            ta = (la or lb).split()
            h, i = int(ta[0]), int(ta[1])
            what_part = "stored state"
            fa, fb = la.split(), lb.split()
            if len(fa) >= 6 and len(fb) >= 6 and fa[:4] == fb[:4]:
                if fa[4] == fb[4] and fa[5] != fb[5]:
                    what_part = "event list"
                elif fa[4] != fb[4] and fa[5] != fb[5]:
                    what_part = "stored state and event list"
            elif fa[:4] != fb[:4]:
                what_part = "result of the operation"
            lines = _history_prefix(ops_path, h, i) if os.path.exists(ops_path) else []
            meta = {"property": "C10", "what": "two executions of the same history differ", "history": h, "op_index": i, "shard_seed": seeds.get(k),
                    "reference": {"settings": _label(SETTINGS[0]), "line": la}, "other": {"settings": _label(SETTINGS[pi % len(SETTINGS)]), "line": lb},
                    "how_to_rerun": "harness digest -replay <this file> -out A   (twice, in two processes) and compare A"}
            rp = _write_ops_replay(V, "nondet", lines, meta)
            op = ta[2] if len(ta) > 2 else "?"
            findings.append({"what": "same history, different %s: history %d of seed %s, operation %d (%s): process [%s] and process [%s] disagree" %
                             (what_part, h, seeds.get(k), i, op, _label(SETTINGS[0]), _label(SETTINGS[pi % len(SETTINGS)])),
                             "replay": rp, "concrete": True, "key": "nondet:" + op.split(":")[-1]})
            break   # one finding per shard is enough
    return findings, ops, hist, nontriv, stats, samples


def scan_sources(V, d, log):
    """returns (findings, stats)"""
    harness = os.path.join(V, "harness", "bin", "harness")
    out = os.path.join(d, "scan.txt")
    rc, o = _sh("%s scan -repo %s -out %s" % (harness, REPO, out), log=log,
                env={"GOFLAGS": "-mod=mod", "GOPROXY": "off", "GOSUMDB": "off", "GOTOOLCHAIN": "local"})
    findings = []
    stats = {"scan_sites": 0, "scan_whitelisted": 0, "scan_files": 0}
    if rc != 0 or not os.path.exists(out):
        findings.append({"what": "source scan could not run: %s" % o[-300:], "replay": _write_json_replay(V, "scan-error", {"output": o[-2000:]}),
                         "concrete": False, "key": "scan-error"})
        return findings, stats
    used = set()
    for line in open(out):
        line = line.rstrip("\n")
        if line.startswith("#"):
            m = re.search(r"(\d+) files", line)
            if m:
                stats["scan_files"] = int(m.group(1))
            continue
        parts = line.split("\t")
        if len(parts) != 4:
            continue
        kind, loc, fn, text = parts
        file = loc.rsplit(":", 1)[0]
        stats["scan_sites"] += 1
        key = (kind, file, fn, text)
        if key in WHITELIST:
            used.add(key)
            g = GUARDS.get(key)
            if g:
                ident, deffile = g
                hits = _non_test_references(ident, deffile)
                if hits:
                    findings.append({"what": "non-deterministic value %s (%s) is now referenced from non-test code: %s" % (ident, loc, ", ".join(hits[:3])),
                                     "replay": _write_json_replay(V, "scan", {"site": line, "references": hits}), "concrete": False,
                                     "key": "scan:%s:%s:%s" % (kind, file, fn)})
                    continue
            stats["scan_whitelisted"] += 1
            continue
        findings.append({"what": "construct that can differ between executions (%s) at %s in %s: %s" % (kind, loc, fn, text),
                         "replay": _write_json_replay(V, "scan", {"site": line, "kind": kind, "file": file, "function": fn, "text": text,
                                                                     "note": "not in the reviewed whitelist of tools/ext_c10.py"}),
                         "concrete": False, "key": "scan:%s:%s:%s" % (kind, file, fn)})
    return findings, stats


def _non_test_references(ident, deffile):
    hits = []
    pat = re.compile(r"\b%s\b" % re.escape(ident))
    for top in ("x", "types", "utils", "app", "cmd"):
        for root, _, files in os.walk(os.path.join(REPO, top)):
            for fn in files:
                if not fn.endswith(".go") or fn.endswith("_test.go"):
                    continue
                p = os.path.join(root, fn)
                rel = os.path.relpath(p, REPO)
                for n, line in enumerate(open(p, errors="replace"), 1):
                    if pat.search(line):
                        if rel == deffile and re.search(r"\b%s\s*=" % re.escape(ident), line):
                            continue
                        hits.append("%s:%d" % (rel, n))
    return hits


def run(tier, seed, V, log):
    t0 = time.time()
    d = os.path.join(V, "out", "c10-run")
    os.makedirs(d, exist_ok=True)
    for f in os.listdir(d):
        try:
            os.remove(os.path.join(d, f))
        except OSError:
            pass
    cfg, plan = MAIN[tier], PLAN[tier]
    shard_args, seeds = {}, {}
    for k in range(plan["shards"]):
        s = seed * 1000 + k
        seeds[str(k)] = s
        shard_args[str(k)] = "-seed %d -n %d -blocks %d" % (s, cfg["hist"], cfg["blocks"])
    outs, errors = _run_digests(V, d, shard_args, plan["procs"], log)
    findings, ops, hist, nontriv, stats, samples = _evaluate(V, d, outs, errors, seeds, plan["procs"])
    # do the digested histories coincide with those of `harness gen` (the main correspondence run)?  informational
    try:
        harness = os.path.join(V, "harness", "bin", "harness")
        g_ops, g_obs = os.path.join(d, "gen.0.ops"), os.path.join(d, "gen.0.obs")
        n_chk = min(cfg["hist"], 6)
        rc, _ = _sh("%s gen -seed %d -n %d -blocks %d -ops %s -obs %s" % (harness, seeds["0"], n_chk, cfg["blocks"], g_ops, g_obs), log=log)
        rc2, _ = _sh("%s digest -seed %d -n %d -blocks %d -out %s -ops %s" % (harness, seeds["0"], n_chk, cfg["blocks"],
                                                                              os.path.join(d, "chk.txt"), os.path.join(d, "chk.ops")), log=log)
        stats["histories_coincide_with_gen"] = int(rc == 0 and rc2 == 0 and open(g_ops).read() == open(os.path.join(d, "chk.ops")).read())
        for f in (g_obs,):
            os.remove(f)
    except Exception:
        stats["histories_coincide_with_gen"] = 0
    f2, s2 = scan_sources(V, d, log)
    findings += f2
    stats.update(s2)
    stats["wall_s"] = int(time.time() - t0)
    programs = hist * plan["procs"]
    return {"findings": findings, "histories": hist, "ops": ops * plan["procs"], "nontrivial": nontriv, "stats": stats, "samples": samples,
            "level": "translation_validation", "programs": programs, "disagreements_checked": stats["digest_lines_compared"],
            "summary": "%d histories x %d processes (%d programs): %d per-operation digests (all KV pairs, event list, app hash) identical; "
                       "source scan: %d files, %d sites, all %d reviewed" %
                       (hist, plan["procs"], programs, stats["digest_lines_compared"], stats["scan_files"], stats["scan_sites"], stats["scan_whitelisted"])
            if not findings else "%d finding(s)" % len(findings)}


def replay(path, V, log, nprocs=32):
    """re-run one replay file (history prefix in gen/replay syntax) in nprocs processes and compare"""
    d = os.path.join(V, "out", "c10-run")
    os.makedirs(d, exist_ok=True)
    if path.endswith(".json"):
        return {"findings": [{"what": "replay file names a source site, not a history: " + open(path).read()[:300], "replay": path, "concrete": False, "key": "scan"}],
                "histories": 0, "ops": 0, "nontrivial": 0, "stats": {}, "samples": [], "summary": ""}
    outs, errors = _run_digests(V, d, {"replay": "-replay %s" % path}, nprocs, log)
    findings, ops, hist, nontriv, stats, samples = _evaluate(V, d, outs, errors, {"replay": "replay"}, nprocs)
    for f in findings:
        if f["concrete"]:
            f["replay"] = path
    return {"findings": findings, "histories": hist, "ops": ops * nprocs, "nontrivial": nontriv, "stats": stats, "samples": samples,
            "summary": "replayed %d operations in %d processes" % (ops, nprocs)}


if __name__ == "__main__":
    V = os.environ.get("VERIF_DIR", os.path.dirname(os.path.dirname(os.path.abspath(__file__))))
    tier = sys.argv[1] if len(sys.argv) > 1 else "quick"
    seed = int(sys.argv[2]) if len(sys.argv) > 2 and tier != "replay" else 1
    if tier == "replay":
        r = replay(sys.argv[2], V, None)
    else:
        r = run(tier, seed, V, os.path.join(V, "out", "ext_c10.log"))
    print(json.dumps(r, indent=1))
