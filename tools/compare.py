#!/usr/bin/env python3
"""Compare the implementation's observation stream with the model's, section by section.

usage: compare.py impl_obs.jsonl model_obs.jsonl [--max N]
Prints one JSON object: {"ops":n, "histories":n, "mismatches":[{h,i,op,section,impl,model}...], "sections": {...counts}}
Set-like arrays are sorted before comparison; event lists keep their order.
"""
import json, sys

SETLIKE = {"prov", "node", "plan", "sub", "alloc", "payout", "sess", "swap", "infl"}

def canon(x):
    return json.dumps(x, sort_keys=True)

def norm_ev(evs):
    out = []
    for name, vals in evs:
        nv = []
        for v in vals:
            if "c" in v and isinstance(v["c"], list):
                v = {"c": sorted([c for c in v["c"] if str(c[1]) not in ("0",)], key=canon)}
            nv.append(v)
        out.append([name, nv])
    return out

def norm_state(st):
    out = {}
    for k, v in st.items():
        if k in SETLIKE:
            out[k] = sorted(v, key=canon)
        elif k == "ix":
            out[k] = {n: sorted(l, key=canon) for n, l in v.items()}
        else:
            out[k] = v
    return out

def sections(st):
    """flatten a state into comparable sections"""
    s = {}
    for k, v in st.items():
        if k == "ix":
            for n, l in v.items():
                s["ix." + n] = l
        else:
            s[k] = v
    return s

def main():
    impl_path, model_path = sys.argv[1], sys.argv[2]
    maxm = 50
    if "--max" in sys.argv:
        maxm = int(sys.argv[sys.argv.index("--max") + 1])
    mism = []
    counts = {}
    nops = 0
    hists = set()
    diverged = set()   # histories already diverged: later differences are consequences
    with open(impl_path) as fi, open(model_path) as fm:
        for li, lm in zip(fi, fm):
            a, b = json.loads(li), json.loads(lm)
            nops += 1
            hists.add(a["h"])
            if a["h"] in diverged:
                continue
            def rec(section, x, y):
                counts[section] = counts.get(section, 0) + 1
                if len(mism) < maxm:
                    mism.append({"h": a["h"], "i": a["i"], "op": a["op"], "section": section, "impl": x, "model": y,
                                 "err": a.get("err", "")})
                diverged.add(a["h"])
            if (a["h"], a["i"], a["op"]) != (b["h"], b["i"], b["op"]):
                rec("alignment", [a["h"], a["i"], a["op"]], [b["h"], b["i"], b["op"]])
                continue
            if a["res"] != b["res"]:
                rec("res", a["res"], b["res"])
                continue
            if a["res"] == "rej" and a.get("same") is False:
                rec("rejected_changed_state", False, True)
            if "st" in a and "st" in b:
                sa, sb = sections(norm_state(a["st"])), sections(norm_state(b["st"]))
                for k in sorted(set(sa) | set(sb)):
                    if canon(sa.get(k)) != canon(sb.get(k)):
                        rec("st." + k, sa.get(k), sb.get(k))
            ea, eb = norm_ev(a.get("ev", [])), norm_ev(b.get("ev", []))
            if canon(ea) != canon(eb):
                rec("ev", ea, eb)
    print(json.dumps({"ops": nops, "histories": len(hists), "diverged_histories": sorted(diverged),
                      "sections": counts, "mismatches": mism}, indent=1))

if __name__ == "__main__":
    main()
