#!/usr/bin/env python3
"""Compare the implementation's observation stream with the model's, section by section.

usage: compare.py impl_obs.jsonl model_obs.jsonl [--max N]
Prints one JSON object: {"ops":n, "histories":n, "mismatches":[{h,i,op,section,impl,model}...], "sections": {...counts}}
Set-like arrays are sorted before comparison; event lists keep their order.
"""
import json, sys

SETLIKE = {"prov", "node", "plan", "sub", "alloc", "payout", "sess", "swap", "infl"}

def canon(x):
    return json.dumps(x, sort_keys=True)

def norm_ev(evs):
    out = []
    for name, vals in evs:
        nv = []
        for v in vals:
            if "c" in v and isinstance(v["c"], list):
                v = {"c": sorted([c for c in v["c"] if str(c[1]) not in ("0",)], key=canon)}
            nv.append(v)
        out.append([name, nv])
    return out

def norm_state(st):
    out = {}
    for k, v in st.items():
        if k in SETLIKE:
            out[k] = sorted(v, key=canon)
        elif k == "ix":
            out[k] = {n: sorted(l, key=canon) for n, l in v.items()}
        else:
            out[k] = v
    return out

def sections(st):
    """flatten a state into comparable sections"""
    s = {}
    for k, v in st.items():
        if k == "ix":
            for n, l in v.items():
                s["ix." + n] = l
        else:
            s[k] = v
    return s

def app_norm(st, merge, swept, is_app):
    """keeper mode against app mode.  The SDK's distribution begin-blocker sweeps the fee collector into the distribution module
    account at the start of every block: what the fee collector held at the end of the previous block ([swept], taken from the
    keeper-mode stream) is moved on the keeper side before comparing, so both accounts are compared exactly.  The SDK mint
    begin-blocker recomputes the minter's current inflation every block: that field is dropped."""
    st = dict(st)
    if "mint" in st:
        st["mint"] = st["mint"][:3]
    if merge and "bal" in st and not is_app and swept:
        bal = {a: dict(m) for a, m in st["bal"].items()}
        fee, dis = merge
        for d, v in swept.items():
            f = int(bal.get(fee, {}).get(d, "0")) - v
            g = int(bal.get(dis, {}).get(d, "0")) + v
            for acc, val in ((fee, f), (dis, g)):
                m = bal.setdefault(acc, {})
                if val == 0:
                    m.pop(d, None)
                else:
                    m[d] = str(val)
                if not m:
                    bal.pop(acc, None)
        st["bal"] = bal
    return st


def main():
    impl_path, model_path = sys.argv[1], sys.argv[2]
    app = "--app" in sys.argv
    merge = []
    if app and "--ops" in sys.argv:
        for line in open(sys.argv[sys.argv.index("--ops") + 1]):
            t = line.split()
            if len(t) > 4 and t[0] == "G" and t[1] == "cfg":
                merge = [t[3], t[4]]
                break
    maxm = 50
    if "--max" in sys.argv:
        maxm = int(sys.argv[sys.argv.index("--max") + 1])
    mism = []
    counts = {}
    nops = 0
    hists = set()
    diverged = set()   # histories already diverged: later differences are consequences
    swept_by_h = {}
    with open(impl_path) as fi, open(model_path) as fm:
        for li, lm in zip(fi, fm):
            a, b = json.loads(li), json.loads(lm)
            nops += 1
            hists.add(a["h"])
            if a["h"] in diverged:
                continue
            def rec(section, x, y):
                counts[section] = counts.get(section, 0) + 1
                if len(mism) < maxm:
                    mism.append({"h": a["h"], "i": a["i"], "op": a["op"], "section": section, "impl": x, "model": y,
                                 "err": a.get("err", "")})
                diverged.add(a["h"])
            if (a["h"], a["i"], a["op"]) != (b["h"], b["i"], b["op"]):
                rec("alignment", [a["h"], a["i"], a["op"]], [b["h"], b["i"], b["op"]])
                continue
            if a["res"] != b["res"]:
                rec("res", a["res"], b["res"])
                continue
            if a["res"] == "rej" and a.get("same") is False:
                rec("rejected_changed_state", False, True)
            if "st" in a and "st" in b:
                if app:
                    if a["op"] == "G":
                        swept_by_h[a["h"]] = {}
                    raw_fee = {d: int(v) for d, v in (a["st"].get("bal", {}).get(merge[0], {}) if merge else {}).items()}
                    a["st"], b["st"] = app_norm(a["st"], merge, swept_by_h.get(a["h"], {}), False), app_norm(b["st"], merge, None, True)
                    if a["op"] in ("E", "G"):
                        swept_by_h[a["h"]] = raw_fee   # the next begin-blocker sweeps this
                sa, sb = sections(norm_state(a["st"])), sections(norm_state(b["st"]))
                for k in sorted(set(sa) | set(sb)):
                    if canon(sa.get(k)) != canon(sb.get(k)):
                        rec("st." + k, sa.get(k), sb.get(k))
            ea, eb = norm_ev(a.get("ev", [])), norm_ev(b.get("ev", []))
            if canon(ea) != canon(eb):
                rec("ev", ea, eb)
    print(json.dumps({"ops": nops, "histories": len(hists), "diverged_histories": sorted(diverged),
                      "sections": counts, "mismatches": mism}, indent=1))

if __name__ == "__main__":
    main()
