"""C14 plug-in: the key a swap record is STORED under against the key it is LOOKED UP under, for byte strings of any length.

The message server looks a hash up with SwapKey(BytesToHash(msg.TxHash)) (duplicate guard, queries) and SetSwap stores the record
under SwapKey(swap.GetTxHash()).  Stateless validation only admits 32-byte hashes, but the keeper and the genesis import do not
check the length, and the property quantifies over hashes that differ only in leading zero bytes.  The real functions are dumped
for generated inputs (all lengths 0..64, leading zeros added/removed) and
  * monitor (implementation alone): stored key = lookup key for every input;
  * correspondence: both equal the Coq model  swap_SwapKey (bytes_to_hash x)  (Gen/KeysGen.v regenerated from keys.go,
    Model/HashCodec.v), evaluated inside Coq by vm_compute.
"""
import hashlib
import json
import os
import re
import subprocess

COQ_FILES = ["theories/Base/Bytes.v", "theories/Gen/KeysGen.v", "theories/Model/HashCodec.v"]


def _sh(cmd, cwd=None, log=None, timeout=1800):
    p = subprocess.run(cmd, shell=True, cwd=cwd, stdout=subprocess.PIPE, stderr=subprocess.STDOUT, text=True, timeout=timeout)
    if log:
        with open(log, "a") as f:
            f.write("$ %s\n%s\n" % (cmd, p.stdout[-3000:]))
    return p.returncode, p.stdout


def _write_replay(V, tag, body):
    d = os.path.join(V, "out", "replay")
    os.makedirs(d, exist_ok=True)
    if not isinstance(body, str):
        body = json.dumps(body, indent=1, sort_keys=True)
    p = os.path.join(d, "C14-%s-%s.json" % (tag, hashlib.sha256(body.encode()).hexdigest()[:10]))
    open(p, "w").write(body)
    return p


def build(V, log):
    coq = os.path.join(V, "coq")
    for f in COQ_FILES:
        vo = os.path.join(coq, f[:-2] + ".vo")
        if not os.path.exists(vo) or os.path.getmtime(vo) < os.path.getmtime(os.path.join(coq, f)):
            rc, out = _sh("timeout 900 make -j8 %s" % (f[:-2] + ".vo"), cwd=coq, log=log)
            if rc != 0:
                return False, "cannot compile %s: %s" % (f, out[-400:])
    return True, ""


def _nl(hexs):
    b = bytes.fromhex("" if hexs == "-" else hexs)
    return "[" + "; ".join("%d" % x for x in b) + "]%N"


def run(tier, seed, V, log):
    d = os.path.join(V, "out", "c14")
    os.makedirs(d, exist_ok=True)
    n = 400 if tier == "quick" else 6000
    dump = os.path.join(d, "swapkeys.txt")
    rc, out = _sh("%s/harness/bin/harness swapkeys -seed %d -n %d -out %s" % (V, seed, n, dump), log=log)
    findings = []
    if rc != 0 or not os.path.exists(dump):
        rp = _write_replay(V, "dump", {"broken": "harness swapkeys failed", "detail": out[-800:]})
        return {"findings": [{"what": "the swap-key dump of the real code failed: %s" % out[-200:], "replay": rp, "concrete": False, "key": "swapkeys-run"}]}
    rows = [l.split() for l in open(dump).read().splitlines() if l.strip()]
    # monitor on the implementation alone
    for x, stored, lookup, h in rows:
        if stored != lookup:
            rp = _write_replay(V, "key", {"property": "C14", "tx_hash": x, "stored_under": stored, "looked_up_under": lookup,
                                          "meaning": "a swap recorded for this hash is not found by the duplicate guard / queries: the same hash can be executed again"})
            findings.append({"what": "swap record for tx hash %s is stored under key %s but looked up under %s (a repeated request would mint again)" % (x, stored, lookup),
                             "replay": rp, "concrete": True, "key": "swap-key-mismatch"})
            break
    # correspondence with the model, inside Coq
    cases = os.path.join(d, "cases_c14.v")
    with open(cases, "w") as f:
        f.write("From Coq Require Import NArith List Bool.\nImport ListNotations.\nFrom Hub Require Import Base.Bytes Gen.KeysGen Model.HashCodec.\n")
        f.write("Definition ln (a b : list N) : bool := if list_eq_dec N.eq_dec a b then true else false.\n")
        f.write("Definition cases : list (list N * (list N * (list N * list N))) := [\n  ")
        f.write(";\n  ".join("(%s, (%s, (%s, %s)))" % (_nl(x), _nl(s), _nl(l), _nl(h)) for x, s, l, h in rows))
        f.write("].\n")
        f.write("Definition bad := filter (fun c => negb (ln (swap_SwapKey (bytes_to_hash (fst c))) (fst (snd c)) && "
                "ln (swap_SwapKey (bytes_to_hash (fst c))) (fst (snd (snd c))) && ln (bytes_to_hash (fst c)) (snd (snd (snd c))))) cases.\n")
        f.write("Definition M := Eval vm_compute in map fst bad.\nPrint M.\n")
    rc, out = _sh("timeout 1200 coqc -Q %s/coq/theories Hub %s" % (V, cases), cwd=d, log=log)
    m = re.search(r"M\s*=\s*(.*?)\s*:\s*list", out, flags=re.S)
    if rc != 0 or not m:
        rp = _write_replay(V, "coq", {"broken": "model evaluation of the swap-key cases failed", "detail": out[-800:]})
        findings.append({"what": "the swap-key cases could not be evaluated on the model: %s" % out[-200:], "replay": rp, "concrete": False, "key": "swapkeys-coq"})
    elif m.group(1).strip() != "[]":
        rp = _write_replay(V, "diverge", {"property": "C14", "correspondence": "SwapKey(GetTxHash) / SwapKey(BytesToHash) / BytesToHash differ from the model", "inputs": m.group(1)[:2000]})
        if not findings:
            findings.append({"what": "the real swap keys differ from the model swap_SwapKey (bytes_to_hash x) on inputs %s" % m.group(1)[:160], "replay": rp, "concrete": False, "key": "swapkeys-diverge"})
    short = sum(1 for r in rows if r[0] == "-" or len(r[0]) != 64)
    return {"findings": findings, "ops": len(rows), "histories": 0, "nontrivial": short,
            "stats": {"swap_key_cases": len(rows), "not_32_bytes": short},
            "samples": [" ".join(r) for r in rows[:4]],
            "summary": "%d swap-key cases (%d not 32 bytes long): stored key = lookup key = model" % (len(rows), short)}
