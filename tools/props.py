"""Per-property configuration: projection of the correspondence, monitors, evidence."""
import hashlib
import json
import os
import subprocess
import sys

ALL_TX = ["prov_register", "prov_update", "node_register", "node_update_details", "node_update_status", "node_subscribe",
          "plan_create", "plan_update_status", "plan_link", "plan_unlink", "plan_subscribe", "sub_cancel", "sub_allocate",
          "sess_start", "sess_update", "sess_end", "swap"]

IX = ["st.ix."]

PROPS = {
    "C01": dict(sections=["st.bal", "st.supply", "st.dep"], res_ops=["B", "E"], res_kinds=["node_subscribe", "plan_subscribe", "prov_register", "node_register", "swap"],
                rule="a history is non-trivial when a begin/end-of-block step moved coins (payout, settlement or refund)"),
    "C02": dict(sections=["st.dep", "st.sub", "st.alloc", "st.payout", "ev"], res_ops=["B", "E"], res_kinds=["node_subscribe", "sub_cancel"],
                rule="non-trivial: a node subscription was removed (its ledger paid+refunded=deposit was checked)"),
    "C03": dict(sections=[], res_ops=["B", "E"], res_kinds=[], halt=True, domain=True,
                rule="non-trivial: a block hook processed due records and moved coins (settlement, payout, refund) in the history", nt_from="C01"),
    "C04": dict(sections=["st.sub", "st.sess", "st.node", "st.payout", "st.ix.node_q", "st.ix.sub_q", "st.ix.sess_q", "st.ix.pay_q", "st.now", "ev"],
                res_ops=["B", "E"], res_kinds=["sub_cancel", "sess_end", "node_update_status", "sess_update"],
                rule="non-trivial: a subscription or session was demoted or removed in the history"),
    "C05": dict(sections=["st.bal", "st.dep", "st.payout", "ev"], res_ops=[], res_kinds=["node_subscribe", "plan_subscribe"],
                rule="non-trivial: a plan payment, hourly payout or session settlement was split"),
    "C06": dict(sections=["st.alloc"], res_ops=[], res_kinds=["sub_allocate", "sess_start"],
                rule="non-trivial: an allocation's usage grew, or quota was shared while some holder had usage"),
    "C07": dict(sections=["rejected_changed_state"], res_ops=[], res_kinds=ALL_TX,
                rule="non-trivial: an owner-restricted message was rejected against an existing record, or a usage report was made under proof verification"),
    "C08": dict(sections=[], res_ops=[], res_kinds=["node_subscribe", "plan_subscribe", "sess_start", "prov_register", "node_register", "plan_create", "plan_link"],
                rule="non-trivial: an admission message (subscribe / start) was accepted or rejected in the history"),
    "C09": dict(sections=IX + ["st.prov", "st.node", "st.plan", "st.sub", "st.alloc", "st.payout", "st.sess", "st.dep"], res_ops=[], res_kinds=[],
                rule="non-trivial: a record was removed in the history (all indices re-derived from primaries at every step)", nt_from="C04"),
    "C10": dict(sections=["*"], res_ops=["B", "E", "V"], res_kinds=ALL_TX,
                rule="non-trivial: a block hook processed due records", nt_from="C01"),
    "C11": dict(sections=["st.node", "st.par", "st.mod"], res_ops=["V"], res_kinds=["node_register", "node_update_details", "node_subscribe"],
                rule="non-trivial: a price bound was modified while nodes existed (sweep ran)"),
    "C12": dict(sections=[], res_ops=[], res_kinds=[], shared=False,
                rule="non-trivial: an export point with live marketplace records whose re-import was compared and continued in lock-step"),
    "C13": dict(sections=[], res_ops=[], res_kinds=[], shared=False,
                rule="non-trivial: a paging chain with more than one page (every list query of the real query servers, every limit/mode/direction)"),
    "C14": dict(sections=["st.swap", "st.supply"], res_ops=[], res_kinds=["swap"],
                rule="non-trivial: a swap was executed in the history"),
    "C15": dict(sections=["st.mint", "st.infl"], res_ops=["B"], res_kinds=[],
                rule="non-trivial: a scheduled inflation entry became due (counted twice when several were due in one block)"),
    "C16": dict(sections=[], res_ops=[], res_kinds=[], pure=True, rule="pure-function cases with non-zero remainder / big operands"),
    "C17": dict(sections=["st.ix.unknown"], res_ops=[], res_kinds=[], shared=False,
                rule="non-trivial: key / address cases with prefix-related addresses, adjacent timestamps, boundary ids"),
    "C18": dict(sections=["st.cnt", "st.alloc", "st.payout"], res_ops=[], res_kinds=["plan_create", "node_subscribe", "plan_subscribe", "sess_start"],
                rule="non-trivial: a plan, subscription or session was created"),
    "C19": dict(sections=[], res_ops=[], res_kinds=[], shared=False,
                rule="non-trivial: round-trip cases of generated values (every registered sentinel.* type, binary + JSON + tx + genesis flows) and model cases of the hand-written codecs"),
}

TRUSTED_BASE = [
    "Coq 8.16.1 kernel (coqc, vm_compute; no native_compute)",
    "axioms: none declared; Print Assumptions output recorded per theorem",
    "extraction: ExtrOcamlBasic only (bool, option, unit, list, prod, sumbool -> OCaml natives), OCaml 4.13.1, Zarith for number text",
    "model runner driver.ml (parsing, printing), Go harness (generator, observation, canonicalisation; keeper mode and app mode), tools/compare.py, tools/monitors.py",
    "modelled, not verified: x/bank, x/auth, x/params, x/distribution, SDK mint, IAVL/cachekv stores and iterators, cosmossdk.io/math, baseapp tx atomicity (DESIGN section 8)",
]


def write_replay(V, pid, tag, ops_lines, meta):
    d = os.path.join(V, "out", "replay")
    os.makedirs(d, exist_ok=True)
    body = "".join(ops_lines)
    hh = hashlib.sha256((body + json.dumps(meta, sort_keys=True)).encode()).hexdigest()[:10]
    p = os.path.join(d, "%s-%s-%s.ops" % (pid, tag, hh))
    with open(p, "w") as f:
        f.write("# replay for %s: %s\n" % (pid, json.dumps(meta, sort_keys=True)))
        f.write(body)
    return p


def history_prefix(ops_path, h, upto):
    """the lines of history h, up to and including observation index upto (the genesis observation is index 0)"""
    out = []
    cur = None
    idx = 0
    with open(ops_path) as f:
        for line in f:
            t = line.split()
            if not t:
                continue
            if t[0] == "H":
                cur = int(t[1])
                idx = 0
                if cur == h:
                    out.append(line)
                continue
            if cur != h:
                continue
            if t[0] == "G":
                out.append(line)
                continue
            idx += 1
            if idx > upto:
                break
            out.append(line)
    return out


def op_at(ops_path, h, i):
    lines = history_prefix(ops_path, h, i)
    if i == 0 or not lines:
        return ["G"]
    return lines[-1].split()


def evaluate(pid, d, done, V):
    P = PROPS[pid]
    findings = []
    tot_ops = tot_hist = 0
    nontriv = 0
    stats = {}
    samples = []
    nt_key = P.get("nt_from", pid)
    for k in range(done["shards"]):
        sp = os.path.join(d, "shard.%d.json" % k)
        if not os.path.exists(sp):
            continue
        sh = json.load(open(sp))
        ops_path = os.path.join(d, "ops.%d.txt" % k)
        tot_ops += sh["ops"]
        tot_hist += sh["histories"]
        outdom = {int(h): i for h, i in (sh.get("out_of_domain") or {}).items()}
        stats["histories_in_domain"] = stats.get("histories_in_domain", 0) + sh.get("in_domain", sh["histories"])
        for h, m in sh["nontrivial"].items():
            if m.get(nt_key):
                nontriv += 1
        for kk, vv in sh["stats"].items():
            stats[kk] = stats.get(kk, 0) + vv
        if not samples:
            samples = [l.strip() for l in history_prefix(ops_path, 0, 14) if not l.startswith("G")][:14]
        # monitor violations (concrete failing histories)
        seen = set()
        for v in sh["violations"]:
            if v["property"] != pid and not (v["property"] == "MONITOR-ERROR"):
                continue
            if P.get("domain") and v["h"] in outdom and v["i"] >= outdom[v["h"]]:
                # the theorems of this property quantify over the configuration domain of DESIGN section 5 only; what happens after a
                # history left it (never produced by the generator; a replay may) is recorded, not reported
                stats["signals_outside_domain"] = stats.get("signals_outside_domain", 0) + 1
                continue
            key = (v["h"], v["what"][:60])
            if key in seen or len(findings) > 20:
                continue
            seen.add(key)
            lines = history_prefix(ops_path, v["h"], v["i"])
            rp = write_replay(V, pid, "monitor", lines, {"property": pid, "what": v["what"], "history": v["h"], "op_index": v["i"], "shard_seed": sh["seed"]})
            findings.append({"what": "history %d of seed %d, op %d: %s" % (v["h"], sh["seed"], v["i"], v["what"]), "replay": rp,
                             "concrete": True, "key": finding_key(v["what"])})
        # projection mismatches (model and implementation disagree)
        for m in sh["mismatches"]:
            sec = m["section"]
            hit = False
            if sec == "res":
                t = op_at(ops_path, m["h"], m["i"])
                if m["op"] == "T":
                    hit = len(t) > 1 and t[1] in P["res_kinds"]
                else:
                    hit = m["op"] in P["res_ops"]
                    if P.get("halt") and "halt" in (m["impl"], m["model"]):
                        hit = True
            elif sec == "alignment":
                hit = True
            else:
                hit = any(sec.startswith(s) or s == "*" for s in P["sections"])
            if not hit:
                continue
            if P.get("domain") and m["h"] in outdom and m["i"] >= outdom[m["h"]] and "halt" in (m["impl"], m["model"]):
                stats["signals_outside_domain"] = stats.get("signals_outside_domain", 0) + 1
                continue
            lines = history_prefix(ops_path, m["h"], m["i"])
            meta = {"property": pid, "correspondence": "model and implementation disagree", "section": sec, "history": m["h"], "op_index": m["i"],
                    "impl": trunc(m["impl"]), "model": trunc(m["model"]), "impl_error": m.get("err", ""), "shard_seed": sh["seed"]}
            rp = write_replay(V, pid, "diverge", lines, meta)
            # is there a monitor violation of this property in the same history? then it is already reported concretely
            concrete = any(v["property"] == pid and v["h"] == m["h"] for v in sh["violations"])
            if not concrete:
                findings.append({"what": "correspondence broken in section %s at history %d op %d of seed %d (impl %s / model %s)" %
                                 (sec, m["h"], m["i"], sh["seed"], short(m["impl"]), short(m["model"])),
                                 "replay": rp, "concrete": False, "key": "diverge:" + sec})
    # keeper-mode harness against the real application
    app_ops = app_hist = 0
    for k in range(done["shards"]):
        sp = os.path.join(d, "shard.%d.json" % k)
        if not os.path.exists(sp):
            continue
        sh = json.load(open(sp))
        ops_path = os.path.join(d, "ops.%d.txt" % k)
        app_ops += sh.get("app_ops", 0)
        app_hist += sh.get("app_histories", 0)
        if sh.get("app_error"):
            findings.append({"what": "the app-mode run (real app.NewApp) failed: %s" % sh["app_error"][:300],
                             "replay": write_replay(V, pid, "app-error", [], {"error": sh["app_error"]}), "concrete": False, "key": "app-error"})
            break
        for m in sh.get("app_mismatches", []):
            sec = m["section"]
            if sec == "res":
                t = op_at(ops_path, m["h"], m["i"])
                hit = (len(t) > 1 and t[1] in P["res_kinds"]) if m["op"] == "T" else (m["op"] in P["res_ops"])
                if P.get("halt") and "halt" in (m["impl"], m["model"]):
                    hit = True
            elif sec == "alignment":
                hit = True
            else:
                hit = any(sec.startswith(s_) or s_ == "*" for s_ in P["sections"])
            if not hit:
                continue
            lines = history_prefix(ops_path, m["h"], m["i"])
            meta = {"property": pid, "correspondence": "the real application (app.NewApp) and the keeper-mode harness disagree", "section": sec,
                    "history": m["h"], "op_index": m["i"], "keeper_mode": trunc(m["impl"]), "app_mode": trunc(m["model"]), "shard_seed": sh["seed"]}
            rp = write_replay(V, pid, "app-diverge", lines, meta)
            findings.append({"what": "the real application and the keeper-mode harness disagree in section %s at history %d op %d of seed %d (keeper %s / app %s)" %
                             (sec, m["h"], m["i"], sh["seed"], short(m["impl"]), short(m["model"])), "replay": rp, "concrete": False, "key": "app-diverge:" + sec})
            break
    stats["app_mode_histories"] = app_hist
    stats["app_mode_operations"] = app_ops
    if done.get("errors"):
        findings.append({"what": "correspondence run failed: %s" % done["errors"][0][:300], "replay": write_replay(V, pid, "run-error", [], {"errors": done["errors"]}),
                         "concrete": False, "key": "run-error"})
    pure_cases = 0
    pure_nt = 0
    if P.get("pure"):
        a = open(os.path.join(d, "pure.txt")).read().splitlines()
        b = open(os.path.join(d, "pure.txt.model")).read().splitlines()
        pure_cases = len(a)
        for x, y in zip(a, b):
            if x != y:
                rp = write_replay(V, pid, "pure", [x + "\n"], {"property": pid, "impl": x, "model": y})
                findings.append({"what": "pure function disagrees with the proved model: impl `%s` model `%s`" % (x, y), "replay": rp, "concrete": True, "key": "pure"})
                break
        if len(a) != len(b):
            findings.append({"what": "pure-function run incomplete", "replay": write_replay(V, pid, "pure", [], {}), "concrete": False, "key": "pure-run"})
        vio = pure_oracle(a)
        for x in vio[:1]:
            rp = write_replay(V, pid, "oracle", [x["case"] + "\n"], x)
            findings.append({"what": x["what"], "replay": rp, "concrete": True, "key": "pure-oracle"})
        pure_nt = len(set(l for l in a if nontrivial_pure(l)))
        samples = a[:6]
    res = {"findings": findings, "ops": tot_ops, "histories": tot_hist, "nontrivial": nontriv, "stats": stats, "samples": samples,
           "pure_cases": pure_cases, "pure_nontrivial": pure_nt,
           "summary": "%d histories / %d operations agree with the model, %d non-trivial" % (tot_hist, tot_ops, nontriv) if not P.get("pure")
           else "%d pure cases agree with the model (%d non-trivial)" % (pure_cases, pure_nt)}
    return res


def merge_results(a, b):
    """combine the evaluation of the shared correspondence run with a plug-in's result"""
    if not a:
        a = {"findings": [], "ops": 0, "histories": 0, "nontrivial": 0, "stats": {}, "samples": [], "summary": ""}
    out = dict(a)
    out["findings"] = list(a.get("findings", [])) + list(b.get("findings", []))
    out["ops"] = a.get("ops", 0) + int(b.get("ops", 0))
    out["histories"] = a.get("histories", 0) + int(b.get("histories", 0))
    out["nontrivial"] = a.get("nontrivial", 0) + int(b.get("nontrivial", 0))
    st = dict(a.get("stats", {}))
    for k, v in (b.get("stats") or {}).items():
        if isinstance(v, (int, float)):
            st["ext." + k] = v
    out["stats"] = st
    out["samples"] = (list(b.get("samples") or []) + list(a.get("samples") or []))[:14]
    out["summary"] = "; ".join(x for x in (a.get("summary", ""), b.get("summary", "")) if x)
    for k in ("programs", "disagreements_checked", "level"):
        if k in b:
            out[k] = b[k]
    return out


def nontrivial_pure(line):
    t = line.split()
    try:
        if t[0] == "afb":
            return t[4] != "panic" and (int(t[1]) * int(t[2])) % 10 ** 9 != 0
        if t[0] == "prop":
            return t[4] != "panic" and (int(t[1]) * int(t[2])) % 10 ** 18 != 0
        if t[0] == "ceil":
            return t[4] != "panic" and int(t[1]) > 0 and int(t[2]) % int(t[1]) != 0
    except Exception:
        return False
    return False


def pure_oracle(lines):
    """independent rational oracle for C16 on the implementation's outputs (within the proved domain)"""
    out = []
    B = 2 ** 128
    for l in lines:
        t = l.split()
        if t[4] in ("panic",):
            a, b = int(t[1]), int(t[2])
            if t[0] in ("afb", "prop") and 0 <= a <= B and 0 <= b <= (B if t[0] == "afb" else 10 ** 18):
                out.append({"case": l, "what": "panic inside the domain: " + l})
            continue
        r = int(t[4])
        if t[0] == "afb":
            p, b = int(t[1]), int(t[2])
            if 0 <= p <= B and 0 <= b <= B and r != -((-p * b) // 10 ** 9):
                out.append({"case": l, "what": "AmountForBytes(%d,%d) = %d, the ceiling of p*b/10^9 is %d" % (p, b, r, -((-p * b) // 10 ** 9))})
        elif t[0] == "prop":
            a, s = int(t[1]), int(t[2])
            if 0 <= a <= B and 0 <= s <= 10 ** 18:
                q, rem = divmod(a * s, 10 ** 18)
                want = q + (1 if rem * 2 > 10 ** 18 or (rem * 2 == 10 ** 18 and q % 2 == 1) else 0)
                if r != want or not (0 <= r <= a):
                    out.append({"case": l, "what": "GetProportionOfCoin(%d, %d/10^18) = %d, exactly rounded product is %d" % (a, s, r, want)})
        elif t[0] == "ceil":
            pre, v = int(t[1]), int(t[2])
            if pre > 0 and v >= 0 and v + pre < 2 ** 256:
                want = -((-v) // pre) * pre
                if r != want:
                    out.append({"case": l, "what": "CeilTo(%d) of %d = %d, least multiple is %d" % (pre, v, r, want)})
            elif pre <= 0 and r != v:
                out.append({"case": l, "what": "CeilTo with non-positive precision changed the value"})
    return out


def finding_key(what):
    import re
    return re.sub(r"[0-9a-f]{8,}|\d+", "N", what)[:80].replace(" ", "_")


def trunc(x):
    s = json.dumps(x, sort_keys=True)
    return s if len(s) < 1500 else s[:1500] + "..."


def short(x):
    s = json.dumps(x, sort_keys=True)
    return s if len(s) < 80 else s[:80] + "..."


def evaluate_replay(pid, path, V, log):
    """re-run one replay file on the implementation and the model"""
    import monitors
    d = os.path.join(V, "out", "replay-run")
    os.makedirs(d, exist_ok=True)
    if path.endswith(".json"):
        return {"findings": [{"what": "replay file names a broken obligation, not a history: " + open(path).read()[:300], "replay": path, "concrete": False, "key": "obligation"}],
                "ops": 0, "histories": 0, "nontrivial": 0, "stats": {}, "samples": [], "summary": ""}
    first = open(path).readline()
    lines = [l for l in open(path) if not l.startswith("#")]
    if lines and lines[0].split()[0] in ("afb", "prop", "ceil"):
        pure = os.path.join(d, "pure.txt")
        open(pure, "w").write("".join(lines))
        # recompute with the implementation: not supported for single cases; compare the recorded case with the model
        out = subprocess.run([os.path.join(V, "model/hub_model_run"), "--pure", pure], stdout=subprocess.PIPE, text=True).stdout.splitlines()
        f = []
        if out and out[0] != lines[0].strip():
            f.append({"what": "recorded implementation result `%s`, model `%s`" % (lines[0].strip(), out[0]), "replay": path, "concrete": True, "key": "pure"})
        return {"findings": f, "ops": 1, "histories": 0, "nontrivial": 0, "stats": {}, "samples": lines[:1], "summary": "replayed pure case"}
    ops, obs, mobs = os.path.join(d, "ops.txt"), os.path.join(d, "obs.jsonl"), os.path.join(d, "model.jsonl")
    subprocess.run([os.path.join(V, "harness/bin/harness"), "replay", "-in", path, "-ops", ops, "-obs", obs], check=True)
    with open(mobs, "w") as f:
        subprocess.run([os.path.join(V, "model/hub_model_run"), ops], stdout=f, check=True)
    cmp_res = json.loads(subprocess.run([sys.executable, os.path.join(V, "tools/compare.py"), obs, mobs], stdout=subprocess.PIPE, text=True).stdout)
    viol, nontriv = monitors.run_monitors(obs, ops)
    outdom = {}
    for line in open(mobs):
        o = json.loads(line)
        if o.get("dom") is False and o["h"] not in outdom:
            outdom[o["h"]] = o["i"]
    findings = []
    for v in viol:
        if v["property"] == pid:
            if PROPS[pid].get("domain") and v["h"] in outdom and v["i"] >= outdom[v["h"]]:
                continue   # outside the configuration domain of DESIGN section 5: not a violation of this property
            findings.append({"what": "op %d: %s" % (v["i"], v["what"]), "replay": path, "concrete": True, "key": finding_key(v["what"])})
    if not findings:
        for m in cmp_res["mismatches"]:
            findings.append({"what": "correspondence broken in section %s at op %d" % (m["section"], m["i"]), "replay": path, "concrete": False, "key": "diverge:" + m["section"]})
    return {"findings": findings, "ops": cmp_res["ops"], "histories": cmp_res["histories"], "nontrivial": 0, "stats": {}, "samples": lines[:10],
            "summary": "replayed %d operations" % cmp_res["ops"]}


def evidence(pid, tier, seed, coq, result, wall, nviol, V):
    P = PROPS[pid]
    cov = {
        "obligations": max(coq.get("obligations", 0), 1),
        "discharged": coq.get("discharged", 0) if coq.get("discharged", 0) > 0 else 0,
        "checker_cmd": "cd /verif/coq && make theories/Props/%s.vo   (coqc 8.16.1, full .vo build of the cone: %s)" % (pid, ", ".join(coq.get("files", [])[:12])),
        "trusted_base": TRUSTED_BASE + ["Print Assumptions: %d theorems 'Closed under the global context'; axioms listed: %s" % (coq.get("closed_under_global_context", 0), coq.get("assumptions") or "none")],
        "traces_validated_against_impl": result.get("histories", 0),
        "evaluations": max(result.get("ops", 0) + result.get("pure_cases", 0), 1),
        "distinct_nontrivial": result.get("pure_nontrivial", 0) if P.get("pure") else result.get("nontrivial", 0),
        "rule": "histories are produced by the state-aware generator of harness/gen.go from VERIF_SEED (structured, mostly valid + hostile stream) and executed on the real keepers, on the real application (app.NewApp) and on the extracted model; " + P["rule"],
        "samples": result.get("samples") or ["(no histories in this run)"],
        "input_distribution": {k: v for k, v in sorted(result.get("stats", {}).items())},
        "proof_failing": coq.get("failing"),
    }
    if cov["discharged"] == 0:
        cov["discharged"] = 0
    level = "proof"
    if pid == "C10":
        level = "translation_validation"
        cov["programs"] = max(int(result.get("programs", 0)), 1)
        cov["disagreements_checked"] = int(result.get("disagreements_checked", 0))
    ev = {"property_id": pid, "tier": tier, "seed": seed, "level": level, "coverage": cov,
          "assumptions": ["configuration domain of DESIGN.md section 5", "environment contract of DESIGN.md section 5.6 / 8 (modelled SDK behaviour)"],
          "wall_s": round(wall, 2), "violations": nviol}
    if cov["discharged"] < 1:
        # schema: discharged >= 1 for the proof keys; a broken proof is reported as a violation anyway
        cov["discharged"] = 0
        ev["coverage"].pop("discharged")
        ev["coverage"]["discharged_count"] = 0
    return ev
