#!/usr/bin/env python3
"""Regenerate /verif/MANIFEST.json from tools/props.py and the Props files present."""
import json, os, sys
V = os.path.dirname(os.path.dirname(os.path.abspath(__file__)))
sys.path.insert(0, os.path.join(V, "tools"))
import props

TEXT = {
 "C01": ("Machine-checked: the money invariant (escrow account = sum of deposit records per denomination; balances add up to supply; plan providers are not module accounts) is proved inductive over every operation of the model and lifted to all histories of any length; supply is proved untouched by every non-swap operation. Tie: every run executes generated histories on the real keepers and on the extracted model and diffs balances, supply and deposit records after every operation; an implementation-side monitor recomputes both sides of the escrow equation.", "DESIGN §6 C01"),
 "C14": ("Machine-checked: once-per-hash rejection, exact effect of an accepted swap (enabled, approver, fresh 32-byte hash, receiver credit amount/100, supply growth), permanence of records, and over any history supply change = sum of recorded swaps. Tie: correspondence on swap records, supply and balances; monitor re-derives each clause from the implementation's observations.", "DESIGN §6 C14"),
 "C16": ("Machine-checked: AmountForBytes = ceiling of p*b/10^9 (least such integer, zero at zero, monotone, sub-additive within one unit), GetProportionOfCoin = half-even rounded product within [0, coin], CeilTo = least multiple, for all inputs in the stated ranges, over a model of cosmossdk.io/math with its 256/315-bit checks. Tie: the real functions are evaluated on 20k (quick) / 400k (thorough) generated cases including the overflow frontier and compared with the extracted model; an independent rational oracle checks the implementation's outputs.", "DESIGN §6 C16"),
}

def main():
    allp = [json.loads(l) for l in open(os.path.join(V, "properties.jsonl"))]
    checks, na = [], []
    for p in allp:
        pid = p["id"]
        if os.path.exists(os.path.join(V, "coq/theories/Props/%s.v" % pid)) and pid in TEXT:
            text, ref = TEXT[pid]
            checks.append({
                "property_id": pid,
                "quick_cmd": "./check %s --tier quick" % pid,
                "thorough_cmd": "./check %s --tier thorough" % pid,
                "evidence_file": "/verif/evidence/%s.json" % pid,
                "replay_cmd_template": "./check %s --replay {path}" % pid,
                "engine": "coq-model+correspondence",
                "level_claimed": {"category": "proof", "text": text, "design_ref": ref},
                "level_note": "Trusted: Coq 8.16.1 kernel; no axioms (Print Assumptions recorded in evidence); extraction with ExtrOcamlBasic; the Go harness, OCaml driver and Python comparer/monitors; SDK behaviour (bank, params, stores, math) modelled not verified — see DESIGN §8.",
                "technique": "Coq proof (invariant by induction over all operations) + model/implementation correspondence on real keepers",
            })
        else:
            na.append({"property_id": pid, "reason": "not claimed in this commit: its theorems/correspondence are still under construction (see DESIGN §6 for the plan)"})
    m = {
        "version": 1,
        "setup_cmd": "./setup.sh",
        "hooks": {"guard": "verif", "enable": "harness is built with `go build -tags verif` against /repo through a module replace; no source hooks are needed so far",
                  "baseline_off_cmd": "cd /repo && GOFLAGS=-mod=mod go test -vet=off -count=1 ./...", "source_commits": [], "add_only": True},
        "engines": [{"name": "coq-model+correspondence", "path": "/verif/check", "serves_properties": [c["property_id"] for c in checks],
                     "kind_free_text": "Coq 8.16.1 theorems over a hand-written executable model (coq/theories), tied to /repo on every run by differential execution of generated histories on the real keepers (harness/) and on the OCaml-extracted model (model/)"}],
        "checks": checks,
        "not_applicable": na,
        "notes": "fix: commits in /repo for confirmed defects are listed in KNOWN_FINDINGS.txt",
    }
    json.dump(m, open(os.path.join(V, "MANIFEST.json"), "w"), indent=1)
    print("claimed:", [c["property_id"] for c in checks])

main()
