#!/usr/bin/env python3
"""Regenerate /verif/MANIFEST.json from tools/props.py and the Props files present."""
import json, os, sys
V = os.path.dirname(os.path.dirname(os.path.abspath(__file__)))
sys.path.insert(0, os.path.join(V, "tools"))
import props

NOTE_STD = "Trusted: Coq 8.16.1 kernel; no axioms (Print Assumptions recorded in evidence); extraction with ExtrOcamlBasic; the Go harness, OCaml driver and Python comparer/monitors; SDK behaviour (bank, params, stores, math) modelled not verified — see DESIGN §8."
TECH_STD = "Coq proof (invariant by induction over all operations) + model/implementation correspondence on real keepers"

# pid -> (text, design_ref, category, technique, level_note)
TEXT = {
 "C01": ("Machine-checked: the money invariant (escrow account = sum of deposit records per denomination; balances add up to supply; plan providers are not module accounts) is proved inductive over every operation of the model and lifted to all histories of any length; supply is proved untouched by every non-swap operation. Tie: every run executes generated histories on the real keepers and on the extracted model and diffs balances, supply and deposit records after every operation; an implementation-side monitor recomputes both sides of the escrow equation.", "DESIGN §6 C01", "proof", TECH_STD, NOTE_STD),
 "C10": ("Translation validation: the same generated histories are executed by the real keepers in several fresh processes (different GOMAXPROCS, GC settings, scheduler noise, fresh map seeds) and the SHA-256 of ALL stored key/value pairs plus the ordered event list must agree byte for byte after every operation; the same histories are also compared, on every projected observable, with the Coq model, which is proved to be a function of the history with canonical (set-determined, chronological) ordered iteration; a typed source scan lists map ranges, clock reads, randomness, goroutines, floats in consensus code. Partial: runtime nondeterminism cannot be exhibited by a Gallina function (DESIGN §10).", "DESIGN §6 C10, §10", "translation_validation", "repeated-process digest comparison of the real keepers + correspondence with a Coq model proved deterministic and order-canonical + typed source scan", "Trusted: the Go harness (digest of all mounted stores, event serialisation), the process perturbation knobs (a rarely taken scheduling path may not be hit), the source scan's whitelist (each entry justified in tools/ext_c10.py), Coq 8.16.1 kernel for the model-side theorems (no axioms)."),
 "C13": ("Machine-checked: a Coq model of cosmos-sdk v0.47.10 query.Paginate / FilteredPaginate (uint64 wrap-around, default limit, key/offset modes, reverse) pages every key-sorted store completely — following next_key or stepping the offset visits exactly the matching records once, in key order, total = their number — for every limit with |store|+limit+1 < 2^64 and every callback whose hit does not depend on accumulate; all_list_queries_complete quantifies over the table of the 20 list handlers regenerated from /repo on every run (a re-introduced accumulate defect makes the theorem fail). Tie: every list query of the real query servers is paged on generated states and compared response by response with the extracted model; a monitor checks concatenation = listing on the implementation alone.", "DESIGN §6 C13", "proof", "Coq proof over a paginator model + translator (query handler shapes regenerated from source) + correspondence of real query servers with the extracted model", NOTE_STD + " One known finding (limit = 2^64-1 wraps inside the SDK paginator) is listed in KNOWN_FINDINGS.txt and proved as C13_refuted_at_max_limit."),
 "C14": ("Machine-checked: once-per-hash rejection, exact effect of an accepted swap (enabled, approver, fresh 32-byte hash, receiver credit amount/100, supply growth), permanence of records, and over any history supply change = sum of recorded swaps. Tie: correspondence on swap records, supply and balances; monitor re-derives each clause from the implementation's observations.", "DESIGN §6 C14", "proof", TECH_STD, NOTE_STD),
 "C15": ("Machine-checked: the begin-of-block step of the inflation module removes exactly the scheduled entries with timestamp <= block time, sets the minting parameters to those of the LATEST due entry and the inflation rate to its minimum, changes nothing when no entry is due; no other operation touches schedule or minting parameters; over any history the schedule only shrinks (applied at most once); the step cannot panic on a validated schedule. Proved for all schedules and times by induction over the time-sorted iteration. Tie: correspondence on SDK mint params, minter and remaining schedule after every operation; implementation-side latest-due-entry monitor.", "DESIGN §6 C15", "proof", TECH_STD, NOTE_STD),
 "C16": ("Machine-checked: AmountForBytes = ceiling of p*b/10^9 (least such integer, zero at zero, monotone, sub-additive within one unit), GetProportionOfCoin = half-even rounded product within [0, coin], CeilTo = least multiple, for all inputs in the stated ranges, over a model of cosmossdk.io/math with its 256/315-bit checks. Tie: the real functions are evaluated on 20k (quick) / 400k (thorough) generated cases including the overflow frontier and compared with the extracted model; an independent rational oracle checks the implementation's outputs.", "DESIGN §6 C16", "proof", "Coq proof (algebraic laws over a model of cosmossdk.io/math) + pure-function correspondence with the real functions", NOTE_STD),
 "C19": ("Partial. Machine-checked for the hand-written codec code: Status JSON print/parse round trip over the tables regenerated from types/status.go and status.pb.go on every run (for every declared value, for any init() iteration order, numbers, generated names; the historical defect is a refuted witness), hex and EthereumHash binary/JSON round trips for all 32-byte values. The gogoproto-generated binary/JSON codecs are not modelled: they are covered by an implementation-side round-trip monitor over generated values of every registered sentinel.* type (binary, JSON, interface, tx file flow, genesis export/validate/import). Tie: the model is evaluated inside Coq on what the real code returned for the same inputs.", "DESIGN §6 C19, §10", "proof", "Coq proof over tables generated from source (translator) for hand-written codecs + round-trip monitor of every registered type for generated codecs", NOTE_STD + " Generated protobuf code and jsonpb for non-enum kinds are trusted, exercised by the monitor only."),
}

def main():
    allp = [json.loads(l) for l in open(os.path.join(V, "properties.jsonl"))]
    checks, na = [], []
    for p in allp:
        pid = p["id"]
        if os.path.exists(os.path.join(V, "coq/theories/Props/%s.v" % pid)) and pid in TEXT:
            text, ref, cat, tech, note = TEXT[pid]
            checks.append({
                "property_id": pid,
                "quick_cmd": "./check %s --tier quick" % pid,
                "thorough_cmd": "./check %s --tier thorough" % pid,
                "evidence_file": "/verif/evidence/%s.json" % pid,
                "replay_cmd_template": "./check %s --replay {path}" % pid,
                "engine": "coq-model+correspondence",
                "level_claimed": {"category": cat, "text": text, "design_ref": ref},
                "level_note": note,
                "technique": tech,
            })
        else:
            na.append({"property_id": pid, "reason": "not claimed in this commit: its theorems/correspondence are still under construction (see DESIGN §6 for the plan)"})
    m = {
        "version": 1,
        "setup_cmd": "./setup.sh",
        "hooks": {"guard": "verif", "enable": "harness is built with `go build -tags verif` against /repo through a module replace; no source hooks are needed so far",
                  "baseline_off_cmd": "cd /repo && GOFLAGS=-mod=mod go test -vet=off -count=1 ./...", "source_commits": [], "add_only": True},
        "engines": [{"name": "coq-model+correspondence", "path": "/verif/check", "serves_properties": [c["property_id"] for c in checks],
                     "kind_free_text": "Coq 8.16.1 theorems over a hand-written executable model (coq/theories), tied to /repo on every run by differential execution of generated histories on the real keepers (harness/) and on the OCaml-extracted model (model/)"}],
        "checks": checks,
        "not_applicable": na,
        "notes": "fix: commits in /repo for confirmed defects are listed in KNOWN_FINDINGS.txt",
    }
    json.dump(m, open(os.path.join(V, "MANIFEST.json"), "w"), indent=1)
    print("claimed:", [c["property_id"] for c in checks])

main()
