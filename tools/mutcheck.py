#!/usr/bin/env python3
"""Apply a seeded patch to /repo, run the correspondence + monitors, report what fires for its property; undo the patch."""
import importlib.machinery, importlib.util, json, os, subprocess, sys
V = "/verif"
sys.path.insert(0, V + "/tools")
loader = importlib.machinery.SourceFileLoader("check", V + "/check")
spec = importlib.util.spec_from_loader("check", loader)
check = importlib.util.module_from_spec(spec)
loader.exec_module(check)
import props

def main():
    pid, patch = sys.argv[1], sys.argv[2]
    tier = sys.argv[3] if len(sys.argv) > 3 else "quick"
    subprocess.run(["git", "-C", "/repo", "apply", patch], check=True)
    try:
        log = V + "/out/mutcheck.log"
        ok, err = check.build_harness(log)
        if not ok:
            print(pid, "HARNESS BUILD FAILED", err[-500:]); return
        d, done = check.shared_run(tier, 1, log)
        res = props.evaluate(pid, d, done, V)
        conc = [f for f in res["findings"] if f["concrete"]]
        print("%s: %d findings (%d concrete) over %d histories" % (pid, len(res["findings"]), len(conc), res["histories"]))
        for f in res["findings"][:4]:
            print("   ", "CONCRETE" if f["concrete"] else "diverge ", f["what"][:260])
        # which other properties fire
        others = {}
        for k in range(done["shards"]):
            sh = json.load(open(os.path.join(d, "shard.%d.json" % k)))
            for v in sh["violations"]:
                others[v["property"]] = others.get(v["property"], 0) + 1
            for m in sh["mismatches"]:
                others["sec:" + m["section"]] = others.get("sec:" + m["section"], 0) + 1
        print("    all signals:", others)
    finally:
        subprocess.run(["git", "-C", "/repo", "checkout", "--", "."], check=True)

main()
