#!/usr/bin/env python3
"""coqdbg.py FILE LEMMA [maxlines]: show the goals left at the Qed of LEMMA (file truncated after it)."""
import re, subprocess, sys, os
f, lemma = sys.argv[1], sys.argv[2]
maxl = int(sys.argv[3]) if len(sys.argv) > 3 else 80
s = open(f).read()
m = re.search(r"(Lemma|Theorem|Corollary|Example)\s+" + re.escape(lemma) + r"\b", s)
i = m.start()
j = s.index("Qed.", i)
t = s[:j] + "Show. Abort.\n"
tmp = "/tmp/coqdbg_%s.v" % lemma
open(tmp, "w").write(t)
p = subprocess.run("timeout 300 coqc -Q /verif/coq/theories Hub %s" % tmp, shell=True, stdout=subprocess.PIPE, stderr=subprocess.STDOUT, text=True)
out = p.stdout.splitlines()
print("\n".join(out[:maxl]))
