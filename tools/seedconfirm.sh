#!/bin/bash
# seedconfirm.sh <worktree>: confirm a seeded change in its scratch worktree: builds, existing suite passes, demo fails with / passes without the patch
WT=$1
export GOFLAGS=-mod=mod GOPROXY=off GOSUMDB=off GOTOOLCHAIN=local
cd $WT || exit 2
git diff --stat -- . ':!SEED' | tail -3
echo "== build"; go build ./... && echo build-ok
echo "== existing suite (with patch)"; go test -vet=off -count=1 $(go list ./... | grep -v /SEED) 2>&1 | grep -v "no test files" | tail -12
echo "== demo WITH patch (expect FAIL)"; go test -vet=off -count=1 ./SEED/demo/... 2>&1 | tail -8
git diff -- . ':!SEED' > /tmp/seedconfirm.diff
git apply -R /tmp/seedconfirm.diff || exit 3
echo "== demo WITHOUT patch (expect ok)"; go test -vet=off -count=1 ./SEED/demo/... 2>&1 | tail -5
git apply /tmp/seedconfirm.diff
echo "== patch.diff matches working diff:"; diff <(git diff -- . ':!SEED') SEED/patch.diff >/dev/null && echo same || echo DIFFERENT
