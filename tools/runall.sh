#!/bin/bash
# run every claimed check (quick tier) on the current tree; one line per check
cd "$(dirname "$0")/.."
for p in $(python3 -c "import json;print(' '.join(c['property_id'] for c in json.load(open('MANIFEST.json'))['checks']))"); do
  s=$(date +%s); out=$(./check $p --tier ${1:-quick} 2>&1 | tail -2 | tr '\n' ' '); echo "$p [$(( $(date +%s) - s )) s] $out"
done
