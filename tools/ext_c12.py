#!/usr/bin/env python3
"""C12 plug-in for /verif/check: genesis export -> validate -> JSON -> re-import round trip on the real code.

    build(V, log)            -> (ok, err)      builds model/genesis (extracted Coq genesis model + runner)
    run(tier, seed, V, log)  -> result dict    (see out/AGENT_BRIEF.md)
    replay(path, V, log)     -> result dict    re-runs a replay file of out/replay/C12-*.ops

What is run (all against /repo's current tree through /verif/harness/bin/harness):
  1. `harness genesis`: per generated history one or two export points; real ExportGenesis / Validate /
     JSON / InitGenesis into fresh chains; section-wise comparison of Observe(); lock-step continuation of
     the original with (a) the plain re-imported chain and (b) the re-imported chain with the subscription
     sub-store and the session counter copied over ("patched": the losses of the known findings compensated).
  2. the extracted Coq genesis model (Model/Genesis.v) computes import(export s) at the same export points
     on the model state reached by the same ops; its observation must equal the implementation's observation
     of the plain re-imported chain (so the theorems of Props/C12.v speak about what the code does).

Every disagreement is classified into a stable key:
  validate:<module>  validate-json:<module>  json:<module>  import-panic:<module>
  import-lost:<section>  import-lost-some:<section>  import-extra:<section>  import-altered:<section>
  counter:sub  counter:sess  counter:plan  counter-wrong:<c>
  continuation-halt:subscription-missing   continuation-halt:<slug>
  continuation:<op>:<what>                 (first diverging op of the plain copy NOT explained by a root loss)
  continuation-patched:<op>:<what>         (the compensated copy must never diverge)
  model:<section>                          (Coq genesis model disagrees with the code)
Consequential differences are folded into their root: once `sub` is lost completely, the emptied `ix.sub_*`
indices are not reported; likewise `ix.pay_*` under `payout`; a first diverging continuation op is explained
only if the op kind can depend on a root loss present in that very record (table EXPLAINS).
"""
import json, os, re, subprocess, sys, time, hashlib, collections

HUB_SECTIONS_SUB = {"ix.sub_q", "ix.sub_acc", "ix.sub_node", "ix.sub_plan"}
HUB_SECTIONS_PAY = {"ix.pay_q", "ix.pay_acc", "ix.pay_node", "ix.pay_acc_node"}
ROOTS = {"import-lost:sub", "import-lost:alloc", "import-lost:payout", "counter:sub", "counter:sess"}
# which root losses can make this op behave differently on the re-imported chain
EXPLAINS = {
    "B": {"import-lost:payout"},                                   # hourly payouts (subscription BeginBlock)
    "E": {"import-lost:sub"},                                      # session settlement, subscription expiry/refund
    "T.node_subscribe": {"import-lost:sub", "counter:sub", "import-lost:payout"},   # new id = counter+1
    "T.plan_subscribe": {"import-lost:sub", "counter:sub"},
    "T.sub_cancel": {"import-lost:sub"},
    "T.sub_allocate": {"import-lost:sub", "import-lost:alloc"},
    "T.sess_start": {"import-lost:sub", "import-lost:alloc", "counter:sess"},
    "T.sess_update": {"import-lost:sub", "import-lost:alloc"},
    "T.sess_end": {"import-lost:sub"},
}
VPN_SUB = ["deposit", "provider", "node", "plan", "subscription", "session"]


def sh(cmd, log=None, timeout=3000, cwd=None, env=None):
    p = subprocess.run(cmd, shell=True, stdout=subprocess.PIPE, stderr=subprocess.STDOUT, text=True, timeout=timeout, cwd=cwd, env=env)
    if log:
        with open(log, "a") as f:
            f.write("$ %s\n%s\n" % (cmd, p.stdout[-4000:]))
    return p.returncode, p.stdout


def harness_bin(V):
    return os.environ.get("VERIF_HARNESS_BIN") or os.path.join(V, "harness", "bin", "harness")


def slug(s):
    s = re.sub(r"[^a-z0-9]+", "-", s.lower()).strip("-")
    return s[:60] or "unknown"


def mode_of(d):
    if d["n_only_copy"] == 0:
        return "lost" if d["n_copy"] == 0 or d["n_only_orig"] == d["n_orig"] else "lost-some"
    if d["n_only_orig"] == 0:
        return "extra"
    return "altered"


def scalar(d, side):
    xs = d["only_" + side]
    if xs:
        try:
            return int(json.loads(xs[0]))
        except Exception:
            return None
    return None


def classify(r):
    """-> (list of (key, text), roots present, stats)"""
    out = []
    st = collections.Counter()
    v = r["validate"]
    sub_failed = False
    for m in VPN_SUB:
        if v.get(m) != "ok":
            out.append(("validate:" + m, "exported %s genesis fails its own validation: %s" % (m, v.get(m))))
            sub_failed = True
    if v.get("vpn") != "ok" and not sub_failed:
        out.append(("validate:vpn", "exported vpn genesis fails GenesisState.Validate: %s" % v.get("vpn")))
    for m in ("swap", "custommint"):
        if v.get(m) != "ok":
            out.append(("validate:" + m, "exported %s genesis fails its own validation: %s" % (m, v.get(m))))
    for m in ("vpn", "swap", "custommint"):
        obj_ok = v.get(m) == "ok"
        if v.get(m + ".json") != "ok" and obj_ok:
            out.append(("validate-json:" + m, "exported %s genesis JSON fails AppModule.ValidateGenesis: %s" % (m, v.get(m + ".json"))))
        if r["json"].get(m) != "ok":
            out.append(("json:" + m, "exported %s genesis JSON does not read back to the same document: %s" % (m, r["json"].get(m))))
    for m, res in r["import"].items():
        if res != "ok":
            out.append(("import-panic:" + m, "InitGenesis of %s from the exported genesis failed: %s" % (m, res[:200])))

    pre = r["pre"]
    diffs = {d["section"]: d for d in r.get("diff", [])}
    roots = set()
    # roots first
    for sec in ("sub", "alloc", "payout"):
        d = diffs.get(sec)
        if d and mode_of(d) == "lost" and d["n_copy"] == 0:
            roots.add("import-lost:" + sec)
    if "cnt.sub" in diffs:
        c = scalar(diffs["cnt.sub"], "copy")
        if c == 0:
            roots.add("counter:sub")
    if "cnt.sess" in diffs:
        c, o = scalar(diffs["cnt.sess"], "copy"), scalar(diffs["cnt.sess"], "orig")
        if c is not None and o is not None and c < o and c == int(pre["max_live"]["sess"]):
            roots.add("counter:sess")
    for sec, d in sorted(diffs.items()):
        md = mode_of(d)
        sample = "orig-only %s / copy-only %s" % (d["only_orig"][:1], d["only_copy"][:1])
        if sec in ("sub", "alloc", "payout"):
            key = "import-%s:%s" % (md, sec)
            out.append((key, "%d of %d %s records of the exporting chain are missing after re-import (%s)" % (d["n_only_orig"], d["n_orig"], sec, sample)
                        if md.startswith("lost") else "%s records differ after re-import (%s)" % (sec, sample)))
        elif sec in HUB_SECTIONS_SUB and "import-lost:sub" in roots and md == "lost":
            st["consequence.ix_sub"] += 1
        elif sec in HUB_SECTIONS_PAY and "import-lost:payout" in roots and md == "lost":
            st["consequence.ix_pay"] += 1
        elif sec == "cnt.sub":
            if "counter:sub" in roots:
                out.append(("counter:sub", "subscription counter %s before export, %s after re-import" % (scalar(d, "orig"), scalar(d, "copy"))))
            else:
                out.append(("counter-wrong:sub", "subscription counter differs after re-import (%s)" % sample))
        elif sec == "cnt.sess":
            if "counter:sess" in roots:
                out.append(("counter:sess", "session counter %s before export, %s (= highest live id) after re-import: ids %s..%s will be issued again" %
                            (scalar(d, "orig"), scalar(d, "copy"), (scalar(d, "copy") or 0) + 1, scalar(d, "orig"))))
            else:
                out.append(("counter-wrong:sess", "session counter differs after re-import (%s)" % sample))
        elif sec == "cnt.plan":
            out.append(("counter:plan", "plan counter differs after re-import (%s)" % sample))
        else:
            out.append(("import-%s:%s" % (md, sec), "section %s differs right after re-import: %d only in the original, %d only in the copy (%s)" %
                        (sec, d["n_only_orig"], d["n_only_copy"], sample)))
    # patched copy: whatever is left after compensating the known losses
    seen_secs = {k.split(":", 1)[1] for k, _ in out if k.startswith("import-")}
    for d in r.get("diff_patched", []):
        if d["section"] not in seen_secs:
            out.append(("import-%s:%s" % (mode_of(d), d["section"]), "section %s differs after re-import even with subscriptions and session counter restored" % d["section"]))

    # continuation of the plain copy
    cp = r.get("cont_plain")
    if cp and cp.get("first"):
        f = cp["first"]
        op, what = f["op"], f["what"]
        if what == "res" and f.get("copy") == "halt":
            msg = f.get("err", "")
            if re.search(r"subscription N does not exist", msg):
                if "import-lost:sub" in roots:
                    out.append(("continuation-halt:subscription-missing",
                                "re-imported chain halts in %s, %d ops after import: %s" % (op, f["i"], msg)))
                else:
                    out.append(("continuation-halt-unexplained:subscription-missing", "re-imported chain halts in %s though no subscription was lost: %s" % (op, msg)))
            else:
                out.append(("continuation-halt:" + slug(msg), "re-imported chain halts in %s: %s" % (op, msg)))
        elif what == "res" and f.get("orig") == "halt":
            out.append(("continuation:orig-halt:" + op, "the original halts in %s but the re-imported chain does not: %s" % (op, f.get("err", ""))))
        else:
            expl = EXPLAINS.get(op, set()) & roots
            if expl:
                st["continuation.explained"] += 1
                st["continuation.explained." + op] += 1
            else:
                out.append(("continuation:%s:%s" % (op, what), "first diverging op after re-import is %s (%s): original %s / copy %s [%s]; no lost record explains it" %
                            (op, what, json.dumps(f.get("orig"))[:160], json.dumps(f.get("copy"))[:160], f.get("line", "")[:120])))
    pp = r.get("cont_patched")
    if pp and pp.get("first"):
        f = pp["first"]
        out.append(("continuation-patched:%s:%s" % (f["op"], f["what"]),
                    "re-imported chain (subscriptions and session counter restored) diverges at %s (%s): original %s / copy %s %s" %
                    (f["op"], f["what"], json.dumps(f.get("orig"))[:160], json.dumps(f.get("copy"))[:160], f.get("err", ""))))
    return out, roots, st


def make_replay(V, r, tier_blocks, key, log):
    """ops file of this history with X at the export point (run: harness genesis -replay FILE -out o.jsonl)"""
    d = os.path.join(V, "out", "replay")
    os.makedirs(d, exist_ok=True)
    tag = hashlib.sha256(("%s-%s-%s-%s" % (r["seed"], r["h"], r["block"], key)).encode()).hexdigest()[:10]
    p = os.path.join(d, "C12-%s-%s.ops" % (slug(key), tag))
    tmp = p + ".tmp"
    cmd = "%s genesis -seed %d -n %d -blocks %d -only %d -at %d -out %s.out -ops %s -obs %s.obs" % (
        harness_bin(V), r["seed"], r["h"] + 1, tier_blocks, r["h"], r["block"], tmp, tmp, tmp)
    rc, out = sh(cmd, log)
    body = open(tmp).read() if os.path.exists(tmp) else ""
    with open(p, "w") as f:
        f.write("# replay for C12 key=%s: history %d of seed %d, export after block %d\n" % (key, r["h"], r["seed"], r["block"]))
        f.write("# run: %s genesis -replay %s -out /tmp/c12.jsonl   (X = export point)\n" % (harness_bin(V), p))
        f.write("# record: %s\n" % json.dumps({k: r[k] for k in ("validate", "json", "import", "diff", "cont_plain", "cont_patched") if k in r})[:3000])
        f.write(body)
    for x in (tmp, tmp + ".out", tmp + ".obs"):
        if os.path.exists(x):
            os.remove(x)
    return p


# ---------------------------------------------------------------------------------------------
# Coq genesis model: extraction + runner (model/genesis)
# ---------------------------------------------------------------------------------------------
def build(V, log):
    g = os.path.join(V, "model", "genesis")
    if not os.path.isdir(g):
        return False, "model/genesis missing"
    coq = os.path.join(V, "coq")
    exe = os.path.join(g, "hub_genesis_run")
    srcs = [os.path.join(g, "mk.sh"), os.path.join(V, "model", "driver.ml"), os.path.join(V, "model", "Extract.v"),
            os.path.join(coq, "theories", "Model", "Genesis.v")]
    srcs += [os.path.join(coq, "theories", "Model", x) for x in os.listdir(os.path.join(coq, "theories", "Model")) if x.endswith(".v")]
    if os.path.exists(exe) and all(os.path.getmtime(exe) >= os.path.getmtime(s) for s in srcs if os.path.exists(s)):
        return True, ""
    rc, out = sh("sh %s %s" % (os.path.join(g, "mk.sh"), V), log, timeout=1500)
    if rc != 0 or not os.path.exists(exe):
        return False, out[-800:]
    return True, ""


def model_tie(V, ops, obs, log):
    """-> (list of mismatches, n X points compared, n skipped)"""
    exe = os.path.join(V, "model", "genesis", "hub_genesis_run")
    mobs = obs + ".model"
    rc, out = sh("%s %s > %s" % (exe, ops, mobs), log, timeout=1500)
    if rc != 0:
        return [{"section": "run", "detail": out[-300:]}], 0, 0
    sys.path.insert(0, os.path.join(V, "tools"))
    import compare
    mism, n, skipped = [], 0, 0
    prev_ok = {}
    with open(obs) as fi, open(mobs) as fm:
        for li, lm in zip(fi, fm):
            a, b = json.loads(li), json.loads(lm)
            if (a["h"], a["i"], a["op"]) != (b["h"], b["i"], b["op"]):
                mism.append({"section": "alignment", "h": a["h"], "i": a["i"]})
                break
            if a["op"] != "X":
                # remember whether the pre-export states agree (else X says nothing about genesis)
                if "st" in a and "st" in b:
                    sa, sb = compare.sections(compare.norm_state(a["st"])), compare.sections(compare.norm_state(b["st"]))
                    prev_ok[a["h"]] = all(compare.canon(sa.get(k)) == compare.canon(sb.get(k)) for k in set(sa) | set(sb))
                continue
            if not prev_ok.get(a["h"], False):
                skipped += 1
                continue
            n += 1
            if a["res"] != b["res"]:
                mism.append({"section": "validate", "h": a["h"], "i": a["i"], "impl": a["res"], "model": b["res"]})
                continue
            if "st" in a and "st" in b:
                sa, sb = compare.sections(compare.norm_state(a["st"])), compare.sections(compare.norm_state(b["st"]))
                for k in sorted(set(sa) | set(sb)):
                    if compare.canon(sa.get(k)) != compare.canon(sb.get(k)):
                        mism.append({"section": k, "h": a["h"], "i": a["i"], "impl": json.dumps(sa.get(k))[:300], "model": json.dumps(sb.get(k))[:300]})
                        break
    return mism, n, skipped


# ---------------------------------------------------------------------------------------------
def run(tier, seed, V, log):
    t0 = time.time()
    work = os.path.join(V, "out", "c12")
    os.makedirs(work, exist_ok=True)
    if tier == "quick":
        shards = [(seed, 60, 10)]
    else:
        shards = [(seed * 16 + k, 150, 14) for k in range(4)]
    procs = []
    for k, (sd, n, blocks) in enumerate(shards):
        out = os.path.join(work, "g%d.jsonl" % k)
        cmd = [harness_bin(V), "genesis", "-seed", str(sd), "-n", str(n), "-blocks", str(blocks), "-out", out,
               "-ops", os.path.join(work, "ops%d.txt" % k), "-obs", os.path.join(work, "obs%d.jsonl" % k)]
        procs.append((subprocess.Popen(cmd, stdout=subprocess.PIPE, stderr=subprocess.STDOUT, text=True), out, blocks, k))
    findings, stats, samples = [], collections.Counter(), []
    seen = {}
    histories, ops, nontrivial = set(), 0, 0
    run_errors = []
    records = []
    for p, out, blocks, k in procs:
        o, _ = p.communicate()
        if p.returncode != 0:
            run_errors.append("shard %d: %s" % (k, o[-500:]))
            continue
        for line in open(out):
            r = json.loads(line)
            r["_blocks"] = blocks
            records.append(r)
    for r in records:
        histories.add((r["seed"], r["h"]))
        stats["export_points"] += 1
        cp, pp = r.get("cont_plain") or {}, r.get("cont_patched") or {}
        ops += r.get("ops_before", 0) + cp.get("ops", 0) + pp.get("ops", 0)
        keys, roots, st = classify(r)
        stats.update(st)
        n = r["pre"]["n"]
        populated = sum(1 for s in ("prov", "node", "plan", "swap", "infl", "dep", "sess") if n.get(s, 0) > 0)
        if not keys:
            stats["clean_roundtrip"] += 1
            if populated >= 2 and cp.get("ops", 0) >= 5:
                nontrivial += 1
                stats["clean_roundtrip_nontrivial"] += 1
        if roots:
            stats["with_known_root_loss"] += 1
        if pp.get("ops", 0) >= 5 and not pp.get("first") and not r.get("diff_patched"):
            stats["patched_lockstep_ok"] += 1
            stats["patched_lockstep_ops"] += pp["ops"]
        for s in ("sess", "ix.node_plan", "ix.node_q", "dep", "swap", "infl", "node_inactive", "plan_inactive"):
            if n.get(s, 0) > 0:
                stats["points_with." + s] += 1
        for key, text in keys:
            stats["key." + key] += 1
            if key not in seen:
                seen[key] = True
                rp = make_replay(V, r, r["_blocks"], key, log)
                findings.append({"what": "history %d of seed %d, export after block %d: %s" % (r["h"], r["seed"], r["block"], text),
                                 "replay": rp, "concrete": True, "key": key})
                samples.append("%s: h=%d block=%d %s" % (key, r["h"], r["block"], text[:160]))
    for e in run_errors:
        rp = os.path.join(V, "out", "replay", "C12-run-error.json")
        os.makedirs(os.path.dirname(rp), exist_ok=True)
        open(rp, "w").write(json.dumps({"broken": "harness genesis run failed", "detail": e}))
        findings.append({"what": "genesis round-trip run failed: " + e[:300], "replay": rp, "concrete": False, "key": "run-error"})

    # tie of the Coq genesis model to the code (shard 0 only in thorough: the model runner is the slow side)
    exe = os.path.join(V, "model", "genesis", "hub_genesis_run")
    if os.path.exists(exe) and not run_errors:
        mism, nx, skipped = model_tie(V, os.path.join(work, "ops0.txt"), os.path.join(work, "obs0.jsonl"), log)
        stats["model_tie.points"] = nx
        stats["model_tie.skipped_pre_state_differs"] = skipped
        for m in mism[:3]:
            rp = os.path.join(V, "out", "replay", "C12-model-%s.json" % slug(m["section"]))
            open(rp, "w").write(json.dumps({"broken": "Model/Genesis.v import(export s) disagrees with the re-imported chain", "detail": m,
                                            "ops": os.path.join(work, "ops0.txt")}, indent=1))
            findings.append({"what": "Coq genesis model disagrees with the code in section %s (history %s op %s): impl %s / model %s" %
                             (m["section"], m.get("h"), m.get("i"), m.get("impl"), m.get("model")), "replay": rp, "concrete": False, "key": "model:" + m["section"]})
    else:
        stats["model_tie.points"] = 0
    summary = "%d export points in %d histories: %d clean round trips (%d non-trivial), %d with the known subscription/counter loss; compensated copy in lock-step over %d ops at %d points; model tie at %d points; %.0f s" % (
        stats["export_points"], len(histories), stats["clean_roundtrip"], nontrivial, stats["with_known_root_loss"],
        stats["patched_lockstep_ops"], stats["patched_lockstep_ok"], stats["model_tie.points"], time.time() - t0)
    return {"findings": findings, "histories": len(histories), "ops": ops, "nontrivial": nontrivial, "stats": dict(stats),
            "samples": samples[:12], "summary": summary}


def replay(path, V, log):
    """re-run a replay file written by make_replay (ops with X at the export point) on the current tree"""
    out = os.path.join(V, "out", "c12-replay.jsonl")
    rc, o = sh("%s genesis -replay %s -out %s" % (harness_bin(V), path, out), log)
    findings, n = [], 0
    if rc != 0:
        return {"findings": [{"what": "replay failed: " + o[-300:], "replay": path, "concrete": False, "key": "run-error"}],
                "histories": 0, "ops": 0, "nontrivial": 0, "stats": {}, "samples": [], "summary": "replay failed"}
    seen = set()
    for line in open(out):
        r = json.loads(line)
        n += 1
        keys, roots, st = classify(r)
        for key, text in keys:
            if key not in seen:
                seen.add(key)
                findings.append({"what": "export after block %d: %s" % (r["block"], text), "replay": path, "concrete": True, "key": key})
    return {"findings": findings, "histories": 1, "ops": 0, "nontrivial": 0, "stats": {}, "samples": [],
            "summary": "replayed %d export point(s): keys %s" % (n, sorted(seen))}


def main():
    """stand-alone use, mimicking the verdict of /verif/check"""
    V = os.environ.get("VERIF_ROOT", "/verif")
    tier = "quick"
    if "--tier" in sys.argv:
        tier = sys.argv[sys.argv.index("--tier") + 1]
    seed = int(os.environ.get("VERIF_SEED", "1") or "1")
    log = os.path.join(V, "out", "ext-c12.log")
    os.makedirs(os.path.join(V, "out"), exist_ok=True)
    open(log, "w").write("")
    if "--replay" in sys.argv:
        res = replay(sys.argv[sys.argv.index("--replay") + 1], V, log)
        print(res["summary"])
        sys.exit(0)
    if "--no-build" not in sys.argv:
        ok, err = build(V, log)
        if not ok:
            print("model/genesis build failed: " + err)
    res = run(tier, seed, V, log)
    known = []
    kf = os.environ.get("VERIF_KNOWN") or os.path.join(V, "KNOWN_FINDINGS.txt")
    for line in open(kf):
        m = re.match(r"finding:\s*property=(\S+)\s+key=(\S+)\s+(.*)", line.strip())
        if m and m.group(1) == "C12":
            known.append(m.group(2))
    bad = 0
    for f in res["findings"]:
        if f["key"] in known:
            print("KNOWN-FINDING: property=C12 key=%s %s" % (f["key"], f["what"][:200]))
        else:
            bad += 1
            print("VIOLATION property=C12 key=%s replay=%s%s\n   %s" % (f["key"], f["replay"], "" if f["concrete"] else " no-failing-input-found", f["what"][:400]))
    print(res["summary"])
    print(json.dumps(res["stats"], sort_keys=True))
    sys.exit(1 if bad else 0)


if __name__ == "__main__":
    main()
