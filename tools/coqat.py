#!/usr/bin/env python3
"""coqat.py FILE LINE [maxlines]: show the goals just before line LINE of FILE (1-based; file truncated there)."""
import subprocess, sys
f, line = sys.argv[1], int(sys.argv[2])
maxl = int(sys.argv[3]) if len(sys.argv) > 3 else 70
src = open(f).read().split("\n")
t = "\n".join(src[:line - 1]) + "\nShow. Abort.\n"
tmp = "/tmp/coqat_%d.v" % line
open(tmp, "w").write(t)
p = subprocess.run("timeout 300 coqc -Q /verif/coq/theories Hub %s" % tmp, shell=True, stdout=subprocess.PIPE, stderr=subprocess.STDOUT, text=True)
print("\n".join(p.stdout.splitlines()[:maxl]))
