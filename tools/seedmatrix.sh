#!/bin/bash
# seedmatrix.sh [dirs...]: for every archived seeded change (default: all of seeded/*), apply it to /repo, run the check of the property
# it was written against (quick tier), keep the last lines as seeded/<dir>/check_<PID>.out, undo.  Sequential; /repo must be clean.
cd "$(dirname "$0")/.."
export GOFLAGS=-mod=mod GOPROXY=off GOSUMDB=off GOTOOLCHAIN=local
dirs=${@:-$(ls seeded)}
for d in $dirs; do
  pid=$(python3 -c "import json,sys; print(json.load(open('/verif/seeded/$d/meta.json')).get('property','${d%%_*}'))" 2>/dev/null || echo ${d%%_*})
  if [ -n "$(git -C /repo status --porcelain)" ]; then echo "/repo is dirty, abort"; exit 2; fi
  git -C /repo apply --check /verif/seeded/$d/patch.diff 2>/dev/null || { echo "$d: patch does not apply"; continue; }
  git -C /repo apply /verif/seeded/$d/patch.diff
  s=$(date +%s)
  ./check $pid --tier quick > seeded/$d/check_$pid.out 2>&1; echo "exit $?" >> seeded/$d/check_$pid.out
  git -C /repo checkout -- .
  echo "$d [$(( $(date +%s) - s )) s] $(grep -h 'VIOLATION\|: ok (' seeded/$d/check_$pid.out | tail -1 | cut -c1-200)"
done
