package main

// C17 correspondence: what the REAL key constructors / decoders of every
// x/*/types/keys.go, the real store prefixes of the sub-keepers, the real bech32
// codecs of the three address roles and bytes.Compare on real queue keys compute
// on generated and boundary inputs.  One line per case, `<inputs> => <outputs>`;
// the model runner (/verif/model/keys) recomputes the right-hand sides from
// Gen/KeysGen.v and tools/ext_c17.py diffs the two files.
//
//	harness keys -seed S -n N -out FILE

import (
	"bufio"
	"bytes"
	"encoding/hex"
	"flag"
	"fmt"
	"math/big"
	"math/rand"
	"os"
	"strings"
	"time"

	sdk "github.com/cosmos/cosmos-sdk/types"

	hubtypes "github.com/sentinel-official/hub/v12/types"
	deposittypes "github.com/sentinel-official/hub/v12/x/deposit/types"
	customminttypes "github.com/sentinel-official/hub/v12/x/mint/types"
	nodetypes "github.com/sentinel-official/hub/v12/x/node/types"
	plantypes "github.com/sentinel-official/hub/v12/x/plan/types"
	providertypes "github.com/sentinel-official/hub/v12/x/provider/types"
	sessiontypes "github.com/sentinel-official/hub/v12/x/session/types"
	subscriptiontypes "github.com/sentinel-official/hub/v12/x/subscription/types"
	swaptypes "github.com/sentinel-official/hub/v12/x/swap/types"
	vpntypes "github.com/sentinel-official/hub/v12/x/vpn/types"
)

func init() { extraCommands["keys"] = runKeys }

type keyArgs struct {
	a1, a2   []byte
	id1, id2 uint64
	t        time.Time
	h        []byte // 32 bytes
}

type keyCtor struct {
	name string
	f    func(x keyArgs) []byte
}

// every constructor of every keys.go, in the order of the files (the order of
// gen_constructors in Gen/KeysGen.v).  Uniform call convention: k-th address
// parameter <- a1/a2, k-th uint64 <- id1/id2, time <- t, hash <- h.
var keyCtors = []keyCtor{
	{"deposit_DepositKey", func(x keyArgs) []byte { return deposittypes.DepositKey(x.a1) }},
	{"mint_InflationKey", func(x keyArgs) []byte { return customminttypes.InflationKey(x.t) }},
	{"node_ActiveNodeKey", func(x keyArgs) []byte { return nodetypes.ActiveNodeKey(x.a1) }},
	{"node_InactiveNodeKey", func(x keyArgs) []byte { return nodetypes.InactiveNodeKey(x.a1) }},
	{"node_GetNodeForPlanKeyPrefix", func(x keyArgs) []byte { return nodetypes.GetNodeForPlanKeyPrefix(x.id1) }},
	{"node_NodeForPlanKey", func(x keyArgs) []byte { return nodetypes.NodeForPlanKey(x.id1, x.a1) }},
	{"node_GetNodeForInactiveAtKeyPrefix", func(x keyArgs) []byte { return nodetypes.GetNodeForInactiveAtKeyPrefix(x.t) }},
	{"node_NodeForInactiveAtKey", func(x keyArgs) []byte { return nodetypes.NodeForInactiveAtKey(x.t, x.a1) }},
	{"plan_ActivePlanKey", func(x keyArgs) []byte { return plantypes.ActivePlanKey(x.id1) }},
	{"plan_InactivePlanKey", func(x keyArgs) []byte { return plantypes.InactivePlanKey(x.id1) }},
	{"plan_GetPlanForProviderKeyPrefix", func(x keyArgs) []byte { return plantypes.GetPlanForProviderKeyPrefix(x.a1) }},
	{"plan_PlanForProviderKey", func(x keyArgs) []byte { return plantypes.PlanForProviderKey(x.a1, x.id1) }},
	{"provider_ActiveProviderKey", func(x keyArgs) []byte { return providertypes.ActiveProviderKey(x.a1) }},
	{"provider_InactiveProviderKey", func(x keyArgs) []byte { return providertypes.InactiveProviderKey(x.a1) }},
	{"session_SessionKey", func(x keyArgs) []byte { return sessiontypes.SessionKey(x.id1) }},
	{"session_GetSessionForAccountKeyPrefix", func(x keyArgs) []byte { return sessiontypes.GetSessionForAccountKeyPrefix(x.a1) }},
	{"session_SessionForAccountKey", func(x keyArgs) []byte { return sessiontypes.SessionForAccountKey(x.a1, x.id1) }},
	{"session_GetSessionForNodeKeyPrefix", func(x keyArgs) []byte { return sessiontypes.GetSessionForNodeKeyPrefix(x.a1) }},
	{"session_SessionForNodeKey", func(x keyArgs) []byte { return sessiontypes.SessionForNodeKey(x.a1, x.id1) }},
	{"session_GetSessionForSubscriptionKeyPrefix", func(x keyArgs) []byte { return sessiontypes.GetSessionForSubscriptionKeyPrefix(x.id1) }},
	{"session_SessionForSubscriptionKey", func(x keyArgs) []byte { return sessiontypes.SessionForSubscriptionKey(x.id1, x.id2) }},
	{"session_GetSessionForAllocationKeyPrefix", func(x keyArgs) []byte { return sessiontypes.GetSessionForAllocationKeyPrefix(x.id1, x.a1) }},
	{"session_SessionForAllocationKey", func(x keyArgs) []byte { return sessiontypes.SessionForAllocationKey(x.id1, x.a1, x.id2) }},
	{"session_GetSessionForInactiveAtKeyPrefix", func(x keyArgs) []byte { return sessiontypes.GetSessionForInactiveAtKeyPrefix(x.t) }},
	{"session_SessionForInactiveAtKey", func(x keyArgs) []byte { return sessiontypes.SessionForInactiveAtKey(x.t, x.id1) }},
	{"subscription_SubscriptionKey", func(x keyArgs) []byte { return subscriptiontypes.SubscriptionKey(x.id1) }},
	{"subscription_GetSubscriptionForAccountKeyPrefix", func(x keyArgs) []byte { return subscriptiontypes.GetSubscriptionForAccountKeyPrefix(x.a1) }},
	{"subscription_SubscriptionForAccountKey", func(x keyArgs) []byte { return subscriptiontypes.SubscriptionForAccountKey(x.a1, x.id1) }},
	{"subscription_GetSubscriptionForNodeKeyPrefix", func(x keyArgs) []byte { return subscriptiontypes.GetSubscriptionForNodeKeyPrefix(x.a1) }},
	{"subscription_SubscriptionForNodeKey", func(x keyArgs) []byte { return subscriptiontypes.SubscriptionForNodeKey(x.a1, x.id1) }},
	{"subscription_GetSubscriptionForPlanKeyPrefix", func(x keyArgs) []byte { return subscriptiontypes.GetSubscriptionForPlanKeyPrefix(x.id1) }},
	{"subscription_SubscriptionForPlanKey", func(x keyArgs) []byte { return subscriptiontypes.SubscriptionForPlanKey(x.id1, x.id2) }},
	{"subscription_GetSubscriptionForInactiveAtKeyPrefix", func(x keyArgs) []byte { return subscriptiontypes.GetSubscriptionForInactiveAtKeyPrefix(x.t) }},
	{"subscription_SubscriptionForInactiveAtKey", func(x keyArgs) []byte { return subscriptiontypes.SubscriptionForInactiveAtKey(x.t, x.id1) }},
	{"subscription_GetAllocationForSubscriptionKeyPrefix", func(x keyArgs) []byte { return subscriptiontypes.GetAllocationForSubscriptionKeyPrefix(x.id1) }},
	{"subscription_AllocationKey", func(x keyArgs) []byte { return subscriptiontypes.AllocationKey(x.id1, x.a1) }},
	{"subscription_PayoutKey", func(x keyArgs) []byte { return subscriptiontypes.PayoutKey(x.id1) }},
	{"subscription_GetPayoutForNextAtKeyPrefix", func(x keyArgs) []byte { return subscriptiontypes.GetPayoutForNextAtKeyPrefix(x.t) }},
	{"subscription_PayoutForNextAtKey", func(x keyArgs) []byte { return subscriptiontypes.PayoutForNextAtKey(x.t, x.id1) }},
	{"subscription_GetPayoutForAccountKeyPrefix", func(x keyArgs) []byte { return subscriptiontypes.GetPayoutForAccountKeyPrefix(x.a1) }},
	{"subscription_PayoutForAccountKey", func(x keyArgs) []byte { return subscriptiontypes.PayoutForAccountKey(x.a1, x.id1) }},
	{"subscription_GetPayoutForNodeKeyPrefix", func(x keyArgs) []byte { return subscriptiontypes.GetPayoutForNodeKeyPrefix(x.a1) }},
	{"subscription_PayoutForNodeKey", func(x keyArgs) []byte { return subscriptiontypes.PayoutForNodeKey(x.a1, x.id1) }},
	{"subscription_GetPayoutForAccountByNodeKeyPrefix", func(x keyArgs) []byte { return subscriptiontypes.GetPayoutForAccountByNodeKeyPrefix(x.a1, x.a2) }},
	{"subscription_PayoutForAccountByNodeKey", func(x keyArgs) []byte { return subscriptiontypes.PayoutForAccountByNodeKey(x.a1, x.a2, x.id1) }},
	{"swap_SwapKey", func(x keyArgs) []byte { return swaptypes.SwapKey(swaptypes.BytesToHash(x.h)) }},
}

type keyDec struct {
	name string
	of   string // the constructor whose keys it decodes
	f    func(key []byte) string
}

func k17u64(v uint64) string { return fmt.Sprintf("%d", v) }

var keyDecs = []keyDec{
	{"node_AddressFromNodeForPlanKey", "node_NodeForPlanKey", func(k []byte) string { return k17hx(nodetypes.AddressFromNodeForPlanKey(k)) }},
	{"node_AddressFromNodeForInactiveAtKey", "node_NodeForInactiveAtKey", func(k []byte) string { return k17hx(nodetypes.AddressFromNodeForInactiveAtKey(k)) }},
	{"plan_IDFromPlanForProviderKey", "plan_PlanForProviderKey", func(k []byte) string { return k17u64(plantypes.IDFromPlanForProviderKey(k)) }},
	{"session_IDFromSessionForAccountKey", "session_SessionForAccountKey", func(k []byte) string { return k17u64(sessiontypes.IDFromSessionForAccountKey(k)) }},
	{"session_IDFromSessionForNodeKey", "session_SessionForNodeKey", func(k []byte) string { return k17u64(sessiontypes.IDFromSessionForNodeKey(k)) }},
	{"session_IDFromSessionForSubscriptionKey", "session_SessionForSubscriptionKey", func(k []byte) string { return k17u64(sessiontypes.IDFromSessionForSubscriptionKey(k)) }},
	{"session_IDFromSessionForAllocationKey", "session_SessionForAllocationKey", func(k []byte) string { return k17u64(sessiontypes.IDFromSessionForAllocationKey(k)) }},
	{"session_IDFromSessionForInactiveAtKey", "session_SessionForInactiveAtKey", func(k []byte) string { return k17u64(sessiontypes.IDFromSessionForInactiveAtKey(k)) }},
	{"subscription_AccAddrFromSubscriptionForAccountKey", "subscription_SubscriptionForAccountKey", func(k []byte) string {
		return k17hx(subscriptiontypes.AccAddrFromSubscriptionForAccountKey(k))
	}},
	{"subscription_IDFromSubscriptionForAccountKey", "subscription_SubscriptionForAccountKey", func(k []byte) string { return k17u64(subscriptiontypes.IDFromSubscriptionForAccountKey(k)) }},
	{"subscription_IDFromSubscriptionForNodeKey", "subscription_SubscriptionForNodeKey", func(k []byte) string { return k17u64(subscriptiontypes.IDFromSubscriptionForNodeKey(k)) }},
	{"subscription_IDFromSubscriptionForPlanKey", "subscription_SubscriptionForPlanKey", func(k []byte) string { return k17u64(subscriptiontypes.IDFromSubscriptionForPlanKey(k)) }},
	{"subscription_IDFromSubscriptionForInactiveAtKey", "subscription_SubscriptionForInactiveAtKey", func(k []byte) string { return k17u64(subscriptiontypes.IDFromSubscriptionForInactiveAtKey(k)) }},
	{"subscription_IDFromPayoutForAccountKey", "subscription_PayoutForAccountKey", func(k []byte) string { return k17u64(subscriptiontypes.IDFromPayoutForAccountKey(k)) }},
	{"subscription_IDFromPayoutForNodeKey", "subscription_PayoutForNodeKey", func(k []byte) string { return k17u64(subscriptiontypes.IDFromPayoutForNodeKey(k)) }},
	{"subscription_IDFromPayoutForAccountByNodeKey", "subscription_PayoutForAccountByNodeKey", func(k []byte) string { return k17u64(subscriptiontypes.IDFromPayoutForAccountByNodeKey(k)) }},
	{"subscription_IDFromPayoutForNextAtKey", "subscription_PayoutForNextAtKey", func(k []byte) string { return k17u64(subscriptiontypes.IDFromPayoutForNextAtKey(k)) }},
}

var keyPrefixVars = []struct {
	name string
	v    *[]byte
}{
	{"deposit_DepositKeyPrefix", &deposittypes.DepositKeyPrefix},
	{"mint_InflationKeyPrefix", &customminttypes.InflationKeyPrefix},
	{"node_NodeKeyPrefix", &nodetypes.NodeKeyPrefix},
	{"node_ActiveNodeKeyPrefix", &nodetypes.ActiveNodeKeyPrefix},
	{"node_InactiveNodeKeyPrefix", &nodetypes.InactiveNodeKeyPrefix},
	{"node_NodeForInactiveAtKeyPrefix", &nodetypes.NodeForInactiveAtKeyPrefix},
	{"node_NodeForPlanKeyPrefix", &nodetypes.NodeForPlanKeyPrefix},
	{"plan_CountKey", &plantypes.CountKey},
	{"plan_PlanKeyPrefix", &plantypes.PlanKeyPrefix},
	{"plan_ActivePlanKeyPrefix", &plantypes.ActivePlanKeyPrefix},
	{"plan_InactivePlanKeyPrefix", &plantypes.InactivePlanKeyPrefix},
	{"plan_PlanForProviderKeyPrefix", &plantypes.PlanForProviderKeyPrefix},
	{"provider_ProviderKeyPrefix", &providertypes.ProviderKeyPrefix},
	{"provider_ActiveProviderKeyPrefix", &providertypes.ActiveProviderKeyPrefix},
	{"provider_InactiveProviderKeyPrefix", &providertypes.InactiveProviderKeyPrefix},
	{"session_CountKey", &sessiontypes.CountKey},
	{"session_SessionKeyPrefix", &sessiontypes.SessionKeyPrefix},
	{"session_SessionForInactiveAtKeyPrefix", &sessiontypes.SessionForInactiveAtKeyPrefix},
	{"session_SessionForAccountKeyPrefix", &sessiontypes.SessionForAccountKeyPrefix},
	{"session_SessionForNodeKeyPrefix", &sessiontypes.SessionForNodeKeyPrefix},
	{"session_SessionForSubscriptionKeyPrefix", &sessiontypes.SessionForSubscriptionKeyPrefix},
	{"session_SessionForAllocationKeyPrefix", &sessiontypes.SessionForAllocationKeyPrefix},
	{"subscription_CountKey", &subscriptiontypes.CountKey},
	{"subscription_SubscriptionKeyPrefix", &subscriptiontypes.SubscriptionKeyPrefix},
	{"subscription_SubscriptionForInactiveAtKeyPrefix", &subscriptiontypes.SubscriptionForInactiveAtKeyPrefix},
	{"subscription_SubscriptionForAccountKeyPrefix", &subscriptiontypes.SubscriptionForAccountKeyPrefix},
	{"subscription_SubscriptionForNodeKeyPrefix", &subscriptiontypes.SubscriptionForNodeKeyPrefix},
	{"subscription_SubscriptionForPlanKeyPrefix", &subscriptiontypes.SubscriptionForPlanKeyPrefix},
	{"subscription_AllocationKeyPrefix", &subscriptiontypes.AllocationKeyPrefix},
	{"subscription_PayoutKeyPrefix", &subscriptiontypes.PayoutKeyPrefix},
	{"subscription_PayoutForNextAtKeyPrefix", &subscriptiontypes.PayoutForNextAtKeyPrefix},
	{"subscription_PayoutForAccountKeyPrefix", &subscriptiontypes.PayoutForAccountKeyPrefix},
	{"subscription_PayoutForNodeKeyPrefix", &subscriptiontypes.PayoutForNodeKeyPrefix},
	{"subscription_PayoutForAccountByNodeKeyPrefix", &subscriptiontypes.PayoutForAccountByNodeKeyPrefix},
	{"swap_SwapKeyPrefix", &swaptypes.SwapKeyPrefix},
}

func k17hx(b []byte) string {
	if len(b) == 0 {
		return "-"
	}
	return hex.EncodeToString(b)
}

// run f, copy its result at once (constructors may return slices that share a
// backing array with a package-level prefix), turn a panic into "panic"
func k17safeKey(f func() []byte) (out []byte, panicked bool) {
	defer func() {
		if r := recover(); r != nil {
			out, panicked = nil, true
		}
	}()
	k := f()
	return append([]byte(nil), k...), false
}

func k17safeStr(f func() string) (s string) {
	defer func() {
		if r := recover(); r != nil {
			s = "panic"
		}
	}()
	return f()
}

var (
	k17nsPerS  = big.NewInt(1000000000)
	k17minTime = new(big.Int).Mul(big.NewInt(-62135596800), k17nsPerS)
	k17maxTime = new(big.Int).Add(new(big.Int).Mul(big.NewInt(253402300799), k17nsPerS), big.NewInt(999999999))
)

// instant = nanoseconds since the Unix epoch (arbitrary precision)
func k17timeOf(ns *big.Int) time.Time {
	sec, nsec := new(big.Int).DivMod(ns, k17nsPerS, new(big.Int)) // Euclidean: 0 <= nsec
	return time.Unix(sec.Int64(), nsec.Int64())
}

func k17civil(y int, mo time.Month, d, h, mi, s, ns int) *big.Int {
	t := time.Date(y, mo, d, h, mi, s, ns, time.UTC)
	r := new(big.Int).Mul(big.NewInt(t.Unix()), k17nsPerS)
	return r.Add(r, big.NewInt(int64(t.Nanosecond())))
}

type keyGen struct {
	r     *rand.Rand
	addrs [][]byte
	ids   []uint64
	times []*big.Int
}

func (g *keyGen) bytesN(n int) []byte {
	b := make([]byte, n)
	g.r.Read(b)
	return b
}

var k17boundaryLens = []int{1, 2, 19, 20, 21, 32, 254, 255}

func newKeyGen(seed int64) *keyGen {
	g := &keyGen{r: rand.New(rand.NewSource(seed))}
	for _, n := range k17boundaryLens {
		g.addrs = append(g.addrs, g.bytesN(n), g.bytesN(n))
	}
	g.addrs = append(g.addrs, bytes.Repeat([]byte{0}, 20), bytes.Repeat([]byte{0xff}, 20), []byte{0}, []byte{0xff})
	// chains in prefix relation; first bytes that look like length bytes
	for i := 0; i < 6; i++ {
		base := g.bytesN(1 + g.r.Intn(20))
		if i%2 == 0 {
			base[0] = byte(1 + g.r.Intn(3))
		}
		g.addrs = append(g.addrs, base)
		cur := base
		for j := 0; j < 3; j++ {
			cur = append(append([]byte(nil), cur...), g.bytesN(1+g.r.Intn(8))...)
			g.addrs = append(g.addrs, cur)
		}
	}
	g.addrs = append(g.addrs, []byte{1}, []byte{1, 2}, []byte{2, 1, 2}, []byte{1, 1}, []byte{20}, append([]byte{20}, bytes.Repeat([]byte{7}, 20)...))
	g.ids = []uint64{0, 1, 2, 255, 256, 257, 65535, 65536, 1 << 32, 1<<32 - 1, 1 << 63, 1<<63 - 1, 1<<64 - 1, 1<<64 - 2}
	for i := 0; i < 6; i++ {
		g.ids = append(g.ids, g.r.Uint64(), uint64(g.r.Intn(1000)))
	}
	add := func(t *big.Int) {
		if t.Cmp(k17minTime) >= 0 && t.Cmp(k17maxTime) <= 0 {
			g.times = append(g.times, t)
		}
	}
	around := func(t *big.Int) {
		for _, d := range []int64{-1000000000, -2, -1, 0, 1, 2, 1000000000} {
			add(new(big.Int).Add(t, big.NewInt(d)))
		}
	}
	around(k17minTime)
	around(k17maxTime)
	around(big.NewInt(0))
	for _, y := range []int{1, 2, 4, 5, 100, 101, 400, 401, 1600, 1900, 1901, 1969, 1970, 1999, 2000, 2001, 2023, 2024, 2025, 2100, 2400, 9996, 9998, 9999} {
		around(k17civil(y, time.January, 1, 0, 0, 0, 0))
		around(k17civil(y, time.March, 1, 0, 0, 0, 0)) // the instant after 28/29 February
		add(k17civil(y, time.February, 28, 23, 59, 59, 999999999))
		add(k17civil(y, time.December, 31, 23, 59, 59, 999999999))
		add(k17civil(y, time.Month(1+g.r.Intn(12)), 1+g.r.Intn(28), g.r.Intn(24), g.r.Intn(60), g.r.Intn(60), g.r.Intn(1000000000)))
	}
	return g
}

func (g *keyGen) addr() []byte {
	switch g.r.Intn(10) {
	case 0:
		return g.bytesN(k17boundaryLens[g.r.Intn(len(k17boundaryLens))])
	case 1:
		return g.bytesN(1 + g.r.Intn(255))
	case 2:
		return g.bytesN(20)
	}
	return g.addrs[g.r.Intn(len(g.addrs))]
}

func (g *keyGen) id() uint64 {
	if g.r.Intn(4) == 0 {
		return g.r.Uint64() >> uint(g.r.Intn(64))
	}
	return g.ids[g.r.Intn(len(g.ids))]
}

func (g *keyGen) time() *big.Int {
	switch g.r.Intn(6) {
	case 0: // anywhere in years 1..9999
		span := new(big.Int).Sub(k17maxTime, k17minTime)
		return new(big.Int).Add(k17minTime, new(big.Int).Rand(g.r, span.Add(span, big.NewInt(1))))
	case 1: // block-time like
		return new(big.Int).Add(k17civil(2020, 1, 1, 0, 0, 0, 0), new(big.Int).Rand(g.r, big.NewInt(400000000000000000)))
	case 2: // next to a pool time
		t := g.times[g.r.Intn(len(g.times))]
		n := new(big.Int).Add(t, big.NewInt(int64(g.r.Intn(5)-2)))
		if n.Cmp(k17minTime) >= 0 && n.Cmp(k17maxTime) <= 0 {
			return n
		}
		return t
	}
	return g.times[g.r.Intn(len(g.times))]
}

func (g *keyGen) args() (keyArgs, *big.Int) {
	tn := g.time()
	x := keyArgs{a1: g.addr(), a2: g.addr(), id1: g.id(), id2: g.id(), t: k17timeOf(tn), h: g.bytesN(32)}
	if g.r.Intn(8) == 0 {
		x.a2 = x.a1
	}
	if g.r.Intn(8) == 0 {
		x.id2 = x.id1
	}
	return x, tn
}

// confusable pair: a' = a ++ s and an id whose big-endian bytes start with s, so
// that keys built WITHOUT a length prefix would be in prefix relation
func (g *keyGen) confusable() (keyArgs, keyArgs, *big.Int) {
	x, tn := g.args()
	if len(x.a1) > 240 {
		x.a1 = x.a1[:20]
	}
	s := g.bytesN(1 + g.r.Intn(8))
	y := x
	y.a1 = append(append([]byte(nil), x.a1...), s...)
	var be [8]byte
	for i := 0; i < 8; i++ {
		be[i] = byte(y.id1 >> uint(56-8*i))
	}
	var nb [8]byte
	copy(nb[:], s)
	copy(nb[len(s):], be[:8-len(s)])
	x.id1 = 0
	for i := 0; i < 8; i++ {
		x.id1 = x.id1<<8 | uint64(nb[i])
	}
	return x, y, tn
}

func k17kLine(w *bufio.Writer, x keyArgs, tn *big.Int, aliasStats map[string]int) {
	fmt.Fprintf(w, "K %s %s %d %d %s %s =>", k17hx(x.a1), k17hx(x.a2), x.id1, x.id2, tn.String(), k17hx(x.h))
	keys := map[string][]byte{}
	for _, c := range keyCtors {
		k, p := k17safeKey(func() []byte { return c.f(x) })
		if p {
			fmt.Fprintf(w, " %s=panic", c.name)
			continue
		}
		keys[c.name] = k
		fmt.Fprintf(w, " %s=%s", c.name, k17hx(k))
	}
	for _, d := range keyDecs {
		k, ok := keys[d.of]
		if !ok {
			fmt.Fprintf(w, " %s=nokey", d.name)
			continue
		}
		fmt.Fprintf(w, " %s=%s", d.name, k17safeStr(func() string { return d.f(k) }))
	}
	fmt.Fprintln(w)
}

// value semantics of the constructors: is a key returned earlier still intact
// after the same constructor has been called again?  (informational)
func k17aliasProbe(w *bufio.Writer, g *keyGen) {
	shared := 0
	var first string
	names := map[string]bool{}
	var order []string
	for _, c := range keyCtors {
		for _, n := range []int{1, 2, 3, 5, 20} {
			x, _ := g.args()
			y, _ := g.args()
			x.a1, x.a2, y.a1, y.a2 = g.bytesN(n), g.bytesN(n), g.bytesN(n), g.bytesN(n)
			var k1, c1 []byte
			bad := false
			func() {
				defer func() { _ = recover() }()
				k1 = c.f(x)
				c1 = append([]byte(nil), k1...)
				_ = c.f(y)
				bad = !bytes.Equal(k1, c1)
			}()
			if bad {
				shared++
				if !names[fmt.Sprintf("%s/%d", c.name, n)] {
					names[fmt.Sprintf("%s/%d", c.name, n)] = true
					order = append(order, fmt.Sprintf("%s/%d", c.name, n))
				}
				if first == "" {
					first = fmt.Sprintf("%s addrlen=%d", c.name, n)
				}
			}
		}
	}
	fmt.Fprintf(w, "# alias-probe overwritten=%d first=%q all(constructor/address-length)=%s\n", shared, first, strings.Join(order, ","))
}

func k17mutateKey(g *keyGen, k []byte) []byte {
	k = append([]byte(nil), k...)
	switch g.r.Intn(7) {
	case 0: // truncate
		if len(k) > 0 {
			k = k[:g.r.Intn(len(k))]
		}
	case 1: // extend
		k = append(k, g.bytesN(1+g.r.Intn(9))...)
	case 2: // change a (likely length) byte near the front
		if len(k) > 1 {
			i := 1 + g.r.Intn(k17min(len(k)-1, 12))
			k[i] = byte(g.r.Intn(256))
		}
	case 3: // off by one length
		if len(k) > 0 {
			if g.r.Intn(2) == 0 {
				k = k[:len(k)-1]
			} else {
				k = append(k, byte(g.r.Intn(256)))
			}
		}
	case 4: // random short
		k = g.bytesN(g.r.Intn(40))
	case 5: // flip any byte
		if len(k) > 0 {
			k[g.r.Intn(len(k))] ^= byte(1 << uint(g.r.Intn(8)))
		}
	case 6: // length byte set to the exact remaining size patterns
		if len(k) > 10 {
			k[9] = byte(len(k) - 10)
		}
	}
	return k
}

func k17min(a, b int) int {
	if a < b {
		return a
	}
	return b
}

type queueFam struct {
	name  string
	byID  bool // tie-break by identifier (else by address); mint: neither
	plain bool
	f     func(t time.Time, id uint64, a []byte) []byte
}

var queueFams = []queueFam{
	{"node_NodeForInactiveAtKey", false, false, func(t time.Time, id uint64, a []byte) []byte { return nodetypes.NodeForInactiveAtKey(t, a) }},
	{"subscription_SubscriptionForInactiveAtKey", true, false, func(t time.Time, id uint64, a []byte) []byte {
		return subscriptiontypes.SubscriptionForInactiveAtKey(t, id)
	}},
	{"subscription_PayoutForNextAtKey", true, false, func(t time.Time, id uint64, a []byte) []byte { return subscriptiontypes.PayoutForNextAtKey(t, id) }},
	{"session_SessionForInactiveAtKey", true, false, func(t time.Time, id uint64, a []byte) []byte { return sessiontypes.SessionForInactiveAtKey(t, id) }},
	{"mint_InflationKey", false, true, func(t time.Time, id uint64, a []byte) []byte { return customminttypes.InflationKey(t) }},
}

var k17roleNames = []string{"acc", "node", "prov"}

func k17roleText(role int, a []byte) string {
	switch role {
	case 0:
		return sdk.AccAddress(a).String()
	case 1:
		return hubtypes.NodeAddress(a).String()
	}
	return hubtypes.ProvAddress(a).String()
}

func k17roleParse(role int, s string) string {
	var b []byte
	var err error
	switch role {
	case 0:
		var a sdk.AccAddress
		a, err = sdk.AccAddressFromBech32(s)
		b = a
	case 1:
		var a hubtypes.NodeAddress
		a, err = hubtypes.NodeAddressFromBech32(s)
		b = a
	default:
		var a hubtypes.ProvAddress
		a, err = hubtypes.ProvAddressFromBech32(s)
		b = a
	}
	if err != nil {
		return "err"
	}
	return "ok:" + k17hx(b)
}

const k17charset = "qpzry9x8gf2tvdw0s3jn54khce6mua7l"

func k17mutateText(g *keyGen, s string) string {
	b := []byte(s)
	switch g.r.Intn(12) {
	case 0: // substitute one data character
		if len(b) > 0 {
			b[g.r.Intn(len(b))] = k17charset[g.r.Intn(32)]
		}
	case 1:
		return strings.ToUpper(s)
	case 2: // mixed case
		if len(b) > 0 {
			i := g.r.Intn(len(b))
			b[i] = []byte(strings.ToUpper(string(b[i : i+1])))[0]
		}
	case 3: // truncate
		if len(b) > 0 {
			b = b[:g.r.Intn(len(b))]
		}
	case 4: // surrounding white space
		ws := []string{" ", "\t", "\n", "\r", "  "}
		return ws[g.r.Intn(len(ws))] + s + ws[g.r.Intn(len(ws))]
	case 5: // leading white space only
		return " " + s
	case 6: // swap two characters
		if len(b) > 2 {
			i := g.r.Intn(len(b) - 1)
			b[i], b[i+1] = b[i+1], b[i]
		}
	case 7: // insert a character
		i := g.r.Intn(len(b) + 1)
		b = append(b[:i], append([]byte{k17charset[g.r.Intn(32)]}, b[i:]...)...)
	case 8: // a non-charset / non-printable character
		if len(b) > 0 {
			b[g.r.Intn(len(b))] = []byte{'1', 'b', 'i', 'o', 0x7f, 0x1f, '!'}[g.r.Intn(7)]
		}
	case 9:
		return ""
	case 10: // another '1' early
		if len(b) > 3 {
			b[1+g.r.Intn(3)] = '1'
		}
	case 11: // white space only
		return []string{" ", "\t \n", "   "}[g.r.Intn(3)]
	}
	return string(b)
}

func k17bLine(w *bufio.Writer, role int, a []byte) string {
	text := k17safeStr(func() string { return k17roleText(role, a) })
	fmt.Fprintf(w, "B %s %s => text=%s", k17roleNames[role], k17hx(a), k17hx([]byte(text)))
	for r := 0; r < 3; r++ {
		fmt.Fprintf(w, " %s=%s", k17roleNames[r], k17safeStr(func() string { return k17roleParse(r, text) }))
	}
	fmt.Fprintln(w)
	return text
}

func k17tLine(w *bufio.Writer, s string) {
	fmt.Fprintf(w, "T %s =>", k17hx([]byte(s)))
	for r := 0; r < 3; r++ {
		fmt.Fprintf(w, " %s=%s", k17roleNames[r], k17safeStr(func() string { return k17roleParse(r, s) }))
	}
	fmt.Fprintln(w)
}

// real child prefixes of the sub-keeper stores inside the vpn store (and of the
// swap / custommint stores): write a marker through keeper.Store(ctx), find it raw
func k17storePrefixLine(w *bufio.Writer) {
	e := NewEnv()
	marker := []byte{0xee, 0x17, 0xc1, 0x7e}
	probe := func(storeName string, st sdk.KVStore) string {
		st.Set(marker, []byte{1})
		raw := e.ctx.KVStore(e.keys[storeName])
		it := raw.Iterator(nil, nil)
		var found []byte
		n := 0
		for ; it.Valid(); it.Next() {
			if bytes.HasSuffix(it.Key(), marker) {
				found = append([]byte(nil), it.Key()...)
				n++
			}
		}
		it.Close()
		st.Delete(marker)
		if n != 1 {
			return "notfound"
		}
		return k17hx(found[:len(found)-len(marker)])
	}
	fmt.Fprintf(w, "S => deposit=%s mint=%s node=%s plan=%s provider=%s session=%s subscription=%s swap=%s\n",
		probe(vpntypes.StoreKey, e.vk.Deposit.Store(e.ctx)),
		probe(customminttypes.StoreKey, e.ck.Store(e.ctx)),
		probe(vpntypes.StoreKey, e.vk.Node.Store(e.ctx)),
		probe(vpntypes.StoreKey, e.vk.Plan.Store(e.ctx)),
		probe(vpntypes.StoreKey, e.vk.Provider.Store(e.ctx)),
		probe(vpntypes.StoreKey, e.vk.Session.Store(e.ctx)),
		probe(vpntypes.StoreKey, e.vk.Subscription.Store(e.ctx)),
		probe(swaptypes.StoreKey, e.wk.Store(e.ctx)))
}

func runKeys(args []string) {
	fs := flag.NewFlagSet("keys", flag.ExitOnError)
	seed := fs.Int64("seed", 1, "seed")
	n := fs.Int("n", 20000, "approximate number of cases")
	out := fs.String("out", "keys.real", "output file")
	_ = fs.Parse(args)
	sealConfig()
	f, err := os.Create(*out)
	must(err)
	defer f.Close()
	w := bufio.NewWriterSize(f, 1<<20)
	defer w.Flush()
	g := newKeyGen(*seed)

	// prefix constants and store prefixes
	fmt.Fprint(w, "P =>")
	for _, p := range keyPrefixVars {
		fmt.Fprintf(w, " %s=%s", p.name, k17hx(*p.v))
	}
	fmt.Fprintln(w)
	k17storePrefixLine(w)
	k17aliasProbe(w, g)

	nK := *n * 10 / 100
	nD := *n * 25 / 100
	nO := *n * 25 / 100
	nB := *n * 10 / 100
	nT := *n - nK - nD - nO - nB
	alias := map[string]int{}

	// boundary K lines: every boundary address length, every pool id, every pool time once
	var sampleKeys [][2]interface{}
	emitK := func(x keyArgs, tn *big.Int) {
		k17kLine(w, x, tn, alias)
		if len(sampleKeys) < 4096 {
			for _, d := range keyDecs {
				for _, c := range keyCtors {
					if c.name == d.of {
						if k, p := k17safeKey(func() []byte { return c.f(x) }); !p {
							sampleKeys = append(sampleKeys, [2]interface{}{d, k})
						}
					}
				}
			}
		}
	}
	count := 0
	for _, ln := range []int{0, 1, 2, 19, 20, 21, 32, 254, 255, 256, 300} {
		x, tn := g.args()
		x.a1, x.a2 = g.bytesN(ln), g.bytesN(ln)
		emitK(x, tn)
		x.a2 = g.bytesN(20)
		emitK(x, tn)
		count += 2
	}
	for _, id := range g.ids {
		x, tn := g.args()
		x.id1, x.id2 = id, id
		emitK(x, tn)
		count++
	}
	for _, tn := range g.times {
		x, _ := g.args()
		x.t = k17timeOf(tn)
		emitK(x, tn)
		count++
	}
	for count < nK {
		if g.r.Intn(4) == 0 {
			x, y, tn := g.confusable()
			emitK(x, tn)
			emitK(y, tn)
			count += 2
		} else {
			x, tn := g.args()
			emitK(x, tn)
			count++
		}
	}

	// D lines: decoders on mutated keys
	for i := 0; i < nD; i++ {
		s := sampleKeys[g.r.Intn(len(sampleKeys))]
		d := s[0].(keyDec)
		if g.r.Intn(5) == 0 { // a key of another family
			d = keyDecs[g.r.Intn(len(keyDecs))]
		}
		k := k17mutateKey(g, s[1].([]byte))
		fmt.Fprintf(w, "D %s %s => %s\n", d.name, k17hx(k), k17safeStr(func() string { return d.f(k) }))
	}

	// O lines: byte order of two real queue keys of one family
	for i := 0; i < nO; i++ {
		q := queueFams[g.r.Intn(len(queueFams))]
		t1, t2 := g.time(), g.time()
		switch g.r.Intn(4) {
		case 0:
			t2 = t1
		case 1: // one nanosecond apart (inside the domain)
			if t1.Cmp(k17maxTime) < 0 {
				t2 = new(big.Int).Add(t1, big.NewInt(1))
			}
		}
		id1, id2 := g.id(), g.id()
		a1, a2 := g.addr(), g.addr()
		if g.r.Intn(4) == 0 {
			id2, a2 = id1, a1
		}
		k1, p1 := k17safeKey(func() []byte { return q.f(k17timeOf(t1), id1, a1) })
		k2, p2 := k17safeKey(func() []byte { return q.f(k17timeOf(t2), id2, a2) })
		res := "panic"
		if !p1 && !p2 {
			res = fmt.Sprintf("%d", bytes.Compare(k1, k2))
		}
		fmt.Fprintf(w, "O %s %s %d %s %s %d %s => %s\n", q.name, t1.String(), id1, k17hx(a1), t2.String(), id2, k17hx(a2), res)
	}

	// B lines: address text of each role, parsed under each role
	var texts []string
	for _, ln := range k17boundaryLens {
		for r := 0; r < 3; r++ {
			texts = append(texts, k17bLine(w, r, g.bytesN(ln)))
		}
	}
	for _, ln := range []int{0, 256, 300} {
		k17bLine(w, g.r.Intn(3), g.bytesN(ln))
	}
	for i := 0; i < nB; i++ {
		a := g.addr()
		if g.r.Intn(3) == 0 {
			a = g.bytesN(1 + g.r.Intn(255))
		}
		t := k17bLine(w, g.r.Intn(3), a)
		if len(texts) < 2048 {
			texts = append(texts, t)
		}
	}
	// T lines: malformed text
	for i := 0; i < nT; i++ {
		s := texts[g.r.Intn(len(texts))]
		s = k17mutateText(g, s)
		if g.r.Intn(6) == 0 {
			s = k17mutateText(g, s)
		}
		k17tLine(w, s)
	}
}
