package main

// C13: paging of the hub's list queries.
//
//   harness pages -seed S -n N -out FILE [-blocks B] [-replay DIR]
//
// Builds states by running generated histories (as runGenerated does) followed by a dense set-up block
// through the real message servers, and at several points calls EVERY paginated list query of the real
// gRPC query servers with limits {1,2,3,7,100,default}, key mode and offset mode, forward and reverse,
// count_total on/off, every status filter value.  Output, one record per line:
//
//   H <history> <point>
//   Q <handler> <P|F> <args>                  P = query.Paginate, F = query.FilteredPaginate
//   S <keyhex>:<hit>:<id> ...                 entries of the prefix store the handler pages, in store order,
//                                             with the handler's filter evaluated by the harness
//   A <id,id,...>                             unpaged listing of the real server (limit 2^32)
//   R <key> <offset> <limit> <ct> <rev> => ok <ids>|<next_key>|<total>   (or => err / => panic)
//   F <what>                                  implementation-side monitor: failing page request (replay written)
//   X <name> <count>                          statistics
//
// The S and R lines are re-computed by the extracted Coq model (model/pages) and diffed.
// A section "synthetic" calls query.Paginate / query.FilteredPaginate directly on a small MemDB store with
// boundary requests (both key and offset, absent keys, reverse from the greatest key, limit 2^64-1, ...).

import (
	"bufio"
	"bytes"
	"encoding/hex"
	"flag"
	"fmt"
	"io"
	"math"
	"math/rand"
	"os"
	"path/filepath"
	"regexp"
	"sort"
	"strings"

	dbm "github.com/cometbft/cometbft-db"
	codectypes "github.com/cosmos/cosmos-sdk/codec/types"
	"github.com/cosmos/cosmos-sdk/store/dbadapter"
	"github.com/cosmos/cosmos-sdk/store/prefix"
	sdk "github.com/cosmos/cosmos-sdk/types"
	"github.com/cosmos/cosmos-sdk/types/query"

	hubtypes "github.com/sentinel-official/hub/v12/types"
	depositkeeper "github.com/sentinel-official/hub/v12/x/deposit/keeper"
	deposittypes "github.com/sentinel-official/hub/v12/x/deposit/types"
	nodekeeper "github.com/sentinel-official/hub/v12/x/node/keeper"
	nodetypes "github.com/sentinel-official/hub/v12/x/node/types"
	plankeeper "github.com/sentinel-official/hub/v12/x/plan/keeper"
	plantypes "github.com/sentinel-official/hub/v12/x/plan/types"
	providerkeeper "github.com/sentinel-official/hub/v12/x/provider/keeper"
	providertypes "github.com/sentinel-official/hub/v12/x/provider/types"
	sessionkeeper "github.com/sentinel-official/hub/v12/x/session/keeper"
	sessiontypes "github.com/sentinel-official/hub/v12/x/session/types"
	subscriptionkeeper "github.com/sentinel-official/hub/v12/x/subscription/keeper"
	subscriptiontypes "github.com/sentinel-official/hub/v12/x/subscription/types"
	swapkeeper "github.com/sentinel-official/hub/v12/x/swap/keeper"
	swaptypes "github.com/sentinel-official/hub/v12/x/swap/types"
)

func init() { extraCommands["pages"] = runPages }

// one instance of a list query: a handler with fixed arguments
type pageQuery struct {
	name  string // handler name, e.g. node.QueryNodesForPlan
	pag   byte   // 'P' or 'F'
	args  string
	store func(ctx sdk.Context) sdk.KVStore                  // the prefix store the handler pages over
	entry func(ctx sdk.Context, k, v []byte) (bool, string)  // the handler's filter and the id of the record
	call  func(ctx sdk.Context, pr *query.PageRequest) ([]string, *query.PageResponse, error)
}

type pagesRun struct {
	out     *bufio.Writer
	stats   map[string]int
	replay  string
	seed    int64
	hist    int
	point   int
	opsBuf  *bytes.Buffer
	opsW    *bufio.Writer
	nfail   int
	handled map[string]bool
	perKey  map[string]int
}

func keyTok(k []byte) string {
	if k == nil {
		return "-"
	}
	if len(k) == 0 {
		return "e"
	}
	return hex.EncodeToString(k)
}

var longHex = regexp.MustCompile(`[0-9a-f]{48,}`)

// shortHex abbreviates long hex strings (255-byte addresses) for messages
func shortHex(s string) string {
	return longHex.ReplaceAllStringFunc(s, func(h string) string { return fmt.Sprintf("%s..(%d bytes)", h[:16], len(h)/2) })
}

func reqTok(pr *query.PageRequest) string {
	if pr == nil {
		return "nil"
	}
	return fmt.Sprintf("%s %d %d %s %s", keyTok(pr.Key), pr.Offset, pr.Limit, boolTok(pr.CountTotal), boolTok(pr.Reverse))
}

type pageResult struct {
	kind  string // ok err panic
	ids   []string
	next  []byte
	total uint64
	msg   string
}

func (r pageResult) String() string {
	if r.kind != "ok" {
		return r.kind
	}
	return fmt.Sprintf("ok %s|%s|%d", strings.Join(r.ids, ","), keyTok(r.next), r.total)
}

func doCall(ctx sdk.Context, q *pageQuery, pr *query.PageRequest) (res pageResult) {
	defer func() {
		if r := recover(); r != nil {
			res = pageResult{kind: "panic", msg: fmt.Sprint(r)}
		}
	}()
	ids, resp, err := q.call(ctx, pr)
	if err != nil {
		return pageResult{kind: "err", msg: err.Error()}
	}
	if ids == nil {
		ids = []string{}
	}
	return pageResult{kind: "ok", ids: ids, next: resp.NextKey, total: resp.Total}
}

func sameIDs(a, b []string) bool {
	if len(a) != len(b) {
		return false
	}
	for i := range a {
		if a[i] != b[i] {
			return false
		}
	}
	return true
}

func reverseIDs(a []string) []string {
	out := make([]string, len(a))
	for i := range a {
		out[len(a)-1-i] = a[i]
	}
	return out
}

// ---------------------------------------------------------------- the hub's list queries

func (p *pagesRun) queries(e *Env, ctx sdk.Context, actors [][]byte) []*pageQuery {
	var qs []*pageQuery
	u64id := func(k []byte) string { return fmt.Sprint(sdk.BigEndianToUint64(k)) }
	always := func(id func(k []byte) string) func(sdk.Context, []byte, []byte) (bool, string) {
		return func(_ sdk.Context, k, _ []byte) (bool, string) { return true, id(k) }
	}
	statuses := []hubtypes.Status{hubtypes.StatusUnspecified, hubtypes.StatusActive, hubtypes.StatusInactivePending, hubtypes.StatusInactive}
	pfxStore := func(base func(sdk.Context) sdk.KVStore, pfx []byte) func(sdk.Context) sdk.KVStore {
		p := append([]byte{}, pfx...)
		return func(ctx sdk.Context) sdk.KVStore { return prefix.NewStore(base(ctx), p) }
	}
	statusPrefix := func(st hubtypes.Status, all, act, inact []byte) ([]byte, int) {
		switch st {
		case hubtypes.StatusActive:
			return act, 1
		case hubtypes.StatusInactive:
			return inact, 1
		}
		return all, 2
	}

	// deposit
	dq := depositkeeper.NewQueryServiceServer(e.vk.Deposit)
	qs = append(qs, &pageQuery{name: "deposit.QueryDeposits", pag: 'P', args: "-",
		store: pfxStore(e.vk.Deposit.Store, deposittypes.DepositKeyPrefix),
		entry: always(func(k []byte) string { return sdk.AccAddress(k[1:]).String() }),
		call: func(ctx sdk.Context, pr *query.PageRequest) ([]string, *query.PageResponse, error) {
			r, err := dq.QueryDeposits(sdk.WrapSDKContext(ctx), &deposittypes.QueryDepositsRequest{Pagination: pr})
			if err != nil {
				return nil, nil, err
			}
			ids := []string{}
			for _, x := range r.Deposits {
				ids = append(ids, x.Address)
			}
			return ids, r.Pagination, nil
		}})

	// provider
	pq := providerkeeper.NewQueryServiceServer(e.vk.Provider)
	for _, st := range statuses {
		st := st
		pfx, skip := statusPrefix(st, providertypes.ProviderKeyPrefix, providertypes.ActiveProviderKeyPrefix, providertypes.InactiveProviderKeyPrefix)
		qs = append(qs, &pageQuery{name: "provider.QueryProviders", pag: 'P', args: fmt.Sprintf("status=%d", st),
			store: pfxStore(e.vk.Provider.Store, pfx),
			entry: always(func(k []byte) string { return hubtypes.ProvAddress(k[skip:]).String() }),
			call: func(ctx sdk.Context, pr *query.PageRequest) ([]string, *query.PageResponse, error) {
				r, err := pq.QueryProviders(sdk.WrapSDKContext(ctx), &providertypes.QueryProvidersRequest{Status: st, Pagination: pr})
				if err != nil {
					return nil, nil, err
				}
				ids := []string{}
				for _, x := range r.Providers {
					ids = append(ids, x.Address)
				}
				return ids, r.Pagination, nil
			}})
	}

	// node
	nq := nodekeeper.NewQueryServiceServer(e.vk.Node)
	for _, st := range statuses {
		st := st
		pfx, skip := statusPrefix(st, nodetypes.NodeKeyPrefix, nodetypes.ActiveNodeKeyPrefix, nodetypes.InactiveNodeKeyPrefix)
		qs = append(qs, &pageQuery{name: "node.QueryNodes", pag: 'P', args: fmt.Sprintf("status=%d", st),
			store: pfxStore(e.vk.Node.Store, pfx),
			entry: always(func(k []byte) string { return hubtypes.NodeAddress(k[skip:]).String() }),
			call: func(ctx sdk.Context, pr *query.PageRequest) ([]string, *query.PageResponse, error) {
				r, err := nq.QueryNodes(sdk.WrapSDKContext(ctx), &nodetypes.QueryNodesRequest{Status: st, Pagination: pr})
				if err != nil {
					return nil, nil, err
				}
				ids := []string{}
				for _, x := range r.Nodes {
					ids = append(ids, x.Address)
				}
				return ids, r.Pagination, nil
			}})
	}
	plans := e.vk.Plan.GetPlans(ctx)
	planIDs := []uint64{}
	for _, pl := range plans {
		planIDs = append(planIDs, pl.ID)
	}
	planIDs = append(planIDs, 0, uint64(len(plans))+7)
	for _, id := range planIDs {
		for _, st := range statuses {
			id, st := id, st
			qs = append(qs, &pageQuery{name: "node.QueryNodesForPlan", pag: 'F', args: fmt.Sprintf("id=%d,status=%d", id, st),
				store: pfxStore(e.vk.Node.Store, nodetypes.GetNodeForPlanKeyPrefix(id)),
				entry: func(ctx sdk.Context, k, _ []byte) (bool, string) {
					addr := hubtypes.NodeAddress(k[1:])
					n, found := e.vk.Node.GetNode(ctx, addr)
					if !found {
						return false, "missing:" + addr.String()
					}
					return st == hubtypes.StatusUnspecified || n.Status == st, addr.String()
				},
				call: func(ctx sdk.Context, pr *query.PageRequest) ([]string, *query.PageResponse, error) {
					r, err := nq.QueryNodesForPlan(sdk.WrapSDKContext(ctx), &nodetypes.QueryNodesForPlanRequest{Id: id, Status: st, Pagination: pr})
					if err != nil {
						return nil, nil, err
					}
					ids := []string{}
					for _, x := range r.Nodes {
						ids = append(ids, x.Address)
					}
					return ids, r.Pagination, nil
				}})
		}
	}

	// plan
	lq := plankeeper.NewQueryServiceServer(e.vk.Plan)
	for _, st := range statuses {
		st := st
		pfx, skip := statusPrefix(st, plantypes.PlanKeyPrefix, plantypes.ActivePlanKeyPrefix, plantypes.InactivePlanKeyPrefix)
		skip-- // no length byte in front of an id
		qs = append(qs, &pageQuery{name: "plan.QueryPlans", pag: 'P', args: fmt.Sprintf("status=%d", st),
			store: pfxStore(e.vk.Plan.Store, pfx),
			entry: always(func(k []byte) string { return u64id(k[skip:]) }),
			call: func(ctx sdk.Context, pr *query.PageRequest) ([]string, *query.PageResponse, error) {
				r, err := lq.QueryPlans(sdk.WrapSDKContext(ctx), &plantypes.QueryPlansRequest{Status: st, Pagination: pr})
				if err != nil {
					return nil, nil, err
				}
				ids := []string{}
				for _, x := range r.Plans {
					ids = append(ids, fmt.Sprint(x.ID))
				}
				return ids, r.Pagination, nil
			}})
	}
	for _, a := range actors {
		for _, st := range statuses {
			a, st := a, st
			addr := hubtypes.ProvAddress(a)
			qs = append(qs, &pageQuery{name: "plan.QueryPlansForProvider", pag: 'F', args: fmt.Sprintf("addr=%s,status=%d", hx(a), st),
				store: pfxStore(e.vk.Plan.Store, plantypes.GetPlanForProviderKeyPrefix(addr)),
				entry: func(ctx sdk.Context, k, _ []byte) (bool, string) {
					id := sdk.BigEndianToUint64(k)
					pl, found := e.vk.Plan.GetPlan(ctx, id)
					if !found {
						return false, fmt.Sprintf("missing:%d", id)
					}
					return st == hubtypes.StatusUnspecified || pl.Status == st, fmt.Sprint(id)
				},
				call: func(ctx sdk.Context, pr *query.PageRequest) ([]string, *query.PageResponse, error) {
					r, err := lq.QueryPlansForProvider(sdk.WrapSDKContext(ctx), &plantypes.QueryPlansForProviderRequest{Address: addr.String(), Status: st, Pagination: pr})
					if err != nil {
						return nil, nil, err
					}
					ids := []string{}
					for _, x := range r.Plans {
						ids = append(ids, fmt.Sprint(x.ID))
					}
					return ids, r.Pagination, nil
				}})
		}
	}

	// subscription
	sq := subscriptionkeeper.NewQueryServiceServer(e.vk.Subscription)
	unpackSubs := func(anys []*codectypes.Any) ([]string, error) {
		ids := []string{}
		for _, a := range anys {
			var s subscriptiontypes.Subscription
			if err := e.cdc.UnpackAny(a, &s); err != nil {
				return nil, err
			}
			ids = append(ids, fmt.Sprint(s.GetID()))
		}
		return ids, nil
	}
	qs = append(qs, &pageQuery{name: "subscription.QuerySubscriptions", pag: 'P', args: "-",
		store: pfxStore(e.vk.Subscription.Store, subscriptiontypes.SubscriptionKeyPrefix),
		entry: always(u64id),
		call: func(ctx sdk.Context, pr *query.PageRequest) ([]string, *query.PageResponse, error) {
			r, err := sq.QuerySubscriptions(sdk.WrapSDKContext(ctx), &subscriptiontypes.QuerySubscriptionsRequest{Pagination: pr})
			if err != nil {
				return nil, nil, err
			}
			ids, err := unpackSubs(r.Subscriptions)
			return ids, r.Pagination, err
		}})
	for _, a := range actors {
		a := a
		qs = append(qs, &pageQuery{name: "subscription.QuerySubscriptionsForAccount", pag: 'P', args: "addr=" + hx(a),
			store: pfxStore(e.vk.Subscription.Store, subscriptiontypes.GetSubscriptionForAccountKeyPrefix(a)),
			entry: always(u64id),
			call: func(ctx sdk.Context, pr *query.PageRequest) ([]string, *query.PageResponse, error) {
				r, err := sq.QuerySubscriptionsForAccount(sdk.WrapSDKContext(ctx), &subscriptiontypes.QuerySubscriptionsForAccountRequest{Address: sdk.AccAddress(a).String(), Pagination: pr})
				if err != nil {
					return nil, nil, err
				}
				ids, err := unpackSubs(r.Subscriptions)
				return ids, r.Pagination, err
			}})
		qs = append(qs, &pageQuery{name: "subscription.QuerySubscriptionsForNode", pag: 'P', args: "addr=" + hx(a),
			store: pfxStore(e.vk.Subscription.Store, subscriptiontypes.GetSubscriptionForNodeKeyPrefix(a)),
			entry: always(u64id),
			call: func(ctx sdk.Context, pr *query.PageRequest) ([]string, *query.PageResponse, error) {
				r, err := sq.QuerySubscriptionsForNode(sdk.WrapSDKContext(ctx), &subscriptiontypes.QuerySubscriptionsForNodeRequest{Address: hubtypes.NodeAddress(a).String(), Pagination: pr})
				if err != nil {
					return nil, nil, err
				}
				ids, err := unpackSubs(r.Subscriptions)
				return ids, r.Pagination, err
			}})
		qs = append(qs, &pageQuery{name: "subscription.QueryPayoutsForAccount", pag: 'P', args: "addr=" + hx(a),
			store: pfxStore(e.vk.Subscription.Store, subscriptiontypes.GetPayoutForAccountKeyPrefix(a)),
			entry: always(u64id),
			call: func(ctx sdk.Context, pr *query.PageRequest) ([]string, *query.PageResponse, error) {
				r, err := sq.QueryPayoutsForAccount(sdk.WrapSDKContext(ctx), &subscriptiontypes.QueryPayoutsForAccountRequest{Address: sdk.AccAddress(a).String(), Pagination: pr})
				if err != nil {
					return nil, nil, err
				}
				ids := []string{}
				for _, x := range r.Payouts {
					ids = append(ids, fmt.Sprint(x.ID))
				}
				return ids, r.Pagination, nil
			}})
		qs = append(qs, &pageQuery{name: "subscription.QueryPayoutsForNode", pag: 'P', args: "addr=" + hx(a),
			store: pfxStore(e.vk.Subscription.Store, subscriptiontypes.GetPayoutForNodeKeyPrefix(a)),
			entry: always(u64id),
			call: func(ctx sdk.Context, pr *query.PageRequest) ([]string, *query.PageResponse, error) {
				r, err := sq.QueryPayoutsForNode(sdk.WrapSDKContext(ctx), &subscriptiontypes.QueryPayoutsForNodeRequest{Address: hubtypes.NodeAddress(a).String(), Pagination: pr})
				if err != nil {
					return nil, nil, err
				}
				ids := []string{}
				for _, x := range r.Payouts {
					ids = append(ids, fmt.Sprint(x.ID))
				}
				return ids, r.Pagination, nil
			}})
	}
	for _, id := range planIDs {
		id := id
		qs = append(qs, &pageQuery{name: "subscription.QuerySubscriptionsForPlan", pag: 'P', args: fmt.Sprintf("id=%d", id),
			store: pfxStore(e.vk.Subscription.Store, subscriptiontypes.GetSubscriptionForPlanKeyPrefix(id)),
			entry: always(u64id),
			call: func(ctx sdk.Context, pr *query.PageRequest) ([]string, *query.PageResponse, error) {
				r, err := sq.QuerySubscriptionsForPlan(sdk.WrapSDKContext(ctx), &subscriptiontypes.QuerySubscriptionsForPlanRequest{Id: id, Pagination: pr})
				if err != nil {
					return nil, nil, err
				}
				ids, err := unpackSubs(r.Subscriptions)
				return ids, r.Pagination, err
			}})
	}
	subs := e.vk.Subscription.GetSubscriptions(ctx)
	subIDs := []uint64{}
	for _, s := range subs {
		subIDs = append(subIDs, s.GetID())
	}
	subIDs = append(subIDs, 0, uint64(len(subs))+9)
	for _, id := range subIDs {
		id := id
		qs = append(qs, &pageQuery{name: "subscription.QueryAllocations", pag: 'P', args: fmt.Sprintf("id=%d", id),
			store: pfxStore(e.vk.Subscription.Store, subscriptiontypes.GetAllocationForSubscriptionKeyPrefix(id)),
			entry: always(func(k []byte) string { return fmt.Sprintf("%d/%s", id, sdk.AccAddress(k[1:]).String()) }),
			call: func(ctx sdk.Context, pr *query.PageRequest) ([]string, *query.PageResponse, error) {
				r, err := sq.QueryAllocations(sdk.WrapSDKContext(ctx), &subscriptiontypes.QueryAllocationsRequest{Id: id, Pagination: pr})
				if err != nil {
					return nil, nil, err
				}
				ids := []string{}
				for _, x := range r.Allocations {
					ids = append(ids, fmt.Sprintf("%d/%s", x.ID, x.Address))
				}
				return ids, r.Pagination, nil
			}})
	}
	qs = append(qs, &pageQuery{name: "subscription.QueryPayouts", pag: 'P', args: "-",
		store: pfxStore(e.vk.Subscription.Store, subscriptiontypes.PayoutKeyPrefix),
		entry: always(u64id),
		call: func(ctx sdk.Context, pr *query.PageRequest) ([]string, *query.PageResponse, error) {
			r, err := sq.QueryPayouts(sdk.WrapSDKContext(ctx), &subscriptiontypes.QueryPayoutsRequest{Pagination: pr})
			if err != nil {
				return nil, nil, err
			}
			ids := []string{}
			for _, x := range r.Payouts {
				ids = append(ids, fmt.Sprint(x.ID))
			}
			return ids, r.Pagination, nil
		}})

	// session
	eq := sessionkeeper.NewQueryServiceServer(e.vk.Session)
	sessIDs := func(items sessiontypes.Sessions) []string {
		ids := []string{}
		for _, x := range items {
			ids = append(ids, fmt.Sprint(x.ID))
		}
		return ids
	}
	qs = append(qs, &pageQuery{name: "session.QuerySessions", pag: 'P', args: "-",
		store: pfxStore(e.vk.Session.Store, sessiontypes.SessionKeyPrefix),
		entry: always(u64id),
		call: func(ctx sdk.Context, pr *query.PageRequest) ([]string, *query.PageResponse, error) {
			r, err := eq.QuerySessions(sdk.WrapSDKContext(ctx), &sessiontypes.QuerySessionsRequest{Pagination: pr})
			if err != nil {
				return nil, nil, err
			}
			return sessIDs(r.Sessions), r.Pagination, nil
		}})
	for _, a := range actors {
		a := a
		qs = append(qs, &pageQuery{name: "session.QuerySessionsForAccount", pag: 'P', args: "addr=" + hx(a),
			store: pfxStore(e.vk.Session.Store, sessiontypes.GetSessionForAccountKeyPrefix(a)),
			entry: always(u64id),
			call: func(ctx sdk.Context, pr *query.PageRequest) ([]string, *query.PageResponse, error) {
				r, err := eq.QuerySessionsForAccount(sdk.WrapSDKContext(ctx), &sessiontypes.QuerySessionsForAccountRequest{Address: sdk.AccAddress(a).String(), Pagination: pr})
				if err != nil {
					return nil, nil, err
				}
				return sessIDs(r.Sessions), r.Pagination, nil
			}})
		qs = append(qs, &pageQuery{name: "session.QuerySessionsForNode", pag: 'P', args: "addr=" + hx(a),
			store: pfxStore(e.vk.Session.Store, sessiontypes.GetSessionForNodeKeyPrefix(a)),
			entry: always(u64id),
			call: func(ctx sdk.Context, pr *query.PageRequest) ([]string, *query.PageResponse, error) {
				r, err := eq.QuerySessionsForNode(sdk.WrapSDKContext(ctx), &sessiontypes.QuerySessionsForNodeRequest{Address: hubtypes.NodeAddress(a).String(), Pagination: pr})
				if err != nil {
					return nil, nil, err
				}
				return sessIDs(r.Sessions), r.Pagination, nil
			}})
	}
	for _, id := range subIDs {
		id := id
		qs = append(qs, &pageQuery{name: "session.QuerySessionsForSubscription", pag: 'P', args: fmt.Sprintf("id=%d", id),
			store: pfxStore(e.vk.Session.Store, sessiontypes.GetSessionForSubscriptionKeyPrefix(id)),
			entry: always(u64id),
			call: func(ctx sdk.Context, pr *query.PageRequest) ([]string, *query.PageResponse, error) {
				r, err := eq.QuerySessionsForSubscription(sdk.WrapSDKContext(ctx), &sessiontypes.QuerySessionsForSubscriptionRequest{Id: id, Pagination: pr})
				if err != nil {
					return nil, nil, err
				}
				return sessIDs(r.Sessions), r.Pagination, nil
			}})
		// allocations of this subscription (plus one address without an allocation)
		allocAddrs := [][]byte{}
		for _, al := range e.vk.Subscription.GetAllocationsForSubscription(ctx, id) {
			ad, err := sdk.AccAddressFromBech32(al.Address)
			if err == nil {
				allocAddrs = append(allocAddrs, ad)
			}
		}
		if len(allocAddrs) > 3 {
			allocAddrs = allocAddrs[:3]
		}
		if len(allocAddrs) == 0 {
			allocAddrs = append(allocAddrs, actors[0])
		}
		for _, a := range allocAddrs {
			a := a
			qs = append(qs, &pageQuery{name: "session.QuerySessionsForAllocation", pag: 'P', args: fmt.Sprintf("id=%d,addr=%s", id, hx(a)),
				store: pfxStore(e.vk.Session.Store, sessiontypes.GetSessionForAllocationKeyPrefix(id, a)),
				entry: always(u64id),
				call: func(ctx sdk.Context, pr *query.PageRequest) ([]string, *query.PageResponse, error) {
					r, err := eq.QuerySessionsForAllocation(sdk.WrapSDKContext(ctx), &sessiontypes.QuerySessionsForAllocationRequest{Id: id, Address: sdk.AccAddress(a).String(), Pagination: pr})
					if err != nil {
						return nil, nil, err
					}
					return sessIDs(r.Sessions), r.Pagination, nil
				}})
		}
	}

	// swap
	wq := swapkeeper.NewQueryServiceServer(e.wk)
	qs = append(qs, &pageQuery{name: "swap.QuerySwaps", pag: 'F', args: "-",
		store: pfxStore(e.wk.Store, swaptypes.SwapKeyPrefix),
		entry: always(func(k []byte) string { return hx(k) }),
		call: func(ctx sdk.Context, pr *query.PageRequest) ([]string, *query.PageResponse, error) {
			r, err := wq.QuerySwaps(sdk.WrapSDKContext(ctx), &swaptypes.QuerySwapsRequest{Pagination: pr})
			if err != nil {
				return nil, nil, err
			}
			ids := []string{}
			for _, x := range r.Swaps {
				ids = append(ids, hx(x.TxHash))
			}
			return ids, r.Pagination, nil
		}})
	return qs
}

// ---------------------------------------------------------------- paging one query instance

type storeEntry struct {
	key []byte
	hit bool
	id  string
}

func dumpStore(ctx sdk.Context, q *pageQuery) []storeEntry {
	st := q.store(ctx)
	it := st.Iterator(nil, nil)
	defer it.Close()
	out := []storeEntry{}
	for ; it.Valid(); it.Next() {
		k := append([]byte{}, it.Key()...)
		v := append([]byte{}, it.Value()...)
		hit, id := q.entry(ctx, k, v)
		out = append(out, storeEntry{k, hit, id})
	}
	return out
}

var pageLimits = []uint64{1, 2, 3, 7, 100, 0}

func effLimit(l uint64) uint64 {
	if l == 0 {
		return 100
	}
	return l
}

func (p *pagesRun) fail(q *pageQuery, what string, pr *query.PageRequest, detail string) {
	p.failKey(what+":"+q.name, q, what, pr, detail)
}

// failKey records a failing page request under a finding key; the first two per key get a replay file.
func (p *pagesRun) failKey(key string, q *pageQuery, what string, pr *query.PageRequest, detail string) {
	p.nfail++
	p.stats["monitor.failures"]++
	p.perKey[key]++
	if p.perKey[key] > 20 {
		return
	}
	line := fmt.Sprintf("%s %s(%s): %s; request [%s]", what, q.name, shortHex(q.args), detail, reqTok(pr))
	if len(line) > 1500 {
		line = line[:1500] + "..."
	}
	fmt.Fprintf(p.out, "F %s | history %d point %d | %s\n", key, p.hist, p.point, line)
	if p.replay == "" || p.perKey[key] > 2 || p.opsBuf == nil {
		return
	}
	p.opsW.Flush()
	os.MkdirAll(p.replay, 0o755)
	path := filepath.Join(p.replay, fmt.Sprintf("c13-%s-s%d-h%d-p%d-%d.txt", strings.NewReplacer(":", "_", ".", "_").Replace(key), p.seed, p.hist, p.point, p.perKey[key]))
	var b bytes.Buffer
	fmt.Fprintf(&b, "# C13 paging failure on the real query server\n# %s\n", line)
	if pr != nil {
		fmt.Fprintf(&b, "# state: replay the operations below (harness replay -in THIS_FILE), then call %s(%s) with PageRequest{key=%s offset=%d limit=%d count_total=%v reverse=%v}\n",
			q.name, q.args, keyTok(pr.Key), pr.Offset, pr.Limit, pr.CountTotal, pr.Reverse)
	}
	fmt.Fprintf(&b, "# or re-run: harness pages -seed %d -n %d   (history %d, point %d)\n", p.seed, p.hist+1, p.hist, p.point)
	b.Write(p.opsBuf.Bytes())
	os.WriteFile(path, b.Bytes(), 0o644)
	fmt.Fprintf(p.out, "F-replay %s %s\n", key, path)
}

func (p *pagesRun) emitR(pr *query.PageRequest, res pageResult) {
	fmt.Fprintf(p.out, "R %s => %s\n", reqTok(pr), res.String())
	p.stats["requests"]++
}

func (p *pagesRun) pageOne(ctx sdk.Context, q *pageQuery, boundary bool) {
	p.handled[q.name] = true
	entries := dumpStore(ctx, q)
	fmt.Fprintf(p.out, "Q %s %c %s\n", q.name, q.pag, q.args)
	var sb strings.Builder
	sb.WriteString("S")
	expected := []string{}
	rejected := 0
	for _, en := range entries {
		fmt.Fprintf(&sb, " %s:%s:%s", hx(en.key), boolTok(en.hit), en.id)
		if en.hit {
			expected = append(expected, en.id)
		} else {
			rejected++
		}
		if len(en.key) == 0 {
			p.fail(q, "empty-key", &query.PageRequest{}, "store entry whose key equals the prefix")
		}
	}
	fmt.Fprintln(p.out, sb.String())
	p.stats["instances"]++
	if len(entries) > 0 {
		p.stats["instances.nonempty"]++
	}
	if rejected > 0 {
		p.stats["instances.filter_rejects"]++
	}

	// unpaged listing
	full := doCall(ctx, q, &query.PageRequest{Limit: 1 << 32})
	if full.kind != "ok" {
		fmt.Fprintf(p.out, "A %s %s\n", full.kind, full.msg)
		p.fail(q, "unpaged", &query.PageRequest{Limit: 1 << 32}, "unpaged listing failed: "+full.msg)
		return
	}
	fmt.Fprintf(p.out, "A %s\n", strings.Join(full.ids, ","))
	if !sameIDs(full.ids, expected) {
		p.fail(q, "listing", &query.PageRequest{Limit: 1 << 32},
			fmt.Sprintf("unpaged listing %v differs from the matching records of the store %v", full.ids, expected))
	}

	for _, lim := range pageLimits {
		L := effLimit(lim)
		if uint64(len(expected)) > L {
			p.stats["chains.multi_page"]++
		}
		for _, rev := range []bool{false, true} {
			want := expected
			if rev {
				want = reverseIDs(expected)
			}
			for _, ct := range []bool{false, true} {
				// (a) follow next_key
				var got []string
				var key []byte
				okChain := true
				var last *query.PageRequest
				for n := 0; n <= len(entries)+2; n++ {
					pr := &query.PageRequest{Key: key, Limit: lim, CountTotal: ct, Reverse: rev}
					last = pr
					res := doCall(ctx, q, pr)
					p.emitR(pr, res)
					if res.kind != "ok" {
						p.fail(q, "key-paging", pr, "request failed: "+res.kind+" "+res.msg)
						okChain = false
						break
					}
					if uint64(len(res.ids)) > L {
						p.fail(q, "key-paging", pr, fmt.Sprintf("page of %d records exceeds limit %d", len(res.ids), L))
						okChain = false
					}
					if key == nil && (ct || lim == 0) && res.total != uint64(len(expected)) {
						p.fail(q, "total", pr, fmt.Sprintf("total %d, matching records %d", res.total, len(expected)))
						okChain = false
					}
					got = append(got, res.ids...)
					if len(res.next) == 0 {
						key = nil
						break
					}
					key = res.next
					if n == len(entries)+2 {
						p.fail(q, "key-paging", pr, "next_key still not empty after |store|+3 requests")
						okChain = false
					}
				}
				if okChain && !sameIDs(got, want) {
					p.fail(q, "key-paging", last, fmt.Sprintf("pages concatenate to %v, listing is %v", got, want))
				}
				p.stats["chains"]++
				// (b) step the offset
				got = nil
				okChain = true
				for off := uint64(0); ; off += L {
					pr := &query.PageRequest{Offset: off, Limit: lim, CountTotal: ct, Reverse: rev}
					last = pr
					res := doCall(ctx, q, pr)
					p.emitR(pr, res)
					if res.kind != "ok" {
						p.fail(q, "offset-paging", pr, "request failed: "+res.kind+" "+res.msg)
						okChain = false
						break
					}
					if (ct || lim == 0) && res.total != uint64(len(expected)) {
						p.fail(q, "total", pr, fmt.Sprintf("total %d, matching records %d", res.total, len(expected)))
						okChain = false
					}
					hasNext := off+L < uint64(len(expected))
					if hasNext != (len(res.next) != 0) {
						p.fail(q, "next-key", pr, fmt.Sprintf("next_key present=%v, records beyond this page=%v", len(res.next) != 0, hasNext))
						okChain = false
					}
					got = append(got, res.ids...)
					if uint64(len(res.ids)) < L || off > uint64(len(entries))+L {
						break
					}
				}
				if okChain && !sameIDs(got, want) {
					p.fail(q, "offset-paging", last, fmt.Sprintf("pages concatenate to %v, listing is %v", got, want))
				}
				p.stats["chains"]++
			}
		}
	}

	// boundary requests: correspondence with the model only
	if boundary {
		var first, lastk, mid []byte
		if len(entries) > 0 {
			first, lastk, mid = entries[0].key, entries[len(entries)-1].key, entries[len(entries)/2].key
		}
		absent := append(append([]byte{}, mid...), 0x00)
		below := []byte{0x00}
		above := []byte{0xff, 0xff, 0xff, 0xff, 0xff, 0xff, 0xff, 0xff, 0xff, 0xff}
		reqs := []*query.PageRequest{
			nil,
			{Key: []byte{}, Limit: 2},
			{Key: []byte{}, Offset: 1, Limit: 2},
			{Key: first, Offset: 1, Limit: 2},
			{Offset: uint64(len(entries)), Limit: 2, CountTotal: true},
			{Offset: uint64(len(entries)) + 5, Limit: 2, CountTotal: true, Reverse: true},
			{Limit: math.MaxUint64},
			{Limit: math.MaxUint64, Reverse: true},
			{Limit: math.MaxUint64, CountTotal: true},
			{Offset: 1, Limit: math.MaxUint64},
			{Offset: 2, Limit: math.MaxUint64 - 1, CountTotal: true},
			{Offset: math.MaxUint64, Limit: 1},
			{Offset: math.MaxUint64 - 1, Limit: 3, CountTotal: true},
		}
		for _, k := range [][]byte{first, mid, lastk, absent, below, above} {
			if len(k) == 0 {
				continue
			}
			for _, rev := range []bool{false, true} {
				reqs = append(reqs, &query.PageRequest{Key: k, Limit: 2, Reverse: rev}, &query.PageRequest{Key: k, Limit: math.MaxUint64, Reverse: rev, CountTotal: true})
			}
		}
		for _, pr := range reqs {
			res := doCall(ctx, q, pr)
			if pr == nil {
				fmt.Fprintf(p.out, "R nil => %s\n", res.String())
			} else {
				p.emitR(pr, res)
			}
			p.stats["requests.boundary"]++
			// offset stepping with the maximal limit loses matching records when the first entry is rejected
			if pr != nil && pr.Limit == math.MaxUint64 && pr.Offset == 0 && len(pr.Key) == 0 && res.kind == "ok" {
				want := expected
				if pr.Reverse {
					want = reverseIDs(expected)
				}
				if !sameIDs(res.ids, want) {
					p.stats["maxlimit.incomplete"]++
					detail := fmt.Sprintf("page holds %d of %d matching records (next_key %s)", len(res.ids), len(want), keyTok(res.next))
					if strings.HasPrefix(q.name, "synthetic.") {
						// the SDK paginator alone: correspondence with the model only
					} else if q.pag == 'F' && !pr.CountTotal && (q.name == "node.QueryNodesForPlan" || q.name == "plan.QueryPlansForProvider") {
						p.failKey("maxlimit-wrap", q, "offset-paging", pr, detail)
					} else {
						p.fail(q, "offset-paging", pr, detail)
					}
				}
			}
		}
	}
}

// ---------------------------------------------------------------- synthetic stores, the SDK paginators alone

func (p *pagesRun) synthetic(r *rand.Rand) {
	fmt.Fprintln(p.out, "H -1 0")
	for round := 0; round < 6; round++ {
		db := dbm.NewMemDB()
		base := dbadapter.Store{DB: db}
		pfx := []byte{0x12, 0x34}
		st := prefix.NewStore(base, pfx)
		// neighbours outside the prefix
		base.Set([]byte{0x12, 0x33, 0xff}, []byte{1})
		base.Set([]byte{0x12, 0x35}, []byte{1})
		n := []int{0, 1, 2, 5, 9, 12}[round]
		keys := map[string]bool{}
		for len(keys) < n {
			k := make([]byte, 1+r.Intn(3))
			r.Read(k)
			if r.Intn(3) == 0 {
				k[0] = 0xff
			}
			keys[string(k)] = true
		}
		for k := range keys {
			v := byte(r.Intn(3)) // 0 = rejected by the filter
			st.Set([]byte(k), []byte{v})
		}
		for _, pag := range []byte{'P', 'F'} {
			pag := pag
			q := &pageQuery{name: "synthetic." + map[byte]string{'P': "Paginate", 'F': "FilteredPaginate"}[pag], pag: pag, args: fmt.Sprintf("round=%d", round),
				store: func(sdk.Context) sdk.KVStore { return st },
				entry: func(_ sdk.Context, k, v []byte) (bool, string) { return pag == 'P' || v[0] != 0, hx(k) },
				call: func(_ sdk.Context, pr *query.PageRequest) ([]string, *query.PageResponse, error) {
					ids := []string{}
					if pag == 'P' {
						resp, err := query.Paginate(st, pr, func(k, v []byte) error {
							ids = append(ids, hx(k))
							return nil
						})
						return ids, resp, err
					}
					resp, err := query.FilteredPaginate(st, pr, func(k, v []byte, acc bool) (bool, error) {
						if v[0] == 0 {
							return false, nil
						}
						if acc {
							ids = append(ids, hx(k))
						}
						return true, nil
					})
					return ids, resp, err
				}}
			p.pageOne(sdk.Context{}, q, true)
		}
	}
}

// ---------------------------------------------------------------- dense set-up through the real message servers

func (p *pagesRun) dense(r *Runner, g *Gen) {
	e := r.e
	t := badd(g.now, bmul(sec, int64(1+g.pick(5))))
	g.now = t
	if _, halted := r.exec([]string{"B", t.String()}); halted {
		return
	}
	tx := func(toks ...string) { r.exec(append([]string{"T"}, toks...)) }
	ctx := func() sdk.Context { return e.ctx }
	np := e.nodeParams(ctx())
	gbp := fitBounds([]Coin{{1, bi("10")}}, np.MaxGigabytePrices, np.MinGigabytePrices)
	hrp := fitBounds([]Coin{{1, bi("10")}}, np.MaxHourlyPrices, np.MinHourlyPrices)
	for _, a := range g.actors {
		if g.chance(0.8) {
			tx("prov_register", g.ta('a', a.Bytes).Tok(), strTok("dense"), strTok(""), strTok(""), strTok(""), "0")
		}
		if g.chance(0.9) {
			tx("node_register", g.ta('a', a.Bytes).Tok(), coinsTok(gbp, false), coinsTok(hrp, false), strTok(goodURL), "0")
		}
	}
	for _, n := range e.vk.Node.GetNodes(ctx()) {
		if g.chance(0.6) {
			tx("node_update_status", g.ta('n', n.GetAddress()).Tok(), "1")
		}
	}
	for _, pv := range e.vk.Provider.GetProviders(ctx()) {
		if g.chance(0.5) {
			tx("prov_update", g.ta('p', pv.GetAddress()).Tok(), strTok("dense"), strTok(""), strTok(""), strTok(""), "0", "1")
		}
	}
	provs := e.vk.Provider.GetProviders(ctx())
	for i, pv := range provs {
		if i >= 2 {
			break
		}
		for k := 0; k < 3+g.pick(4); k++ {
			tx("plan_create", g.ta('p', pv.GetAddress()).Tok(), hr.String(), "1", "[1:5]")
		}
	}
	nodes := e.vk.Node.GetNodes(ctx())
	for _, pl := range e.vk.Plan.GetPlans(ctx()) {
		pa := g.ta('p', pl.GetProviderAddress()).Tok()
		if g.chance(0.6) {
			tx("plan_update_status", pa, fmt.Sprint(pl.ID), "1")
		}
		if g.chance(0.7) {
			for _, n := range nodes {
				if g.chance(0.7) {
					tx("plan_link", pa, fmt.Sprint(pl.ID), g.ta('n', n.GetAddress()).Tok())
				}
			}
		}
	}
	rich := []Actor{}
	for _, a := range g.actors {
		if e.bk.GetBalance(ctx(), a.Bytes, denomName(1)).Amount.GT(intOf(bi("100000"))) {
			rich = append(rich, a)
		}
	}
	sub := e.nodeParams(ctx())
	for _, a := range rich {
		for _, n := range e.vk.Node.GetNodes(ctx()) {
			if n.Status != hubtypes.StatusActive || !g.chance(0.5) {
				continue
			}
			if g.chance(0.5) {
				tx("node_subscribe", g.ta('a', a.Bytes).Tok(), g.ta('n', n.GetAddress()).Tok(), fmt.Sprint(sub.MinSubscriptionGigabytes), "0", "1")
			} else {
				tx("node_subscribe", g.ta('a', a.Bytes).Tok(), g.ta('n', n.GetAddress()).Tok(), "0", fmt.Sprint(sub.MinSubscriptionHours), "1")
			}
		}
		for _, pl := range e.vk.Plan.GetPlans(ctx()) {
			if pl.Status == hubtypes.StatusActive && g.chance(0.5) {
				tx("plan_subscribe", g.ta('a', a.Bytes).Tok(), fmt.Sprint(pl.ID), "1")
			}
		}
	}
	for _, s := range e.vk.Subscription.GetSubscriptions(ctx()) {
		owner := s.GetAddress()
		if _, ok := s.(*subscriptiontypes.PlanSubscription); ok {
			for _, a := range g.actors {
				if g.chance(0.35) {
					tx("sub_allocate", g.ta('a', owner).Tok(), fmt.Sprint(s.GetID()), g.ta('a', a.Bytes).Tok(), "1000")
				}
			}
		}
	}
	for _, s := range e.vk.Subscription.GetSubscriptions(ctx()) {
		switch v := s.(type) {
		case *subscriptiontypes.NodeSubscription:
			if g.chance(0.7) {
				na, err := hubtypes.NodeAddressFromBech32(v.NodeAddress)
				if err == nil {
					tx("sess_start", g.ta('a', s.GetAddress()).Tok(), fmt.Sprint(s.GetID()), g.ta('n', na).Tok())
				}
			}
		case *subscriptiontypes.PlanSubscription:
			for _, al := range e.vk.Subscription.GetAllocationsForSubscription(ctx(), s.GetID()) {
				ad, err := sdk.AccAddressFromBech32(al.Address)
				if err != nil || !g.chance(0.6) {
					continue
				}
				for _, n := range e.vk.Node.GetNodesForPlan(ctx(), v.PlanID) {
					if n.Status == hubtypes.StatusActive {
						tx("sess_start", g.ta('a', ad).Tok(), fmt.Sprint(s.GetID()), g.ta('n', n.GetAddress()).Tok())
						break
					}
				}
			}
		}
	}
	wp := e.swapParams(ctx())
	if ap, err := sdk.AccAddressFromBech32(wp.ApproveBy); err == nil {
		for k := 0; k < 2+g.pick(5); k++ {
			tx("swap", g.ta('a', ap).Tok(), "h:"+hx(g.randBytes(32)), g.ta('a', g.actors[g.pick(4)].Bytes).Tok(), fmt.Sprint(100+g.pick(100000)))
		}
	}
	r.exec([]string{"E"})
}

// ---------------------------------------------------------------- driver

func (p *pagesRun) pageAll(e *Env, g *Gen) {
	fmt.Fprintf(p.out, "H %d %d\n", p.hist, p.point)
	ctx := e.ctx
	actors := [][]byte{}
	for _, a := range g.actors {
		actors = append(actors, a.Bytes)
	}
	qs := p.queries(e, ctx, actors)
	seenBoundary := map[string]int{}
	for _, q := range qs {
		// boundary requests for the first two non-trivial instances of each handler
		boundary := false
		if seenBoundary[q.name] < 2 {
			if n := len(dumpStore(ctx, q)); n >= 2 || seenBoundary[q.name+"/any"] == 0 && n == 0 {
				boundary = true
				if n >= 2 {
					seenBoundary[q.name]++
				} else {
					seenBoundary[q.name+"/any"]++
				}
			}
		}
		p.pageOne(ctx, q, boundary)
	}
	p.point++
}

func runPages(args []string) {
	fs := flag.NewFlagSet("pages", flag.ExitOnError)
	seed := fs.Int64("seed", 1, "")
	n := fs.Int("n", 4, "")
	blocks := fs.Int("blocks", 6, "")
	outPath := fs.String("out", "pages.txt", "")
	replay := fs.String("replay", "", "directory for replay files of failing page requests")
	fs.Parse(args)

	of, err := os.Create(*outPath)
	must(err)
	defer of.Close()
	p := &pagesRun{out: bufio.NewWriterSize(of, 1<<20), stats: map[string]int{}, replay: *replay, seed: *seed, handled: map[string]bool{}, perKey: map[string]int{}}
	defer p.out.Flush()

	p.synthetic(rand.New(rand.NewSource(*seed*7919 + 13)))

	for h := 0; h < *n; h++ {
		p.hist, p.point, p.nfail = h, 0, 0
		p.opsBuf = &bytes.Buffer{}
		p.opsW = bufio.NewWriterSize(p.opsBuf, 1<<16)
		r := &Runner{ops: p.opsW, obs: bufio.NewWriter(io.Discard), stats: map[string]int{}}
		g := &Gen{r: rand.New(rand.NewSource(*seed*1000003 + int64(h))), stats: r.stats}
		g.mkActors()
		e := NewEnv()
		g.e = e
		r.e = e
		r.hist = h
		gs := g.genesis()
		e.InitGenesis(gs)
		fmt.Fprintf(r.ops, "H %d\n", h)
		for _, l := range genesisLines(e, gs) {
			r.emitOp(l)
		}
		nb := *blocks/2 + g.pick(*blocks+1)
		halted := false
		for b := 0; b < nb && !halted; b++ {
			t := g.nextTime()
			g.now = t
			if _, halted = r.exec([]string{"B", t.String()}); halted {
				break
			}
			ntx := g.pick(12)
			for k := 0; k < ntx; k++ {
				r.exec(append([]string{"T"}, g.genTx()...))
			}
			_, halted = r.exec([]string{"E"})
		}
		if halted {
			p.stats["halted"]++
			continue
		}
		if h%2 == 1 {
			p.pageAll(e, g)
		}
		p.dense(r, g)
		if e.halted {
			p.stats["halted"]++
			continue
		}
		p.pageAll(e, g)
		// a few more generated blocks on top of the dense state (status changes, expiries), then page again
		for b := 0; b < 2 && !halted; b++ {
			t := g.nextTime()
			g.now = t
			if _, halted = r.exec([]string{"B", t.String()}); halted {
				break
			}
			for k := 0; k < 8; k++ {
				r.exec(append([]string{"T"}, g.genTx()...))
			}
			_, halted = r.exec([]string{"E"})
		}
		if !halted {
			p.pageAll(e, g)
		}
		p.stats["histories"]++
		for k, v := range r.stats {
			if strings.HasPrefix(k, "tx.") {
				p.stats[k] += v
			}
		}
	}
	names := []string{}
	for k := range p.handled {
		names = append(names, k)
	}
	sort.Strings(names)
	fmt.Fprintf(p.out, "X handlers %s\n", strings.Join(names, ","))
	keys := []string{}
	for k := range p.stats {
		keys = append(keys, k)
	}
	sort.Strings(keys)
	for _, k := range keys {
		fmt.Fprintf(p.out, "X %s %d\n", k, p.stats[k])
	}
}
