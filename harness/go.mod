module hubverif/harness

go 1.21

require (
	cosmossdk.io/errors v1.0.1
	cosmossdk.io/math v1.3.0
	github.com/CosmWasm/wasmd v0.45.0
	github.com/cometbft/cometbft v0.37.4
	github.com/cometbft/cometbft-db v0.11.0
	github.com/cosmos/cosmos-sdk v0.47.10
	github.com/cosmos/gogoproto v1.4.10
	github.com/cosmos/ibc-go/v7 v7.3.2
	github.com/gogo/protobuf v1.3.2
	github.com/golang/protobuf v1.5.3
	github.com/grpc-ecosystem/grpc-gateway v1.16.0
	github.com/prometheus/client_golang v1.18.0
	github.com/spf13/cast v1.6.0
	github.com/spf13/cobra v1.8.0
	github.com/spf13/pflag v1.0.5
	github.com/stretchr/testify v1.9.0
	google.golang.org/genproto/googleapis/api v0.0.0-20231212172506-995d672761c0
	google.golang.org/grpc v1.61.0
	google.golang.org/protobuf v1.32.0
	gopkg.in/yaml.v3 v3.0.1
)

require (
	cloud.google.com/go v0.111.0 // indirect
	cloud.google.com/go/compute v1.23.3 // indirect
	cloud.google.com/go/compute/metadata v0.2.3 // indirect
	cloud.google.com/go/iam v1.1.5 // indirect
	cloud.google.com/go/storage v1.30.1 // indirect
	cosmossdk.io/api v0.3.1 // indirect
	cosmossdk.io/core v0.5.1 // indirect
	cosmossdk.io/depinject v1.0.0-alpha.4 // indirect
	cosmossdk.io/log v1.3.1 // indirect
	cosmossdk.io/tools/rosetta v0.2.1 // indirect
	filippo.io/edwards25519 v1.0.0 // indirect
	github.com/99designs/go-keychain v0.0.0-20191008050251-8e49817e8af4 // indirect
	github.com/99designs/keyring v1.2.1 // indirect
	github.com/ChainSafe/go-schnorrkel v1.0.0 // indirect
	github.com/CosmWasm/wasmvm v1.5.0 // indirect
	github.com/DataDog/zstd v1.4.5 // indirect
	github.com/armon/go-metrics v0.4.1 // indirect
	github.com/aws/aws-sdk-go v1.44.203 // indirect
	github.com/beorn7/perks v1.0.1 // indirect
	github.com/bgentry/go-netrc v0.0.0-20140422174119-9fd32a8b3d3d // indirect
	github.com/bgentry/speakeasy v0.1.1-0.20220910012023-760eaf8b6816 // indirect
	github.com/btcsuite/btcd/btcec/v2 v2.3.2 // indirect
	github.com/cenkalti/backoff/v4 v4.1.3 // indirect
	github.com/cespare/xxhash v1.1.0 // indirect
	github.com/cespare/xxhash/v2 v2.2.0 // indirect
	github.com/chzyer/readline v1.5.1 // indirect
	github.com/cockroachdb/apd/v2 v2.0.2 // indirect
	github.com/cockroachdb/errors v1.11.1 // indirect
	github.com/cockroachdb/logtags v0.0.0-20230118201751-21c54148d20b // indirect
	github.com/cockroachdb/pebble v1.1.0 // indirect
	github.com/cockroachdb/redact v1.1.5 // indirect
	github.com/cockroachdb/tokenbucket v0.0.0-20230807174530-cc333fc44b06 // indirect
	github.com/coinbase/rosetta-sdk-go/types v1.0.0 // indirect
	github.com/confio/ics23/go v0.9.0 // indirect
	github.com/cosmos/btcutil v1.0.5 // indirect
	github.com/cosmos/cosmos-proto v1.0.0-beta.4 // indirect
	github.com/cosmos/go-bip39 v1.0.0 // indirect
	github.com/cosmos/gogogateway v1.2.0 // indirect
	github.com/cosmos/iavl v0.20.1 // indirect
	github.com/cosmos/ics23/go v0.10.0 // indirect
	github.com/cosmos/ledger-cosmos-go v0.12.4 // indirect
	github.com/cosmos/rosetta-sdk-go v0.10.0 // indirect
	github.com/creachadair/taskgroup v0.4.2 // indirect
	github.com/danieljoos/wincred v1.1.2 // indirect
	github.com/davecgh/go-spew v1.1.1 // indirect
	github.com/decred/dcrd/dcrec/secp256k1/v4 v4.1.0 // indirect
	github.com/desertbit/timer v0.0.0-20180107155436-c41aec40b27f // indirect
	github.com/dgraph-io/badger/v2 v2.2007.4 // indirect
	github.com/dgraph-io/ristretto v0.1.1 // indirect
	github.com/dgryski/go-farm v0.0.0-20200201041132-a6ae2369ad13 // indirect
	github.com/docker/distribution v2.8.2+incompatible // indirect
	github.com/dustin/go-humanize v1.0.1 // indirect
	github.com/dvsekhvalnov/jose2go v1.6.0 // indirect
	github.com/felixge/httpsnoop v1.0.2 // indirect
	github.com/fsnotify/fsnotify v1.6.0 // indirect
	github.com/getsentry/sentry-go v0.23.0 // indirect
	github.com/go-kit/kit v0.12.0 // indirect
	github.com/go-kit/log v0.2.1 // indirect
	github.com/go-logfmt/logfmt v0.6.0 // indirect
	github.com/go-logr/logr v1.2.4 // indirect
	github.com/go-logr/stdr v1.2.2 // indirect
	github.com/godbus/dbus v0.0.0-20190726142602-4481cbc300e2 // indirect
	github.com/gogo/googleapis v1.4.1 // indirect
	github.com/golang/glog v1.1.2 // indirect
	github.com/golang/groupcache v0.0.0-20210331224755-41bb18bfe9da // indirect
	github.com/golang/mock v1.6.0 // indirect
	github.com/golang/snappy v0.0.4 // indirect
	github.com/google/btree v1.1.2 // indirect
	github.com/google/go-cmp v0.6.0 // indirect
	github.com/google/gofuzz v1.2.0 // indirect
	github.com/google/orderedcode v0.0.1 // indirect
	github.com/google/s2a-go v0.1.7 // indirect
	github.com/google/uuid v1.4.0 // indirect
	github.com/googleapis/enterprise-certificate-proxy v0.3.2 // indirect
	github.com/googleapis/gax-go/v2 v2.12.0 // indirect
	github.com/gorilla/handlers v1.5.1 // indirect
	github.com/gorilla/mux v1.8.0 // indirect
	github.com/gorilla/websocket v1.5.0 // indirect
	github.com/grpc-ecosystem/go-grpc-middleware v1.3.0 // indirect
	github.com/gsterjov/go-libsecret v0.0.0-20161001094733-a6f4afe4910c // indirect
	github.com/gtank/merlin v0.1.1 // indirect
	github.com/gtank/ristretto255 v0.1.2 // indirect
	github.com/hashicorp/go-cleanhttp v0.5.2 // indirect
	github.com/hashicorp/go-getter v1.7.1 // indirect
	github.com/hashicorp/go-immutable-radix v1.3.1 // indirect
	github.com/hashicorp/go-safetemp v1.0.0 // indirect
	github.com/hashicorp/go-version v1.6.0 // indirect
	github.com/hashicorp/golang-lru v0.5.5-0.20210104140557-80c98217689d // indirect
	github.com/hashicorp/hcl v1.0.0 // indirect
	github.com/hdevalence/ed25519consensus v0.1.0 // indirect
	github.com/huandu/skiplist v1.2.0 // indirect
	github.com/improbable-eng/grpc-web v0.15.0 // indirect
	github.com/inconshreveable/mousetrap v1.1.0 // indirect
	github.com/jmespath/go-jmespath v0.4.0 // indirect
	github.com/jmhodges/levigo v1.0.0 // indirect
	github.com/klauspost/compress v1.16.7 // indirect
	github.com/kr/pretty v0.3.1 // indirect
	github.com/kr/text v0.2.0 // indirect
	github.com/lib/pq v1.10.7 // indirect
	github.com/libp2p/go-buffer-pool v0.1.0 // indirect
	github.com/linxGnu/grocksdb v1.8.12 // indirect
	github.com/magiconair/properties v1.8.7 // indirect
	github.com/manifoldco/promptui v0.9.0 // indirect
	github.com/mattn/go-colorable v0.1.13 // indirect
	github.com/mattn/go-isatty v0.0.20 // indirect
	github.com/matttproud/golang_protobuf_extensions/v2 v2.0.0 // indirect
	github.com/mimoo/StrobeGo v0.0.0-20210601165009-122bf33a46e0 // indirect
	github.com/minio/highwayhash v1.0.2 // indirect
	github.com/mitchellh/go-homedir v1.1.0 // indirect
	github.com/mitchellh/go-testing-interface v1.14.1 // indirect
	github.com/mitchellh/mapstructure v1.5.0 // indirect
	github.com/mtibben/percent v0.2.1 // indirect
	github.com/opencontainers/go-digest v1.0.0 // indirect
	github.com/pelletier/go-toml/v2 v2.0.8 // indirect
	github.com/petermattis/goid v0.0.0-20230317030725-371a4b8eda08 // indirect
	github.com/pkg/errors v0.9.1 // indirect
	github.com/pmezard/go-difflib v1.0.0 // indirect
	github.com/prometheus/client_model v0.5.0 // indirect
	github.com/prometheus/common v0.45.0 // indirect
	github.com/prometheus/procfs v0.12.0 // indirect
	github.com/rakyll/statik v0.1.7 // indirect
	github.com/rcrowley/go-metrics v0.0.0-20201227073835-cf1acfcdf475 // indirect
	github.com/rogpeppe/go-internal v1.11.0 // indirect
	github.com/rs/cors v1.8.3 // indirect
	github.com/rs/zerolog v1.32.0 // indirect
	github.com/sasha-s/go-deadlock v0.3.1 // indirect
	github.com/spf13/afero v1.9.5 // indirect
	github.com/spf13/jwalterweatherman v1.1.0 // indirect
	github.com/spf13/viper v1.16.0 // indirect
	github.com/subosito/gotenv v1.4.2 // indirect
	github.com/syndtr/goleveldb v1.0.1-0.20220721030215-126854af5e6d // indirect
	github.com/tendermint/go-amino v0.16.0 // indirect
	github.com/tidwall/btree v1.6.0 // indirect
	github.com/ulikunitz/xz v0.5.11 // indirect
	github.com/zondax/hid v0.9.2 // indirect
	github.com/zondax/ledger-go v0.14.3 // indirect
	go.etcd.io/bbolt v1.3.8 // indirect
	go.opencensus.io v0.24.0 // indirect
	go.opentelemetry.io/otel v1.19.0 // indirect
	go.opentelemetry.io/otel/metric v1.19.0 // indirect
	go.opentelemetry.io/otel/trace v1.19.0 // indirect
	golang.org/x/crypto v0.17.0 // indirect
	golang.org/x/exp v0.0.0-20230711153332-06a737ee72cb // indirect
	golang.org/x/net v0.19.0 // indirect
	golang.org/x/oauth2 v0.14.0 // indirect
	golang.org/x/sync v0.5.0 // indirect
	golang.org/x/sys v0.16.0 // indirect
	golang.org/x/term v0.15.0 // indirect
	golang.org/x/text v0.14.0 // indirect
	google.golang.org/api v0.149.0 // indirect
	google.golang.org/appengine v1.6.8 // indirect
	google.golang.org/genproto v0.0.0-20240102182953-50ed04b92917 // indirect
	google.golang.org/genproto/googleapis/rpc v0.0.0-20240108191215-35c7eff3a6b1 // indirect
	gopkg.in/ini.v1 v1.67.0 // indirect
	gopkg.in/yaml.v2 v2.4.0 // indirect
	nhooyr.io/websocket v1.8.6 // indirect
	pgregory.net/rapid v1.1.0 // indirect
	sigs.k8s.io/yaml v1.4.0 // indirect
)

replace (
	github.com/99designs/keyring => github.com/cosmos/keyring v1.2.0
	github.com/syndtr/goleveldb => github.com/syndtr/goleveldb v1.0.1-0.20210819022825-2ae1ddf74ef7
	golang.org/x/exp => golang.org/x/exp v0.0.0-20230711153332-06a737ee72cb
	pgregory.net/rapid => pgregory.net/rapid v0.5.5
)

require github.com/sentinel-official/hub/v12 v12.0.0

replace github.com/sentinel-official/hub/v12 => /repo
