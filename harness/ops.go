package main

// Operations in the textual form shared with the model runner, and their
// interpretation as real sdk.Msg / block steps.

import (
	"encoding/hex"
	"fmt"
	"math/big"
	"net/url"
	"strconv"
	"strings"
	"time"

	sdkmath "cosmossdk.io/math"
	cryptotypes "github.com/cosmos/cosmos-sdk/crypto/types"
	sdk "github.com/cosmos/cosmos-sdk/types"
	"github.com/cosmos/cosmos-sdk/types/bech32"

	hubtypes "github.com/sentinel-official/hub/v12/types"
	nodetypes "github.com/sentinel-official/hub/v12/x/node/types"
	plantypes "github.com/sentinel-official/hub/v12/x/plan/types"
	providertypes "github.com/sentinel-official/hub/v12/x/provider/types"
	sessiontypes "github.com/sentinel-official/hub/v12/x/session/types"
	subscriptiontypes "github.com/sentinel-official/hub/v12/x/subscription/types"
	swaptypes "github.com/sentinel-official/hub/v12/x/swap/types"
)

// ---------- basic values ----------

func bi(s string) *big.Int {
	v, ok := new(big.Int).SetString(s, 10)
	if !ok {
		panic("bad integer " + s)
	}
	return v
}
func intOf(v *big.Int) sdkmath.Int { return sdkmath.NewIntFromBigInt(v) }

// 18-decimal fixed point integer -> LegacyDec
func decOf(v *big.Int) sdkmath.LegacyDec { return sdkmath.LegacyNewDecFromBigIntWithPrec(v, 18) }
func decRaw(d sdkmath.LegacyDec) *big.Int {
	if d.IsNil() {
		return big.NewInt(0)
	}
	return d.BigInt()
}

// time as nanoseconds since the Unix epoch (big: the zero time is below int64 range of UnixNano)
var zeroTimeNs = new(big.Int).Mul(big.NewInt(-62135596800), big.NewInt(1000000000))

func zt(ns *big.Int) time.Time {
	q, r := new(big.Int).DivMod(ns, big.NewInt(1000000000), new(big.Int))
	return time.Unix(q.Int64(), r.Int64()).UTC()
}
func tz(t time.Time) *big.Int {
	v := new(big.Int).Mul(big.NewInt(t.Unix()), big.NewInt(1000000000))
	return v.Add(v, big.NewInt(int64(t.Nanosecond())))
}

var denomNames = []string{"1", "denoma", "denomb", "denomc", "denomd"}

func denomName(n int) string { return denomNames[n] }
func denomNum(s string) int {
	for i, d := range denomNames {
		if d == s {
			return i
		}
	}
	panic("unknown denom " + s)
}

type Coin struct {
	Denom  int
	Amount *big.Int
}

func (c Coin) sdk() sdk.Coin {
	// raw construction: the message may carry an invalid coin on purpose
	return sdk.Coin{Denom: denomName(c.Denom), Amount: intOf(c.Amount)}
}
func coinsSdk(cs []Coin) sdk.Coins {
	if cs == nil {
		return nil
	}
	out := sdk.Coins{}
	for _, c := range cs {
		out = append(out, c.sdk())
	}
	return out
}
func coinsTok(cs []Coin, isNil bool) string {
	if isNil {
		return "nil"
	}
	parts := []string{}
	for _, c := range cs {
		parts = append(parts, fmt.Sprintf("%d:%s", c.Denom, c.Amount.String()))
	}
	return "[" + strings.Join(parts, ",") + "]"
}
func parseCoins(tok string) (cs []Coin, isNil bool) {
	if tok == "nil" {
		return nil, true
	}
	inner := strings.TrimSuffix(strings.TrimPrefix(tok, "["), "]")
	cs = []Coin{}
	if inner == "" {
		return cs, false
	}
	for _, p := range strings.Split(inner, ",") {
		kv := strings.SplitN(p, ":", 2)
		d, _ := strconv.Atoi(kv[0])
		cs = append(cs, Coin{d, bi(kv[1])})
	}
	return cs, false
}
func parseCoin(tok string) Coin {
	kv := strings.SplitN(tok, ":", 2)
	d, _ := strconv.Atoi(kv[0])
	return Coin{d, bi(kv[1])}
}

// ---------- textual addresses ----------

type TAddr struct {
	Role  byte // 'a' account, 'n' node, 'p' provider
	Upper bool
	Bytes []byte
}

func hrpOf(role byte) string {
	switch role {
	case 'a':
		return hubtypes.Bech32PrefixAccAddr
	case 'n':
		return hubtypes.Bech32PrefixNodeAddr
	case 'p':
		return hubtypes.Bech32PrefixProvAddr
	}
	panic("bad role")
}
func (t TAddr) String() string {
	s, err := bech32.ConvertAndEncode(hrpOf(t.Role), t.Bytes)
	if err != nil {
		panic(err)
	}
	if t.Upper {
		return strings.ToUpper(s)
	}
	return s
}
func (t TAddr) Tok() string {
	r := string(t.Role)
	if t.Upper {
		r = strings.ToUpper(r)
	}
	return r + ":" + hex.EncodeToString(t.Bytes)
}
func parseTAddr(tok string) TAddr {
	kv := strings.SplitN(tok, ":", 2)
	b, err := hex.DecodeString(kv[1])
	if err != nil {
		panic(err)
	}
	r := kv[0][0]
	up := r >= 'A' && r <= 'Z'
	if up {
		r = r - 'A' + 'a'
	}
	return TAddr{Role: r, Upper: up, Bytes: b}
}

// parse a bech32 text of any hub role back to a token (used for observations)
func textToTok(s string) string {
	if s == "" {
		return "-"
	}
	up := s == strings.ToUpper(s) && s != strings.ToLower(s)
	hrp, bz, err := bech32.DecodeAndConvert(s)
	if err != nil {
		return "?" + s
	}
	var r byte
	switch strings.ToLower(hrp) {
	case hubtypes.Bech32PrefixAccAddr:
		r = 'a'
	case hubtypes.Bech32PrefixNodeAddr:
		r = 'n'
	case hubtypes.Bech32PrefixProvAddr:
		r = 'p'
	default:
		return "?" + s
	}
	return TAddr{Role: r, Upper: up, Bytes: bz}.Tok()
}

func strTok(s string) string  { return "s:" + hex.EncodeToString([]byte(s)) }
func parseStr(t string) string { b, _ := hex.DecodeString(strings.TrimPrefix(t, "s:")); return string(b) }
func boolTok(b bool) string {
	if b {
		return "1"
	}
	return "0"
}

// ---------- genesis ----------

type Params struct {
	ProvDeposit  Coin
	ProvShare    *big.Int
	NodeDeposit  Coin
	NodeActive   *big.Int
	MaxGb, MinGb []Coin
	MaxHr, MinHr []Coin
	MaxSubGb     *big.Int
	MinSubGb     *big.Int
	MaxSubHr     *big.Int
	MinSubHr     *big.Int
	NodeShare    *big.Int
	SubDelay     *big.Int
	SessDelay    *big.Int
	SessProof    bool
	SwapEnabled  bool
	SwapDenom    int
	SwapApprover TAddr
}

type Balance struct {
	Addr   []byte
	Denom  int
	Amount *big.Int
}
type Account struct {
	Addr   []byte
	PubKey cryptotypes.PubKey
}
type Inflation struct{ Max, Min, Rate, TS *big.Int }

type Genesis struct {
	Balances   []Balance
	Accounts   []Account
	Params     Params
	Inflations []Inflation
	Mint       [4]*big.Int
	Time       *big.Int
}

// ---------- parameter changes ----------

type ParamChange struct{ Subspace, Key, Value string }

func coinsJSON(cs []Coin) string {
	parts := []string{}
	for _, c := range cs {
		parts = append(parts, fmt.Sprintf(`{"denom":"%s","amount":"%s"}`, denomName(c.Denom), c.Amount.String()))
	}
	return "[" + strings.Join(parts, ",") + "]"
}
func decJSON(v *big.Int) string { return `"` + decOf(v).String() + `"` }

// token pairs "key value" of an OGov line -> real subspace updates
func govChange(key, val string) ParamChange {
	q := func(s string) string { return `"` + s + `"` }
	switch key {
	case "prov_deposit":
		c := parseCoin(val)
		return ParamChange{"vpn/provider", "Deposit", fmt.Sprintf(`{"denom":"%s","amount":"%s"}`, denomName(c.Denom), c.Amount)}
	case "prov_share":
		return ParamChange{"vpn/provider", "StakingShare", decJSON(bi(val))}
	case "node_deposit":
		c := parseCoin(val)
		return ParamChange{"vpn/node", "Deposit", fmt.Sprintf(`{"denom":"%s","amount":"%s"}`, denomName(c.Denom), c.Amount)}
	case "node_active":
		return ParamChange{"vpn/node", "ActiveDuration", q(val)}
	case "max_gb", "min_gb", "max_hr", "min_hr":
		cs, _ := parseCoins(val)
		k := map[string]string{"max_gb": "MaxGigabytePrices", "min_gb": "MinGigabytePrices", "max_hr": "MaxHourlyPrices", "min_hr": "MinHourlyPrices"}[key]
		return ParamChange{"vpn/node", k, coinsJSON(cs)}
	case "max_sub_gb":
		return ParamChange{"vpn/node", "MaxSubscriptionGigabytes", q(val)}
	case "min_sub_gb":
		return ParamChange{"vpn/node", "MinSubscriptionGigabytes", q(val)}
	case "max_sub_hr":
		return ParamChange{"vpn/node", "MaxSubscriptionHours", q(val)}
	case "min_sub_hr":
		return ParamChange{"vpn/node", "MinSubscriptionHours", q(val)}
	case "node_share":
		return ParamChange{"vpn/node", "StakingShare", decJSON(bi(val))}
	case "sub_delay":
		return ParamChange{"vpn/subscription", "StatusChangeDelay", q(val)}
	case "sess_delay":
		return ParamChange{"vpn/session", "StatusChangeDelay", q(val)}
	case "sess_proof":
		return ParamChange{"vpn/session", "ProofVerificationEnabled", map[string]string{"0": "false", "1": "true"}[val]}
	case "swap_enabled":
		return ParamChange{"swap", "SwapEnabled", map[string]string{"0": "false", "1": "true"}[val]}
	case "swap_denom":
		d, _ := strconv.Atoi(val)
		return ParamChange{"swap", "SwapDenom", q(denomName(d))}
	case "swap_approver":
		return ParamChange{"swap", "ApproveBy", q(parseTAddr(val).String())}
	}
	panic("unknown param key " + key)
}

// ---------- messages ----------

func urlOK(s string) bool {
	u, err := url.ParseRequestURI(s)
	if err != nil {
		return false
	}
	return u.Scheme == "https" && u.Port() != ""
}
func websiteOK(s string) bool {
	_, err := url.ParseRequestURI(s)
	return err == nil
}

// buildMsg interprets the tokens of a "T" line.  Oracle tokens (url_ok,
// website_ok, sig_ok) are recomputed and written back into toks.
func (e *Env) buildMsg(toks []string) sdk.Msg {
	k := toks[0]
	a := toks[1:]
	u64 := func(s string) uint64 { v, err := strconv.ParseUint(s, 10, 64); must(err); return v }
	i64 := func(s string) int64 { v, err := strconv.ParseInt(s, 10, 64); must(err); return v }
	st := func(s string) hubtypes.Status { v, _ := strconv.Atoi(s); return hubtypes.Status(v) }
	dn := func(s string) string { v, _ := strconv.Atoi(s); return denomName(v) }
	switch k {
	case "prov_register":
		a[5] = boolTok(websiteOK(parseStr(a[3])))
		return &providertypes.MsgRegisterRequest{From: parseTAddr(a[0]).String(), Name: parseStr(a[1]), Identity: parseStr(a[2]), Website: parseStr(a[3]), Description: parseStr(a[4])}
	case "prov_update":
		a[5] = boolTok(websiteOK(parseStr(a[3])))
		return &providertypes.MsgUpdateRequest{From: parseTAddr(a[0]).String(), Name: parseStr(a[1]), Identity: parseStr(a[2]), Website: parseStr(a[3]), Description: parseStr(a[4]), Status: st(a[6])}
	case "node_register":
		gb, _ := parseCoins(a[1])
		hr, _ := parseCoins(a[2])
		a[4] = boolTok(urlOK(parseStr(a[3])))
		return &nodetypes.MsgRegisterRequest{From: parseTAddr(a[0]).String(), GigabytePrices: coinsSdk(gb), HourlyPrices: coinsSdk(hr), RemoteURL: parseStr(a[3])}
	case "node_update_details":
		gb, _ := parseCoins(a[1])
		hr, _ := parseCoins(a[2])
		a[4] = boolTok(urlOK(parseStr(a[3])))
		return &nodetypes.MsgUpdateDetailsRequest{From: parseTAddr(a[0]).String(), GigabytePrices: coinsSdk(gb), HourlyPrices: coinsSdk(hr), RemoteURL: parseStr(a[3])}
	case "node_update_status":
		return &nodetypes.MsgUpdateStatusRequest{From: parseTAddr(a[0]).String(), Status: st(a[1])}
	case "node_subscribe":
		return &nodetypes.MsgSubscribeRequest{From: parseTAddr(a[0]).String(), NodeAddress: parseTAddr(a[1]).String(), Gigabytes: i64(a[2]), Hours: i64(a[3]), Denom: dn(a[4])}
	case "plan_create":
		pr, _ := parseCoins(a[3])
		return &plantypes.MsgCreateRequest{From: parseTAddr(a[0]).String(), Duration: time.Duration(i64(a[1])), Gigabytes: i64(a[2]), Prices: coinsSdk(pr)}
	case "plan_update_status":
		return &plantypes.MsgUpdateStatusRequest{From: parseTAddr(a[0]).String(), ID: u64(a[1]), Status: st(a[2])}
	case "plan_link":
		return &plantypes.MsgLinkNodeRequest{From: parseTAddr(a[0]).String(), ID: u64(a[1]), NodeAddress: parseTAddr(a[2]).String()}
	case "plan_unlink":
		return &plantypes.MsgUnlinkNodeRequest{From: parseTAddr(a[0]).String(), ID: u64(a[1]), NodeAddress: parseTAddr(a[2]).String()}
	case "plan_subscribe":
		return &plantypes.MsgSubscribeRequest{From: parseTAddr(a[0]).String(), ID: u64(a[1]), Denom: dn(a[2])}
	case "sub_cancel":
		return &subscriptiontypes.MsgCancelRequest{From: parseTAddr(a[0]).String(), ID: u64(a[1])}
	case "sub_allocate":
		return &subscriptiontypes.MsgAllocateRequest{From: parseTAddr(a[0]).String(), ID: u64(a[1]), Address: parseTAddr(a[2]).String(), Bytes: intOf(bi(a[3]))}
	case "sess_start":
		return &sessiontypes.MsgStartRequest{From: parseTAddr(a[0]).String(), ID: u64(a[1]), Address: parseTAddr(a[2]).String()}
	case "sess_update":
		proof := sessiontypes.Proof{ID: u64(a[1]), Bandwidth: hubtypes.NewBandwidth(intOf(bi(a[2])), intOf(bi(a[3]))), Duration: time.Duration(i64(a[4]))}
		var sig []byte
		if a[5] != "nil" {
			var err error
			sig, err = hex.DecodeString(a[5])
			must(err)
		}
		a[6] = boolTok(e.sigOracle(proof, sig))
		return &sessiontypes.MsgUpdateDetailsRequest{From: parseTAddr(a[0]).String(), Proof: proof, Signature: sig}
	case "sess_end":
		return &sessiontypes.MsgEndRequest{From: parseTAddr(a[0]).String(), ID: u64(a[1]), Rating: u64(a[2])}
	case "swap":
		h, err := hex.DecodeString(strings.TrimPrefix(a[1], "h:"))
		must(err)
		return &swaptypes.MsgSwapRequest{From: parseTAddr(a[0]).String(), TxHash: h, Receiver: parseTAddr(a[2]).String(), Amount: intOf(bi(a[3]))}
	}
	panic("unknown message kind " + k)
}

// sigOracle: does the signature verify, with the real secp256k1 verifier over the
// real protobuf bytes of the proof, against the account key of the subscriber of
// the session the proof names?  (External behaviour fed to the model as an input.)
func (e *Env) sigOracle(proof sessiontypes.Proof, sig []byte) bool {
	sess, found := e.vk.Session.GetSession(e.ctx, proof.ID)
	if !found {
		return false
	}
	acc := e.ak.GetAccount(e.ctx, sess.GetAddress())
	if acc == nil || acc.GetPubKey() == nil {
		return false
	}
	bz, err := proof.Marshal()
	if err != nil {
		return false
	}
	return acc.GetPubKey().VerifySignature(bz, sig)
}

func must(err error) {
	if err != nil {
		panic(err)
	}
}
