package main

// App-mode environment: the REAL application (app.NewApp over a MemDB) instead of hand-assembled keepers.
// Genesis goes through InitChain (every module's InitGenesis in the app's order, one bonded validator as the
// SDK requires), blocks through BaseApp.BeginBlock / EndBlock / Commit (the module manager's begin/end-blocker
// order of app/module.go, with the SDK's own mint, distribution, staking, slashing, gov, ibc, wasm ... hooks
// running too), messages through the app's MsgServiceRouter (the services app.NewApp registered) inside a cache
// context of the deliver state, written on success.  Not exercised: the ante handler and signatures (the
// histories use addresses of 1..255 arbitrary bytes, which no key pair produces).
//
// The same op files run in keeper mode; tools/compare.py --app diffs the two observation streams
// (fee collector + distribution module merged: the SDK's distribution begin-blocker sweeps the former into
// the latter every block; the minter's current inflation is recomputed by the SDK mint begin-blocker).

import (
	stdjson "encoding/json"
	"fmt"
	"os"
	"time"

	abci "github.com/cometbft/cometbft/abci/types"
	"github.com/cosmos/cosmos-sdk/baseapp"
	dbm "github.com/cometbft/cometbft-db"
	"github.com/cometbft/cometbft/crypto/ed25519"
	"github.com/cometbft/cometbft/libs/log"
	tmproto "github.com/cometbft/cometbft/proto/tendermint/types"
	tmtypes "github.com/cometbft/cometbft/types"
	codectypes "github.com/cosmos/cosmos-sdk/codec/types"
	cryptocodec "github.com/cosmos/cosmos-sdk/crypto/codec"
	simtestutil "github.com/cosmos/cosmos-sdk/testutil/sims"
	sdk "github.com/cosmos/cosmos-sdk/types"
	authtypes "github.com/cosmos/cosmos-sdk/x/auth/types"
	banktypes "github.com/cosmos/cosmos-sdk/x/bank/types"
	minttypes "github.com/cosmos/cosmos-sdk/x/mint/types"
	"github.com/cosmos/cosmos-sdk/x/params"
	paramstypes "github.com/cosmos/cosmos-sdk/x/params/types"
	paramproposal "github.com/cosmos/cosmos-sdk/x/params/types/proposal"
	stakingtypes "github.com/cosmos/cosmos-sdk/x/staking/types"

	"github.com/sentinel-official/hub/v12/app"
	customminttypes "github.com/sentinel-official/hub/v12/x/mint/types"
	nodetypes "github.com/sentinel-official/hub/v12/x/node/types"
	providertypes "github.com/sentinel-official/hub/v12/x/provider/types"
	sessiontypes "github.com/sentinel-official/hub/v12/x/session/types"
	subscriptiontypes "github.com/sentinel-official/hub/v12/x/subscription/types"
	swaptypes "github.com/sentinel-official/hub/v12/x/swap/types"
	vpntypes "github.com/sentinel-official/hub/v12/x/vpn/types"
)

const appChainID = "verif-1"
const bondDenom = "ubond" // staking / SDK-mint denomination of app mode: never used by the generated histories

type appState struct {
	app     *app.App
	home    string
	header  tmproto.Header
	inBlock bool
}

func NewAppEnv() *Env {
	sealConfig()
	home, err := os.MkdirTemp("", "hubverif-app-")
	must(err)
	enc := app.DefaultEncodingConfig()
	a := app.NewApp(simtestutil.NewAppOptionsWithFlagHome(home), "sent", dbm.NewMemDB(), enc, home, 0, true,
		log.NewNopLogger(), true, map[int64]bool{}, nil, "verif", nil, baseapp.SetChainID(appChainID))
	e := &Env{ap: &appState{app: a, home: home}}
	e.cdc = enc.Codec
	e.keys = a.KVKeys()
	e.tkey = a.Transient(paramstypes.TStoreKey)
	e.ak = a.AccountKeeper
	e.bk = a.BankKeeper
	e.pk = a.ParamsKeeper
	e.sk = a.StakingKeeper
	e.dk = a.DistributionKeeper
	e.mk = a.MintKeeper
	e.vk = a.VPNKeeper
	e.wk = a.SwapKeeper
	e.ck = a.CustomMintKeeper
	e.height = 0
	return e
}

func (e *Env) appClose() {
	if e.ap != nil {
		os.RemoveAll(e.ap.home)
	}
}

func (e *Env) appInitGenesis(g *Genesis) {
	a := e.ap.app
	cdc := e.cdc
	gs := app.ModuleBasics.DefaultGenesis(cdc)

	// one bonded validator, as module.Manager.InitGenesis demands
	priv := ed25519.GenPrivKeyFromSecret([]byte("hubverif validator"))
	tmPub := priv.PubKey()
	val := tmtypes.NewValidator(tmPub, 1)
	pk, err := cryptocodec.FromTmPubKeyInterface(val.PubKey)
	must(err)
	pkAny, err := codectypes.NewAnyWithValue(pk)
	must(err)
	operator := sdk.AccAddress(val.Address)
	validator := stakingtypes.Validator{
		OperatorAddress: sdk.ValAddress(val.Address).String(), ConsensusPubkey: pkAny, Jailed: false,
		Status: stakingtypes.Bonded, Tokens: sdk.DefaultPowerReduction, DelegatorShares: sdk.OneDec(),
		Description: stakingtypes.Description{}, UnbondingHeight: 0, UnbondingTime: time.Unix(0, 0).UTC(),
		Commission: stakingtypes.NewCommission(sdk.ZeroDec(), sdk.ZeroDec(), sdk.ZeroDec()), MinSelfDelegation: sdk.ZeroInt(),
	}
	sp := stakingtypes.DefaultParams()
	sp.BondDenom = bondDenom
	stg := stakingtypes.NewGenesisState(sp, []stakingtypes.Validator{validator},
		[]stakingtypes.Delegation{stakingtypes.NewDelegation(operator, val.Address.Bytes(), sdk.OneDec())})
	gs[stakingtypes.ModuleName] = cdc.MustMarshalJSON(stg)

	// accounts and balances
	accs := []authtypes.GenesisAccount{authtypes.NewBaseAccount(operator, nil, 0, 0)}
	seen := map[string]bool{string(operator): true}
	for _, ac := range g.Accounts {
		if seen[string(ac.Addr)] {
			continue
		}
		seen[string(ac.Addr)] = true
		accs = append(accs, authtypes.NewBaseAccount(sdk.AccAddress(ac.Addr), ac.PubKey, 0, 0))
	}
	balMap := map[string]sdk.Coins{}
	order := []string{}
	add := func(addr sdk.AccAddress, c sdk.Coin) {
		k := string(addr)
		if _, ok := balMap[k]; !ok {
			order = append(order, k)
		}
		balMap[k] = balMap[k].Add(c)
	}
	for _, b := range g.Balances {
		add(sdk.AccAddress(b.Addr), sdk.NewCoin(denomName(b.Denom), intOf(b.Amount)))
		if !seen[string(b.Addr)] {
			seen[string(b.Addr)] = true
			accs = append(accs, authtypes.NewBaseAccount(sdk.AccAddress(b.Addr), nil, 0, 0))
		}
	}
	add(authtypes.NewModuleAddress(stakingtypes.BondedPoolName), sdk.NewCoin(bondDenom, sdk.DefaultPowerReduction))
	bals := []banktypes.Balance{}
	for _, k := range order {
		bals = append(bals, banktypes.Balance{Address: sdk.AccAddress(k).String(), Coins: balMap[k]})
	}
	gs[authtypes.ModuleName] = cdc.MustMarshalJSON(authtypes.NewGenesisState(authtypes.DefaultParams(), accs))
	gs[banktypes.ModuleName] = cdc.MustMarshalJSON(banktypes.NewGenesisState(banktypes.DefaultParams(), bals, sdk.Coins{}, nil, nil))

	// SDK mint: parameters and minter as in keeper mode, minting the bond denomination only
	mp := minttypes.DefaultParams()
	mp.MintDenom = bondDenom
	mp.InflationMax = decOf(g.Mint[0])
	mp.InflationMin = decOf(g.Mint[1])
	mp.InflationRateChange = decOf(g.Mint[2])
	minter := minttypes.DefaultInitialMinter()
	minter.Inflation = decOf(g.Mint[3])
	gs[minttypes.ModuleName] = cdc.MustMarshalJSON(minttypes.NewGenesisState(minter, mp))

	// the hub modules
	vg := vpntypes.DefaultGenesisState()
	vg.Providers.Params = providertypes.NewParams(g.Params.ProvDeposit.sdk(), decOf(g.Params.ProvShare))
	vg.Nodes.Params = nodetypes.NewParams(g.Params.NodeDeposit.sdk(), time.Duration(g.Params.NodeActive.Int64()),
		coinsSdk(g.Params.MaxGb), coinsSdk(g.Params.MinGb), coinsSdk(g.Params.MaxHr), coinsSdk(g.Params.MinHr),
		g.Params.MaxSubGb.Int64(), g.Params.MinSubGb.Int64(), g.Params.MaxSubHr.Int64(), g.Params.MinSubHr.Int64(),
		decOf(g.Params.NodeShare))
	vg.Subscriptions.Params = subscriptiontypes.NewParams(time.Duration(g.Params.SubDelay.Int64()))
	vg.Sessions.Params = sessiontypes.NewParams(time.Duration(g.Params.SessDelay.Int64()), g.Params.SessProof)
	gs[vpntypes.ModuleName] = cdc.MustMarshalJSON(vg)
	sg := swaptypes.DefaultGenesisState()
	sg.Params = swaptypes.NewParams(g.Params.SwapEnabled, denomName(g.Params.SwapDenom), g.Params.SwapApprover.String())
	gs[swaptypes.ModuleName] = cdc.MustMarshalJSON(sg)
	cg := customminttypes.DefaultGenesisState()
	for _, inf := range g.Inflations {
		cg.Inflations = append(cg.Inflations, customminttypes.Inflation{
			Max: decOf(inf.Max), Min: decOf(inf.Min), RateChange: decOf(inf.Rate), Timestamp: zt(inf.TS),
		})
	}
	gs[customminttypes.ModuleName] = cdc.MustMarshalJSON(cg)

	stateBytes, err := jsonMarshalIndent(gs)
	must(err)
	gt := zt(g.Time)
	a.InitChain(abci.RequestInitChain{
		ChainId: appChainID, Time: gt, InitialHeight: 1, ConsensusParams: simtestutil.DefaultConsensusParams,
		Validators: []abci.ValidatorUpdate{}, AppStateBytes: stateBytes,
	})
	e.height = 0
	e.ap.header = tmproto.Header{ChainID: appChainID, Height: 1, Time: gt}
	e.ap.inBlock = true // InitChain leaves a deliver state behind, as BeginBlock does
	e.ctx = a.NewContext(false, e.ap.header)
}

func abciEvents(evs []abci.Event) sdk.Events {
	out := make(sdk.Events, 0, len(evs))
	for _, ev := range evs {
		out = append(out, sdk.Event(ev))
	}
	return out
}

func (e *Env) appBeginBlock(t time.Time) (res string, evs sdk.Events, panicMsg string) {
	a := e.ap.app
	e.height++
	e.ap.header = tmproto.Header{ChainID: appChainID, Height: e.height, Time: t}
	res = ResOK
	func() {
		defer func() {
			if r := recover(); r != nil {
				res = ResHalt
				panicMsg = fmt.Sprint(r)
			}
		}()
		rb := a.BeginBlock(abci.RequestBeginBlock{Header: e.ap.header})
		evs = abciEvents(rb.Events)
	}()
	if res == ResHalt {
		e.halted = true
		return res, nil, panicMsg
	}
	e.ap.inBlock = true
	e.ctx = a.NewContext(false, e.ap.header)
	return res, evs, ""
}

func (e *Env) appEndBlock() (res string, evs sdk.Events, panicMsg string) {
	a := e.ap.app
	res = ResOK
	func() {
		defer func() {
			if r := recover(); r != nil {
				res = ResHalt
				panicMsg = fmt.Sprint(r)
			}
		}()
		re := a.EndBlock(abci.RequestEndBlock{Height: e.ap.header.Height})
		evs = abciEvents(re.Events)
	}()
	if res == ResHalt {
		e.halted = true
		return res, nil, panicMsg
	}
	a.Commit()
	e.ap.inBlock = false
	e.ctx = a.NewUncachedContext(false, e.ap.header)
	return res, evs, ""
}

func (e *Env) appRunTx(msg sdk.Msg) (res string, evs sdk.Events, errMsg string) {
	if err := msg.ValidateBasic(); err != nil {
		return ResRej, nil, "validate: " + err.Error()
	}
	a := e.ap.app
	ctx := a.NewContext(false, e.ap.header)
	cctx, write := ctx.CacheContext()
	em := sdk.NewEventManager()
	cctx = cctx.WithEventManager(em)
	res = ResOK
	func() {
		defer func() {
			if r := recover(); r != nil {
				res = ResRej
				errMsg = "panic: " + fmt.Sprint(r)
			}
		}()
		h := a.MsgServiceRouter().Handler(msg)
		if h == nil {
			res = ResRej
			errMsg = "no handler registered for " + sdk.MsgTypeURL(msg)
			return
		}
		r, err := h(cctx, msg)
		if err != nil {
			res = ResRej
			errMsg = err.Error()
			return
		}
		// the router runs the service on its own event manager and returns the events in the result
		evs = append(em.Events(), r.GetEvents()...)
	}()
	if res == ResOK {
		write()
		e.ctx = a.NewContext(false, e.ap.header)
		return res, evs, ""
	}
	return res, nil, errMsg
}

func (e *Env) appGov(changes []ParamChange) (res string, errMsg string) {
	a := e.ap.app
	ctx := a.NewContext(false, e.ap.header)
	// the real x/params proposal handler on a ParameterChangeProposal, in a cache context as the gov end-blocker runs it
	pcs := []paramproposal.ParamChange{}
	for _, c := range changes {
		pcs = append(pcs, paramproposal.NewParamChange(c.Subspace, c.Key, c.Value))
	}
	content := paramproposal.NewParameterChangeProposal("t", "d", pcs)
	handler := params.NewParamChangeProposalHandler(a.ParamsKeeper)
	cctx, write := ctx.CacheContext()
	if err := handler(cctx, content); err != nil {
		e.ctx = a.NewContext(false, e.ap.header)
		return ResRej, err.Error()
	}
	write()
	e.ctx = a.NewContext(false, e.ap.header)
	return ResOK, ""
}

func jsonMarshalIndent(v interface{}) ([]byte, error) { return stdjson.MarshalIndent(v, "", " ") }
