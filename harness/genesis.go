package main

// Sub-command `genesis` (property C12): genesis export / validate / JSON / re-import
// round trip of the three hub modules on generated histories, followed by a
// lock-step continuation of the original chain and of the re-imported chain.
//
//   harness genesis -seed S -n N -blocks B -out FILE [-only H] [-at B1,B2] [-ops F -obs F]
//
// For every generated history (same generator, same seed derivation as `gen`)
// one or two block boundaries (after EndBlock + Commit) are chosen by a PRNG of
// their own (the history itself is not perturbed).  At each of them:
//   (a) the REAL AppModule.ExportGenesis of vpn (six sub-keepers), swap, custommint;
//   (b) the REAL per-module Validate functions on the exported objects, and the
//       REAL AppModule.ValidateGenesis on the exported JSON;
//   (c) JSON: codec MarshalJSON -> UnmarshalJSON -> MarshalJSON must be stable;
//   (d) a FRESH Env; auth/bank state through the SDK keepers' own
//       ExportGenesis/InitGenesis, mint params+minter and the fee pool copied;
//       the hub modules through their REAL AppModule.InitGenesis from the JSON;
//       nothing is committed before the next block (as after InitChain), so the
//       x/params transient "modified" flags are set during the first block;
//   (e) Observe() of both chains compared section by section;
//   (f) two re-imported chains are continued in lock-step with the original over
//       the rest of the generated history: `plain` (exactly what import produced)
//       and `patched` (import + the raw `subscription/` sub-store and the session
//       counter copied over from the original, i.e. the losses of the known
//       findings F5/F8 compensated).  The patched chain must never differ.
// One JSON line per (history, export point) is written to -out.
//
// With -ops/-obs the history is also written in the op-line syntax of `gen`
// with an extra op `X` at every export point whose observation is that of the
// plain re-imported chain (res = ok iff every validation passed); the model
// runner model/genesis computes import(export s) at the same places.

import (
	"bufio"
	"encoding/json"
	"flag"
	"fmt"
	"math/big"
	"math/rand"
	"os"
	"regexp"
	"sort"
	"strconv"
	"strings"

	"github.com/cometbft/cometbft/libs/log"
	tmproto "github.com/cometbft/cometbft/proto/tendermint/types"
	"github.com/cosmos/cosmos-sdk/store/prefix"
	sdk "github.com/cosmos/cosmos-sdk/types"

	deposittypes "github.com/sentinel-official/hub/v12/x/deposit/types"
	custommint "github.com/sentinel-official/hub/v12/x/mint"
	customminttypes "github.com/sentinel-official/hub/v12/x/mint/types"
	nodetypes "github.com/sentinel-official/hub/v12/x/node/types"
	plantypes "github.com/sentinel-official/hub/v12/x/plan/types"
	providertypes "github.com/sentinel-official/hub/v12/x/provider/types"
	sessiontypes "github.com/sentinel-official/hub/v12/x/session/types"
	subscriptiontypes "github.com/sentinel-official/hub/v12/x/subscription/types"
	"github.com/sentinel-official/hub/v12/x/swap"
	swaptypes "github.com/sentinel-official/hub/v12/x/swap/types"
	"github.com/sentinel-official/hub/v12/x/vpn"
	vpntypes "github.com/sentinel-official/hub/v12/x/vpn/types"
)

func init() { extraCommands["genesis"] = runGenesisCmd }

// ---------- guarded calls ----------

func guardErr(f func() error) (out string) {
	defer func() {
		if r := recover(); r != nil {
			out = "panic: " + fmt.Sprint(r)
		}
	}()
	if err := f(); err != nil {
		return "err: " + err.Error()
	}
	return "ok"
}

func cj(v interface{}) string {
	bz, err := json.Marshal(v)
	must(err)
	return string(bz)
}

// ---------- section-wise comparison of two observations ----------

// flatten splits an observation into comparable sections, named as in
// tools/compare.py (ix.<index>), with counters and parameters one by one.
func flatten(st M) map[string]interface{} {
	out := map[string]interface{}{}
	for k, v := range st {
		switch k {
		case "ix", "cnt", "par":
			for n, x := range v.(M) {
				out[k+"."+n] = x
			}
		default:
			out[k] = v
		}
	}
	return out
}

// items turns a section into a multiset of canonical strings.
func items(v interface{}) []string {
	switch x := v.(type) {
	case L:
		out := make([]string, 0, len(x))
		for _, e := range x {
			out = append(out, cj(e))
		}
		sort.Strings(out)
		return out
	case M:
		out := make([]string, 0, len(x))
		for _, k := range sortedKeys(x) {
			out = append(out, cj(L{k, x[k]}))
		}
		return out
	default:
		return []string{cj(v)}
	}
}

type secDiff struct {
	Section   string   `json:"section"`
	NOrig     int      `json:"n_orig"`
	NCopy     int      `json:"n_copy"`
	NOnlyOrig int      `json:"n_only_orig"`
	NOnlyCopy int      `json:"n_only_copy"`
	OnlyOrig  []string `json:"only_orig"`
	OnlyCopy  []string `json:"only_copy"`
}

func diffItems(a, b []string) (onlyA, onlyB []string) {
	cnt := map[string]int{}
	for _, x := range b {
		cnt[x]++
	}
	for _, x := range a {
		if cnt[x] > 0 {
			cnt[x]--
		} else {
			onlyA = append(onlyA, x)
		}
	}
	cnt2 := map[string]int{}
	for _, x := range a {
		cnt2[x]++
	}
	for _, x := range b {
		if cnt2[x] > 0 {
			cnt2[x]--
		} else {
			onlyB = append(onlyB, x)
		}
	}
	return
}

func clip(xs []string, n int) []string {
	if len(xs) > n {
		xs = xs[:n]
	}
	out := []string{}
	for _, x := range xs {
		if len(x) > 400 {
			x = x[:400] + "..."
		}
		out = append(out, x)
	}
	return out
}

// sectionDiffs lists the sections in which two observations differ.
func sectionDiffs(orig, cp M, skip map[string]bool) []secDiff {
	fa, fb := flatten(orig), flatten(cp)
	names := map[string]bool{}
	for k := range fa {
		names[k] = true
	}
	for k := range fb {
		names[k] = true
	}
	keys := []string{}
	for k := range names {
		keys = append(keys, k)
	}
	sort.Strings(keys)
	out := []secDiff{}
	for _, k := range keys {
		if skip[k] {
			continue
		}
		ia, ib := items(fa[k]), items(fb[k])
		oa, ob := diffItems(ia, ib)
		if len(oa) == 0 && len(ob) == 0 {
			continue
		}
		out = append(out, secDiff{Section: k, NOrig: len(ia), NCopy: len(ib), NOnlyOrig: len(oa), NOnlyCopy: len(ob),
			OnlyOrig: clip(oa, 2), OnlyCopy: clip(ob, 2)})
	}
	return out
}

// ---------- export / validate / json / import ----------

type exported struct {
	vpnRaw, swapRaw, mintRaw json.RawMessage
	validate                 map[string]string
	jsonrt                   map[string]string
	counts                   map[string]int
}

func (e *Env) vpnModule() vpn.AppModule        { return vpn.NewAppModule(e.cdc, e.ak, e.bk, e.vk) }
func (e *Env) swapModule() swap.AppModule      { return swap.NewAppModule(e.cdc, e.wk) }
func (e *Env) mintModule() custommint.AppModule { return custommint.NewAppModule(e.cdc, e.ck) }

func exportHub(e *Env) *exported {
	ctx := e.ctx
	x := &exported{validate: map[string]string{}, jsonrt: map[string]string{}, counts: map[string]int{}}

	// the objects, as the package-level ExportGenesis functions build them
	vg := vpn.ExportGenesis(ctx, e.vk)
	sg := swap.ExportGenesis(ctx, e.wk)
	cg := custommint.ExportGenesis(ctx, e.ck)
	x.counts["deposits"] = len(vg.Deposits)
	x.counts["providers"] = len(vg.Providers.Providers)
	x.counts["nodes"] = len(vg.Nodes.Nodes)
	x.counts["plans"] = len(vg.Plans)
	links := 0
	for _, p := range vg.Plans {
		links += len(p.Nodes)
	}
	x.counts["plan_nodes"] = links
	x.counts["subscriptions"] = len(vg.Subscriptions.Subscriptions)
	x.counts["sessions"] = len(vg.Sessions.Sessions)
	x.counts["swaps"] = len(sg.Swaps)
	x.counts["inflations"] = len(cg.Inflations)

	// (b) the real validation functions, module by module, then as a whole
	x.validate["deposit"] = guardErr(func() error { return deposittypes.ValidateGenesisState(vg.Deposits) })
	x.validate["provider"] = guardErr(func() error { return providertypes.ValidateGenesis(vg.Providers) })
	x.validate["node"] = guardErr(func() error { return nodetypes.ValidateGenesis(vg.Nodes) })
	x.validate["plan"] = guardErr(func() error { return plantypes.ValidateGenesis(vg.Plans) })
	x.validate["subscription"] = guardErr(func() error { return subscriptiontypes.ValidateGenesis(vg.Subscriptions) })
	x.validate["session"] = guardErr(func() error { return sessiontypes.ValidateGenesis(vg.Sessions) })
	x.validate["vpn"] = guardErr(func() error { return vg.Validate() })
	x.validate["swap"] = guardErr(func() error { return sg.Validate() })
	x.validate["custommint"] = guardErr(func() error { return cg.Validate() })

	// (a) the JSON documents through the AppModule entry points (what `export` writes)
	x.vpnRaw = e.vpnModule().ExportGenesis(ctx, e.cdc)
	x.swapRaw = e.swapModule().ExportGenesis(ctx, e.cdc)
	x.mintRaw = e.mintModule().ExportGenesis(ctx, e.cdc)

	// (b') validation of the JSON document (what `validate-genesis` and InitChain's caller do)
	x.validate["vpn.json"] = guardErr(func() error { return e.vpnModule().ValidateGenesis(e.cdc, nil, x.vpnRaw) })
	x.validate["swap.json"] = guardErr(func() error { return e.swapModule().ValidateGenesis(e.cdc, nil, x.swapRaw) })
	x.validate["custommint.json"] = guardErr(func() error { return e.mintModule().ValidateGenesis(e.cdc, nil, x.mintRaw) })

	// (c) JSON stability: unmarshal, marshal again, same bytes
	x.jsonrt["vpn"] = guardErr(func() error {
		var s vpntypes.GenesisState
		if err := e.cdc.UnmarshalJSON(x.vpnRaw, &s); err != nil {
			return err
		}
		bz, err := e.cdc.MarshalJSON(&s)
		if err != nil {
			return err
		}
		if string(bz) != string(x.vpnRaw) {
			return fmt.Errorf("json differs after a round trip")
		}
		return nil
	})
	x.jsonrt["swap"] = guardErr(func() error {
		var s swaptypes.GenesisState
		if err := e.cdc.UnmarshalJSON(x.swapRaw, &s); err != nil {
			return err
		}
		bz, err := e.cdc.MarshalJSON(&s)
		if err != nil {
			return err
		}
		if string(bz) != string(x.swapRaw) {
			return fmt.Errorf("json differs after a round trip")
		}
		return nil
	})
	x.jsonrt["custommint"] = guardErr(func() error {
		var s customminttypes.GenesisState
		if err := e.cdc.UnmarshalJSON(x.mintRaw, &s); err != nil {
			return err
		}
		bz, err := e.cdc.MarshalJSON(&s)
		if err != nil {
			return err
		}
		if string(bz) != string(x.mintRaw) {
			return fmt.Errorf("json differs after a round trip")
		}
		return nil
	})
	return x
}

// importFresh builds a fresh chain whose SDK modules hold what the original's
// hold now and whose hub modules are initialised from the exported documents.
func importFresh(orig *Env, x *exported) (cp *Env, result map[string]string) {
	result = map[string]string{}
	cp = NewEnv()
	octx := orig.ctx
	cp.ctx = sdk.NewContext(cp.cms, tmproto.Header{Height: 1, Time: octx.BlockTime()}, false, log.NewNopLogger())
	ctx := cp.ctx
	result["sdk"] = guardErr(func() error {
		cp.ak.InitGenesis(ctx, *orig.ak.ExportGenesis(octx))
		cp.bk.InitGenesis(ctx, orig.bk.ExportGenesis(octx))
		cp.dk.SetFeePool(ctx, orig.dk.GetFeePool(octx))
		if err := cp.mk.SetParams(ctx, orig.mk.GetParams(octx)); err != nil {
			return err
		}
		cp.mk.SetMinter(ctx, orig.mk.GetMinter(octx))
		return nil
	})
	result["vpn"] = guardErr(func() error { cp.vpnModule().InitGenesis(ctx, cp.cdc, x.vpnRaw); return nil })
	result["swap"] = guardErr(func() error { cp.swapModule().InitGenesis(ctx, cp.cdc, x.swapRaw); return nil })
	result["custommint"] = guardErr(func() error { cp.mintModule().InitGenesis(ctx, cp.cdc, x.mintRaw); return nil })
	return cp, result
}

// compensate copies what the known findings F5/F8 lose: the raw `subscription/`
// sub-store of the vpn store and the session counter.
func compensate(orig, cp *Env) {
	pfx := []byte(subscriptiontypes.ModuleName + "/")
	dst := prefix.NewStore(cp.ctx.KVStore(cp.keys[vpntypes.StoreKey]), pfx)
	del := [][]byte{}
	it := dst.Iterator(nil, nil)
	for ; it.Valid(); it.Next() {
		del = append(del, append([]byte{}, it.Key()...))
	}
	it.Close()
	for _, k := range del {
		dst.Delete(k)
	}
	src := prefix.NewStore(orig.ctx.KVStore(orig.keys[vpntypes.StoreKey]), pfx)
	it = src.Iterator(nil, nil)
	for ; it.Valid(); it.Next() {
		dst.Set(append([]byte{}, it.Key()...), append([]byte{}, it.Value()...))
	}
	it.Close()
	cp.vk.Session.SetCount(cp.ctx, orig.vk.Session.GetCount(orig.ctx))
}

// ---------- lock-step continuation ----------

type fork struct {
	name     string
	e        *Env
	taint    map[string]bool // sections already different right after import
	first    bool            // still inside the first block after import
	alive    bool
	ops      int
	diverged M
	halted   bool
}

var reNum = regexp.MustCompile(`[0-9]+`)
var reAddr = regexp.MustCompile(`sent[a-z]*1[0-9a-z]+`)

func normMsg(s string) string {
	s = reAddr.ReplaceAllString(s, "ADDR")
	s = reNum.ReplaceAllString(s, "N")
	if len(s) > 160 {
		s = s[:160]
	}
	return s
}

// dropSweep removes the node.EventUpdateDetails events: in the first EndBlock
// after an import the node keeper re-prices every node (the bound parameters
// were written in this block) and emits one such event per node.
func dropSweep(evs L) L {
	out := L{}
	for _, ev := range evs {
		if p, ok := ev.(L); ok && len(p) > 0 && p[0] == "node.EventUpdateDetails" {
			continue
		}
		out = append(out, ev)
	}
	return out
}

type opResult struct {
	kind  string
	line  string
	res   string
	st    M
	evs   L
	errm  string
	raw   sdk.Events
}

func applyOp(e *Env, toks []string) opResult {
	t := append([]string{}, toks...)
	r := opResult{kind: t[0]}
	switch t[0] {
	case "B":
		res, evs, pm := e.BeginBlock(zt(bi(t[1])))
		r.res, r.errm = res, pm
		if res == ResOK {
			r.st, r.evs, r.raw = e.Observe(), canonEvents(evs), evs
		}
	case "E":
		res, evs, pm := e.EndBlock()
		r.res, r.errm = res, pm
		if res == ResOK {
			r.st, r.evs, r.raw = e.Observe(), canonEvents(evs), evs
		}
	case "V":
		cs := []ParamChange{}
		for i := 1; i+1 < len(t); i += 2 {
			cs = append(cs, govChange(t[i], t[i+1]))
		}
		res, em := e.Gov(cs)
		r.res, r.errm = res, em
		if res == ResOK {
			r.st, r.evs, r.raw = e.Observe(), L{}, sdk.Events{}
		}
	case "T":
		msg := e.buildMsg(t[1:])
		res, evs, em := e.RunTx(msg)
		r.res, r.errm = res, em
		if res == ResOK {
			r.st, r.evs, r.raw = e.Observe(), canonEvents(evs), evs
		}
	default:
		panic("bad op " + t[0])
	}
	r.line = strings.Join(t, " ")
	return r
}

func opName(toks []string) string {
	if toks[0] == "T" {
		return "T." + toks[1]
	}
	return toks[0]
}

func (f *fork) step(toks []string, o opResult) {
	if !f.alive {
		return
	}
	c := applyOp(f.e, toks)
	f.ops++
	div := func(what string, a, b interface{}, extra string) {
		line := strings.Join(toks, " ")
		if len(line) > 300 {
			line = line[:300] + "..."
		}
		f.diverged = M{"i": f.ops, "op": opName(toks), "line": line, "what": what, "orig": a, "copy": b, "err": normMsg(extra)}
		f.alive = false
	}
	if c.res == ResHalt {
		f.halted = true
	}
	if c.res != o.res {
		msg := c.errm
		if msg == "" {
			msg = o.errm
		}
		div("res", o.res, c.res, msg)
		return
	}
	if o.res == ResHalt {
		f.alive = false
		return
	}
	if o.res == ResOK {
		ea, eb := o.evs, c.evs
		if f.first && toks[0] == "E" {
			ea, eb = dropSweep(ea), dropSweep(eb)
		}
		if cj(ea) != cj(eb) {
			div("ev", clipEv(ea, eb, true), clipEv(ea, eb, false), "")
			return
		}
		skip := map[string]bool{}
		for k := range f.taint {
			skip[k] = true
		}
		if f.first && toks[0] != "E" {
			skip["mod"] = true
		}
		if ds := sectionDiffs(o.st, c.st, skip); len(ds) > 0 {
			div("st."+ds[0].Section, ds[0].OnlyOrig, ds[0].OnlyCopy, "")
			return
		}
	}
	if toks[0] == "E" {
		f.first = false
	}
}

// first differing event of two lists
func clipEv(a, b L, left bool) interface{} {
	i := 0
	for i < len(a) && i < len(b) && cj(a[i]) == cj(b[i]) {
		i++
	}
	x := a
	if !left {
		x = b
	}
	if i < len(x) {
		s := cj(x[i])
		if len(s) > 300 {
			s = s[:300] + "..."
		}
		return M{"at": i, "n": len(x), "ev": s}
	}
	return M{"at": i, "n": len(x)}
}

// ---------- facts about the state at the export point ----------

func preFacts(st M) M {
	n := M{}
	for _, k := range []string{"dep", "prov", "node", "plan", "sub", "alloc", "payout", "sess", "swap", "infl"} {
		switch x := st[k].(type) {
		case L:
			n[k] = len(x)
		case M:
			n[k] = len(x)
		}
	}
	for k, v := range st["ix"].(M) {
		n["ix."+k] = len(v.(L))
	}
	maxid := func(sec string) uint64 {
		m := uint64(0)
		for _, r := range st[sec].(L) {
			v, _ := strconv.ParseUint(r.(M)["id"].(string), 10, 64)
			if v > m {
				m = v
			}
		}
		return m
	}
	inact := 0
	for _, r := range st["node"].(L) {
		if r.(M)["st"].(int) != 1 {
			inact++
		}
	}
	n["node_inactive"] = inact
	pin := 0
	for _, r := range st["plan"].(L) {
		if r.(M)["st"].(int) != 1 {
			pin++
		}
	}
	n["plan_inactive"] = pin
	return M{"n": n, "cnt": st["cnt"], "max_live": M{"plan": u64s(maxid("plan")), "sub": u64s(maxid("sub")), "sess": u64s(maxid("sess"))}}
}

// ---------- one history with its export points ----------

type grec struct {
	m     M
	forks []*fork
}

type gsession struct {
	h, seed  int
	e        *Env
	rn       *Runner
	recs     []*grec
	opsTotal int
	halted   bool
}

// exec runs one op on the original and mirrors it on every live fork.
func (s *gsession) exec(toks []string) bool {
	e, rn := s.e, s.rn
	var before string
	if rn != nil && (toks[0] == "T" || toks[0] == "V") {
		before = e.RawDump()
	}
	o := applyOp(e, toks)
	s.opsTotal++
	if rn != nil {
		rn.emitOp(o.line)
		switch {
		case o.res == ResOK:
			rn.emitObs(o.kind, o.res, o.st, o.raw, nil, "")
		case o.kind == "T" || o.kind == "V":
			same := before == e.RawDump()
			rn.emitObs(o.kind, o.res, nil, nil, &same, o.errm)
		default:
			rn.emitObs(o.kind, o.res, nil, nil, nil, o.errm)
		}
	}
	for _, r := range s.recs {
		for _, f := range r.forks {
			f.step(toks, o)
		}
	}
	if o.res == ResHalt {
		s.halted = true
	}
	return s.halted
}

// exportPoint: export, validate, JSON, import into two fresh chains, compare, fork.
func (s *gsession) exportPoint(block, nb int) {
	e, rn := s.e, s.rn
	ost := e.Observe()
	x := exportHub(e)
	plain, imp := importFresh(e, x)
	patched, imp2 := importFresh(e, x)
	m := M{"h": s.h, "seed": s.seed, "block": block, "blocks": nb, "ops_before": s.opsTotal, "t": ts(e.ctx.BlockTime()),
		"pre": preFacts(ost), "exported": x.counts, "validate": x.validate, "json": x.jsonrt, "import": imp}
	r := &grec{m: m}
	importOK := true
	for _, v := range imp {
		if v != "ok" {
			importOK = false
		}
	}
	for _, v := range imp2 {
		if v != "ok" {
			importOK = false
		}
	}
	allValid := true
	for _, v := range x.validate {
		if v != "ok" {
			allValid = false
		}
	}
	for _, v := range x.jsonrt {
		if v != "ok" {
			allValid = false
		}
	}
	if importOK {
		pst := plain.Observe()
		skipMod := map[string]bool{"mod": true}
		ds := sectionDiffs(ost, pst, skipMod)
		m["diff"] = ds
		m["mod_after_import"] = pst["mod"]
		taint := map[string]bool{}
		for _, d := range ds {
			taint[d.Section] = true
		}
		compensate(e, patched)
		m["diff_patched"] = sectionDiffs(ost, patched.Observe(), skipMod)
		r.forks = []*fork{
			{name: "plain", e: plain, taint: taint, first: true, alive: true},
			{name: "patched", e: patched, taint: map[string]bool{}, first: true, alive: true},
		}
		if rn != nil {
			res := ResOK
			if !allValid {
				res = ResRej
			}
			rn.emitOp("X")
			rn.emitObs("X", res, pst, sdk.Events{}, nil, "")
		}
	} else {
		m["diff"] = []secDiff{}
		m["diff_patched"] = []secDiff{}
		if rn != nil {
			rn.emitOp("X")
			rn.emitObs("X", ResHalt, nil, nil, nil, cj(imp))
		}
	}
	s.recs = append(s.recs, r)
}

func (s *gsession) finish(out *bufio.Writer) {
	for _, r := range s.recs {
		r.m["orig_halted"] = s.halted
		for _, f := range r.forks {
			r.m["cont_"+f.name] = M{"ops": f.ops, "first": f.diverged, "halted": f.halted}
		}
		r.m["ops_after"] = s.opsTotal - r.m["ops_before"].(int)
		out.WriteString(cj(r.m))
		out.WriteByte('\n')
	}
}

// ---------- the command ----------

func runGenesisCmd(args []string) {
	fs := flag.NewFlagSet("genesis", flag.ExitOnError)
	seed := fs.Int64("seed", 1, "")
	n := fs.Int("n", 10, "")
	blocks := fs.Int("blocks", 10, "")
	outPath := fs.String("out", "genesis.jsonl", "")
	only := fs.Int("only", -1, "run only this history index")
	at := fs.String("at", "", "comma separated block indices to export at (overrides the random choice)")
	opsPath := fs.String("ops", "", "also write the op lines (with X at export points)")
	obsPath := fs.String("obs", "", "also write the observations (X = plain re-imported chain)")
	replay := fs.String("replay", "", "instead of generating: run this ops file (X lines are export points)")
	fs.Parse(args)

	of, err := os.Create(*outPath)
	must(err)
	out := bufio.NewWriterSize(of, 1<<20)
	defer func() { out.Flush(); of.Close() }()

	var rn *Runner
	if *opsPath != "" && *obsPath != "" {
		f1, err := os.Create(*opsPath)
		must(err)
		f2, err := os.Create(*obsPath)
		must(err)
		rn = &Runner{ops: bufio.NewWriterSize(f1, 1<<20), obs: bufio.NewWriterSize(f2, 1<<20), stats: map[string]int{}}
		defer func() { rn.ops.Flush(); rn.obs.Flush(); f1.Close(); f2.Close() }()
	}
	if *replay != "" {
		runGenesisReplay(*replay, rn, out)
		return
	}
	stats := map[string]int{}

	for h := 0; h < *n; h++ {
		if *only >= 0 && h != *only {
			continue
		}
		g := &Gen{r: rand.New(rand.NewSource(*seed*1000003 + int64(h))), stats: stats, noCross: true}
		xr := rand.New(rand.NewSource(*seed*7919 + int64(h)*104729 + 17)) // export points: own stream
		g.mkActors()
		e := NewEnv()
		g.e = e
		gs := g.genesis()
		e.InitGenesis(gs)
		s := &gsession{h: h, seed: int(*seed), e: e, rn: rn}
		if rn != nil {
			rn.e, rn.hist, rn.idx = e, h, 0
			fmt.Fprintf(rn.ops, "H %d\n", h)
			for _, l := range genesisLines(e, gs) {
				rn.emitOp(l)
			}
			rn.emitObs("G", ResOK, e.Observe(), sdk.Events{}, nil, "")
		}
		nb := *blocks/2 + g.pick(*blocks+1)

		points := map[int]bool{}
		if *at != "" {
			for _, p := range strings.Split(*at, ",") {
				v, err := strconv.Atoi(strings.TrimSpace(p))
				must(err)
				points[v] = true
			}
		} else if nb > 0 {
			early := 3
			if nb < early {
				early = nb
			}
			points[xr.Intn(early)] = true
			points[xr.Intn(nb)] = true
		}

		for b := 0; b < nb && !s.halted; b++ {
			t := g.nextTime()
			g.now = t
			if s.exec([]string{"B", t.String()}) {
				break
			}
			ntx := g.pick(12)
			for k := 0; k < ntx; k++ {
				s.exec(append([]string{"T"}, g.genTx()...))
			}
			if g.chance(0.12) {
				gv := g.genGov()
				if len(gv) > 0 {
					s.exec(append([]string{"V"}, gv...))
				}
			}
			if s.exec([]string{"E"}) {
				break
			}
			if points[b] {
				s.exportPoint(b, nb)
			}
		}
		s.finish(out)
	}
}

// runGenesisReplay runs an ops file (as written by -ops): G lines build the
// genesis, B/T/V/E are executed, X is an export point.
func runGenesisReplay(path string, rn *Runner, out *bufio.Writer) {
	in, err := os.Open(path)
	must(err)
	defer in.Close()
	sc := bufio.NewScanner(in)
	sc.Buffer(make([]byte, 1<<20), 1<<26)
	var gs *Genesis
	var s *gsession
	block := -1
	for sc.Scan() {
		line := strings.TrimSpace(sc.Text())
		if line == "" || line[0] == '#' {
			continue
		}
		toks := strings.Fields(line)
		switch toks[0] {
		case "H":
			if s != nil {
				s.finish(out)
			}
			s = &gsession{rn: rn}
			fmt.Sscan(toks[1], &s.h)
			gs = &Genesis{}
			block = -1
			if rn != nil {
				rn.hist, rn.idx = s.h, 0
				fmt.Fprintln(rn.ops, line)
			}
		case "G":
			if rn != nil {
				rn.emitOp(line)
			}
			switch toks[1] {
			case "bal":
				b, _ := hexDecode(toks[2])
				var d int
				fmt.Sscan(toks[3], &d)
				gs.Balances = append(gs.Balances, Balance{b, d, bi(toks[4])})
			case "acc":
				b, _ := hexDecode(toks[2])
				a := Account{Addr: b}
				if len(toks) > 3 && toks[3] != "-" {
					a.PubKey = pubKeyFromHex(toks[3])
				}
				gs.Accounts = append(gs.Accounts, a)
			case "par":
				gs.Params = parseParams(toks[2:])
			case "infl":
				gs.Inflations = append(gs.Inflations, Inflation{bi(toks[2]), bi(toks[3]), bi(toks[4]), bi(toks[5])})
			case "mint":
				gs.Mint = [4]*big.Int{bi(toks[2]), bi(toks[3]), bi(toks[4]), bi(toks[5])}
			case "time":
				gs.Time = bi(toks[2])
			case "go":
				s.e = NewEnv()
				s.e.InitGenesis(gs)
				if rn != nil {
					rn.e = s.e
					rn.emitObs("G", ResOK, s.e.Observe(), sdk.Events{}, nil, "")
				}
			}
		case "X":
			if s != nil && !s.halted {
				s.exportPoint(block, -1)
			}
		default:
			if s == nil || s.halted {
				continue
			}
			if toks[0] == "B" {
				block++
			}
			s.exec(toks)
		}
	}
	if s != nil {
		s.finish(out)
	}
}
