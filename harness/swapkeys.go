package main

// C14: the key under which a swap record is stored (SetSwap: SwapKey(swap.GetTxHash())) against the key under which the
// message server and the queries look it up (SwapKey(BytesToHash(msg.TxHash))), for byte strings of every length
// (shorter than 32 bytes: left-padded; longer: the last 32 bytes), including strings that differ only in leading zero bytes.

import (
	"bufio"
	"encoding/hex"
	"flag"
	"fmt"
	"math/rand"
	"os"

	swaptypes "github.com/sentinel-official/hub/v12/x/swap/types"
)

func init() { extraCommands["swapkeys"] = runSwapKeys }

func runSwapKeys(args []string) {
	fs := flag.NewFlagSet("swapkeys", flag.ExitOnError)
	seed := fs.Int64("seed", 1, "")
	n := fs.Int("n", 400, "")
	out := fs.String("out", "swapkeys.txt", "")
	fs.Parse(args)
	rng := rand.New(rand.NewSource(*seed))
	f, err := os.Create(*out)
	if err != nil {
		panic(err)
	}
	defer f.Close()
	w := bufio.NewWriter(f)
	defer w.Flush()
	emit := func(x []byte) {
		sw := swaptypes.Swap{TxHash: x}
		stored := swaptypes.SwapKey(sw.GetTxHash())
		h := swaptypes.BytesToHash(x)
		lookup := swaptypes.SwapKey(h)
		xs := hex.EncodeToString(x)
		if xs == "" {
			xs = "-"
		}
		fmt.Fprintf(w, "%s %s %s %s\n", xs, hex.EncodeToString(stored), hex.EncodeToString(lookup), hex.EncodeToString(h.Bytes()))
	}
	// boundary lengths, leading zeros
	for _, l := range []int{0, 1, 2, 20, 31, 32, 33, 40, 64} {
		x := make([]byte, l)
		rng.Read(x)
		emit(x)
		if l > 0 {
			y := append([]byte{}, x...)
			y[0] = 0
			emit(y)
			emit(append([]byte{0}, x...))
			emit(x[1:])
		}
	}
	for i := 0; i < *n; i++ {
		l := rng.Intn(48)
		if rng.Intn(3) == 0 {
			l = 32
		}
		x := make([]byte, l)
		rng.Read(x)
		if l > 0 && rng.Intn(4) == 0 {
			x[0] = 0
		}
		emit(x)
	}
}
