package main

// Canonical observation of the implementation state: every record and every raw
// key of the vpn, swap and custommint stores, balances, supply, parameters.
// The same structure is printed by the model runner; arrays that are sets are
// sorted by the comparer, not here.

import (
	"bytes"
	"encoding/binary"
	"encoding/hex"
	"fmt"
	"math/big"
	"sort"
	"strings"
	"time"

	abci "github.com/cometbft/cometbft/abci/types"
	"github.com/cosmos/cosmos-sdk/store/prefix"
	sdk "github.com/cosmos/cosmos-sdk/types"
	banktypes "github.com/cosmos/cosmos-sdk/x/bank/types"
	"github.com/cosmos/gogoproto/proto"

	hubtypes "github.com/sentinel-official/hub/v12/types"
	deposittypes "github.com/sentinel-official/hub/v12/x/deposit/types"
	customminttypes "github.com/sentinel-official/hub/v12/x/mint/types"
	nodetypes "github.com/sentinel-official/hub/v12/x/node/types"
	plantypes "github.com/sentinel-official/hub/v12/x/plan/types"
	providertypes "github.com/sentinel-official/hub/v12/x/provider/types"
	sessiontypes "github.com/sentinel-official/hub/v12/x/session/types"
	subscriptiontypes "github.com/sentinel-official/hub/v12/x/subscription/types"
	swaptypes "github.com/sentinel-official/hub/v12/x/swap/types"
	vpntypes "github.com/sentinel-official/hub/v12/x/vpn/types"
)

type M = map[string]interface{}
type L = []interface{}

func hx(b []byte) string { return hex.EncodeToString(b) }
func zs(v *big.Int) string { return v.String() }
func is(v sdk.Int) string {
	if v.IsNil() {
		return "nil"
	}
	return v.String()
}
func ts(t time.Time) string { return tz(t).String() }
func u64s(v uint64) string { return fmt.Sprintf("%d", v) }
func i64s(v int64) string { return fmt.Sprintf("%d", v) }

func coinL(c sdk.Coin) L {
	if c.Denom == "" && c.Amount.IsNil() {
		return L{0, "0"}
	}
	return L{denomNum(c.Denom), is(c.Amount)}
}
func coinsL(cs sdk.Coins) L {
	out := L{}
	for _, c := range cs {
		out = append(out, coinL(c))
	}
	return out
}
func coinsMap(cs sdk.Coins) M {
	out := M{}
	for _, c := range cs {
		if !c.Amount.IsZero() {
			out[fmt.Sprint(denomNum(c.Denom))] = is(c.Amount)
		}
	}
	return out
}

func addrBytes(text string) string {
	t := textToTok(text)
	if i := strings.Index(t, ":"); i >= 0 && t[0] != '?' {
		return t[i+1:]
	}
	return t
}

// lenPrefixed splits a length-prefixed address off the front of b.
func lenPrefixed(b []byte) (addr, rest []byte, ok bool) {
	if len(b) < 1 || len(b) < 1+int(b[0]) {
		return nil, nil, false
	}
	return b[1 : 1+int(b[0])], b[1+int(b[0]):], true
}
func be64(b []byte) (uint64, []byte, bool) {
	if len(b) < 8 {
		return 0, nil, false
	}
	return binary.BigEndian.Uint64(b[:8]), b[8:], true
}
func timeKey(b []byte) (string, []byte, bool) {
	if len(b) < 29 {
		return "", nil, false
	}
	t, err := sdk.ParseTimeBytes(b[:29])
	if err != nil {
		return "", nil, false
	}
	return ts(t), b[29:], true
}

func (e *Env) Observe() M {
	ctx := e.ctx
	st := M{}

	// ----- bank -----
	bal := M{}
	e.bk.IterateAllBalances(ctx, func(a sdk.AccAddress, c sdk.Coin) bool {
		if c.Amount.IsZero() || c.Denom == bondDenom {
			return false
		}
		k := hx(a)
		if _, ok := bal[k]; !ok {
			bal[k] = M{}
		}
		bal[k].(M)[fmt.Sprint(denomNum(c.Denom))] = is(c.Amount)
		return false
	})
	st["bal"] = bal
	sup := M{}
	e.bk.IterateTotalSupply(ctx, func(c sdk.Coin) bool {
		if !c.Amount.IsZero() && c.Denom != bondDenom {
			sup[fmt.Sprint(denomNum(c.Denom))] = is(c.Amount)
		}
		return false
	})
	st["supply"] = sup
	_ = banktypes.ModuleName

	// ----- raw scan of the vpn store -----
	dep, prov, node, plan, sub, alloc, payout, sess := M{}, L{}, L{}, L{}, L{}, L{}, L{}, L{}
	ix := M{}
	for _, n := range []string{"node_q", "node_plan", "plan_prov", "sub_q", "sub_acc", "sub_node", "sub_plan", "pay_q", "pay_acc", "pay_node", "pay_acc_node", "sess_q", "sess_acc", "sess_node", "sess_sub", "sess_alloc", "unknown"} {
		ix[n] = L{}
	}
	add := func(name string, v interface{}) { ix[name] = append(ix[name].(L), v) }
	cnt := M{"plan": "0", "sub": "0", "sess": "0"}
	bad := func(k []byte) { add("unknown", hx(k)) }

	vstore := ctx.KVStore(e.keys[vpntypes.StoreKey])
	it := vstore.Iterator(nil, nil)
	for ; it.Valid(); it.Next() {
		key := append([]byte{}, it.Key()...)
		val := append([]byte{}, it.Value()...)
		slash := bytes.IndexByte(key, '/')
		if slash < 0 || len(key) < slash+2 {
			bad(key)
			continue
		}
		mod := string(key[:slash])
		fam := key[slash+1]
		rest := key[slash+2:]
		switch mod {
		case deposittypes.ModuleName:
			a, r, ok := lenPrefixed(rest)
			if fam != 0x10 || !ok || len(r) != 0 {
				bad(key)
				continue
			}
			var d deposittypes.Deposit
			e.cdc.MustUnmarshal(val, &d)
			m := coinsMap(d.Coins)
			m["_a"] = addrBytes(d.Address)
			dep[hx(a)] = m
		case providertypes.ModuleName:
			if fam != 0x10 || len(rest) < 1 {
				bad(key)
				continue
			}
			a, r, ok := lenPrefixed(rest[1:])
			if !ok || len(r) != 0 || (rest[0] != 1 && rest[0] != 2) {
				bad(key)
				continue
			}
			var p providertypes.Provider
			e.cdc.MustUnmarshal(val, &p)
			prov = append(prov, M{"ka": hx(a), "part": int(rest[0]), "a": addrBytes(p.Address), "name": hx([]byte(p.Name)),
				"ident": hx([]byte(p.Identity)), "web": hx([]byte(p.Website)), "desc": hx([]byte(p.Description)),
				"st": int(p.Status), "at": ts(p.StatusAt)})
		case nodetypes.ModuleName:
			switch fam {
			case 0x10:
				if len(rest) < 1 {
					bad(key)
					continue
				}
				a, r, ok := lenPrefixed(rest[1:])
				if !ok || len(r) != 0 || (rest[0] != 1 && rest[0] != 2) {
					bad(key)
					continue
				}
				var n nodetypes.Node
				e.cdc.MustUnmarshal(val, &n)
				node = append(node, M{"ka": hx(a), "part": int(rest[0]), "a": addrBytes(n.Address), "gb": coinsL(n.GigabytePrices),
					"hr": coinsL(n.HourlyPrices), "url": hx([]byte(n.RemoteURL)), "iat": ts(n.InactiveAt), "st": int(n.Status), "at": ts(n.StatusAt)})
			case 0x11:
				t, r, ok := timeKey(rest)
				if !ok {
					bad(key)
					continue
				}
				a, r2, ok := lenPrefixed(r)
				if !ok || len(r2) != 0 {
					bad(key)
					continue
				}
				add("node_q", L{t, hx(a)})
			case 0x12:
				id, r, ok := be64(rest)
				if !ok {
					bad(key)
					continue
				}
				a, r2, ok := lenPrefixed(r)
				if !ok || len(r2) != 0 {
					bad(key)
					continue
				}
				add("node_plan", L{u64s(id), hx(a)})
			default:
				bad(key)
			}
		case plantypes.ModuleName:
			switch fam {
			case 0x00:
			case 0x10:
				if len(rest) != 9 || (rest[0] != 1 && rest[0] != 2) {
					bad(key)
					continue
				}
				id, _, _ := be64(rest[1:])
				var p plantypes.Plan
				e.cdc.MustUnmarshal(val, &p)
				plan = append(plan, M{"kid": u64s(id), "part": int(rest[0]), "id": u64s(p.ID), "prov": addrBytes(p.ProviderAddress),
					"dur": i64s(int64(p.Duration)), "gb": i64s(p.Gigabytes), "prices": coinsL(p.Prices), "st": int(p.Status), "at": ts(p.StatusAt)})
			case 0x11:
				a, r, ok := lenPrefixed(rest)
				if !ok || len(r) != 8 {
					bad(key)
					continue
				}
				id, _, _ := be64(r)
				add("plan_prov", L{hx(a), u64s(id)})
			default:
				bad(key)
			}
		case subscriptiontypes.ModuleName:
			switch fam {
			case 0x00:
			case 0x10:
				if len(rest) != 8 {
					bad(key)
					continue
				}
				kid, _, _ := be64(rest)
				var s subscriptiontypes.Subscription
				if err := e.cdc.UnmarshalInterface(val, &s); err != nil {
					bad(key)
					continue
				}
				m := M{"kid": u64s(kid), "id": u64s(s.GetID()), "a": hx(s.GetAddress()), "iat": ts(s.GetInactiveAt()),
					"st": int(s.GetStatus()), "at": ts(s.GetStatusAt())}
				switch x := s.(type) {
				case *subscriptiontypes.NodeSubscription:
					m["k"] = "node"
					m["node"] = addrBytes(x.NodeAddress)
					m["gb"] = i64s(x.Gigabytes)
					m["hr"] = i64s(x.Hours)
					m["dep"] = coinL(x.Deposit)
				case *subscriptiontypes.PlanSubscription:
					m["k"] = "plan"
					m["plan"] = u64s(x.PlanID)
					m["dn"] = denomNum(x.Denom)
				}
				sub = append(sub, m)
			case 0x11, 0x31:
				t, r, ok := timeKey(rest)
				if !ok || len(r) != 8 {
					bad(key)
					continue
				}
				id, _, _ := be64(r)
				if fam == 0x11 {
					add("sub_q", L{t, u64s(id)})
				} else {
					add("pay_q", L{t, u64s(id)})
				}
			case 0x12, 0x13, 0x32, 0x33:
				a, r, ok := lenPrefixed(rest)
				if !ok || len(r) != 8 {
					bad(key)
					continue
				}
				id, _, _ := be64(r)
				add(map[byte]string{0x12: "sub_acc", 0x13: "sub_node", 0x32: "pay_acc", 0x33: "pay_node"}[fam], L{hx(a), u64s(id)})
			case 0x14:
				if len(rest) != 16 {
					bad(key)
					continue
				}
				p, r, _ := be64(rest)
				id, _, _ := be64(r)
				add("sub_plan", L{u64s(p), u64s(id)})
			case 0x20:
				id, r, ok := be64(rest)
				if !ok {
					bad(key)
					continue
				}
				a, r2, ok := lenPrefixed(r)
				if !ok || len(r2) != 0 {
					bad(key)
					continue
				}
				var al subscriptiontypes.Allocation
				e.cdc.MustUnmarshal(val, &al)
				alloc = append(alloc, M{"kid": u64s(id), "ka": hx(a), "id": u64s(al.ID), "a": addrBytes(al.Address), "g": is(al.GrantedBytes), "u": is(al.UtilisedBytes)})
			case 0x30:
				if len(rest) != 8 {
					bad(key)
					continue
				}
				kid, _, _ := be64(rest)
				var p subscriptiontypes.Payout
				e.cdc.MustUnmarshal(val, &p)
				payout = append(payout, M{"kid": u64s(kid), "id": u64s(p.ID), "a": addrBytes(p.Address), "node": addrBytes(p.NodeAddress),
					"h": i64s(p.Hours), "price": coinL(p.Price), "nx": ts(p.NextAt)})
			case 0x34:
				a, r, ok := lenPrefixed(rest)
				if !ok {
					bad(key)
					continue
				}
				n, r2, ok := lenPrefixed(r)
				if !ok || len(r2) != 8 {
					bad(key)
					continue
				}
				id, _, _ := be64(r2)
				add("pay_acc_node", L{hx(a), hx(n), u64s(id)})
			default:
				bad(key)
			}
		case sessiontypes.ModuleName:
			switch fam {
			case 0x00:
			case 0x10:
				if len(rest) != 8 {
					bad(key)
					continue
				}
				kid, _, _ := be64(rest)
				var s sessiontypes.Session
				e.cdc.MustUnmarshal(val, &s)
				sess = append(sess, M{"kid": u64s(kid), "id": u64s(s.ID), "sub": u64s(s.SubscriptionID), "node": addrBytes(s.NodeAddress),
					"a": addrBytes(s.Address), "up": is(s.Bandwidth.Upload), "down": is(s.Bandwidth.Download), "dur": i64s(int64(s.Duration)),
					"iat": ts(s.InactiveAt), "st": int(s.Status), "at": ts(s.StatusAt)})
			case 0x11:
				t, r, ok := timeKey(rest)
				if !ok || len(r) != 8 {
					bad(key)
					continue
				}
				id, _, _ := be64(r)
				add("sess_q", L{t, u64s(id)})
			case 0x12, 0x13:
				a, r, ok := lenPrefixed(rest)
				if !ok || len(r) != 8 {
					bad(key)
					continue
				}
				id, _, _ := be64(r)
				add(map[byte]string{0x12: "sess_acc", 0x13: "sess_node"}[fam], L{hx(a), u64s(id)})
			case 0x14:
				if len(rest) != 16 {
					bad(key)
					continue
				}
				s, r, _ := be64(rest)
				id, _, _ := be64(r)
				add("sess_sub", L{u64s(s), u64s(id)})
			case 0x15:
				s, r, ok := be64(rest)
				if !ok {
					bad(key)
					continue
				}
				a, r2, ok := lenPrefixed(r)
				if !ok || len(r2) != 8 {
					bad(key)
					continue
				}
				id, _, _ := be64(r2)
				add("sess_alloc", L{u64s(s), hx(a), u64s(id)})
			default:
				bad(key)
			}
		default:
			bad(key)
		}
	}
	it.Close()
	st["dep"], st["prov"], st["node"], st["plan"], st["sub"], st["alloc"], st["payout"], st["sess"] = dep, prov, node, plan, sub, alloc, payout, sess
	st["ix"] = ix
	cnt["plan"] = u64s(e.vk.Plan.GetCount(ctx))
	cnt["sub"] = u64s(e.vk.Subscription.GetCount(ctx))
	cnt["sess"] = u64s(e.vk.Session.GetCount(ctx))
	st["cnt"] = cnt

	// ----- params (straight from the x/params subspaces) -----
	pp := e.provParams(ctx)
	np := e.nodeParams(ctx)
	sp := e.subParams(ctx)
	xp := e.sessParams(ctx)
	wp := e.swapParams(ctx)
	st["par"] = M{
		"prov_deposit": coinL(pp.Deposit), "prov_share": zs(decRaw(pp.StakingShare)),
		"node_deposit": coinL(np.Deposit), "node_active": i64s(int64(np.ActiveDuration)),
		"max_gb": coinsL(np.MaxGigabytePrices), "min_gb": coinsL(np.MinGigabytePrices),
		"max_hr": coinsL(np.MaxHourlyPrices), "min_hr": coinsL(np.MinHourlyPrices),
		"max_sub_gb": i64s(np.MaxSubscriptionGigabytes), "min_sub_gb": i64s(np.MinSubscriptionGigabytes),
		"max_sub_hr": i64s(np.MaxSubscriptionHours), "min_sub_hr": i64s(np.MinSubscriptionHours),
		"node_share": zs(decRaw(np.StakingShare)),
		"sub_delay":  i64s(int64(sp.StatusChangeDelay)),
		"sess_delay": i64s(int64(xp.StatusChangeDelay)), "sess_proof": xp.ProofVerificationEnabled,
		"swap_enabled": wp.SwapEnabled, "swap_denom": denomNum(wp.SwapDenom), "swap_approver": textToTok(wp.ApproveBy),
	}
	st["mod"] = L{e.vk.Node.IsMaxGigabytePricesModified(ctx), e.vk.Node.IsMinGigabytePricesModified(ctx),
		e.vk.Node.IsMaxHourlyPricesModified(ctx), e.vk.Node.IsMinHourlyPricesModified(ctx)}

	// ----- swap store -----
	swaps := L{}
	sstore := ctx.KVStore(e.keys[swaptypes.StoreKey])
	sit := sstore.Iterator(nil, nil)
	for ; sit.Valid(); sit.Next() {
		key := sit.Key()
		var w swaptypes.Swap
		e.cdc.MustUnmarshal(sit.Value(), &w)
		m := M{"h": hx(w.TxHash), "rcv": textToTok(w.Receiver), "amt": coinL(w.Amount)}
		if len(key) == 33 && key[0] == 0x10 {
			m["kh"] = hx(key[1:])
		} else {
			m["kh"] = "?" + hx(key)
		}
		swaps = append(swaps, m)
	}
	sit.Close()
	st["swap"] = swaps

	// ----- custommint store + SDK mint -----
	infl := L{}
	cstore := prefix.NewStore(ctx.KVStore(e.keys[customminttypes.StoreKey]), customminttypes.InflationKeyPrefix)
	cit := cstore.Iterator(nil, nil)
	for ; cit.Valid(); cit.Next() {
		var inf customminttypes.Inflation
		e.cdc.MustUnmarshal(cit.Value(), &inf)
		kt, _, ok := timeKey(cit.Key())
		if !ok {
			kt = "?" + hx(cit.Key())
		}
		infl = append(infl, M{"max": zs(decRaw(inf.Max)), "min": zs(decRaw(inf.Min)), "rate": zs(decRaw(inf.RateChange)), "ts": ts(inf.Timestamp), "kt": kt})
	}
	cit.Close()
	st["infl"] = infl
	mp := e.mk.GetParams(ctx)
	mm := e.mk.GetMinter(ctx)
	st["mint"] = L{zs(decRaw(mp.InflationMax)), zs(decRaw(mp.InflationMin)), zs(decRaw(mp.InflationRateChange)), zs(decRaw(mm.Inflation))}
	st["now"] = ts(ctx.BlockTime())
	return st
}

// digest-free equality witness: the raw content of the hub stores + bank
func (e *Env) RawDump() string {
	var sb strings.Builder
	for _, name := range storeNames {
		s := e.ctx.KVStore(e.keys[name])
		it := s.Iterator(nil, nil)
		for ; it.Valid(); it.Next() {
			sb.WriteString(name)
			sb.WriteString(hx(it.Key()))
			sb.WriteByte('=')
			sb.WriteString(hx(it.Value()))
			sb.WriteByte('\n')
		}
		it.Close()
	}
	return sb.String()
}

// ---------- events ----------

func evZ(s string) M        { return M{"z": s} }
func evT(text string) M     { return M{"t": textToTok(text)} }
func evS(s hubtypes.Status) M { return M{"s": int(s)} }
func evC(text string) M {
	cs, err := sdk.ParseCoinsNormalized(text)
	if err != nil {
		return M{"c": "?" + text}
	}
	return M{"c": coinsL(cs)}
}
func evH(b []byte) M { return M{"h": hx(b)} }

func canonEvents(evs sdk.Events) L {
	out := L{}
	for _, ev := range evs {
		msg, err := sdk.ParseTypedEvent(abci.Event(ev))
		if err != nil {
			continue // not a typed event (bank/distribution events of the SDK)
		}
		name := proto.MessageName(msg)
		short := name
		if strings.HasPrefix(name, "sentinel.") {
			parts := strings.Split(name, ".")
			short = parts[1] + "." + parts[len(parts)-1]
		} else {
			continue
		}
		var v L
		switch m := msg.(type) {
		case *deposittypes.EventAdd:
			v = L{evT(m.Address), evC(m.Coins)}
		case *deposittypes.EventSubtract:
			v = L{evT(m.Address), evC(m.Coins)}
		case *providertypes.EventRegister:
			v = L{evT(m.Address)}
		case *providertypes.EventUpdate:
			v = L{evT(m.Address)}
		case *nodetypes.EventRegister:
			v = L{evT(m.Address)}
		case *nodetypes.EventUpdateDetails:
			v = L{evT(m.Address)}
			if m.GigabytePrices != "" || m.HourlyPrices != "" {
				v = append(v, evC(m.GigabytePrices), evC(m.HourlyPrices))
			}
		case *nodetypes.EventUpdateStatus:
			v = L{evS(m.Status), evT(m.Address)}
		case *nodetypes.EventCreateSubscription:
			v = L{evT(m.Address), evT(m.NodeAddress), evZ(u64s(m.ID))}
		case *plantypes.EventCreate:
			v = L{evT(m.Address), evZ(u64s(m.ID))}
		case *plantypes.EventUpdateStatus:
			v = L{evS(m.Status), evT(m.Address), evZ(u64s(m.ID))}
		case *plantypes.EventLinkNode:
			v = L{evT(m.Address), evT(m.NodeAddress), evZ(u64s(m.ID))}
		case *plantypes.EventUnlinkNode:
			v = L{evT(m.Address), evT(m.NodeAddress), evZ(u64s(m.ID))}
		case *plantypes.EventCreateSubscription:
			v = L{evT(m.Address), evZ(u64s(m.ID)), evZ(u64s(m.PlanID))}
		case *subscriptiontypes.EventAllocate:
			v = L{evT(m.Address), evZ(is(m.GrantedBytes)), evZ(is(m.UtilisedBytes)), evZ(u64s(m.ID))}
		case *subscriptiontypes.EventCreatePayout:
			v = L{evT(m.Address), evT(m.NodeAddress), evZ(u64s(m.ID))}
		case *subscriptiontypes.EventPayForPayout:
			v = L{evT(m.Address), evT(m.NodeAddress), evC(m.Payment), evC(m.StakingReward), evZ(u64s(m.ID))}
		case *subscriptiontypes.EventPayForPlan:
			v = L{evT(m.Address), evC(m.Payment), evT(m.ProviderAddress), evC(m.StakingReward), evZ(u64s(m.ID))}
		case *subscriptiontypes.EventPayForSession:
			v = L{evT(m.Address), evT(m.NodeAddress), evC(m.Payment), evC(m.StakingReward), evZ(u64s(m.SessionID)), evZ(u64s(m.SubscriptionID))}
		case *subscriptiontypes.EventRefund:
			v = L{evT(m.Address), evC(m.Amount), evZ(u64s(m.ID))}
		case *subscriptiontypes.EventUpdateStatus:
			v = L{evS(m.Status), evT(m.Address), evZ(u64s(m.ID))}
		case *sessiontypes.EventStart:
			v = L{evT(m.Address), evT(m.NodeAddress), evZ(u64s(m.ID)), evZ(u64s(m.SubscriptionID))}
		case *sessiontypes.EventUpdateDetails:
			v = L{evT(m.Address), evT(m.NodeAddress), evZ(u64s(m.ID)), evZ(u64s(m.SubscriptionID))}
		case *sessiontypes.EventUpdateStatus:
			v = L{evS(m.Status), evT(m.Address), evT(m.NodeAddress), evZ(u64s(m.ID)), evZ(u64s(m.SubscriptionID))}
		case *swaptypes.EventSwap:
			v = L{evH(m.TxHash), evT(m.Receiver)}
		default:
			v = L{M{"?": name}}
		}
		out = append(out, L{short, v})
	}
	return out
}

func sortedKeys(m M) []string {
	ks := make([]string, 0, len(m))
	for k := range m {
		ks = append(ks, k)
	}
	sort.Strings(ks)
	return ks
}
