package main

// Keeper-mode environment: the real hub keepers (vpn, swap, custommint) over the
// real SDK auth/bank/params/staking/distribution/mint keepers on an IAVL +
// transient multistore over MemDB.  Transactions follow the baseapp runMsgs
// discipline (ValidateBasic, cache context, write on success, recover panics);
// a block is custommint.BeginBlock; vpn.BeginBlock; txs; parameter changes at
// the gov end-blocker position; vpn.EndBlock; Commit.

import (
	"fmt"
	"sort"
	"time"

	dbm "github.com/cometbft/cometbft-db"
	"github.com/cometbft/cometbft/libs/log"
	tmproto "github.com/cometbft/cometbft/proto/tendermint/types"
	"github.com/cosmos/cosmos-sdk/codec"
	"github.com/cosmos/cosmos-sdk/store"
	storetypes "github.com/cosmos/cosmos-sdk/store/types"
	sdk "github.com/cosmos/cosmos-sdk/types"
	authkeeper "github.com/cosmos/cosmos-sdk/x/auth/keeper"
	authtypes "github.com/cosmos/cosmos-sdk/x/auth/types"
	bankkeeper "github.com/cosmos/cosmos-sdk/x/bank/keeper"
	banktypes "github.com/cosmos/cosmos-sdk/x/bank/types"
	distrkeeper "github.com/cosmos/cosmos-sdk/x/distribution/keeper"
	distrtypes "github.com/cosmos/cosmos-sdk/x/distribution/types"
	govtypes "github.com/cosmos/cosmos-sdk/x/gov/types"
	mintkeeper "github.com/cosmos/cosmos-sdk/x/mint/keeper"
	minttypes "github.com/cosmos/cosmos-sdk/x/mint/types"
	paramskeeper "github.com/cosmos/cosmos-sdk/x/params/keeper"
	paramstypes "github.com/cosmos/cosmos-sdk/x/params/types"
	stakingkeeper "github.com/cosmos/cosmos-sdk/x/staking/keeper"
	stakingtypes "github.com/cosmos/cosmos-sdk/x/staking/types"

	"github.com/sentinel-official/hub/v12/app"
	hubtypes "github.com/sentinel-official/hub/v12/types"
	deposittypes "github.com/sentinel-official/hub/v12/x/deposit/types"
	custommint "github.com/sentinel-official/hub/v12/x/mint"
	custommintkeeper "github.com/sentinel-official/hub/v12/x/mint/keeper"
	customminttypes "github.com/sentinel-official/hub/v12/x/mint/types"
	nodekeeper "github.com/sentinel-official/hub/v12/x/node/keeper"
	nodetypes "github.com/sentinel-official/hub/v12/x/node/types"
	plankeeper "github.com/sentinel-official/hub/v12/x/plan/keeper"
	plantypes "github.com/sentinel-official/hub/v12/x/plan/types"
	providerkeeper "github.com/sentinel-official/hub/v12/x/provider/keeper"
	providertypes "github.com/sentinel-official/hub/v12/x/provider/types"
	sessionkeeper "github.com/sentinel-official/hub/v12/x/session/keeper"
	sessiontypes "github.com/sentinel-official/hub/v12/x/session/types"
	subscriptionkeeper "github.com/sentinel-official/hub/v12/x/subscription/keeper"
	subscriptiontypes "github.com/sentinel-official/hub/v12/x/subscription/types"
	swapkeeper "github.com/sentinel-official/hub/v12/x/swap/keeper"
	swaptypes "github.com/sentinel-official/hub/v12/x/swap/types"
	"github.com/sentinel-official/hub/v12/x/vpn"
	vpnkeeper "github.com/sentinel-official/hub/v12/x/vpn/keeper"
	vpntypes "github.com/sentinel-official/hub/v12/x/vpn/types"
)

var sealed = false

func sealConfig() {
	if !sealed {
		hubtypes.GetConfig().Seal()
		sealed = true
	}
}

type Env struct {
	db   dbm.DB
	cms  storetypes.CommitMultiStore
	cdc  codec.Codec
	keys map[string]*storetypes.KVStoreKey
	tkey *storetypes.TransientStoreKey

	ak authkeeper.AccountKeeper
	bk bankkeeper.Keeper
	pk paramskeeper.Keeper
	sk *stakingkeeper.Keeper
	dk distrkeeper.Keeper
	mk mintkeeper.Keeper
	vk vpnkeeper.Keeper
	wk swapkeeper.Keeper
	ck custommintkeeper.Keeper

	provMsg providertypes.MsgServiceServer
	nodeMsg nodetypes.MsgServiceServer
	planMsg plantypes.MsgServiceServer
	subMsg  subscriptiontypes.MsgServiceServer
	sessMsg sessiontypes.MsgServiceServer
	swapMsg swaptypes.MsgServiceServer

	ctx    sdk.Context
	height int64
	halted bool

	ap *appState // non-nil in app mode (appenv.go)
}

var storeNames = []string{
	authtypes.StoreKey, banktypes.StoreKey, paramstypes.StoreKey, stakingtypes.StoreKey,
	distrtypes.StoreKey, minttypes.StoreKey, vpntypes.StoreKey, swaptypes.StoreKey, customminttypes.StoreKey,
}

func NewEnv() *Env {
	sealConfig()
	e := &Env{}
	e.db = dbm.NewMemDB()
	e.cms = store.NewCommitMultiStore(e.db)
	e.keys = map[string]*storetypes.KVStoreKey{}
	for _, n := range storeNames {
		e.keys[n] = sdk.NewKVStoreKey(n)
		e.cms.MountStoreWithDB(e.keys[n], storetypes.StoreTypeIAVL, nil)
	}
	e.tkey = sdk.NewTransientStoreKey(paramstypes.TStoreKey)
	e.cms.MountStoreWithDB(e.tkey, storetypes.StoreTypeTransient, nil)
	if err := e.cms.LoadLatestVersion(); err != nil {
		panic(err)
	}

	enc := app.DefaultEncodingConfig()
	e.cdc = enc.Codec
	gov := authtypes.NewModuleAddress(govtypes.ModuleName).String()

	e.pk = paramskeeper.NewKeeper(enc.Codec, enc.Amino, e.keys[paramstypes.StoreKey], e.tkey)
	e.pk.Subspace(swaptypes.ModuleName)
	perms := app.ModuleAccPerms()
	e.ak = authkeeper.NewAccountKeeper(enc.Codec, e.keys[authtypes.StoreKey], authtypes.ProtoBaseAccount, perms, hubtypes.Bech32MainPrefix, gov)
	blocked := app.BlockedAccAddrs()
	e.bk = bankkeeper.NewBaseKeeper(enc.Codec, e.keys[banktypes.StoreKey], e.ak, blocked, gov)
	e.sk = stakingkeeper.NewKeeper(enc.Codec, e.keys[stakingtypes.StoreKey], e.ak, e.bk, gov)
	e.dk = distrkeeper.NewKeeper(enc.Codec, e.keys[distrtypes.StoreKey], e.ak, e.bk, e.sk, authtypes.FeeCollectorName, gov)
	e.mk = mintkeeper.NewKeeper(enc.Codec, e.keys[minttypes.StoreKey], e.sk, e.ak, e.bk, authtypes.FeeCollectorName, gov)
	e.ck = custommintkeeper.NewKeeper(enc.Codec, e.keys[customminttypes.StoreKey], e.mk)
	sw, _ := e.pk.GetSubspace(swaptypes.ModuleName)
	e.wk = swapkeeper.NewKeeper(enc.Codec, e.keys[swaptypes.StoreKey], sw, e.ak, e.bk)
	e.vk = vpnkeeper.NewKeeper(enc.Codec, e.keys[vpntypes.StoreKey], e.pk, e.ak, e.bk, e.dk, authtypes.FeeCollectorName)

	e.provMsg = providerkeeper.NewMsgServiceServer(e.vk.Provider)
	e.nodeMsg = nodekeeper.NewMsgServiceServer(e.vk.Node)
	e.planMsg = plankeeper.NewMsgServiceServer(e.vk.Plan)
	e.subMsg = subscriptionkeeper.NewMsgServiceServer(e.vk.Subscription)
	e.sessMsg = sessionkeeper.NewMsgServiceServer(e.vk.Session)
	e.swapMsg = swapkeeper.NewMsgServiceServer(e.wk)

	e.ctx = sdk.NewContext(e.cms, tmproto.Header{Height: 1, Time: time.Unix(0, 0).UTC()}, false, log.NewNopLogger())
	e.height = 1
	return e
}

func (e *Env) modAddr(name string) sdk.AccAddress { return authtypes.NewModuleAddress(name) }

// The harness reads the parameter sets straight from the x/params subspaces, not through the module keepers' getters:
// an observation must not run module code (a getter with a side effect -- a cache refreshed on read -- would be masked
// by the harness's own reads: found with seed C10_3).
func (e *Env) subspace(name string) paramstypes.Subspace {
	if e.ap != nil {
		ss, ok := e.ap.app.ParamsKeeper.GetSubspace(name)
		if !ok {
			panic("unknown subspace " + name)
		}
		return ss
	}
	ss, ok := e.pk.GetSubspace(name)
	if !ok {
		panic("unknown subspace " + name)
	}
	return ss
}
func (e *Env) provParams(ctx sdk.Context) (p providertypes.Params) {
	e.subspace("vpn/provider").GetParamSet(ctx, &p)
	return
}
func (e *Env) nodeParams(ctx sdk.Context) (p nodetypes.Params) {
	e.subspace("vpn/node").GetParamSet(ctx, &p)
	return
}
func (e *Env) subParams(ctx sdk.Context) (p subscriptiontypes.Params) {
	e.subspace("vpn/subscription").GetParamSet(ctx, &p)
	return
}
func (e *Env) sessParams(ctx sdk.Context) (p sessiontypes.Params) {
	e.subspace("vpn/session").GetParamSet(ctx, &p)
	return
}
func (e *Env) swapParams(ctx sdk.Context) (p swaptypes.Params) {
	e.subspace("swap").GetParamSet(ctx, &p)
	return
}

// InitGenesis writes the genesis described by g through the modules' own InitGenesis.
func (e *Env) InitGenesis(g *Genesis) {
	if e.ap != nil {
		e.appInitGenesis(g)
		return
	}
	e.ctx = sdk.NewContext(e.cms, tmproto.Header{Height: 1, Time: zt(g.Time)}, false, log.NewNopLogger())
	ctx := e.ctx
	e.ak.SetParams(ctx, authtypes.DefaultParams())
	e.bk.SetParams(ctx, banktypes.DefaultParams())
	e.dk.SetFeePool(ctx, distrtypes.InitialFeePool())
	// module accounts exist from the start
	// sorted: account numbers must not depend on Go's map iteration order
	modNames := []string{}
	for name := range app.ModuleAccPerms() {
		modNames = append(modNames, name)
	}
	sort.Strings(modNames)
	for _, name := range modNames {
		e.ak.GetModuleAccount(ctx, name)
	}
	mp := minttypes.DefaultParams()
	mp.InflationMax = decOf(g.Mint[0])
	mp.InflationMin = decOf(g.Mint[1])
	mp.InflationRateChange = decOf(g.Mint[2])
	if err := e.mk.SetParams(ctx, mp); err != nil {
		panic(err)
	}
	minter := minttypes.DefaultInitialMinter()
	minter.Inflation = decOf(g.Mint[3])
	e.mk.SetMinter(ctx, minter)

	for _, b := range g.Balances {
		coins := sdk.NewCoins(sdk.NewCoin(denomName(b.Denom), intOf(b.Amount)))
		if err := e.bk.MintCoins(ctx, minttypes.ModuleName, coins); err != nil {
			panic(err)
		}
		if err := e.bk.SendCoinsFromModuleToAccount(ctx, minttypes.ModuleName, b.Addr, coins); err != nil {
			panic(err)
		}
	}
	for _, a := range g.Accounts {
		acc := e.ak.GetAccount(ctx, a.Addr)
		if acc == nil {
			acc = e.ak.NewAccountWithAddress(ctx, a.Addr)
		}
		if a.PubKey != nil {
			if err := acc.SetPubKey(a.PubKey); err != nil {
				panic(err)
			}
		}
		e.ak.SetAccount(ctx, acc)
	}

	vg := vpntypes.DefaultGenesisState()
	vg.Providers.Params = providertypes.NewParams(g.Params.ProvDeposit.sdk(), decOf(g.Params.ProvShare))
	vg.Nodes.Params = nodetypes.NewParams(g.Params.NodeDeposit.sdk(), time.Duration(g.Params.NodeActive.Int64()),
		coinsSdk(g.Params.MaxGb), coinsSdk(g.Params.MinGb), coinsSdk(g.Params.MaxHr), coinsSdk(g.Params.MinHr),
		g.Params.MaxSubGb.Int64(), g.Params.MinSubGb.Int64(), g.Params.MaxSubHr.Int64(), g.Params.MinSubHr.Int64(),
		decOf(g.Params.NodeShare))
	vg.Subscriptions.Params = subscriptiontypes.NewParams(time.Duration(g.Params.SubDelay.Int64()))
	vg.Sessions.Params = sessiontypes.NewParams(time.Duration(g.Params.SessDelay.Int64()), g.Params.SessProof)
	if err := vg.Validate(); err != nil {
		panic(fmt.Errorf("generated vpn genesis invalid: %w", err))
	}
	vpn.InitGenesis(ctx, e.vk, vg)

	sg := swaptypes.DefaultGenesisState()
	sg.Params = swaptypes.NewParams(g.Params.SwapEnabled, denomName(g.Params.SwapDenom), g.Params.SwapApprover.String())
	if err := sg.Validate(); err != nil {
		panic(fmt.Errorf("generated swap genesis invalid: %w", err))
	}
	e.wk.SetParams(ctx, sg.Params)

	cg := customminttypes.DefaultGenesisState()
	for _, inf := range g.Inflations {
		cg.Inflations = append(cg.Inflations, customminttypes.Inflation{
			Max: decOf(inf.Max), Min: decOf(inf.Min), RateChange: decOf(inf.Rate), Timestamp: zt(inf.TS),
		})
	}
	if err := cg.Validate(); err != nil {
		panic(fmt.Errorf("generated custommint genesis invalid: %w", err))
	}
	custommint.InitGenesis(ctx, e.ck, cg)
	_ = deposittypes.ModuleName
}

// result of an operation
const (
	ResOK   = "ok"
	ResRej  = "rej"
	ResHalt = "halt"
)

// BeginBlock starts a block at time t (ns since epoch as big int).
func (e *Env) BeginBlock(t time.Time) (res string, evs sdk.Events, panicMsg string) {
	if e.ap != nil {
		return e.appBeginBlock(t)
	}
	e.height++
	em := sdk.NewEventManager()
	e.ctx = sdk.NewContext(e.cms, tmproto.Header{Height: e.height, Time: t}, false, log.NewNopLogger()).WithEventManager(em)
	res = ResOK
	func() {
		defer func() {
			if r := recover(); r != nil {
				res = ResHalt
				panicMsg = fmt.Sprint(r)
			}
		}()
		// baseapp hands BeginBlock a cache-wrapped multistore (deliverState)
		cctx, write := e.ctx.CacheContext()
		cctx = cctx.WithEventManager(em)
		custommint.BeginBlock(cctx, e.ck)
		write()
		vpn.BeginBlock(e.ctx, e.vk)
	}()
	if res == ResHalt {
		e.halted = true
	}
	return res, em.Events(), panicMsg
}

func (e *Env) EndBlock() (res string, evs sdk.Events, panicMsg string) {
	if e.ap != nil {
		return e.appEndBlock()
	}
	em := sdk.NewEventManager()
	ctx := e.ctx.WithEventManager(em)
	res = ResOK
	func() {
		defer func() {
			if r := recover(); r != nil {
				res = ResHalt
				panicMsg = fmt.Sprint(r)
			}
		}()
		vpn.EndBlock(ctx, e.vk)
	}()
	if res == ResHalt {
		e.halted = true
		return res, em.Events(), panicMsg
	}
	e.cms.Commit()
	return res, em.Events(), panicMsg
}

// RunTx executes one message atomically.
func (e *Env) RunTx(msg sdk.Msg) (res string, evs sdk.Events, errMsg string) {
	if e.ap != nil {
		return e.appRunTx(msg)
	}
	if err := msg.ValidateBasic(); err != nil {
		return ResRej, nil, "validate: " + err.Error()
	}
	cctx, write := e.ctx.CacheContext()
	em := sdk.NewEventManager()
	cctx = cctx.WithEventManager(em)
	res = ResOK
	func() {
		defer func() {
			if r := recover(); r != nil {
				res = ResRej
				errMsg = "panic: " + fmt.Sprint(r)
			}
		}()
		var err error
		c := sdk.WrapSDKContext(cctx)
		switch m := msg.(type) {
		case *providertypes.MsgRegisterRequest:
			_, err = e.provMsg.MsgRegister(c, m)
		case *providertypes.MsgUpdateRequest:
			_, err = e.provMsg.MsgUpdate(c, m)
		case *nodetypes.MsgRegisterRequest:
			_, err = e.nodeMsg.MsgRegister(c, m)
		case *nodetypes.MsgUpdateDetailsRequest:
			_, err = e.nodeMsg.MsgUpdateDetails(c, m)
		case *nodetypes.MsgUpdateStatusRequest:
			_, err = e.nodeMsg.MsgUpdateStatus(c, m)
		case *nodetypes.MsgSubscribeRequest:
			_, err = e.nodeMsg.MsgSubscribe(c, m)
		case *plantypes.MsgCreateRequest:
			_, err = e.planMsg.MsgCreate(c, m)
		case *plantypes.MsgUpdateStatusRequest:
			_, err = e.planMsg.MsgUpdateStatus(c, m)
		case *plantypes.MsgLinkNodeRequest:
			_, err = e.planMsg.MsgLinkNode(c, m)
		case *plantypes.MsgUnlinkNodeRequest:
			_, err = e.planMsg.MsgUnlinkNode(c, m)
		case *plantypes.MsgSubscribeRequest:
			_, err = e.planMsg.MsgSubscribe(c, m)
		case *subscriptiontypes.MsgCancelRequest:
			_, err = e.subMsg.MsgCancel(c, m)
		case *subscriptiontypes.MsgAllocateRequest:
			_, err = e.subMsg.MsgAllocate(c, m)
		case *sessiontypes.MsgStartRequest:
			_, err = e.sessMsg.MsgStart(c, m)
		case *sessiontypes.MsgUpdateDetailsRequest:
			_, err = e.sessMsg.MsgUpdateDetails(c, m)
		case *sessiontypes.MsgEndRequest:
			_, err = e.sessMsg.MsgEnd(c, m)
		case *swaptypes.MsgSwapRequest:
			_, err = e.swapMsg.MsgSwap(c, m)
		default:
			panic(fmt.Sprintf("unknown msg %T", msg))
		}
		if err != nil {
			res = ResRej
			errMsg = err.Error()
		}
	}()
	if res == ResOK {
		write()
		return res, em.Events(), ""
	}
	return res, nil, errMsg
}

// Gov applies parameter changes through x/params Subspace.Update, as the
// legacy ParameterChangeProposal handler does at the gov end-blocker.
func (e *Env) Gov(changes []ParamChange) (res string, errMsg string) {
	if e.ap != nil {
		return e.appGov(changes)
	}
	// like the gov end-blocker: the proposal runs in a cache context, written only if every change was accepted
	cctx, write := e.ctx.CacheContext()
	for _, c := range changes {
		ss, ok := e.pk.GetSubspace(c.Subspace)
		if !ok {
			panic("unknown subspace " + c.Subspace)
		}
		if err := ss.Update(cctx, []byte(c.Key), []byte(c.Value)); err != nil {
			return ResRej, fmt.Sprintf("param change %s/%s=%s rejected: %v", c.Subspace, c.Key, c.Value, err)
		}
	}
	write()
	return ResOK, ""
}
