package main

// C10 — determinism.  `harness digest -seed S -n N -blocks B -out FILE [-ops FILE] [-noise K]`
//
// Runs exactly the histories that `harness gen -seed S -n N -blocks B` runs (same PRNG seeding per history,
// same sequence of generator calls) on the real keepers and writes, per operation, one line
//
//     <history> <index> <op> <result> <sha256 of all KV pairs of all mounted stores> <sha256 of the ordered ABCI event list> <number of events> [<app hash after Commit>]
//
// The file is meant to be compared byte for byte with the file written by another process (different map
// seed, GOMAXPROCS, GOGC, GODEBUG, background scheduler noise).  -ops writes the operation lines in the
// gen/replay syntax, so that any prefix is a replay file; `harness digest -replay FILE -out FILE` digests
// a given ops file instead of generating.

import (
	"bytes"
	"bufio"
	"crypto/sha256"
	"encoding/binary"
	"encoding/hex"
	"flag"
	"fmt"
	"hash"
	"math/big"
	"math/rand"
	"os"
	"runtime"
	"sort"
	"strings"
	"sync/atomic"
	"time"

	abci "github.com/cometbft/cometbft/abci/types"
	sdk "github.com/cosmos/cosmos-sdk/types"

	"github.com/sentinel-official/hub/v12/app"
)

func init() { extraCommands["digest"] = runDigest }

func hashBytes(h hash.Hash, b []byte) {
	var n [8]byte
	binary.BigEndian.PutUint64(n[:], uint64(len(b)))
	h.Write(n[:])
	h.Write(b)
}

// kvDigest hashes every key/value pair of every mounted store (persistent stores in the order of
// storeNames, then the transient parameter store), each item length-prefixed.
func (e *Env) kvDigest() string {
	h := sha256.New()
	for _, name := range storeNames {
		hashBytes(h, []byte(name))
		s := e.ctx.KVStore(e.keys[name])
		it := s.Iterator(nil, nil)
		for ; it.Valid(); it.Next() {
			hashBytes(h, it.Key())
			hashBytes(h, it.Value())
		}
		it.Close()
	}
	hashBytes(h, []byte("transient:"+e.tkey.Name()))
	ts := e.ctx.TransientStore(e.tkey)
	it := ts.Iterator(nil, nil)
	for ; it.Valid(); it.Next() {
		hashBytes(h, it.Key())
		hashBytes(h, it.Value())
	}
	it.Close()
	return hex.EncodeToString(h.Sum(nil))
}

// evDigest hashes the ordered list of ABCI events (type, and every attribute key/value/index, through the
// generated protobuf encoding of abci.Event).
func evDigest(evs sdk.Events) string {
	h := sha256.New()
	for _, ev := range evs {
		a := abci.Event(ev)
		bz, err := a.Marshal()
		must(err)
		hashBytes(h, bz)
	}
	return hex.EncodeToString(h.Sum(nil))
}

type digester struct {
	e    *Env
	out  *bufio.Writer
	ops  *bufio.Writer
	hist int
	idx  int
	nops int
}

func (d *digester) op(line string) {
	if d.ops != nil {
		fmt.Fprintln(d.ops, line)
	}
}

func (d *digester) line(op, res string, evs sdk.Events, withState bool, extra string) {
	kv := "-"
	if withState {
		kv = d.e.kvDigest()
	}
	fmt.Fprintf(d.out, "%d %d %s %s %s %s %d%s\n", d.hist, d.idx, op, res, kv, evDigest(evs), len(evs), extra)
	d.idx++
	d.nops++
}

// exec mirrors Runner.exec of main.go (same calls on the environment, in the same order).
func (d *digester) exec(toks []string) (halted bool) {
	e := d.e
	switch toks[0] {
	case "B":
		res, evs, _ := e.BeginBlock(zt(bi(toks[1])))
		d.op(strings.Join(toks, " "))
		if res == ResHalt {
			d.line("B", res, nil, false, "")
			return true
		}
		d.line("B", res, evs, true, "")
		return false
	case "E":
		res, evs, _ := e.EndBlock()
		d.op("E")
		if res == ResHalt {
			d.line("E", res, nil, false, "")
			return true
		}
		d.line("E", res, evs, true, " "+hex.EncodeToString(e.cms.LastCommitID().Hash))
		return false
	case "V":
		cs := []ParamChange{}
		for i := 1; i+1 < len(toks); i += 2 {
			cs = append(cs, govChange(toks[i], toks[i+1]))
		}
		res, _ := e.Gov(cs)
		d.op(strings.Join(toks, " "))
		d.line("V", res, nil, true, "")
		return false
	case "T":
		msg := e.buildMsg(toks[1:])
		res, evs, _ := e.RunTx(msg)
		d.op(strings.Join(toks, " "))
		if res != ResOK {
			evs = nil
		}
		d.line("T:"+toks[1], res, evs, true, "")
		return false
	}
	panic("bad op " + toks[0])
}

// module accounts are created in sorted name order before the environment's own InitGenesis (which ranges
// over the Go map app.ModuleAccPerms(), and would otherwise hand out account numbers in map order: a
// nondeterminism of the harness, not of the chain, whose auth genesis fixes the order).
func (d *digester) initGenesis(gs *Genesis) {
	names := []string{}
	for name := range app.ModuleAccPerms() {
		names = append(names, name)
	}
	sort.Strings(names)
	for _, name := range names {
		d.e.ak.GetModuleAccount(d.e.ctx, name)
	}
	d.e.InitGenesis(gs)
}

// noise starts k goroutines that allocate, force garbage collections and yield, until stop is set.
func noise(k int, stop *int32) {
	for i := 0; i < k; i++ {
		go func(i int) {
			r := rand.New(rand.NewSource(int64(i) + 7))
			var keep [][]byte
			for n := 0; atomic.LoadInt32(stop) == 0; n++ {
				keep = append(keep, make([]byte, 1+r.Intn(1<<14)))
				if len(keep) > 64 {
					keep = keep[32:]
				}
				if n%257 == 0 {
					runtime.GC()
				}
				runtime.Gosched()
				time.Sleep(time.Duration(r.Intn(300)) * time.Microsecond)
			}
		}(i)
	}
}

func runDigest(args []string) {
	fs := flag.NewFlagSet("digest", flag.ExitOnError)
	seed := fs.Int64("seed", 1, "")
	n := fs.Int("n", 10, "")
	blocks := fs.Int("blocks", 10, "")
	outPath := fs.String("out", "digest.txt", "")
	opsPath := fs.String("ops", "", "")
	replay := fs.String("replay", "", "digest the histories of this ops file instead of generating")
	nz := fs.Int("noise", 0, "number of background goroutines perturbing the scheduler and the collector")
	order := fs.String("order", "", "reverse: execute the histories last to first (the output stays in ascending order)")
	fs.Parse(args)

	var stop int32
	if *nz > 0 {
		noise(*nz, &stop)
	}
	of, err := os.Create(*outPath)
	must(err)
	d := &digester{out: bufio.NewWriterSize(of, 1<<20)}
	var opf *os.File
	if *opsPath != "" {
		opf, err = os.Create(*opsPath)
		must(err)
		d.ops = bufio.NewWriterSize(opf, 1<<20)
	}
	if *replay != "" {
		d.replayFile(*replay)
	} else {
		d.generate(*seed, *n, *blocks, *order == "reverse")
	}
	atomic.StoreInt32(&stop, 1)
	d.out.Flush()
	of.Close()
	if d.ops != nil {
		d.ops.Flush()
		opf.Close()
	}
	fmt.Printf("digest: %d operations, GOMAXPROCS=%d\n", d.nops, runtime.GOMAXPROCS(0))
}

// generate follows runGenerated of main.go call by call.
func (d *digester) generate(seed int64, n, blocks int, reverse bool) {
	stats := map[string]int{}
	// every history writes into its own buffers; they are emitted in ascending order whatever the execution order was
	realOut, realOps := d.out, d.ops
	outBufs, opsBufs := make([]*bytes.Buffer, n), make([]*bytes.Buffer, n)
	defer func() {
		d.out.Flush()
		if d.ops != nil {
			d.ops.Flush()
		}
		d.out, d.ops = realOut, realOps
		for h := 0; h < n; h++ {
			if outBufs[h] != nil {
				realOut.Write(outBufs[h].Bytes())
			}
			if realOps != nil && opsBufs[h] != nil {
				realOps.Write(opsBufs[h].Bytes())
			}
		}
	}()
	for i := 0; i < n; i++ {
		h := i
		if reverse {
			h = n - 1 - i
		}
		if i > 0 {
			d.out.Flush()
			if d.ops != nil {
				d.ops.Flush()
			}
		}
		outBufs[h] = &bytes.Buffer{}
		d.out = bufio.NewWriterSize(outBufs[h], 1<<16)
		if realOps != nil {
			opsBufs[h] = &bytes.Buffer{}
			d.ops = bufio.NewWriterSize(opsBufs[h], 1<<16)
		}
		g := &Gen{r: rand.New(rand.NewSource(seed*1000003 + int64(h))), stats: stats}
		g.mkActors()
		e := NewEnv()
		g.e = e
		d.e = e
		d.hist = h
		d.idx = 0
		gs := g.genesis()
		d.initGenesis(gs)
		d.op(fmt.Sprintf("H %d", h))
		for _, l := range genesisLines(e, gs) {
			d.op(l)
		}
		d.line("G", ResOK, nil, true, "")
		nb := blocks/2 + g.pick(blocks+1)
		halted := false
		for b := 0; b < nb && !halted; b++ {
			t := g.nextTime()
			g.now = t
			if halted = d.exec([]string{"B", t.String()}); halted {
				break
			}
			ntx := g.pick(12)
			for k := 0; k < ntx; k++ {
				toks := append([]string{"T"}, g.genTx()...)
				d.exec(toks)
			}
			if g.chance(0.12) {
				gv := g.genGov()
				if len(gv) > 0 {
					d.exec(append([]string{"V"}, gv...))
				}
			}
			halted = d.exec([]string{"E"})
		}
	}
}

// replayFile digests the histories of an ops file (same syntax as `harness replay`).
func (d *digester) replayFile(path string) {
	in, err := os.Open(path)
	must(err)
	defer in.Close()
	sc := bufio.NewScanner(in)
	sc.Buffer(make([]byte, 1<<20), 1<<26)
	var gs *Genesis
	halted := false
	for sc.Scan() {
		line := strings.TrimSpace(sc.Text())
		if line == "" || line[0] == '#' {
			continue
		}
		toks := strings.Fields(line)
		switch toks[0] {
		case "H":
			fmt.Sscan(toks[1], &d.hist)
			d.idx = 0
			gs = &Genesis{}
			halted = false
			d.op(line)
		case "G":
			d.op(line)
			switch toks[1] {
			case "bal":
				b, _ := hexDecode(toks[2])
				var dn int
				fmt.Sscan(toks[3], &dn)
				gs.Balances = append(gs.Balances, Balance{b, dn, bi(toks[4])})
			case "acc":
				b, _ := hexDecode(toks[2])
				a := Account{Addr: b}
				if len(toks) > 3 && toks[3] != "-" {
					a.PubKey = pubKeyFromHex(toks[3])
				}
				gs.Accounts = append(gs.Accounts, a)
			case "par":
				gs.Params = parseParams(toks[2:])
			case "infl":
				gs.Inflations = append(gs.Inflations, Inflation{bi(toks[2]), bi(toks[3]), bi(toks[4]), bi(toks[5])})
			case "mint":
				gs.Mint = [4]*big.Int{bi(toks[2]), bi(toks[3]), bi(toks[4]), bi(toks[5])}
			case "time":
				gs.Time = bi(toks[2])
			case "go":
				d.e = NewEnv()
				d.initGenesis(gs)
				d.line("G", ResOK, nil, true, "")
			}
		default:
			if halted {
				continue
			}
			halted = d.exec(toks)
		}
	}
}
