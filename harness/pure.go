package main

// Pure-function correspondence: the real utils.AmountForBytes,
// utils.GetProportionOfCoin and types.Bandwidth.CeilTo on generated inputs.

import (
	"bufio"
	"encoding/hex"
	"flag"
	"fmt"
	"math/big"
	"math/rand"
	"os"
	"strconv"

	sdkmath "cosmossdk.io/math"
	"github.com/cosmos/cosmos-sdk/crypto/keys/secp256k1"
	sdk "github.com/cosmos/cosmos-sdk/types"

	hubtypes "github.com/sentinel-official/hub/v12/types"
	hubutils "github.com/sentinel-official/hub/v12/utils"
)

func hexDecode(s string) ([]byte, error) { return hex.DecodeString(s) }

func parseParams(kv []string) Params {
	p := Params{}
	for i := 0; i+1 < len(kv); i += 2 {
		k, v := kv[i], kv[i+1]
		switch k {
		case "prov_deposit":
			p.ProvDeposit = parseCoin(v)
		case "prov_share":
			p.ProvShare = bi(v)
		case "node_deposit":
			p.NodeDeposit = parseCoin(v)
		case "node_active":
			p.NodeActive = bi(v)
		case "max_gb":
			p.MaxGb, _ = parseCoins(v)
		case "min_gb":
			p.MinGb, _ = parseCoins(v)
		case "max_hr":
			p.MaxHr, _ = parseCoins(v)
		case "min_hr":
			p.MinHr, _ = parseCoins(v)
		case "max_sub_gb":
			p.MaxSubGb = bi(v)
		case "min_sub_gb":
			p.MinSubGb = bi(v)
		case "max_sub_hr":
			p.MaxSubHr = bi(v)
		case "min_sub_hr":
			p.MinSubHr = bi(v)
		case "node_share":
			p.NodeShare = bi(v)
		case "sub_delay":
			p.SubDelay = bi(v)
		case "sess_delay":
			p.SessDelay = bi(v)
		case "sess_proof":
			p.SessProof = v == "1"
		case "swap_enabled":
			p.SwapEnabled = v == "1"
		case "swap_denom":
			p.SwapDenom, _ = strconv.Atoi(v)
		case "swap_approver":
			p.SwapApprover = parseTAddr(v)
		default:
			panic("unknown param " + k)
		}
	}
	return p
}

func pubKeyFromHex(s string) *secp256k1.PubKey {
	b, err := hex.DecodeString(s)
	must(err)
	return &secp256k1.PubKey{Key: b}
}

func safe(f func() string) (out string) {
	defer func() {
		if r := recover(); r != nil {
			out = "panic"
		}
	}()
	return f()
}

func runPure(args []string) {
	fs := flag.NewFlagSet("pure", flag.ExitOnError)
	seed := fs.Int64("seed", 1, "")
	n := fs.Int("n", 1000, "")
	out := fs.String("out", "pure.txt", "")
	fs.Parse(args)
	r := rand.New(rand.NewSource(*seed))
	f, err := os.Create(*out)
	must(err)
	w := bufio.NewWriter(f)
	defer func() { w.Flush(); f.Close() }()
	p2 := func(k int64) *big.Int { return new(big.Int).Exp(big.NewInt(2), big.NewInt(k), nil) }
	randUpTo := func(bits int) *big.Int {
		if bits == 0 {
			return big.NewInt(0)
		}
		return new(big.Int).Rand(r, p2(int64(bits)))
	}
	val := func() *big.Int {
		switch r.Intn(12) {
		case 0:
			return big.NewInt(0)
		case 1:
			return big.NewInt(1)
		case 2:
			return p2(128)
		case 3:
			return new(big.Int).Sub(p2(128), big.NewInt(1))
		case 4:
			return new(big.Int).Exp(big.NewInt(10), big.NewInt(int64(r.Intn(30))), nil)
		case 5:
			return randUpTo(64)
		case 6:
			return randUpTo(10)
		case 7:
			return randUpTo(30)
		default:
			return randUpTo(1 + r.Intn(128))
		}
	}
	big18 := new(big.Int).Exp(big.NewInt(10), big.NewInt(18), nil)
	for i := 0; i < *n; i++ {
		switch i % 4 {
		case 0, 1:
			p, b := val(), val()
			if r.Intn(25) == 0 { // beyond the proved domain: overflow frontier
				p = randUpTo(200 + r.Intn(56))
				b = randUpTo(100 + r.Intn(156))
			} else if r.Intn(4) == 0 {
				// remainder-directed: p*b = k*10^9 + rem for a chosen small / large / middle remainder
				// (p coprime to 10, b = rem * p^-1 mod 10^9 + k*10^9)
				giga := big.NewInt(1000000000)
				p = new(big.Int).Add(new(big.Int).Mul(randUpTo(1+r.Intn(60)), big.NewInt(10)), big.NewInt([]int64{1, 3, 7, 9}[r.Intn(4)]))
				rems := []int64{1, 2, 3, 5, 9, 10, 11, 99, 499999999, 500000000, 500000001, 999999990, 999999998, 999999999}
				rem := big.NewInt(rems[r.Intn(len(rems))])
				if r.Intn(3) == 0 {
					rem = big.NewInt(1 + r.Int63n(999999999))
				}
				inv := new(big.Int).ModInverse(new(big.Int).Mod(p, giga), giga)
				b = new(big.Int).Mod(new(big.Int).Mul(rem, inv), giga)
				b.Add(b, new(big.Int).Mul(randUpTo(r.Intn(40)), giga))
			}
			res := safe(func() string { return hubutils.AmountForBytes(sdkmath.NewIntFromBigInt(p), sdkmath.NewIntFromBigInt(b)).String() })
			fmt.Fprintf(w, "afb %s %s = %s\n", p, b, res)
		case 2:
			a := val()
			var s *big.Int
			switch r.Intn(6) {
			case 0:
				s = big.NewInt(0)
			case 1:
				s = big18
			case 2:
				s = new(big.Int).Div(big18, big.NewInt(2))
			default:
				s = new(big.Int).Rand(r, new(big.Int).Add(big18, big.NewInt(1)))
			}
			if r.Intn(4) == 0 && a.Sign() > 0 {
				// force an exact half: a*s = k*10^18 + 5*10^17 is not generally reachable; use a even/odd with s = 0.5
				s = new(big.Int).Div(big18, big.NewInt(2))
			} else if r.Intn(4) == 0 {
				// remainder-directed: a*s = k*10^18 + rem around the half-way point and the ends (s coprime to 10)
				s = new(big.Int).Add(new(big.Int).Mul(randUpTo(1+r.Intn(55)), big.NewInt(10)), big.NewInt([]int64{1, 3, 7, 9}[r.Intn(4)]))
				s.Mod(s, big18)
				half := new(big.Int).Div(big18, big.NewInt(2))
				cands := []*big.Int{big.NewInt(1), big.NewInt(2), new(big.Int).Sub(half, big.NewInt(1)), half, new(big.Int).Add(half, big.NewInt(1)),
					new(big.Int).Sub(big18, big.NewInt(1)), new(big.Int).Sub(big18, big.NewInt(2))}
				rem := cands[r.Intn(len(cands))]
				if inv := new(big.Int).ModInverse(s, big18); inv != nil {
					a = new(big.Int).Mod(new(big.Int).Mul(rem, inv), big18)
					a.Add(a, new(big.Int).Mul(randUpTo(r.Intn(60)), big18))
				}
			}
			res := safe(func() string {
				return hubutils.GetProportionOfCoin(sdk.NewCoin("denoma", sdkmath.NewIntFromBigInt(a)), sdkmath.LegacyNewDecFromBigIntWithPrec(s, 18)).Amount.String()
			})
			fmt.Fprintf(w, "prop %s %s = %s\n", a, s, res)
		case 3:
			pre, v := val(), val()
			if r.Intn(10) == 0 {
				pre = new(big.Int).Neg(pre)
			}
			if r.Intn(8) == 0 {
				v = new(big.Int).Sub(p2(256), new(big.Int).Add(big.NewInt(1), randUpTo(20)))
			}
			res := safe(func() string {
				b := hubtypes.NewBandwidth(sdkmath.NewIntFromBigInt(v), sdkmath.ZeroInt()).CeilTo(sdkmath.NewIntFromBigInt(pre))
				return b.Upload.String()
			})
			fmt.Fprintf(w, "ceil %s %s = %s\n", pre, v, res)
		}
	}
}
