package main

import (
	"bufio"
	"encoding/json"
	"flag"
	"fmt"
	"math/big"
	"math/rand"
	"os"
	"strings"

	sdk "github.com/cosmos/cosmos-sdk/types"

	"github.com/sentinel-official/hub/v12/app"
)

func appBlocked() map[string]bool {
	out := map[string]bool{}
	for a := range app.BlockedAccAddrs() {
		addr, err := sdk.AccAddressFromBech32(a)
		must(err)
		out[hx(addr)] = true
	}
	return out
}

type Runner struct {
	e     *Env
	ops   *bufio.Writer
	obs   *bufio.Writer
	hist  int
	idx   int
	stats map[string]int
}

func (r *Runner) emitOp(line string) {
	fmt.Fprintln(r.ops, line)
}

func (r *Runner) emitObs(kind, res string, st M, evs sdk.Events, same *bool, errMsg string) {
	o := M{"h": r.hist, "i": r.idx, "op": kind, "res": res}
	if st != nil {
		o["st"] = st
	}
	if evs != nil && res == ResOK {
		o["ev"] = canonEvents(evs)
	} else {
		o["ev"] = L{}
	}
	if same != nil {
		o["same"] = *same
	}
	if errMsg != "" {
		o["err"] = errMsg
	}
	bz, err := json.Marshal(o)
	must(err)
	r.obs.Write(bz)
	r.obs.WriteByte('\n')
	r.idx++
}

// exec interprets one op line (tokens) on the implementation and records the observation.
// It returns the possibly updated line (oracle tokens filled in) and whether the chain halted.
func (r *Runner) exec(toks []string) (string, bool) {
	e := r.e
	switch toks[0] {
	case "B":
		res, evs, pm := e.BeginBlock(zt(bi(toks[1])))
		line := strings.Join(toks, " ")
		r.emitOp(line)
		if res == ResHalt {
			r.emitObs("B", res, nil, nil, nil, pm)
			return line, true
		}
		r.emitObs("B", res, e.Observe(), evs, nil, "")
		return line, false
	case "E":
		res, evs, pm := e.EndBlock()
		r.emitOp("E")
		if res == ResHalt {
			r.emitObs("E", res, nil, nil, nil, pm)
			return "E", true
		}
		// after Commit the transient flags are gone; observe through a fresh context of the same block
		r.emitObs("E", res, e.Observe(), evs, nil, "")
		return "E", false
	case "V":
		cs := []ParamChange{}
		for i := 1; i+1 < len(toks); i += 2 {
			cs = append(cs, govChange(toks[i], toks[i+1]))
		}
		before := e.RawDump()
		res, em := e.Gov(cs)
		line := strings.Join(toks, " ")
		r.emitOp(line)
		r.stats["gov."+res]++
		if res == ResOK {
			r.emitObs("V", res, e.Observe(), sdk.Events{}, nil, "")
		} else {
			same := before == e.RawDump()
			r.emitObs("V", res, nil, nil, &same, em)
		}
		return line, false
	case "T":
		before := e.RawDump()
		msg := e.buildMsg(toks[1:])
		res, evs, em := e.RunTx(msg)
		line := strings.Join(toks, " ")
		r.emitOp(line)
		r.stats["tx."+toks[1]+"."+res]++
		if res == ResOK {
			r.emitObs("T", res, e.Observe(), evs, nil, "")
		} else {
			same := before == e.RawDump()
			r.emitObs("T", res, nil, nil, &same, em)
		}
		return line, false
	}
	panic("bad op " + toks[0])
}

func runGenerated(seed int64, n, blocks int, opsPath, obsPath, statsPath string) {
	of, err := os.Create(opsPath)
	must(err)
	bf, err := os.Create(obsPath)
	must(err)
	r := &Runner{ops: bufio.NewWriterSize(of, 1<<20), obs: bufio.NewWriterSize(bf, 1<<20), stats: map[string]int{}}
	for h := 0; h < n; h++ {
		g := &Gen{r: rand.New(rand.NewSource(seed*1000003 + int64(h))), stats: r.stats}
		g.mkActors()
		e := NewEnv()
		g.e = e
		r.e = e
		r.hist = h
		r.idx = 0
		gs := g.genesis()
		e.InitGenesis(gs)
		fmt.Fprintf(r.ops, "H %d\n", h)
		for _, l := range genesisLines(e, gs) {
			r.emitOp(l)
		}
		// observation of the genesis state
		r.emitObs("G", ResOK, e.Observe(), sdk.Events{}, nil, "")
		nb := blocks/2 + g.pick(blocks+1)
		halted := false
		for b := 0; b < nb && !halted; b++ {
			t := g.nextTime()
			g.now = t
			if _, halted = r.exec([]string{"B", t.String()}); halted {
				break
			}
			ntx := g.pick(12)
			for k := 0; k < ntx; k++ {
				toks := append([]string{"T"}, g.genTx()...)
				r.exec(toks)
			}
			if g.chance(0.12) {
				gv := g.genGov()
				if len(gv) > 0 {
					r.exec(append([]string{"V"}, gv...))
				}
			}
			_, halted = r.exec([]string{"E"})
		}
		if halted {
			r.stats["halted"]++
		}
		r.stats["histories"]++
	}
	r.ops.Flush()
	r.obs.Flush()
	of.Close()
	bf.Close()
	if statsPath != "" {
		bz, _ := json.MarshalIndent(r.stats, "", " ")
		os.WriteFile(statsPath, bz, 0o644)
	}
}

// replay an ops file (one or more histories) on the implementation
var replayApp = false
var replayMax = 0

func runReplay(opsIn, opsOut, obsPath string) {
	in, err := os.Open(opsIn)
	must(err)
	defer in.Close()
	of, err := os.Create(opsOut)
	must(err)
	bf, err := os.Create(obsPath)
	must(err)
	r := &Runner{ops: bufio.NewWriterSize(of, 1<<20), obs: bufio.NewWriterSize(bf, 1<<20), stats: map[string]int{}}
	sc := bufio.NewScanner(in)
	sc.Buffer(make([]byte, 1<<20), 1<<26)
	var gs *Genesis
	halted := false
	for sc.Scan() {
		line := strings.TrimSpace(sc.Text())
		if line == "" || line[0] == '#' {
			continue
		}
		toks := strings.Fields(line)
		switch toks[0] {
		case "H":
			fmt.Sscan(toks[1], &r.hist)
			if replayMax > 0 && r.hist >= replayMax {
				if r.e != nil {
					r.e.appClose()
				}
				r.ops.Flush()
				r.obs.Flush()
				return
			}
			r.idx = 0
			gs = &Genesis{}
			halted = false
			fmt.Fprintln(r.ops, line)
		case "G":
			r.emitOp(line)
			switch toks[1] {
			case "bal":
				b, _ := hexDecode(toks[2])
				var d int
				fmt.Sscan(toks[3], &d)
				gs.Balances = append(gs.Balances, Balance{b, d, bi(toks[4])})
			case "acc":
				b, _ := hexDecode(toks[2])
				a := Account{Addr: b}
				if len(toks) > 3 && toks[3] != "-" {
					a.PubKey = pubKeyFromHex(toks[3])
				}
				gs.Accounts = append(gs.Accounts, a)
			case "par":
				gs.Params = parseParams(toks[2:])
			case "infl":
				gs.Inflations = append(gs.Inflations, Inflation{bi(toks[2]), bi(toks[3]), bi(toks[4]), bi(toks[5])})
			case "mint":
				gs.Mint = [4]*big.Int{bi(toks[2]), bi(toks[3]), bi(toks[4]), bi(toks[5])}
			case "time":
				gs.Time = bi(toks[2])
			case "go":
				if replayApp {
					if r.e != nil {
						r.e.appClose()
					}
					r.e = NewAppEnv()
				} else {
					r.e = NewEnv()
				}
				r.e.InitGenesis(gs)
				r.emitObs("G", ResOK, r.e.Observe(), sdk.Events{}, nil, "")
			}
		default:
			if halted {
				continue
			}
			_, halted = r.exec(toks)
		}
	}
	r.ops.Flush()
	r.obs.Flush()
}

func main() {
	if len(os.Args) < 2 {
		fmt.Println("usage: harness gen|replay|pure ...")
		os.Exit(2)
	}
	switch os.Args[1] {
	case "gen":
		fs := flag.NewFlagSet("gen", flag.ExitOnError)
		seed := fs.Int64("seed", 1, "")
		n := fs.Int("n", 10, "")
		blocks := fs.Int("blocks", 10, "")
		ops := fs.String("ops", "ops.txt", "")
		obs := fs.String("obs", "obs.jsonl", "")
		stats := fs.String("stats", "", "")
		fs.Parse(os.Args[2:])
		runGenerated(*seed, *n, *blocks, *ops, *obs, *stats)
	case "replay":
		fs := flag.NewFlagSet("replay", flag.ExitOnError)
		in := fs.String("in", "", "")
		ops := fs.String("ops", "ops.txt", "")
		obs := fs.String("obs", "obs.jsonl", "")
		appMode := fs.Bool("app", false, "run on the real application (app.NewApp) instead of hand-assembled keepers")
		maxh := fs.Int("max", 0, "with -app: replay only the first N histories (0 = all)")
		fs.Parse(os.Args[2:])
		replayApp, replayMax = *appMode, *maxh
		runReplay(*in, *ops, *obs)
	case "pure":
		runPure(os.Args[2:])
	default:
		if f, ok := extraCommands[os.Args[1]]; ok {
			f(os.Args[2:])
			return
		}
		fmt.Println("unknown command")
		os.Exit(2)
	}
}

// extraCommands: further sub-commands (one file each) register themselves here from init().
var extraCommands = map[string]func(args []string){}
