package main

// State-aware generator of histories.  Every random choice derives from one
// PRNG; the generator looks at the implementation state through public getters
// so that most operations are valid, and deliberately perturbs one argument in
// a hostile stream.

import (
	"encoding/hex"
	"fmt"
	"math/big"
	"math/rand"
	"sort"
	"strings"
	"time"

	"github.com/cosmos/cosmos-sdk/crypto/keys/secp256k1"
	sdk "github.com/cosmos/cosmos-sdk/types"
	authtypes "github.com/cosmos/cosmos-sdk/x/auth/types"
	distrtypes "github.com/cosmos/cosmos-sdk/x/distribution/types"

	hubtypes "github.com/sentinel-official/hub/v12/types"
	deposittypes "github.com/sentinel-official/hub/v12/x/deposit/types"
	sessiontypes "github.com/sentinel-official/hub/v12/x/session/types"
	subscriptiontypes "github.com/sentinel-official/hub/v12/x/subscription/types"
	swaptypes "github.com/sentinel-official/hub/v12/x/swap/types"
)

type Actor struct {
	Bytes []byte
	Priv  *secp256k1.PrivKey
}

type Gen struct {
	noCross   bool   // never propose crossed price bounds (export / re-import runs: DESIGN section 5.1 is C12's domain)
	lastPanic string // message of the last panic recovered inside the generator's own store reads
	r      *rand.Rand
	e      *Env
	actors []Actor
	now    *big.Int
	// governance trajectory bookkeeping (DESIGN §5.3)
	maxSessDelay *big.Int
	subDelay     *big.Int
	usedHashes   [][]byte
	stats        map[string]int
	deep         bool // this history uses the goal-directed stream (decided from the PRNG in mkActors)
}

var (
	pow = func(b, e int64) *big.Int { return new(big.Int).Exp(big.NewInt(b), big.NewInt(e), nil) }
	e18 = pow(10, 18)
	gb  = pow(10, 9)
	sec = big.NewInt(1000000000)
	hr  = new(big.Int).Mul(big.NewInt(3600), sec)
)

func bmul(a *big.Int, b int64) *big.Int { return new(big.Int).Mul(a, big.NewInt(b)) }
func badd(a, b *big.Int) *big.Int      { return new(big.Int).Add(a, b) }
func bsub(a, b *big.Int) *big.Int      { return new(big.Int).Sub(a, b) }

func (g *Gen) pick(n int) int { return g.r.Intn(n) }
func (g *Gen) chance(p float64) bool { return g.r.Float64() < p }
func (g *Gen) oneOf(xs ...*big.Int) *big.Int { return xs[g.pick(len(xs))] }

func (g *Gen) randBytes(n int) []byte {
	b := make([]byte, n)
	g.r.Read(b)
	return b
}

func (g *Gen) mkActors() {
	g.actors = nil
	for i := 0; i < 4; i++ {
		priv := secp256k1.GenPrivKeyFromSecret(g.randBytes(32))
		g.actors = append(g.actors, Actor{Bytes: priv.PubKey().Address().Bytes(), Priv: priv})
	}
	g.actors = append(g.actors, Actor{Bytes: g.randBytes(1)})
	g.actors = append(g.actors, Actor{Bytes: g.randBytes(32)})
	g.actors = append(g.actors, Actor{Bytes: g.randBytes(255)})
	// prefix relation: extension of actor 0 by one byte, truncation of actor 1
	g.actors = append(g.actors, Actor{Bytes: append(append([]byte{}, g.actors[0].Bytes...), 0x00)})
	g.actors = append(g.actors, Actor{Bytes: append([]byte{}, g.actors[1].Bytes[:19]...)})
	g.deep = g.chance(0.5)
}

func (g *Gen) actor() Actor { return g.actors[g.pick(len(g.actors))] }
func (g *Gen) ta(role byte, b []byte) TAddr { return TAddr{Role: role, Bytes: b} }

var shares = []*big.Int{big.NewInt(0), e18, pow(10, 17), big.NewInt(333333333333333333), bmul(pow(10, 17), 5), big.NewInt(1)}

func (g *Gen) share() *big.Int { return shares[g.pick(len(shares))] }

func (g *Gen) boundVec() []Coin {
	out := []Coin{}
	for d := 1; d <= 2; d++ {
		if g.chance(0.5) {
			out = append(out, Coin{d, big.NewInt(int64(1 + g.pick(50)))})
		}
	}
	return out
}

// min <= max for every denomination present in both (DESIGN §5.1)
func (g *Gen) boundPair() (mx, mn []Coin) {
	mn = g.boundVec()
	mx = []Coin{}
	for d := 1; d <= 2; d++ {
		if g.chance(0.5) {
			lo := int64(1)
			for _, c := range mn {
				if c.Denom == d {
					lo = c.Amount.Int64()
				}
			}
			mx = append(mx, Coin{d, big.NewInt(lo + int64(g.pick(200)))})
		}
	}
	return
}

// crossedPair: a maximum BELOW the minimum for at least one denomination, both around the prices nodes actually quote
func (g *Gen) crossedPair() (mx, mn []Coin) {
	nodes := g.e.vk.Node.GetNodes(g.e.ctx)
	for d := 1; d <= 2; d++ {
		p := int64(5 + g.pick(200))
		if len(nodes) > 0 {
			n := nodes[g.pick(len(nodes))]
			for _, c := range append(append(sdk.Coins{}, n.GigabytePrices...), n.HourlyPrices...) {
				if c.Denom == denomName(d) && c.Amount.IsInt64() && c.Amount.Int64() > 1 && g.chance(0.7) {
					p = c.Amount.Int64()
				}
			}
		}
		if d == 1 || g.chance(0.4) {
			lo := p - int64(1+g.pick(int(p)))
			if lo < 1 {
				lo = 1
			}
			mx = append(mx, Coin{d, big.NewInt(lo)})
			mn = append(mn, Coin{d, big.NewInt(p + int64(1+g.pick(50)))})
		}
	}
	return
}

func (g *Gen) genesis() *Genesis {
	gs := &Genesis{}
	start := time.Date(2024, 1, 1, 0, 0, 0, 0, time.UTC).Add(time.Duration(g.pick(1000000)) * time.Millisecond)
	gs.Time = tz(start)
	g.now = gs.Time
	ladder := []*big.Int{big.NewInt(50), pow(10, 6), pow(10, 12), pow(10, 30), pow(2, 200)}
	for _, a := range g.actors {
		for d := 1; d <= 3; d++ {
			if g.chance(0.8) {
				gs.Balances = append(gs.Balances, Balance{a.Bytes, d, ladder[g.pick(len(ladder))]})
			}
		}
		acc := Account{Addr: a.Bytes}
		if a.Priv != nil && g.chance(0.85) {
			acc.PubKey = a.Priv.PubKey()
		}
		gs.Accounts = append(gs.Accounts, acc)
	}
	p := &gs.Params
	p.ProvDeposit = Coin{1, g.oneOf(big.NewInt(0), big.NewInt(10), big.NewInt(1000))}
	p.ProvShare = g.share()
	p.NodeDeposit = Coin{1 + g.pick(2), g.oneOf(big.NewInt(0), big.NewInt(10), big.NewInt(1000))}
	p.NodeActive = g.oneOf(bmul(sec, 30), hr, hr, big.NewInt(100), bmul(hr, 24*30), bmul(hr, 24*30))
	p.MaxGb, p.MinGb = g.boundPair()
	p.MaxHr, p.MinHr = g.boundPair()
	p.MinSubGb = big.NewInt(int64(1 + g.pick(2)))
	p.MaxSubGb = badd(p.MinSubGb, big.NewInt(int64(g.pick(20))))
	p.MinSubHr = big.NewInt(int64(1 + g.pick(2)))
	p.MaxSubHr = badd(p.MinSubHr, g.oneOf(big.NewInt(0), big.NewInt(5), big.NewInt(2000), big.NewInt(2562040)))
	p.NodeShare = g.share()
	p.SessDelay = g.oneOf(big.NewInt(1), bmul(sec, 10), bmul(sec, 120))
	p.SubDelay = badd(p.SessDelay, g.oneOf(big.NewInt(0), bmul(sec, 5), hr))
	p.SessProof = g.chance(0.25)
	p.SwapEnabled = g.chance(0.85)
	p.SwapDenom = 1 + g.pick(2)
	p.SwapApprover = g.ta('a', g.actors[g.pick(3)].Bytes)
	g.maxSessDelay = p.SessDelay
	g.subDelay = p.SubDelay
	// inflation schedule around the start time
	n := g.pick(5)
	seen := map[string]bool{}
	for i := 0; i < n; i++ {
		tsv := badd(gs.Time, bmul(sec, int64(g.pick(400)-20)))
		if seen[tsv.String()] {
			continue
		}
		seen[tsv.String()] = true
		mn := bmul(pow(10, 16), int64(g.pick(50)))
		mx := badd(mn, bmul(pow(10, 16), int64(g.pick(50))))
		gs.Inflations = append(gs.Inflations, Inflation{Max: mx, Min: mn, Rate: bmul(pow(10, 16), int64(g.pick(100))), TS: tsv})
	}
	gs.Mint = [4]*big.Int{bmul(pow(10, 16), 20), bmul(pow(10, 16), 7), bmul(pow(10, 16), 13), bmul(pow(10, 16), 13)}
	return gs
}

func genesisLines(e *Env, gs *Genesis) []string {
	out := []string{}
	blocked := []string{}
	for a := range appBlocked() {
		blocked = append(blocked, a)
	}
	sort.Strings(blocked)
	out = append(out, fmt.Sprintf("G cfg %s %s %s %s %s", hx(e.modAddr(deposittypes.ModuleName)), hx(e.modAddr(authtypes.FeeCollectorName)),
		hx(e.modAddr(distrtypes.ModuleName)), hx(e.modAddr(swaptypes.ModuleName)), strings.Join(blocked, ",")))
	for _, b := range gs.Balances {
		out = append(out, fmt.Sprintf("G bal %s %d %s", hx(b.Addr), b.Denom, b.Amount))
	}
	for _, a := range gs.Accounts {
		pk := "-"
		if a.PubKey != nil {
			pk = hx(a.PubKey.Bytes())
		}
		out = append(out, fmt.Sprintf("G acc %s %s", hx(a.Addr), pk))
	}
	p := gs.Params
	out = append(out, "G par "+strings.Join(paramToks(p), " "))
	for _, i := range gs.Inflations {
		out = append(out, fmt.Sprintf("G infl %s %s %s %s", i.Max, i.Min, i.Rate, i.TS))
	}
	out = append(out, fmt.Sprintf("G mint %s %s %s %s", gs.Mint[0], gs.Mint[1], gs.Mint[2], gs.Mint[3]))
	out = append(out, fmt.Sprintf("G time %s", gs.Time))
	out = append(out, "G go")
	return out
}

func coinTok(c Coin) string { return fmt.Sprintf("%d:%s", c.Denom, c.Amount) }
func paramToks(p Params) []string {
	return []string{
		"prov_deposit", coinTok(p.ProvDeposit), "prov_share", p.ProvShare.String(),
		"node_deposit", coinTok(p.NodeDeposit), "node_active", p.NodeActive.String(),
		"max_gb", coinsTok(p.MaxGb, false), "min_gb", coinsTok(p.MinGb, false),
		"max_hr", coinsTok(p.MaxHr, false), "min_hr", coinsTok(p.MinHr, false),
		"max_sub_gb", p.MaxSubGb.String(), "min_sub_gb", p.MinSubGb.String(),
		"max_sub_hr", p.MaxSubHr.String(), "min_sub_hr", p.MinSubHr.String(),
		"node_share", p.NodeShare.String(), "sub_delay", p.SubDelay.String(),
		"sess_delay", p.SessDelay.String(), "sess_proof", boolTok(p.SessProof),
		"swap_enabled", boolTok(p.SwapEnabled), "swap_denom", fmt.Sprint(p.SwapDenom), "swap_approver", p.SwapApprover.Tok(),
	}
}

// ---------- looking at the implementation state ----------

func (g *Gen) deadlines() []*big.Int {
	ctx := g.e.ctx
	out := []*big.Int{}
	addT := func(t time.Time) {
		v := tz(t)
		if v.Cmp(g.now) > 0 {
			out = append(out, v)
		}
	}
	for _, n := range g.e.vk.Node.GetNodes(ctx) {
		addT(n.InactiveAt)
	}
	for _, s := range g.e.vk.Subscription.GetSubscriptions(ctx) {
		addT(s.GetInactiveAt())
	}
	for _, s := range g.e.vk.Session.GetSessions(ctx) {
		addT(s.InactiveAt)
	}
	for _, p := range g.e.vk.Subscription.GetPayouts(ctx) {
		addT(p.NextAt)
	}
	for _, i := range g.e.ck.GetInflations(ctx) {
		addT(i.Timestamp)
	}
	sort.Slice(out, func(i, j int) bool { return out[i].Cmp(out[j]) < 0 })
	return out
}

func (g *Gen) nextTime() *big.Int {
	ds := g.deadlines()
	x := g.r.Float64()
	var t *big.Int
	switch {
	case len(ds) > 0 && x < 0.22:
		t = ds[0]
	case len(ds) > 0 && x < 0.30:
		t = bsub(ds[0], big.NewInt(1))
	case len(ds) > 0 && x < 0.38:
		t = badd(ds[0], big.NewInt(1))
	case len(ds) > 1 && x < 0.46:
		t = ds[g.pick(len(ds))]
	case x < 0.84:
		t = badd(g.now, big.NewInt(int64(1+g.pick(20000000000))))
	case x < 0.88:
		t = badd(g.now, big.NewInt(1))
	case x < 0.955:
		t = badd(g.now, hr)
	case x < 0.985:
		t = badd(g.now, bmul(hr, int64(2+g.pick(100))))
	default:
		t = badd(g.now, bmul(hr, 24*int64(30+g.pick(200))))
	}
	if t.Cmp(g.now) <= 0 {
		t = badd(g.now, big.NewInt(1))
	}
	return t
}

func (g *Gen) byteLadder(quota *big.Int) *big.Int {
	xs := []*big.Int{big.NewInt(0), big.NewInt(1), bsub(gb, big.NewInt(1)), gb, big.NewInt(123456789), bmul(gb, 3),
		pow(2, 64), pow(2, 128), pow(2, 255), bsub(pow(2, 256), big.NewInt(1))}
	if quota != nil {
		xs = append(xs, quota, badd(quota, big.NewInt(1)), new(big.Int).Div(quota, big.NewInt(2)), new(big.Int).Div(quota, big.NewInt(3)))
		xs = append(xs, quota, new(big.Int).Div(quota, big.NewInt(2)), new(big.Int).Div(quota, big.NewInt(3)), big.NewInt(987654321))
	}
	return xs[g.pick(len(xs))]
}

// fit a price list into the current bounds (most of the time)
func fitBounds(cs []Coin, mx, mn sdk.Coins) []Coin {
	out := []Coin{}
	have := map[int]bool{}
	for _, c := range cs {
		if c.Denom == 0 {
			out = append(out, c)
			continue
		}
		lo, hi := mn.AmountOf(denomName(c.Denom)), mx.AmountOf(denomName(c.Denom))
		if !hi.IsZero() && c.Amount.Cmp(hi.BigInt()) > 0 {
			c.Amount = hi.BigInt()
		}
		if c.Amount.Cmp(lo.BigInt()) < 0 {
			c.Amount = lo.BigInt()
		}
		have[c.Denom] = true
		out = append(out, c)
	}
	for _, m := range mn {
		d := denomNum(m.Denom)
		if !have[d] {
			out = append(out, Coin{d, m.Amount.BigInt()})
		}
	}
	sort.Slice(out, func(i, j int) bool { return out[i].Denom < out[j].Denom })
	return out
}

func (g *Gen) priceList() ([]Coin, bool) {
	if g.chance(0.04) {
		return nil, true
	}
	if g.chance(0.04) {
		return []Coin{}, false
	}
	out := []Coin{}
	for d := 1; d <= 3; d++ {
		if g.chance(0.6) {
			out = append(out, Coin{d, g.oneOf(big.NewInt(1), big.NewInt(7), big.NewInt(int64(1+g.pick(250))), big.NewInt(1000003), pow(10, 12),
				pow(10, 18), badd(bmul(pow(10, 20), 3), big.NewInt(1)))}) // 18-decimal prices: an inexact reciprocal of the hours shows (seed C05_4)
		}
	}
	if len(out) == 0 {
		out = append(out, Coin{1, big.NewInt(int64(1 + g.pick(100)))})
	}
	if g.chance(0.03) && len(out) > 1 { // unsorted
		out[0], out[1] = out[1], out[0]
	}
	if g.chance(0.03) {
		out[0].Amount = big.NewInt(0)
	}
	if g.chance(0.02) {
		out[0].Denom = 0
	}
	return out, false
}

var goodURL = "https://n.example:8585"

func (g *Gen) urlStr() string {
	switch g.pick(12) {
	case 0:
		return ""
	case 1:
		return "http://n.example:80"
	case 2:
		return "https://n.example"
	case 3:
		return "https://" + strings.Repeat("a", 60) + ":1"
	default:
		return goodURL
	}
}
func (g *Gen) text(max int) string {
	switch g.pick(10) {
	case 0:
		return ""
	case 1:
		return strings.Repeat("x", max)
	case 2:
		return strings.Repeat("y", max+1)
	default:
		return fmt.Sprintf("t%d", g.pick(5))
	}
}

// perturb an address for the hostile stream: other actor, prefix-extended /
// truncated bytes, right bytes under the wrong role, upper-case text
func (g *Gen) hostileAddr(t TAddr) TAddr {
	switch g.pick(6) {
	case 0:
		t.Bytes = g.actor().Bytes
	case 1:
		t.Bytes = append(append([]byte{}, t.Bytes...), 0x00)
	case 2:
		if len(t.Bytes) > 1 {
			t.Bytes = t.Bytes[:len(t.Bytes)-1]
		}
	case 3:
		t.Role = []byte{'a', 'n', 'p'}[g.pick(3)]
	case 4:
		t.Upper = true
	case 5:
		t.Bytes = g.actors[g.pick(len(g.actors))].Bytes
	}
	return t
}

func (g *Gen) maybeHostile(t TAddr, p float64) TAddr {
	if g.chance(p) {
		return g.hostileAddr(t)
	}
	return t
}

func (g *Gen) idOr(ids []uint64) uint64 {
	if len(ids) == 0 || g.chance(0.06) {
		return uint64(g.pick(6))
	}
	return ids[g.pick(len(ids))]
}

// genTx produces the tokens of one transaction.  The generator reads the store through the public keeper getters; on
// a corrupted store (e.g. an index entry without its record) such a read can panic: the history then goes on with a
// harmless message (the corruption itself is what the monitors report) and the panic is counted in the statistics.
func (g *Gen) genTx() (toks []string) {
	defer func() {
		if r := recover(); r != nil {
			g.stats["gen.panic"]++
			g.lastPanic = fmt.Sprint(r)
			toks = []string{"sess_end", g.ta('a', g.actors[0].Bytes).Tok(), "999999", "0"}
		}
	}()
	return g.genTx0()
}

func (g *Gen) genTx0() []string {
	ctx := g.e.ctx
	vk := g.e.vk
	nodes := vk.Node.GetNodes(ctx)
	plans := vk.Plan.GetPlans(ctx)
	provs := vk.Provider.GetProviders(ctx)
	subs := vk.Subscription.GetSubscriptions(ctx)
	sessions := vk.Session.GetSessions(ctx)
	h := 0.12 // hostile probability per address argument
	a := g.actor()
	// related-party stream: an owner-restricted message sent by somebody who is a party of the record, but not its owner
	if g.chance(0.05) {
		if toks := g.relatedTx(); toks != nil {
			g.stats["gen.related."+toks[0]]++
			return toks
		}
	}
	// goal-directed stream: drive the marketplace towards deep states (plan sessions on shared quota with usage)
	if g.deep && g.chance(0.35) {
		if toks := g.goalTx(); toks != nil {
			g.stats["gen.goal."+toks[0]]++
			return toks
		}
	}
	ws := []struct {
		k string
		w int
	}{
		{"prov_register", 4}, {"prov_update", 3}, {"node_register", 5}, {"node_update_details", 3}, {"node_update_status", 9},
		{"node_subscribe", 14}, {"plan_create", 4}, {"plan_update_status", 6}, {"plan_link", 6}, {"plan_unlink", 1},
		{"plan_subscribe", 9}, {"sub_cancel", 3}, {"sub_allocate", 8}, {"sess_start", 18}, {"sess_update", 14}, {"sess_end", 6}, {"swap", 3},
	}
	// availability: an operation whose prerequisite does not exist yet is mostly pointless
	need := map[string]bool{
		"prov_update": len(provs) > 0, "node_update_details": len(nodes) > 0, "node_update_status": len(nodes) > 0,
		"node_subscribe": len(nodes) > 0, "plan_create": len(provs) > 0, "plan_update_status": len(plans) > 0,
		"plan_link": len(plans) > 0 && len(nodes) > 0, "plan_unlink": len(plans) > 0, "plan_subscribe": len(plans) > 0,
		"sub_cancel": len(subs) > 0, "sub_allocate": len(subs) > 0, "sess_start": len(subs) > 0,
		"sess_update": len(sessions) > 0, "sess_end": len(sessions) > 0,
	}
	for i := range ws {
		if ok, has := need[ws[i].k]; has && !ok {
			ws[i].w = 1
		}
	}
	if len(nodes) < 2 {
		ws[2].w = 30
	}
	if len(nodes) >= 4 {
		ws[2].w = 1
	}
	if len(plans) >= 3 {
		ws[6].w = 1
	}
	if len(provs) < 1 {
		ws[0].w = 20
	}
	tot := 0
	for _, w := range ws {
		tot += w.w
	}
	x := g.pick(tot)
	kind := ""
	for _, w := range ws {
		if x < w.w {
			kind = w.k
			break
		}
		x -= w.w
	}
	g.stats["gen."+kind]++
	st := func(vals ...int) string { return fmt.Sprint(vals[g.pick(len(vals))]) }
	nodeAddr := func() []byte {
		if len(nodes) == 0 || g.chance(0.05) {
			return g.actor().Bytes
		}
		return nodes[g.pick(len(nodes))].GetAddress()
	}
	activeNodeAddr := func() []byte {
		act := [][]byte{}
		for _, n := range nodes {
			if n.Status == hubtypes.StatusActive {
				act = append(act, n.GetAddress())
			}
		}
		if len(act) == 0 || g.chance(0.1) {
			return nodeAddr()
		}
		return act[g.pick(len(act))]
	}
	_ = activeNodeAddr
	denom := func() string {
		if g.chance(0.04) {
			return "0"
		}
		return fmt.Sprint(1 + g.pick(3))
	}
	switch kind {
	case "prov_register":
		return []string{kind, g.maybeHostile(g.ta('a', a.Bytes), 0.05).Tok(), strTok(g.text(64)), strTok(g.text(64)), strTok(g.urlOrEmpty()), strTok(g.text(256)), "0"}
	case "prov_update":
		from := a.Bytes
		if len(provs) > 0 && g.chance(0.85) {
			from = provs[g.pick(len(provs))].GetAddress()
		}
		return []string{kind, g.maybeHostile(g.ta('p', from), h).Tok(), strTok(g.text(64)), strTok(g.text(64)), strTok(g.urlOrEmpty()), strTok(g.text(256)), "0", st(0, 1, 1, 3, 3, 2)}
	case "node_register":
		gbp, n1 := g.priceList()
		hrp, n2 := g.priceList()
		if np := g.e.nodeParams(ctx); g.chance(0.85) && !n1 && !n2 {
			gbp = fitBounds(gbp, np.MaxGigabytePrices, np.MinGigabytePrices)
			hrp = fitBounds(hrp, np.MaxHourlyPrices, np.MinHourlyPrices)
		}
		return []string{kind, g.maybeHostile(g.ta('a', a.Bytes), 0.05).Tok(), coinsTok(gbp, n1), coinsTok(hrp, n2), strTok(g.urlStr()), "0"}
	case "node_update_details":
		gbp, n1 := g.priceList()
		hrp, n2 := g.priceList()
		if np := g.e.nodeParams(ctx); g.chance(0.85) && !n1 && !n2 {
			gbp = fitBounds(gbp, np.MaxGigabytePrices, np.MinGigabytePrices)
			hrp = fitBounds(hrp, np.MaxHourlyPrices, np.MinHourlyPrices)
		}
		if g.chance(0.4) {
			gbp, n1 = nil, true
		}
		if g.chance(0.4) {
			hrp, n2 = nil, true
		}
		return []string{kind, g.maybeHostile(g.ta('n', nodeAddr()), h).Tok(), coinsTok(gbp, n1), coinsTok(hrp, n2), strTok(g.urlStr()), "0"}
	case "node_update_status":
		return []string{kind, g.maybeHostile(g.ta('n', nodeAddr()), h).Tok(), st(1, 1, 1, 1, 1, 1, 1, 3, 3, 2, 0)}
	case "node_subscribe":
		gbv, hrv := int64(0), int64(0)
		np := g.e.nodeParams(ctx)
		lease := false
		if len(plans) > 0 && g.chance(0.3) {
			// a plan's provider leases a linked node by the hour (needed for sessions on plan subscriptions)
			pl := plans[g.pick(len(plans))]
			lnk := vk.Node.GetNodesForPlan(ctx, pl.ID)
			if len(lnk) > 0 {
				lease = true
				a = Actor{Bytes: pl.GetProviderAddress()}
				n := lnk[g.pick(len(lnk))]
				nodes = nodes[:0]
				nodes = append(nodes, n)
			}
		}
		if g.chance(0.5) && !lease {
			gbv = np.MinSubscriptionGigabytes + int64(g.pick(int(np.MaxSubscriptionGigabytes-np.MinSubscriptionGigabytes+1)))
		} else {
			span := np.MaxSubscriptionHours - np.MinSubscriptionHours + 1
			if span > 6 && g.chance(0.9) {
				span = 6
			}
			hrv = np.MinSubscriptionHours + int64(g.pick(int(span)))
		}
		switch g.pick(25) {
		case 0:
			gbv, hrv = 0, 0
		case 1:
			gbv, hrv = 1, 1
		case 2:
			gbv = np.MaxSubscriptionGigabytes + 1
			hrv = 0
		case 3:
			hrv = np.MaxSubscriptionHours + 1
			gbv = 0
		case 4:
			gbv = -1
		case 5:
			gbv, hrv = 0, np.MinSubscriptionHours-1
		}
		na := activeNodeAddr()
		dd := denom()
		if n, ok := vk.Node.GetNode(ctx, na); ok && g.chance(0.85) {
			ps := n.GigabytePrices
			if hrv != 0 {
				ps = n.HourlyPrices
			}
			if len(ps) > 0 {
				dd = fmt.Sprint(denomNum(ps[g.pick(len(ps))].Denom))
			}
		}
		return []string{kind, g.maybeHostile(g.ta('a', a.Bytes), 0.03).Tok(), g.maybeHostile(g.ta('n', na), 0.06).Tok(), fmt.Sprint(gbv), fmt.Sprint(hrv), dd}
	case "plan_create":
		from := a.Bytes
		if len(provs) > 0 && g.chance(0.9) {
			from = provs[g.pick(len(provs))].GetAddress()
		}
		pr, n1 := g.priceList()
		dur := g.oneOf(bmul(sec, 60), hr, bmul(hr, 24*30), big.NewInt(1), big.NewInt(0), big.NewInt(-5))
		if g.chance(0.8) {
			dur = g.oneOf(bmul(sec, 60), hr, bmul(hr, 24*30), bmul(sec, 300))
		}
		gbs := int64(1 + g.pick(10))
		if g.chance(0.05) {
			gbs = int64(g.pick(2)) - 1
		}
		return []string{kind, g.maybeHostile(g.ta('p', from), 0.06).Tok(), dur.String(), fmt.Sprint(gbs), coinsTok(pr, n1)}
	case "plan_update_status", "plan_link", "plan_unlink":
		ids := []uint64{}
		for _, p := range plans {
			ids = append(ids, p.ID)
		}
		id := g.idOr(ids)
		from := a.Bytes
		if p, ok := vk.Plan.GetPlan(ctx, id); ok {
			from = p.GetProviderAddress()
		}
		if kind == "plan_update_status" {
			return []string{kind, g.maybeHostile(g.ta('p', from), h).Tok(), fmt.Sprint(id), st(1, 1, 1, 1, 1, 1, 3, 2, 0)}
		}
		return []string{kind, g.maybeHostile(g.ta('p', from), h).Tok(), fmt.Sprint(id), g.maybeHostile(g.ta('n', nodeAddr()), 0.06).Tok()}
	case "plan_subscribe":
		ids := []uint64{}
		for _, p := range plans {
			ids = append(ids, p.ID)
		}
		actIds := []uint64{}
		for _, p := range plans {
			if p.Status == hubtypes.StatusActive {
				actIds = append(actIds, p.ID)
			}
		}
		if len(actIds) > 0 && g.chance(0.9) {
			ids = actIds
		}
		pid := g.idOr(ids)
		dd := denom()
		if pl, ok := vk.Plan.GetPlan(ctx, pid); ok && g.chance(0.85) && len(pl.Prices) > 0 {
			dd = fmt.Sprint(denomNum(pl.Prices[g.pick(len(pl.Prices))].Denom))
		}
		return []string{kind, g.maybeHostile(g.ta('a', a.Bytes), 0.03).Tok(), fmt.Sprint(pid), dd}
	case "sub_cancel", "sub_allocate":
		ids := []uint64{}
		for _, s := range subs {
			if kind == "sub_cancel" || g.chance(0.15) {
				ids = append(ids, s.GetID())
			} else if _, ok := s.(*subscriptiontypes.PlanSubscription); ok {
				ids = append(ids, s.GetID())
			}
		}
		id := g.idOr(ids)
		from := a.Bytes
		var quota *big.Int
		if s, ok := vk.Subscription.GetSubscription(ctx, id); ok {
			from = s.GetAddress()
			if al, ok := vk.Subscription.GetAllocation(ctx, id, s.GetAddress()); ok {
				quota = al.GrantedBytes.BigInt()
			}
		}
		if kind == "sub_cancel" {
			return []string{kind, g.maybeHostile(g.ta('a', from), h).Tok(), fmt.Sprint(id)}
		}
		to := g.actor().Bytes
		if g.chance(0.05) {
			to = from
		}
		bytes := g.byteLadder(quota)
		// re-allocation to an existing holder, with amounts around that holder's usage and the sender's free quota
		if als := vk.Subscription.GetAllocationsForSubscription(ctx, id); len(als) > 1 && g.chance(0.6) {
			al := als[g.pick(len(als))]
			if addr, err := sdk.AccAddressFromBech32(al.Address); err == nil && !bytesEq(addr, from) {
				to = addr
				used := al.UtilisedBytes.BigInt()
				free := big.NewInt(0)
				if fal, ok := vk.Subscription.GetAllocation(ctx, id, from); ok {
					free = bsub(badd(fal.GrantedBytes.BigInt(), al.GrantedBytes.BigInt()), badd(fal.UtilisedBytes.BigInt(), used))
				}
				cands := []*big.Int{used, bsub(used, big.NewInt(1)), badd(used, big.NewInt(1)), big.NewInt(0), free, badd(free, big.NewInt(1)),
					bsub(free, big.NewInt(1)), al.GrantedBytes.BigInt(), new(big.Int).Rsh(used, 1), badd(used, new(big.Int).Rsh(free, 1))}
				c := cands[g.pick(len(cands))]
				if c.Sign() >= 0 {
					bytes = c
				}
			}
		}
		return []string{kind, g.maybeHostile(g.ta('a', from), h).Tok(), fmt.Sprint(id), g.maybeHostile(g.ta('a', to), 0.05).Tok(), bytes.String()}
	case "sess_start":
		ids := []uint64{}
		for _, s := range subs {
			if s.GetStatus() == hubtypes.StatusActive || g.chance(0.1) {
				ids = append(ids, s.GetID())
			}
		}
		id := g.idOr(ids)
		from := a.Bytes
		nd := nodeAddr()
		if s, ok := vk.Subscription.GetSubscription(ctx, id); ok {
			switch x := s.(type) {
			case *subscriptiontypes.NodeSubscription:
				from = s.GetAddress()
				if g.chance(0.9) {
					nd = x.GetNodeAddress()
				}
			case *subscriptiontypes.PlanSubscription:
				als := vk.Subscription.GetAllocationsForSubscription(ctx, id)
				if len(als) > 0 && g.chance(0.9) {
					from = als[g.pick(len(als))].GetAddress()
				}
				lnk := vk.Node.GetNodesForPlan(ctx, x.PlanID)
				if len(lnk) > 0 && g.chance(0.85) {
					nd = lnk[g.pick(len(lnk))].GetAddress()
				}
			}
		}
		return []string{kind, g.maybeHostile(g.ta('a', from), h).Tok(), fmt.Sprint(id), g.maybeHostile(g.ta('n', nd), 0.06).Tok()}
	case "sess_update", "sess_end":
		ids := []uint64{}
		for _, s := range sessions {
			ids = append(ids, s.ID)
		}
		id := g.idOr(ids)
		s, ok := vk.Session.GetSession(ctx, id)
		if kind == "sess_end" {
			from := a.Bytes
			if ok {
				from = s.GetAddress()
			}
			rating := g.pick(11)
			if g.chance(0.04) {
				rating = 11
			}
			return []string{kind, g.maybeHostile(g.ta('a', from), h).Tok(), fmt.Sprint(id), fmt.Sprint(rating)}
		}
		from := nodeAddr()
		var quota *big.Int
		if ok {
			from = s.GetNodeAddress()
			if al, ok2 := vk.Subscription.GetAllocation(ctx, s.SubscriptionID, s.GetAddress()); ok2 {
				quota = al.GrantedBytes.BigInt()
			}
		}
		up, down := g.byteLadder(quota), g.byteLadder(quota)
		if g.chance(0.5) {
			down = big.NewInt(0)
		}
		repeat := false
		if ok && g.chance(0.12) {
			// the very figures the session already records (a keep-alive; 0/0/0 on a fresh session)
			up, down = s.Bandwidth.Upload.BigInt(), s.Bandwidth.Download.BigInt()
			repeat = true
		}
		if g.chance(0.02) {
			up = big.NewInt(-1)
		}
		dur := int64(g.pick(100000))
		if g.chance(0.03) {
			dur = -1
		}
		if repeat {
			dur = int64(s.Duration)
		}
		sig := "nil"
		if ok && up.Sign() >= 0 && up.BitLen() <= 256 && down.BitLen() <= 256 {
			proof := sessiontypes.Proof{ID: id, Bandwidth: hubtypes.NewBandwidth(intOf(up), intOf(down)), Duration: time.Duration(dur)}
			bz, _ := proof.Marshal()
			var signer *secp256k1.PrivKey
			for _, ac := range g.actors {
				if ac.Priv != nil && string(ac.Bytes) == string(s.GetAddress()) {
					signer = ac.Priv
				}
			}
			switch {
			case signer != nil && g.chance(0.1):
				// a genuine signature of the subscriber, but over OTHER figures than the reported ones
				other := proof
				small := proof.Bandwidth.Upload.BigInt().BitLen() < 200 && proof.Bandwidth.Download.BigInt().BitLen() < 200
				switch k := g.pick(4); {
				case k == 1 && small:
					other.Bandwidth = hubtypes.NewBandwidth(proof.Bandwidth.Upload.AddRaw(1), proof.Bandwidth.Download)
				case k == 2 && small:
					other.Bandwidth = hubtypes.NewBandwidth(proof.Bandwidth.Upload, proof.Bandwidth.Download.AddRaw(1))
				case k == 3:
					other.ID = proof.ID + 1
				default:
					other.Duration = proof.Duration + 1
				}
				obz, _ := other.Marshal()
				sb, _ := signer.Sign(obz)
				sig = hex.EncodeToString(sb)
			case signer != nil && g.chance(0.8):
				sb, _ := signer.Sign(bz)
				sig = hex.EncodeToString(sb)
			case g.chance(0.3):
				sig = hex.EncodeToString(g.randBytes(64))
			case g.chance(0.2):
				sig = hex.EncodeToString(g.randBytes(63))
			case g.chance(0.3) && g.actors[2].Priv != nil:
				sb, _ := g.actors[2].Priv.Sign(bz)
				sig = hex.EncodeToString(sb)
			}
		}
		return []string{kind, g.maybeHostile(g.ta('n', from), h).Tok(), fmt.Sprint(id), up.String(), down.String(), fmt.Sprint(dur), sig, "0"}
	case "swap":
		wp := g.e.swapParams(ctx)
		from := parseTAddr(textToTok(wp.ApproveBy))
		hash := g.randBytes(32)
		if len(g.usedHashes) > 0 && g.chance(0.3) {
			hash = g.usedHashes[g.pick(len(g.usedHashes))]
		}
		switch g.pick(20) {
		case 0:
			hash = hash[:31]
		case 1:
			hash = append([]byte{0}, hash...)
		case 2:
			hash = append([]byte{0}, hash[1:]...)
		}
		g.usedHashes = append(g.usedHashes, hash)
		rcv := g.ta('a', g.actor().Bytes)
		if g.chance(0.08) {
			rcv.Bytes = g.e.modAddr(authtypes.FeeCollectorName)
		}
		amt := g.oneOf(big.NewInt(100), big.NewInt(99), big.NewInt(199), big.NewInt(12345), pow(10, 20), bsub(pow(2, 256), big.NewInt(1)), big.NewInt(0))
		return []string{kind, g.maybeHostile(from, 0.15).Tok(), "h:" + hex.EncodeToString(hash), g.maybeHostile(rcv, 0.05).Tok(), amt.String()}
	}
	panic("no kind")
}

func (g *Gen) urlOrEmpty() string {
	switch g.pick(8) {
	case 0:
		return "https://provider.example"
	case 1:
		return "not a url"
	case 2:
		return strings.Repeat("w", 65)
	default:
		return ""
	}
}

// genGov: parameter changes that stay inside DESIGN §5.1/§5.3
func (g *Gen) genGov() []string {
	if g.chance(0.15) {
		return g.badGov()
	}
	out := []string{}
	n := 1 + g.pick(3)
	np := g.e.nodeParams(g.e.ctx)
	for i := 0; i < n; i++ {
		switch g.pick(12) {
		case 0, 1, 2:
			mx, mn := g.boundPair()
			if !g.noCross && g.chance(0.12) {
				// crossed bounds: the validators are per key, so a minimum above the maximum is accepted; the end-blocker
				// must still terminate (C03), the price statement (C11) does not apply to such a history any more
				mx, mn = g.crossedPair()
				out = append(out, "max_gb", coinsTok(mx, false), "min_gb", coinsTok(mn, false))
				np.MaxGigabytePrices, np.MinGigabytePrices = coinsSdk(mx), coinsSdk(mn)
				g.stats["gen.gov.crossed"]++
				continue
			}
			// any subset of the four vectors, but keep min <= max against the vectors that stay
			// (np tracks the changes already made by this proposal)
			if g.chance(0.5) {
				out = append(out, "max_gb", coinsTok(mx, false), "min_gb", coinsTok(mn, false))
				np.MaxGigabytePrices, np.MinGigabytePrices = coinsSdk(mx), coinsSdk(mn)
			} else if g.chance(0.5) {
				c := clampBelow(mn, np.MaxGigabytePrices)
				out = append(out, "min_gb", coinsTok(c, false))
				np.MinGigabytePrices = coinsSdk(c)
			} else {
				c := clampAbove(mx, np.MinGigabytePrices)
				out = append(out, "max_gb", coinsTok(c, false))
				np.MaxGigabytePrices = coinsSdk(c)
			}
		case 3, 4, 5:
			mx, mn := g.boundPair()
			if !g.noCross && g.chance(0.12) {
				mx, mn = g.crossedPair()
				out = append(out, "max_hr", coinsTok(mx, false), "min_hr", coinsTok(mn, false))
				np.MaxHourlyPrices, np.MinHourlyPrices = coinsSdk(mx), coinsSdk(mn)
				g.stats["gen.gov.crossed"]++
				continue
			}
			if g.chance(0.5) {
				out = append(out, "max_hr", coinsTok(mx, false), "min_hr", coinsTok(mn, false))
				np.MaxHourlyPrices, np.MinHourlyPrices = coinsSdk(mx), coinsSdk(mn)
			} else if g.chance(0.5) {
				c := clampBelow(mn, np.MaxHourlyPrices)
				out = append(out, "min_hr", coinsTok(c, false))
				np.MinHourlyPrices = coinsSdk(c)
			} else {
				c := clampAbove(mx, np.MinHourlyPrices)
				out = append(out, "max_hr", coinsTok(c, false))
				np.MaxHourlyPrices = coinsSdk(c)
			}
		case 6:
			out = append(out, "node_share", g.share().String())
		case 7:
			out = append(out, "prov_share", g.share().String())
		case 8:
			// session delay may never exceed the current (and hence any later) subscription delay
			d := g.oneOf(big.NewInt(1), bmul(sec, 3), bmul(sec, 10), bmul(sec, 120))
			if d.Cmp(g.subDelay) > 0 {
				d = g.subDelay
			}
			if d.Cmp(g.maxSessDelay) > 0 {
				g.maxSessDelay = d
			}
			out = append(out, "sess_delay", d.String())
		case 9:
			d := badd(g.maxSessDelay, g.oneOf(big.NewInt(0), bmul(sec, 7), hr))
			g.subDelay = d
			out = append(out, "sub_delay", d.String())
		case 10:
			mn := int64(1 + g.pick(2))
			out = append(out, "min_sub_gb", fmt.Sprint(mn), "max_sub_gb", fmt.Sprint(mn+int64(g.pick(10))))
		case 11:
			switch g.pick(4) {
			case 0:
				out = append(out, "sess_proof", boolTok(g.chance(0.5)))
			case 1:
				out = append(out, "swap_enabled", boolTok(g.chance(0.7)))
			case 2:
				out = append(out, "node_deposit", coinTok(Coin{1 + g.pick(2), big.NewInt(int64(g.pick(3) * 10))}))
			case 3:
				out = append(out, "node_active", g.oneOf(bmul(sec, 30), hr, big.NewInt(100)).String())
			}
		}
	}
	// a key may appear once per line
	seen := map[string]bool{}
	dedup := []string{}
	for i := 0; i+1 < len(out); i += 2 {
		if !seen[out[i]] {
			seen[out[i]] = true
			dedup = append(dedup, out[i], out[i+1])
		}
	}
	return dedup
}

func clampBelow(mn []Coin, mx sdk.Coins) []Coin {
	out := []Coin{}
	for _, c := range mn {
		lim := mx.AmountOf(denomName(c.Denom))
		if !lim.IsZero() && c.Amount.Cmp(lim.BigInt()) > 0 {
			c.Amount = lim.BigInt()
		}
		out = append(out, c)
	}
	return out
}
func clampAbove(mx []Coin, mn sdk.Coins) []Coin {
	out := []Coin{}
	for _, c := range mx {
		lim := mn.AmountOf(denomName(c.Denom))
		if c.Amount.Cmp(lim.BigInt()) < 0 {
			c.Amount = lim.BigInt()
		}
		out = append(out, c)
	}
	return out
}

func bytesEq(a, b []byte) bool { return string(a) == string(b) }

// goalTx looks at the current state and returns the next transaction of a scenario that ordinary
// random choice reaches rarely: provider with an active plan, linked and leased nodes, a plan
// subscription whose quota is shared, sessions of the co-holders with reported usage, and then
// re-allocations around what the holders have already used.  Returns nil when nothing applies.
func (g *Gen) goalTx() []string {
	if g.chance(0.4) {
		if t := g.goalNodeSession(); t != nil {
			return t
		}
	}
	ctx := g.e.ctx
	vk := g.e.vk
	np := g.e.nodeParams(ctx)
	funded := func(min int64) []Actor {
		out := []Actor{}
		for _, a := range g.actors {
			if g.e.bk.GetBalance(ctx, a.Bytes, denomName(1)).Amount.GT(sdk.NewInt(min)) {
				out = append(out, a)
			}
		}
		return out
	}
	provs := vk.Provider.GetProviders(ctx)
	if len(provs) == 0 {
		fa := funded(1000)
		if len(fa) == 0 {
			return nil
		}
		return []string{"prov_register", g.ta('a', fa[g.pick(len(fa))].Bytes).Tok(), strTok("goal"), strTok(""), strTok(""), strTok(""), "0"}
	}
	active := []sdk.AccAddress{}
	nodes := vk.Node.GetNodes(ctx)
	for _, n := range nodes {
		if n.Status == hubtypes.StatusActive {
			active = append(active, n.GetAddress().Bytes())
		}
	}
	if len(nodes) < 2 {
		fa := funded(1000)
		if len(fa) == 0 {
			return nil
		}
		gbp := fitBounds([]Coin{{1, big.NewInt(int64(1000 + g.pick(5000)))}}, np.MaxGigabytePrices, np.MinGigabytePrices)
		hrp := fitBounds([]Coin{{1, big.NewInt(int64(5 + g.pick(50)))}}, np.MaxHourlyPrices, np.MinHourlyPrices)
		return []string{"node_register", g.ta('a', fa[g.pick(len(fa))].Bytes).Tok(), coinsTok(gbp, false), coinsTok(hrp, false), strTok("https://n.example"), "0"}
	}
	if len(active) < 2 {
		for _, n := range nodes {
			if n.Status != hubtypes.StatusActive {
				return []string{"node_update_status", g.ta('n', n.GetAddress().Bytes()).Tok(), "1"}
			}
		}
	}
	plans := vk.Plan.GetPlans(ctx)
	if len(plans) == 0 {
		return []string{"plan_create", g.ta('p', provs[0].GetAddress().Bytes()).Tok(), bmul(hr, int64(2+g.pick(48))).String(), fmt.Sprint(1 + g.pick(3)), "[1:" + fmt.Sprint(5+g.pick(500)) + "]"}
	}
	pl := plans[g.pick(len(plans))]
	pa := pl.GetProviderAddress()
	if pl.Status != hubtypes.StatusActive {
		return []string{"plan_update_status", g.ta('p', pa.Bytes()).Tok(), fmt.Sprint(pl.ID), "1"}
	}
	// a linked, active node leased by the plan's provider
	var served sdk.AccAddress
	linked := vk.Node.GetNodesForPlan(ctx, pl.ID)
	for _, n := range linked {
		if n.Status != hubtypes.StatusActive {
			continue
		}
		if _, ok := vk.Subscription.GetLatestPayoutForAccountByNode(ctx, pa.Bytes(), n.GetAddress()); ok {
			served = n.GetAddress().Bytes()
		}
	}
	if served == nil {
		if len(active) == 0 {
			return nil
		}
		na := active[g.pick(len(active))]
		isLinked := false
		for _, n := range linked {
			if string(n.GetAddress().Bytes()) == string(na) {
				isLinked = true
			}
		}
		if !isLinked {
			return []string{"plan_link", g.ta('p', pa.Bytes()).Tok(), fmt.Sprint(pl.ID), g.ta('n', na).Tok()}
		}
		hours := np.MinSubscriptionHours + int64(g.pick(3))
		return []string{"node_subscribe", g.ta('a', pa.Bytes()).Tok(), g.ta('n', na).Tok(), "0", fmt.Sprint(hours), "1"}
	}
	// the provider cancels a lease whose hours are all paid (the payout is exhausted but the lease still runs)
	if g.chance(0.12) {
		for _, n := range linked {
			if po, ok := vk.Subscription.GetLatestPayoutForAccountByNode(ctx, pa.Bytes(), n.GetAddress()); ok && (po.Hours == 0 || g.chance(0.3)) {
				g.stats["gen.goal.lease_cancel"]++
				return []string{"sub_cancel", g.ta('a', pa.Bytes()).Tok(), fmt.Sprint(po.ID)}
			}
		}
	}
	// an active subscription to this plan
	var psub *subscriptiontypes.PlanSubscription
	for _, sb := range vk.Subscription.GetSubscriptions(ctx) {
		if x, ok := sb.(*subscriptiontypes.PlanSubscription); ok && x.PlanID == pl.ID && x.Status == hubtypes.StatusActive {
			psub = x
		}
	}
	if psub == nil {
		fa := funded(10000)
		if len(fa) == 0 {
			return nil
		}
		return []string{"plan_subscribe", g.ta('a', fa[g.pick(len(fa))].Bytes).Tok(), fmt.Sprint(pl.ID), "1"}
	}
	owner := psub.GetAddress()
	als := vk.Subscription.GetAllocationsForSubscription(ctx, psub.ID)
	if len(als) < 3 {
		to := g.actors[g.pick(len(g.actors))].Bytes
		quota := bmul(gb, pl.Gigabytes)
		return []string{"sub_allocate", g.ta('a', owner.Bytes()).Tok(), fmt.Sprint(psub.ID), g.ta('a', to).Tok(), new(big.Int).Div(quota, big.NewInt(int64(2+g.pick(4)))).String()}
	}
	// a co-holder that has consumed quota: move quota around what it has used
	for _, k := range g.r.Perm(len(als)) {
		al := als[k]
		ad, err := sdk.AccAddressFromBech32(al.Address)
		if err != nil || string(ad.Bytes()) == string(owner.Bytes()) || !al.UtilisedBytes.IsPositive() || !g.chance(0.5) {
			continue
		}
		used := al.UtilisedBytes.BigInt()
		c := g.oneOf(bsub(used, big.NewInt(1)), new(big.Int).Rsh(used, 1), used, badd(used, big.NewInt(1)), big.NewInt(0), al.GrantedBytes.BigInt())
		return []string{"sub_allocate", g.ta('a', owner.Bytes()).Tok(), fmt.Sprint(psub.ID), g.ta('a', ad).Tok(), c.String()}
	}
	// co-holders: start, report, end
	for _, k := range g.r.Perm(len(als)) {
		al := als[k]
		ad, err := sdk.AccAddressFromBech32(al.Address)
		if err != nil {
			continue
		}
		ss, found := vk.Session.GetLatestSessionForAllocation(ctx, psub.ID, ad)
		switch {
		case (!found || ss.Status != hubtypes.StatusActive) && al.UtilisedBytes.LT(al.GrantedBytes) && g.chance(0.7):
			nd := served
			if len(linked) > 0 && g.chance(0.25) {
				nd = linked[g.pick(len(linked))].GetAddress().Bytes() // linked, whatever its lease
			}
			return []string{"sess_start", g.ta('a', ad).Tok(), fmt.Sprint(psub.ID), g.ta('n', nd).Tok()}
		case found && ss.Status == hubtypes.StatusActive && ss.Bandwidth.Sum().IsZero():
			free := bsub(al.GrantedBytes.BigInt(), al.UtilisedBytes.BigInt())
			up := g.oneOf(new(big.Int).Rsh(free, 1), new(big.Int).Rsh(free, 2), free, badd(free, big.NewInt(1)), big.NewInt(1), big.NewInt(1000003))
			sig := "nil"
			dur := int64(g.pick(5000))
			proof := sessiontypes.Proof{ID: ss.ID, Bandwidth: hubtypes.NewBandwidth(intOf(up), intOf(big.NewInt(0))), Duration: time.Duration(dur)}
			bz, _ := proof.Marshal()
			for _, ac := range g.actors {
				if ac.Priv != nil && string(ac.Bytes) == string(ad.Bytes()) {
					sb, _ := ac.Priv.Sign(bz)
					sig = hex.EncodeToString(sb)
				}
			}
			ok := "0"
			if sig != "nil" {
				ok = "1"
			}
			return []string{"sess_update", g.ta('n', ss.GetNodeAddress().Bytes()).Tok(), fmt.Sprint(ss.ID), up.String(), "0", fmt.Sprint(dur), sig, ok}
		case found && ss.Status == hubtypes.StatusActive && g.chance(0.6):
			return []string{"sess_end", g.ta('a', ad).Tok(), fmt.Sprint(ss.ID), fmt.Sprint(g.pick(11))}
		}
	}
	return nil
}

// goalNodeSession drives repeated metered sessions on a per-gigabyte node subscription
// (several settlements with byte counts that are not multiples of a base unit's worth).
func (g *Gen) goalNodeSession() []string {
	ctx := g.e.ctx
	vk := g.e.vk
	np := g.e.nodeParams(ctx)
	var ns *subscriptiontypes.NodeSubscription
	for _, sb := range vk.Subscription.GetSubscriptions(ctx) {
		if x, ok := sb.(*subscriptiontypes.NodeSubscription); ok && x.Gigabytes > 0 && x.Status == hubtypes.StatusActive {
			if n, found := vk.Node.GetNode(ctx, x.GetNodeAddress()); found && n.Status == hubtypes.StatusActive {
				ns = x
			}
		}
	}
	if ns == nil {
		for _, n := range vk.Node.GetNodes(ctx) {
			if n.Status != hubtypes.StatusActive || len(n.GigabytePrices) == 0 {
				continue
			}
			pr := n.GigabytePrices[g.pick(len(n.GigabytePrices))]
			for _, a := range g.actors {
				need := pr.Amount.MulRaw(np.MinSubscriptionGigabytes + 2)
				if g.e.bk.GetBalance(ctx, a.Bytes, pr.Denom).Amount.GT(need) {
					return []string{"node_subscribe", g.ta('a', a.Bytes).Tok(), g.ta('n', n.GetAddress().Bytes()).Tok(),
						fmt.Sprint(np.MinSubscriptionGigabytes + int64(g.pick(2))), "0", fmt.Sprint(denomNum(pr.Denom))}
				}
			}
		}
		return nil
	}
	owner := ns.GetAddress()
	al, ok := vk.Subscription.GetAllocation(ctx, ns.ID, owner)
	if !ok {
		return nil
	}
	ss, found := vk.Session.GetLatestSessionForAllocation(ctx, ns.ID, owner)
	switch {
	case (!found || ss.Status != hubtypes.StatusActive) && al.UtilisedBytes.LT(al.GrantedBytes):
		return []string{"sess_start", g.ta('a', owner.Bytes()).Tok(), fmt.Sprint(ns.ID), g.ta('n', ns.GetNodeAddress().Bytes()).Tok()}
	case found && ss.Status == hubtypes.StatusActive && ss.Bandwidth.Sum().IsZero():
		free := bsub(al.GrantedBytes.BigInt(), al.UtilisedBytes.BigInt())
		up := g.oneOf(big.NewInt(123456789), big.NewInt(1), big.NewInt(999999999), big.NewInt(1000003), big.NewInt(333333333),
			badd(new(big.Int).Div(free, big.NewInt(3)), big.NewInt(7)), big.NewInt(100000000))
		dur := int64(g.pick(5000))
		sig := "nil"
		proof := sessiontypes.Proof{ID: ss.ID, Bandwidth: hubtypes.NewBandwidth(intOf(up), intOf(big.NewInt(0))), Duration: time.Duration(dur)}
		bz, _ := proof.Marshal()
		for _, ac := range g.actors {
			if ac.Priv != nil && string(ac.Bytes) == string(owner.Bytes()) {
				sb, _ := ac.Priv.Sign(bz)
				sig = hex.EncodeToString(sb)
			}
		}
		return []string{"sess_update", g.ta('n', ss.GetNodeAddress().Bytes()).Tok(), fmt.Sprint(ss.ID), up.String(), "0", fmt.Sprint(dur), sig, "0"}
	case found && ss.Status == hubtypes.StatusActive:
		return []string{"sess_end", g.ta('a', owner.Bytes()).Tok(), fmt.Sprint(ss.ID), fmt.Sprint(g.pick(11))}
	}
	return nil
}

// badGov: a proposal with at least one change its per-key validator must refuse (the whole proposal then has no
// effect).  It touches no trajectory bookkeeping: the valid companions are changes the trajectory does not track.
func (g *Gen) badGov() []string {
	out := []string{}
	if g.chance(0.5) {
		out = append(out, "sess_proof", boolTok(g.chance(0.5)))
	}
	if g.chance(0.3) {
		out = append(out, "swap_enabled", boolTok(g.chance(0.7)))
	}
	one := new(big.Int).Exp(big.NewInt(10), big.NewInt(18), nil)
	i64 := new(big.Int).Lsh(big.NewInt(1), 63)
	switch g.pick(9) {
	case 0:
		out = append(out, []string{"node_share", "prov_share"}[g.pick(2)], g.oneOf(big.NewInt(-1), badd(one, big.NewInt(1)), bmul(one, 2), new(big.Int).Neg(one)).String())
	case 1:
		out = append(out, []string{"sess_delay", "sub_delay", "node_active"}[g.pick(3)], g.oneOf(big.NewInt(0), big.NewInt(-5), i64, new(big.Int).Neg(i64)).String())
	case 2:
		out = append(out, []string{"max_sub_gb", "min_sub_gb", "max_sub_hr", "min_sub_hr"}[g.pick(4)], g.oneOf(big.NewInt(0), big.NewInt(-1), i64).String())
	case 3:
		out = append(out, []string{"node_deposit", "prov_deposit"}[g.pick(2)], coinTok(Coin{1 + g.pick(2), g.oneOf(big.NewInt(-1), big.NewInt(-1000))}))
	case 4:
		out = append(out, []string{"node_deposit", "prov_deposit"}[g.pick(2)], coinTok(Coin{0, big.NewInt(10)}))
	case 5:
		k := []string{"max_gb", "min_gb", "max_hr", "min_hr"}[g.pick(4)]
		bad := [][]Coin{
			{{1, big.NewInt(0)}},
			{{1, big.NewInt(-3)}},
			{{2, big.NewInt(5)}, {1, big.NewInt(5)}},
			{{1, big.NewInt(5)}, {1, big.NewInt(6)}},
			{{0, big.NewInt(5)}},
			{{1, big.NewInt(5)}, {2, big.NewInt(0)}},
		}
		out = append(out, k, coinsTok(bad[g.pick(len(bad))], false))
	case 6:
		out = append(out, "swap_denom", "0")
	case 7:
		// a valid change first, the refused one last: nothing of the proposal may stay
		out = append(out, "node_share", g.share().String(), "prov_share", badd(one, big.NewInt(7)).String())
	case 8:
		out = append(out, "max_sub_hr", "5", "min_sub_hr", "0")
	}
	seen := map[string]bool{}
	dedup := []string{}
	for i := 0; i+1 < len(out); i += 2 {
		if !seen[out[i]] {
			seen[out[i]] = true
			dedup = append(dedup, out[i], out[i+1])
		}
	}
	return dedup
}

// relatedTx: an owner-restricted message whose sender is a PARTY of the record without being its owner: a holder of
// shared quota cancelling / re-sharing the subscription, the plan's provider or the node acting on a subscription,
// the subscription's owner ending a co-holder's session, another node linked to the plan reporting usage, ...
func (g *Gen) relatedTx() []string {
	ctx := g.e.ctx
	vk := g.e.vk
	subs := vk.Subscription.GetSubscriptions(ctx)
	sessions := vk.Session.GetSessions(ctx)
	switch g.pick(5) {
	case 0, 1: // subscription messages by a non-owner party
		if len(subs) == 0 {
			return nil
		}
		sb := subs[g.pick(len(subs))]
		owner := sb.GetAddress()
		parties := [][]byte{}
		for _, al := range vk.Subscription.GetAllocationsForSubscription(ctx, sb.GetID()) {
			if ad, err := sdk.AccAddressFromBech32(al.Address); err == nil && string(ad.Bytes()) != string(owner.Bytes()) {
				parties = append(parties, ad.Bytes())
			}
		}
		switch x := sb.(type) {
		case *subscriptiontypes.NodeSubscription:
			parties = append(parties, x.GetNodeAddress().Bytes())
		case *subscriptiontypes.PlanSubscription:
			if pl, ok := vk.Plan.GetPlan(ctx, x.PlanID); ok {
				parties = append(parties, pl.GetProviderAddress().Bytes())
			}
		}
		for _, ss := range sessions {
			if ss.SubscriptionID == sb.GetID() {
				parties = append(parties, ss.GetNodeAddress().Bytes())
			}
		}
		if len(parties) == 0 {
			return nil
		}
		from := parties[g.pick(len(parties))]
		if g.chance(0.6) {
			return []string{"sub_cancel", g.ta('a', from).Tok(), fmt.Sprint(sb.GetID())}
		}
		to := g.actors[g.pick(len(g.actors))].Bytes
		return []string{"sub_allocate", g.ta('a', from).Tok(), fmt.Sprint(sb.GetID()), g.ta('a', to).Tok(), g.oneOf(big.NewInt(0), big.NewInt(1), bmul(gb, 1)).String()}
	case 2: // a session ended by its subscription's owner, its node, or another holder
		if len(sessions) == 0 {
			return nil
		}
		ss := sessions[g.pick(len(sessions))]
		parties := [][]byte{ss.GetNodeAddress().Bytes()}
		if sb, ok := vk.Subscription.GetSubscription(ctx, ss.SubscriptionID); ok && string(sb.GetAddress().Bytes()) != string(ss.GetAddress().Bytes()) {
			parties = append(parties, sb.GetAddress().Bytes())
		}
		for _, al := range vk.Subscription.GetAllocationsForSubscription(ctx, ss.SubscriptionID) {
			if ad, err := sdk.AccAddressFromBech32(al.Address); err == nil && string(ad.Bytes()) != string(ss.GetAddress().Bytes()) {
				parties = append(parties, ad.Bytes())
			}
		}
		return []string{"sess_end", g.ta('a', parties[g.pick(len(parties))]).Tok(), fmt.Sprint(ss.ID), fmt.Sprint(g.pick(11))}
	case 3: // a usage report by another node (one linked to the same plan when there is one), signed correctly
		if len(sessions) == 0 {
			return nil
		}
		ss := sessions[g.pick(len(sessions))]
		var other []byte
		for _, n := range vk.Node.GetNodes(ctx) {
			if string(n.GetAddress().Bytes()) != string(ss.GetNodeAddress().Bytes()) {
				other = n.GetAddress().Bytes()
				if g.chance(0.5) {
					break
				}
			}
		}
		if other == nil {
			other = ss.GetAddress().Bytes()
		}
		up := big.NewInt(int64(1 + g.pick(1000000)))
		dur := int64(g.pick(5000))
		proof := sessiontypes.Proof{ID: ss.ID, Bandwidth: hubtypes.NewBandwidth(intOf(up), intOf(big.NewInt(0))), Duration: time.Duration(dur)}
		bz, _ := proof.Marshal()
		sig := "nil"
		for _, ac := range g.actors {
			if ac.Priv != nil && string(ac.Bytes) == string(ss.GetAddress().Bytes()) {
				sb, _ := ac.Priv.Sign(bz)
				sig = hex.EncodeToString(sb)
			}
		}
		return []string{"sess_update", g.ta('n', other).Tok(), fmt.Sprint(ss.ID), up.String(), "0", fmt.Sprint(dur), sig, "0"}
	case 4: // plan messages by another provider, or by a node linked to the plan
		plans := vk.Plan.GetPlans(ctx)
		if len(plans) == 0 {
			return nil
		}
		pl := plans[g.pick(len(plans))]
		parties := [][]byte{}
		for _, pv := range vk.Provider.GetProviders(ctx) {
			if string(pv.GetAddress().Bytes()) != string(pl.GetProviderAddress().Bytes()) {
				parties = append(parties, pv.GetAddress().Bytes())
			}
		}
		linked := vk.Node.GetNodesForPlan(ctx, pl.ID)
		for _, n := range linked {
			parties = append(parties, n.GetAddress().Bytes())
		}
		if len(parties) == 0 {
			return nil
		}
		from := g.ta('p', parties[g.pick(len(parties))]).Tok()
		nodes := vk.Node.GetNodes(ctx)
		switch {
		case len(linked) > 0 && g.chance(0.4):
			return []string{"plan_unlink", from, fmt.Sprint(pl.ID), g.ta('n', linked[g.pick(len(linked))].GetAddress().Bytes()).Tok()}
		case len(nodes) > 0 && g.chance(0.5):
			return []string{"plan_link", from, fmt.Sprint(pl.ID), g.ta('n', nodes[g.pick(len(nodes))].GetAddress().Bytes()).Tok()}
		default:
			return []string{"plan_update_status", from, fmt.Sprint(pl.ID), fmt.Sprint(1 + g.pick(2))}
		}
	}
	return nil
}
