package main

// C10 — supporting source scan.  `harness scan -repo DIR -out FILE`
//
// Type-checks (go/parser + go/types, export data from `go list -export`) every non-test package of the hub
// under x/, types/, utils/, app/ and lists, for the non-generated, non-CLI source files, every construct whose
// result can differ between two executions of the same history:
//
//   map-range    `for ... range m` where m has map type         (iteration order is randomised)
//   maps-iter    use of maps.Keys / maps.Values / maps.All      (same)
//   time-now     time.Now / time.Since / time.Until / time.After / time.Tick / time.NewTimer / time.NewTicker
//   rand         any use of math/rand, math/rand/v2, crypto/rand
//   go-stmt      `go f()`
//   select       `select { ... }`
//   chan         channel send / receive
//   float        an expression of floating-point (or complex) type, or a float literal
//   unsafe       any use of package unsafe
//   env          os.Getenv / os.LookupEnv / os.Environ / os.Hostname / os.Getpid / runtime.NumCPU / runtime.GOMAXPROCS / runtime.NumGoroutine
//   ptr-print    fmt verb %p in a format string literal
//
// One line per site:  kind <TAB> file:line <TAB> enclosing function <TAB> source text.
// Files skipped: *_test.go (not in GoFiles), *.pb.go, *.pb.gw.go, everything under client/ (CLI, REST), and in
// package app everything except the ABCI entry points, the upgrade handler and the ante handler.

import (
	"bufio"
	"bytes"
	"encoding/json"
	"flag"
	"fmt"
	"go/ast"
	"go/importer"
	"go/parser"
	"go/printer"
	"go/token"
	"go/types"
	"io"
	"os"
	"os/exec"
	"path/filepath"
	"sort"
	"strings"
)

func init() { extraCommands["scan"] = runScan }

type listedPkg struct {
	ImportPath string
	Dir        string
	Export     string
	GoFiles    []string
	CgoFiles   []string
	DepOnly    bool
	Standard   bool
	Module     *struct{ Path, Dir string }
	Error      *struct{ Err string }
}

type site struct {
	kind, file string
	line       int
	fn, text   string
}

func runScan(args []string) {
	fs := flag.NewFlagSet("scan", flag.ExitOnError)
	repo := fs.String("repo", "/repo", "")
	outPath := fs.String("out", "scan.txt", "")
	fs.Parse(args)

	cmd := exec.Command("go", "list", "-export", "-deps", "-json=ImportPath,Dir,Export,GoFiles,CgoFiles,DepOnly,Standard,Module,Error",
		"./x/...", "./types/...", "./utils/...", "./app/...")
	cmd.Dir = *repo
	cmd.Env = append(os.Environ(), "GOFLAGS=-mod=mod", "GOPROXY=off", "GOSUMDB=off", "GOTOOLCHAIN=local")
	var stderr bytes.Buffer
	cmd.Stderr = &stderr
	out, err := cmd.Output()
	if err != nil {
		fmt.Fprintf(os.Stderr, "scan: go list failed: %v\n%s\n", err, stderr.String())
		os.Exit(1)
	}
	exports := map[string]string{}
	var targets []listedPkg
	dec := json.NewDecoder(bytes.NewReader(out))
	for {
		var p listedPkg
		if err := dec.Decode(&p); err == io.EOF {
			break
		} else if err != nil {
			fmt.Fprintf(os.Stderr, "scan: bad go list output: %v\n", err)
			os.Exit(1)
		}
		if p.Error != nil {
			fmt.Fprintf(os.Stderr, "scan: package %s: %s\n", p.ImportPath, p.Error.Err)
			os.Exit(1)
		}
		if p.Export != "" {
			exports[p.ImportPath] = p.Export
		}
		if !p.DepOnly && !p.Standard {
			targets = append(targets, p)
		}
	}

	fset := token.NewFileSet()
	imp := importer.ForCompiler(fset, "gc", func(path string) (io.ReadCloser, error) {
		e, ok := exports[path]
		if !ok || e == "" {
			return nil, fmt.Errorf("no export data for %s", path)
		}
		return os.Open(e)
	})

	var sites []site
	nfiles, npkgs := 0, 0
	for _, p := range targets {
		rel, err := filepath.Rel(*repo, p.Dir)
		must(err)
		rel = filepath.ToSlash(rel)
		if strings.Contains("/"+rel+"/", "/client/") {
			continue
		}
		var files []*ast.File
		for _, f := range append(append([]string{}, p.GoFiles...), p.CgoFiles...) {
			af, err := parser.ParseFile(fset, filepath.Join(p.Dir, f), nil, parser.ParseComments)
			if err != nil {
				fmt.Fprintf(os.Stderr, "scan: %v\n", err)
				os.Exit(1)
			}
			files = append(files, af)
		}
		info := &types.Info{Types: map[ast.Expr]types.TypeAndValue{}, Uses: map[*ast.Ident]types.Object{}, Defs: map[*ast.Ident]types.Object{}}
		conf := types.Config{Importer: imp, Error: func(err error) {}}
		var firstErr error
		conf.Error = func(err error) {
			if firstErr == nil {
				firstErr = err
			}
		}
		_, _ = conf.Check(p.ImportPath, fset, files, info)
		if firstErr != nil {
			fmt.Fprintf(os.Stderr, "scan: type-check of %s failed: %v\n", p.ImportPath, firstErr)
			os.Exit(1)
		}
		npkgs++
		for _, af := range files {
			name := filepath.Base(fset.File(af.Pos()).Name())
			if strings.HasSuffix(name, ".pb.go") || strings.HasSuffix(name, ".pb.gw.go") {
				continue
			}
			nfiles++
			relFile := rel + "/" + name
			sites = append(sites, scanFile(fset, af, info, relFile, rel)...)
		}
	}
	sort.Slice(sites, func(i, j int) bool {
		a, b := sites[i], sites[j]
		if a.file != b.file {
			return a.file < b.file
		}
		if a.line != b.line {
			return a.line < b.line
		}
		return a.kind < b.kind
	})
	f, err := os.Create(*outPath)
	must(err)
	w := bufio.NewWriter(f)
	fmt.Fprintf(w, "# scanned %d packages, %d files\n", npkgs, nfiles)
	seen := map[string]bool{}
	for _, s := range sites {
		l := fmt.Sprintf("%s\t%s:%d\t%s\t%s", s.kind, s.file, s.line, s.fn, s.text)
		if seen[l] {
			continue
		}
		seen[l] = true
		fmt.Fprintln(w, l)
	}
	w.Flush()
	f.Close()
	fmt.Printf("scan: %d packages, %d files, %d sites\n", npkgs, nfiles, len(seen))
}

var appConsensusFuncs = map[string]bool{"BeginBlocker": true, "EndBlocker": true, "InitChainer": true}

func funcName(fd *ast.FuncDecl) string {
	if fd.Recv != nil && len(fd.Recv.List) > 0 {
		var b bytes.Buffer
		printer.Fprint(&b, token.NewFileSet(), fd.Recv.List[0].Type)
		return "(" + b.String() + ")." + fd.Name.Name
	}
	return fd.Name.Name
}

func src(fset *token.FileSet, n ast.Node) string {
	var b bytes.Buffer
	printer.Fprint(&b, fset, n)
	s := strings.Join(strings.Fields(b.String()), " ")
	if len(s) > 100 {
		s = s[:100] + "..."
	}
	return s
}

func isFloatish(t types.Type) bool {
	if t == nil {
		return false
	}
	b, ok := t.Underlying().(*types.Basic)
	return ok && b.Info()&(types.IsFloat|types.IsComplex) != 0
}

// isPkgLevelVar: does the assigned expression (through selectors, indexing, dereferences) root in a package-level variable?
// Writing one from a function body makes the result of a later call depend on what the process did before.
func isPkgLevelVar(info *types.Info, e ast.Expr) bool {
	for {
		switch x := e.(type) {
		case *ast.SelectorExpr:
			if id, ok := x.X.(*ast.Ident); ok {
				if _, isPkg := info.Uses[id].(*types.PkgName); isPkg {
					e = x.Sel
					continue
				}
			}
			e = x.X
		case *ast.IndexExpr:
			e = x.X
		case *ast.StarExpr:
			e = x.X
		case *ast.ParenExpr:
			e = x.X
		case *ast.Ident:
			obj := info.Uses[x]
			if obj == nil {
				obj = info.Defs[x]
			}
			v, ok := obj.(*types.Var)
			return ok && !v.IsField() && v.Pkg() != nil && v.Parent() == v.Pkg().Scope()
		default:
			return false
		}
	}
}

func scanFile(fset *token.FileSet, af *ast.File, info *types.Info, relFile, relDir string) []site {
	var out []site
	for _, decl := range af.Decls {
		fn := "(package level)"
		var body ast.Node = decl
		if fd, ok := decl.(*ast.FuncDecl); ok {
			fn = funcName(fd)
			if relDir == "app" {
				base := filepath.Base(relFile)
				if base != "upgrade.go" && !(base == "app.go" && appConsensusFuncs[fd.Name.Name]) {
					continue
				}
			}
		} else if relDir == "app" {
			continue
		}
		add := func(kind string, n ast.Node) {
			out = append(out, site{kind, relFile, fset.Position(n.Pos()).Line, fn, src(fset, n)})
		}
		ast.Inspect(body, func(n ast.Node) bool {
			switch x := n.(type) {
			case *ast.RangeStmt:
				if tv, ok := info.Types[x.X]; ok && tv.Type != nil {
					if _, isMap := tv.Type.Underlying().(*types.Map); isMap {
						out = append(out, site{"map-range", relFile, fset.Position(x.Pos()).Line, fn, "range " + src(fset, x.X)})
					}
					if _, isChan := tv.Type.Underlying().(*types.Chan); isChan {
						add("chan", x.X)
					}
				}
			case *ast.AssignStmt:
				if fn != "(package level)" && fn != "init" && x.Tok != token.DEFINE {
					for _, l := range x.Lhs {
						if isPkgLevelVar(info, l) {
							add("global-write", x)
							break
						}
					}
				}
			case *ast.IncDecStmt:
				if fn != "(package level)" && fn != "init" && isPkgLevelVar(info, x.X) {
					add("global-write", x)
				}
			case *ast.GoStmt:
				add("go-stmt", x)
			case *ast.SelectStmt:
				out = append(out, site{"select", relFile, fset.Position(x.Pos()).Line, fn, "select"})
			case *ast.SendStmt:
				add("chan", x)
			case *ast.UnaryExpr:
				if x.Op == token.ARROW {
					add("chan", x)
				}
			case *ast.BasicLit:
				if x.Kind == token.FLOAT || x.Kind == token.IMAG {
					add("float", x)
				}
				if x.Kind == token.STRING && strings.Contains(x.Value, "%p") {
					add("ptr-print", x)
				}
			case *ast.Ident:
				obj := info.Uses[x]
				if obj == nil {
					obj = info.Defs[x]
				}
				if obj != nil {
					if v, ok := obj.(*types.Var); ok && isFloatish(v.Type()) {
						add("float", x)
					}
					if tn, ok := obj.(*types.TypeName); ok && isFloatish(tn.Type()) {
						add("float", x)
					}
				}
				isMethod := false
				if f, ok := obj.(*types.Func); ok {
					if sig, ok := f.Type().(*types.Signature); ok && sig.Recv() != nil {
						isMethod = true
					}
				}
				if obj != nil && obj.Pkg() != nil && info.Uses[x] != nil && !isMethod {
					pp, name := obj.Pkg().Path(), obj.Name()
					switch pp {
					case "math/rand", "math/rand/v2", "crypto/rand":
						add("rand", x)
					case "unsafe":
						add("unsafe", x)
					case "time":
						switch name {
						case "Now", "Since", "Until", "After", "Tick", "NewTimer", "NewTicker", "AfterFunc", "Sleep":
							add("time-now", x)
						}
					case "os":
						switch name {
						case "Getenv", "LookupEnv", "Environ", "Hostname", "Getpid", "Getwd", "ExpandEnv":
							add("env", x)
						}
					case "runtime":
						switch name {
						case "NumCPU", "GOMAXPROCS", "NumGoroutine":
							add("env", x)
						}
					case "maps", "golang.org/x/exp/maps":
						switch name {
						case "Keys", "Values", "All":
							add("maps-iter", x)
						}
					}
				}
				if obj != nil && obj.Pkg() == nil {
					// universe scope / unsafe builtins
					if b, ok := obj.(*types.TypeName); ok && isFloatish(b.Type()) {
						add("float", x)
					}
				}
			case *ast.CallExpr:
				if tv, ok := info.Types[x]; ok && isFloatish(tv.Type) {
					add("float", x)
				}
			case *ast.BinaryExpr:
				if tv, ok := info.Types[x]; ok && isFloatish(tv.Type) && tv.Value == nil {
					add("float", x)
				}
			}
			return true
		})
	}
	return out
}
