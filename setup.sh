#!/bin/bash
# Build the framework from files on disk only (offline): Coq development, extracted model runner, harness.
set -e
cd "$(dirname "$0")"
export GOFLAGS=-mod=mod GOPROXY=off GOSUMDB=off GOTOOLCHAIN=local
mkdir -p out evidence
( cd coq && coq_makefile -f _CoqProject -o Makefile >/dev/null && timeout 3000 make -j16 >/dev/null )
( cd model && coqc -Q ../coq/theories Hub Extract.v >/dev/null 2>&1 && ocamlfind ocamlopt -package zarith -linkpkg -w -a hub_model.mli hub_model.ml driver.ml -o hub_model_run )
( cd harness && sed -e 's#^module .*#module hubverif/harness#' /repo/go.mod > go.mod && printf '\nrequire github.com/sentinel-official/hub/v12 v12.0.0\n\nreplace github.com/sentinel-official/hub/v12 => /repo\n' >> go.mod && cp /repo/go.sum go.sum && mkdir -p bin && go build -tags verif -o bin/harness . )
echo setup done
