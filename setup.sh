#!/bin/bash
# Build the framework from files on disk only (offline): Coq development, extracted model runner, harness, plug-in runners.
set -e
cd "$(dirname "$0")"
export GOFLAGS=-mod=mod GOPROXY=off GOSUMDB=off GOTOOLCHAIN=local
mkdir -p out evidence
python3 translator/gen.py >/dev/null
( cd coq && coq_makefile -f _CoqProject -o Makefile >/dev/null && timeout 3000 make -j16 >/dev/null )
( cd model && coqc -Q ../coq/theories Hub Extract.v >/dev/null 2>&1 && ocamlfind ocamlopt -package zarith -linkpkg -w -a hub_model.mli hub_model.ml driver.ml -o hub_model_run )
( cd harness && sed -e 's#^module .*#module hubverif/harness#' /repo/go.mod > go.mod && printf '\nrequire github.com/sentinel-official/hub/v12 v12.0.0\n\nreplace github.com/sentinel-official/hub/v12 => /repo\n' >> go.mod && cp /repo/go.sum go.sum && mkdir -p bin && go build -tags verif -o bin/harness . )
python3 - <<'PY'
import importlib.util, json, os, sys
V = os.getcwd()
claimed = [c["property_id"] for c in json.load(open(os.path.join(V, "MANIFEST.json")))["checks"]]
for path in sorted(os.path.join(V, "tools", "ext_%s.py" % p.lower()) for p in claimed):
    if not os.path.exists(path):
        continue
    spec = importlib.util.spec_from_file_location(os.path.basename(path)[:-3], path)
    mod = importlib.util.module_from_spec(spec)
    spec.loader.exec_module(mod)
    ok, err = mod.build(V, os.path.join(V, "out", "setup-ext.log"))
    if not ok:
        print("plug-in build failed:", path, err)
        sys.exit(1)
PY
echo setup done
