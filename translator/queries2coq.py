#!/usr/bin/env python3
"""queries2coq: the shape of every paginated list handler of the hub's gRPC query servers
-> coq/theories/Gen/QueryShapes.v  (rows of Model/Paginate.v `query_shape`).

For every function of /repo/x/*/keeper/*.go that calls a paginator of cosmos-sdk types/query it emits
  (module, handler, Paginate | FilteredPaginate, store-prefix constructor expression(s) as text,
   hit_depends_on_accumulate, appends_unguarded)
The last two are syntactic tests on the FilteredPaginate callback:
  hit_depends_on_accumulate  a `return true|false, nil` sits under an if/else whose condition mentions the
                             accumulate parameter (this covers the early `if !accumulate { return false, nil }`)
  appends_unguarded          an append to the result slice that is not inside `if accumulate { .. }`
Fail closed: every shape this script cannot classify is an error (exit 1), e.g. another paginator function,
a store that is not prefix.NewStore(q.Store(ctx), P), a hit that is not a literal, accumulate used outside an
if-condition, loops/switches inside a callback, a Paginate callback that skips records.

Python 3 standard library only.   usage: queries2coq.py [--repo /repo] [--out FILE | --print]
"""
import glob
import os
import re
import sys

HERE = os.path.dirname(os.path.abspath(__file__))
DEFAULT_OUT = os.path.join(os.path.dirname(HERE), "coq", "theories", "Gen", "QueryShapes.v")


class Unclassifiable(Exception):
    pass


def blank_comments_and_strings(src):
    """same length as src; comments -> spaces, contents of string/rune literals -> 'x' (newlines kept)"""
    out = list(src)
    i, n = 0, len(src)
    while i < n:
        c = src[i]
        if src.startswith("//", i):
            j = src.find("\n", i)
            j = n if j < 0 else j
            for k in range(i, j):
                out[k] = " "
            i = j
        elif src.startswith("/*", i):
            j = src.find("*/", i + 2)
            j = n if j < 0 else j + 2
            for k in range(i, j):
                if out[k] != "\n":
                    out[k] = " "
            i = j
        elif c == '"' or c == "'":
            j = i + 1
            while j < n and src[j] != c:
                if src[j] == "\\":
                    j += 1
                j += 1
            for k in range(i + 1, min(j, n)):
                out[k] = "x"
            i = j + 1
        elif c == "`":
            j = src.find("`", i + 1)
            j = n if j < 0 else j
            for k in range(i + 1, j):
                if out[k] != "\n":
                    out[k] = "x"
            i = j + 1
        else:
            i += 1
    return "".join(out)


OPEN = {"(": ")", "{": "}", "[": "]"}
CLOSE = {")", "}", "]"}


def match_close(s, i):
    """s[i] is an opening bracket; index of its closing bracket"""
    depth = 0
    j = i
    while j < len(s):
        ch = s[j]
        if ch in OPEN:
            depth += 1
        elif ch in CLOSE:
            depth -= 1
            if depth == 0:
                return j
        j += 1
    raise Unclassifiable("unbalanced bracket at offset %d" % i)


def split_top(s, sep=","):
    parts, depth, cur = [], 0, []
    for ch in s:
        if ch in OPEN:
            depth += 1
        elif ch in CLOSE:
            depth -= 1
        if ch == sep and depth == 0:
            parts.append("".join(cur))
            cur = []
        else:
            cur.append(ch)
    if "".join(cur).strip():
        parts.append("".join(cur))
    return [p.strip() for p in parts]


def norm(s):
    return re.sub(r"\s+", " ", s).strip()


# ------------------------------------------------------------------ statements of a callback body

def parse_block(body):
    """body: text between the braces of a block (comments/strings blanked).
    -> list of statements: ('if', cond, then_block, else_block|None) | ('return', [exprs]) | ('other', text)"""
    stmts = []
    i, n = 0, len(body)
    while i < n:
        while i < n and body[i] in " \t\r\n;":
            i += 1
        if i >= n:
            break
        m = re.compile(r"(for|switch|select|goto|defer|go)\b").match(body, i)
        if m:
            raise Unclassifiable("statement `%s` inside a paginator callback" % m.group(1))
        if re.compile(r"if\b").match(body, i):
            st, i = parse_if(body, i)
            stmts.append(st)
            continue
        # a simple statement: up to the end of line at bracket depth 0
        j, depth = i, 0
        while j < n:
            ch = body[j]
            if ch in OPEN:
                depth += 1
            elif ch in CLOSE:
                depth -= 1
            elif ch in "\n;" and depth == 0:
                break
            j += 1
        text = body[i:j].strip()
        i = j
        if re.match(r"return\b", text):
            stmts.append(("return", split_top(text[len("return"):])))
        else:
            if re.search(r"\b(for|switch|select|goto|defer|go)\b", text) or re.search(r"\bfunc\s*\(", text):
                raise Unclassifiable("statement `%s` inside a paginator callback" % norm(text)[:60])
            stmts.append(("other", norm(text)))
    return stmts


def parse_if(body, i):
    assert body.startswith("if", i)
    j = i + 2
    # header up to the opening brace of the then-block at depth 0
    depth = 0
    k = j
    while k < len(body):
        ch = body[k]
        if ch == "{" and depth == 0:
            break
        if ch in "([":
            depth += 1
        elif ch in ")]":
            depth -= 1
        k += 1
    if k >= len(body):
        raise Unclassifiable("if without block")
    header = body[j:k].strip()
    # `if init; cond {`
    parts = split_top(header, ";")
    init = parts[0] if len(parts) == 2 else None
    cond = parts[-1]
    e = match_close(body, k)
    then_block = parse_block(body[k + 1:e])
    if init is not None:
        then_block_init = ("other", norm(init))
    else:
        then_block_init = None
    p = e + 1
    m = re.compile(r"\s*else\b").match(body, p)
    else_block = None
    if m:
        p = m.end()
        while p < len(body) and body[p] in " \t\r\n":
            p += 1
        if body.startswith("if", p):
            st, p = parse_if(body, p)
            else_block = [st]
        elif p < len(body) and body[p] == "{":
            e2 = match_close(body, p)
            else_block = parse_block(body[p + 1:e2])
            p = e2 + 1
        else:
            raise Unclassifiable("malformed else")
    return ("if", norm(cond), then_block, else_block, then_block_init), p


def mentions(text, ident):
    return re.search(r"(?<![A-Za-z0-9_.])" + re.escape(ident) + r"(?![A-Za-z0-9_])", text) is not None


def ends_in_return(block):
    return bool(block) and block[-1][0] == "return"


def walk(stmts, conds, visit):
    """visit(kind, payload, conds) for every return / other statement; conds = the conditions the statement
    is under: (text, True) inside the then-block of `if text`, (text, False) inside its else-block or - for an
    if without else whose block ends in a return - in the statements that follow it in the same block."""
    conds = list(conds)
    for st in stmts:
        if st[0] == "if":
            _, cond, then_b, else_b, init = st
            if init is not None:
                visit("other", init[1], conds)
            visit("cond", cond, conds)
            walk(then_b, conds + [(cond, True, True)], visit)
            if else_b is not None:
                walk(else_b, conds + [(cond, False, True)], visit)
                if ends_in_return(then_b) and not ends_in_return(else_b):
                    conds.append((cond, False, False))
                elif ends_in_return(else_b) and not ends_in_return(then_b):
                    conds.append((cond, True, False))
            elif ends_in_return(then_b):
                conds.append((cond, False, False))
        else:
            visit(st[0], st[1], conds)


def classify_filtered(body, acc, result_var):
    stmts = parse_block(body)
    state = {"dep": False, "unguarded": False, "hits": 0, "appends": 0}

    def visit(kind, payload, conds):
        under_acc = any(mentions(c, acc) for c, _, _ in conds)
        if kind == "cond":
            return
        if kind == "return":
            if len(payload) != 2:
                raise Unclassifiable("FilteredPaginate callback return with %d results" % len(payload))
            for x in payload:
                if mentions(x, acc):
                    raise Unclassifiable("accumulate used in a return expression: %s" % ", ".join(payload))
            hit, err = payload
            if err == "nil":
                if hit not in ("true", "false"):
                    raise Unclassifiable("hit result is not a literal: return %s, nil" % hit)
                state["hits"] += 1
                if under_acc:
                    state["dep"] = True
            else:
                if hit != "false":
                    raise Unclassifiable("error return with hit %s" % hit)
            return
        # other statement
        text = payload
        if mentions(text, acc):
            raise Unclassifiable("accumulate used outside an if-condition: %s" % text[:80])
        for m in re.finditer(r"\bappend\s*\(", text):
            state["appends"] += 1
            if not re.match(r"%s\s*=\s*append\s*\(\s*%s\s*," % (re.escape(result_var), re.escape(result_var)), text):
                raise Unclassifiable("append that does not extend the result slice: %s" % text[:80])
            guarded = any((pos and (c == acc or re.match(re.escape(acc) + r"\s*&&", c))) or
                          (not pos and re.match(r"!\s*" + re.escape(acc) + r"$", c)) for c, pos, _ in conds)
            if not guarded:
                state["unguarded"] = True
        if re.match(re.escape(result_var) + r"\s*(=|:=)", text) and "append" not in text:
            raise Unclassifiable("result slice assigned without append: %s" % text[:80])

    walk(stmts, [], visit)
    # the last statement must be a return (no fall-through)
    if not stmts or stmts[-1][0] != "return":
        raise Unclassifiable("FilteredPaginate callback does not end in a return")
    if state["hits"] == 0:
        raise Unclassifiable("FilteredPaginate callback never returns a hit decision")
    if state["appends"] == 0:
        raise Unclassifiable("FilteredPaginate callback never appends to the result")
    return state["dep"], state["unguarded"]


def classify_plain(body, result_var):
    stmts = parse_block(body)
    appends_top = 0

    def visit(kind, payload, conds):
        conds = [c for c in conds if c[2]]
        if kind == "return":
            if len(payload) != 1:
                raise Unclassifiable("Paginate callback return with %d results" % len(payload))
            if payload[0] == "nil" and conds:
                raise Unclassifiable("Paginate callback skips a record (`return nil` under a condition)")
            return
        if kind == "other" and re.search(r"\bappend\s*\(", payload):
            if conds:
                raise Unclassifiable("Paginate callback appends under a condition: %s" % payload[:80])

    walk(stmts, [], visit)
    for st in stmts:
        if st[0] == "other" and re.search(r"\bappend\s*\(", st[1]):
            if not re.match(r"%s\s*=\s*append\s*\(\s*%s\s*,[^,]+\)$" % (re.escape(result_var), re.escape(result_var)), st[1]):
                raise Unclassifiable("append that does not add one element to the result slice: %s" % st[1][:80])
            appends_top += 1
    if appends_top != 1:
        raise Unclassifiable("Paginate callback appends %d times at top level (expected once)" % appends_top)
    if not stmts or stmts[-1] != ("return", ["nil"]):
        raise Unclassifiable("Paginate callback does not end in `return nil`")
    k = [i for i, st in enumerate(stmts) if st[0] == "other" and re.search(r"\bappend\s*\(", st[1])][0]
    if k != len(stmts) - 2:
        raise Unclassifiable("Paginate callback: the append is not the statement before the final `return nil`")


# ------------------------------------------------------------------ handlers

FUNC_RE = re.compile(r"^func\s*\(\s*(\w+)\s+\*?(\w+)\s*\)\s*(\w+)\s*\(", re.M)
PAG_RE = re.compile(r"\bquery\s*\.\s*(\w*Paginat\w*)\s*\(")


def scan_file(path, module):
    src = open(path).read()
    clean = blank_comments_and_strings(src)
    rows = []
    # any use of a paginator outside a method is an error
    covered = []
    for m in FUNC_RE.finditer(clean):
        recv, _typ, name = m.group(1), m.group(2), m.group(3)
        # find the body: first '{' after the signature's closing parens
        p = clean.index("(", m.end() - 1)
        e = match_close(clean, p)
        b = clean.index("{", e)
        # result types may contain braces only in interface{}; skip balanced pairs before the body
        while clean[b:b + 2] == "{}":
            b = clean.index("{", b + 2)
        be = match_close(clean, b)
        covered.append((b, be))
        body = clean[b + 1:be]
        calls = list(PAG_RE.finditer(body))
        if not calls:
            continue
        where = "%s: %s" % (os.path.relpath(path), name)
        if len(calls) != 1:
            raise Unclassifiable("%s: %d paginator calls in one handler" % (where, len(calls)))
        c = calls[0]
        fn = c.group(1)
        if fn not in ("Paginate", "FilteredPaginate"):
            raise Unclassifiable("%s: paginator query.%s is not modelled" % (where, fn))
        ap = c.end() - 1
        ae = match_close(body, ap)
        args = split_top(body[ap + 1:ae])
        if len(args) != 3:
            raise Unclassifiable("%s: paginator called with %d arguments" % (where, len(args)))
        store, preq, cb = args
        if not re.match(r"req\s*\.\s*Pagination$", preq):
            raise Unclassifiable("%s: page request is `%s`, expected req.Pagination" % (where, norm(preq)))
        # result of the paginator must be returned as the response's pagination, errors propagated
        # the store
        if not re.match(r"\w+$", store):
            raise Unclassifiable("%s: store argument `%s` is not a variable" % (where, norm(store)))
        sm = list(re.finditer(r"\b%s\s*(?::=|=)\s*prefix\s*\.\s*NewStore\s*\(" % re.escape(store), body))
        if len(sm) != 1:
            raise Unclassifiable("%s: store `%s` is not defined once as prefix.NewStore(..)" % (where, store))
        sp = sm[0].end() - 1
        se = match_close(body, sp)
        sargs = split_top(body[sp + 1:se])
        if len(sargs) != 2 or not re.match(r"%s\s*\.\s*Store\s*\(\s*ctx\s*\)$" % re.escape(recv), sargs[0]):
            raise Unclassifiable("%s: store is not prefix.NewStore(%s.Store(ctx), P): %s" % (where, recv, norm(body[sp + 1:se])))
        pexpr = norm(sargs[1])
        if re.match(r"\w+$", pexpr):
            # a variable chosen by a switch on the status: collect its assignments
            asg = re.findall(r"\b%s\s*=\s*([^\n;]+)" % re.escape(pexpr), body)
            asg = [norm(a) for a in asg]
            if not asg:
                raise Unclassifiable("%s: prefix variable `%s` is never assigned" % (where, pexpr))
            sw = re.search(r"\bswitch\s+([^\{]+)\{", body)
            pexpr = "switch %s: %s" % (norm(sw.group(1)) if sw else "?", " | ".join(asg))
        # the callback
        fm = re.match(r"func\s*\(([^)]*)\)\s*(\([^)]*\)|\w+)\s*\{", cb)
        if not fm:
            raise Unclassifiable("%s: callback is not a function literal" % where)
        params = [p.strip() for p in fm.group(1).split(",")]
        cbody = cb[fm.end():match_close(cb, fm.end() - 1)]
        # the result slice: the variable appended to
        am = re.search(r"\b(\w+)\s*=\s*append\s*\(\s*(\w+)\s*,", cbody)
        if not am or am.group(1) != am.group(2):
            raise Unclassifiable("%s: callback does not append to a result slice" % where)
        result_var = am.group(1)
        # the handler must return that slice together with the paginator's response
        if not re.search(r"return\s+&\s*types\s*\.\s*\w+\s*\{[^}]*\b%s\b[^}]*Pagination\s*:\s*\w+" % re.escape(result_var), body):
            raise Unclassifiable("%s: handler does not return the accumulated slice with the page response" % where)
        try:
            if fn == "FilteredPaginate":
                if len(params) != 3 or not re.search(r"\bbool$", params[2]):
                    raise Unclassifiable("callback parameters `%s`" % fm.group(1))
                acc = params[2].split()[0]
                if acc == "_":
                    raise Unclassifiable("accumulate parameter is ignored (`_`): every record would be appended")
                dep, ung = classify_filtered(cbody, acc, result_var)
            else:
                classify_plain(cbody, result_var)
                dep, ung = False, False
        except Unclassifiable as ex:
            raise Unclassifiable("%s: %s" % (where, ex))
        rows.append({"module": module, "handler": name, "paginator": fn, "prefix": pexpr,
                     "hit_depends_on_accumulate": dep, "appends_unguarded": ung,
                     "file": os.path.relpath(path)})
    for m in PAG_RE.finditer(clean):
        if not any(b <= m.start() <= e for b, e in covered):
            raise Unclassifiable("%s: paginator call outside a method" % path)
    return rows


def scan(repo):
    rows = []
    files = sorted(glob.glob(os.path.join(repo, "x", "*", "keeper", "*.go")) +
                   glob.glob(os.path.join(repo, "x", "*", "*.go")) +
                   glob.glob(os.path.join(repo, "x", "*", "keeper", "*", "*.go")))
    for path in files:
        if path.endswith("_test.go"):
            continue
        src = open(path).read()
        if "Paginat" not in src:
            continue
        module = os.path.relpath(path, os.path.join(repo, "x")).split(os.sep)[0]
        rows += scan_file(path, module)
    # no paginator use anywhere else in the module tree (client code excluded: it only builds requests)
    for path in glob.glob(os.path.join(repo, "x", "**", "*.go"), recursive=True) + glob.glob(os.path.join(repo, "app", "**", "*.go"), recursive=True):
        if path.endswith("_test.go") or path.endswith(".pb.go") or path.endswith(".pb.gw.go") or path in files:
            continue
        if PAG_RE.search(blank_comments_and_strings(open(path).read())):
            raise Unclassifiable("%s: paginator used outside the scanned keeper files" % path)
    if not rows:
        raise Unclassifiable("no paginated list handler found under %s/x" % repo)
    return rows


def coq_string(s):
    return '"' + s.replace('"', '""') + '"'


def render(rows):
    out = ["(* GENERATED by translator/queries2coq.py from /repo/x/*/keeper/*.go - do not edit.",
           "   One row per paginated list handler of the hub's gRPC query servers. *)",
           "From Hub Require Import Base.Prelude Model.Paginate.",
           "",
           "Definition query_shapes : list query_shape := ["]
    lines = []
    for r in rows:
        lines.append("  mk_shape %s %s %s\n    %s %s %s" % (
            coq_string(r["module"]), coq_string(r["handler"]),
            "UsesPaginate" if r["paginator"] == "Paginate" else "UsesFilteredPaginate",
            coq_string(r["prefix"]),
            "true" if r["hit_depends_on_accumulate"] else "false",
            "true" if r["appends_unguarded"] else "false"))
    out.append(";\n".join(lines))
    out.append("].")
    out.append("")
    return "\n".join(out)


def main(argv=None):
    argv = sys.argv[1:] if argv is None else argv
    repo, out, pr = "/repo", DEFAULT_OUT, False
    i = 0
    while i < len(argv):
        if argv[i] == "--repo":
            repo = argv[i + 1]
            i += 2
        elif argv[i] == "--out":
            out = argv[i + 1]
            i += 2
        elif argv[i] == "--print":
            pr = True
            i += 1
        else:
            sys.stderr.write(__doc__)
            return 2
    try:
        cwd = os.getcwd()
        os.chdir(repo)
        try:
            rows = scan(repo)
        finally:
            os.chdir(cwd)
    except Unclassifiable as ex:
        sys.stderr.write("queries2coq: cannot classify: %s\n" % ex)
        return 1
    text = render(rows)
    if pr:
        sys.stdout.write(text)
        return 0
    os.makedirs(os.path.dirname(out), exist_ok=True)
    if not os.path.exists(out) or open(out).read() != text:
        with open(out, "w") as f:
            f.write(text)
    print("queries2coq: %d list handlers -> %s (%d FilteredPaginate, %d with hit depending on accumulate)" % (
        len(rows), out, sum(r["paginator"] == "FilteredPaginate" for r in rows),
        sum(r["hit_depends_on_accumulate"] for r in rows)))
    return 0


if __name__ == "__main__":
    sys.exit(main())
