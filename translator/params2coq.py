#!/usr/bin/env python3
"""params2coq: regenerate coq/theories/Gen/ParamRules.v from the per-key parameter validators of the hub.

Inputs (current working tree of the repository): x/{provider,node,subscription,session,swap}/types/params.go
  * `ParamSetPairs()`: the list of {Key: KeyX, Value: &m.X, ValidatorFn: validateX | func(v interface{}) error {...}}
  * `KeyX = []byte("X")`
  * every validator function: the asserted Go type of the value and the ORDERED list of its tests, each of which is
    either a refusal (`if COND { return <error> }`) or an early acceptance (`if COND { return nil }`), followed by `return nil`.

Output: for every (subspace, key) the Go type and the list of tests as data, in source order:
  Definition param_rules : list (string * string * gotype * list ptest).
Proofs/ParamRulesThm.v gives the tests their meaning and proves that the model's [pchange_valid] IS the meaning of the
regenerated rule of the parameter each change writes, so a validator that is weakened, strengthened or re-ordered in the
source breaks that theorem (or, if its shape is new, this translator) on the next run.

Fail closed: a validator body containing any statement that is not one of the understood shapes, a test that is not in
the vocabulary below, a key whose validator cannot be found: exit status 1.
"""
import os
import re
import sys

REPO = os.environ.get("VERIF_REPO", "/repo")
V = os.path.dirname(os.path.dirname(os.path.abspath(__file__))) if os.path.basename(os.path.dirname(os.path.abspath(__file__))) == "translator" else "/verif"

MODULES = [("provider", "vpn/provider"), ("node", "vpn/node"), ("subscription", "vpn/subscription"), ("session", "vpn/session"), ("swap", "swap")]

GOTYPES = {"sdk.Coin": "GCoin", "sdk.Coins": "GCoins", "time.Duration": "GDuration", "int64": "GInt64",
           "sdkmath.LegacyDec": "GDec", "bool": "GBool", "string": "GString"}

# condition text (whitespace removed) -> (constructor, polarity): polarity "refuse" = `return <error>`, "accept" = `return nil`
TESTS = {
    "value.IsNil()": "TIsNil",
    "value.IsNegative()": "TIsNegative",
    "!value.IsValid()": "TNotValid",
    "value<0": "TLtZero",
    "value==0": "TEqZero",
    "value==nil": "TEqNil",
    "value.IsAnyNil()": "TAnyNil",
    "value.GT(sdkmath.LegacyOneDec())": "TGtOne",
    'value==""': "TEmptyString",
    "err:=sdk.ValidateDenom(value);err!=nil": "TBadDenom",
    "_,err:=sdk.AccAddressFromBech32(value);err!=nil": "TBadAccAddress",
}


class Untranslatable(Exception):
    pass


def strip_comments(src):
    src = re.sub(r"/\*.*?\*/", "", src, flags=re.S)
    return re.sub(r"//[^\n]*", "", src)


def matching(src, i, open_c="{", close_c="}"):
    """index just after the bracket matching src[i]"""
    assert src[i] == open_c
    depth = 0
    k = i
    in_str = None
    while k < len(src):
        c = src[k]
        if in_str:
            if c == "\\" and in_str == '"':
                k += 1
            elif c == in_str:
                in_str = None
        elif c in "\"`":
            in_str = c
        elif c == open_c:
            depth += 1
        elif c == close_c:
            depth -= 1
            if depth == 0:
                return k + 1
        k += 1
    raise Untranslatable("unbalanced brackets")


def parse_validator(body, where):
    """body: text between the braces of `func ...(v interface{}) error { ... }`"""
    b = body.strip()
    m = re.match(r"(value|_)\s*,\s*ok\s*:=\s*v\.\(([\w.]+)\)\s*if\s*!ok\s*\{\s*return\s+fmt\.Errorf\([^)]*\)\s*\}", b)
    if not m:
        raise Untranslatable("%s: type assertion prologue not recognised" % where)
    gotype = m.group(2)
    if gotype not in GOTYPES:
        raise Untranslatable("%s: unknown parameter type %s" % (where, gotype))
    rest = b[m.end():].strip()
    tests = []
    while True:
        if re.fullmatch(r"return\s+nil", rest):
            break
        mm = re.match(r"if\s+", rest)
        if not mm:
            raise Untranslatable("%s: statement not understood: %r" % (where, rest[:80]))
        j = rest.index("{", mm.end())
        cond = re.sub(r"\s+", "", rest[mm.end():j])
        end = matching(rest, j)
        blk = rest[j + 1:end - 1].strip()
        if cond not in TESTS:
            raise Untranslatable("%s: test %r is not in the vocabulary" % (where, cond))
        if re.fullmatch(r"return\s+nil", blk):
            pol = "PAccept"
        elif re.fullmatch(r"return\s+(fmt\.Errorf|sdkerrors\.Wrapf?|errors\.New)\(.*\)", blk, flags=re.S):
            pol = "PRefuse"
        else:
            raise Untranslatable("%s: block of test %r is neither `return nil` nor `return <error>`: %r" % (where, cond, blk[:80]))
        tests.append((pol, TESTS[cond]))
        rest = rest[end:].strip()
    return GOTYPES[gotype], tests


def translate_module(mod, subspace):
    path = os.path.join(REPO, "x", mod, "types", "params.go")
    src = strip_comments(open(path).read())
    keys = dict(re.findall(r"(Key\w+)\s*=\s*\[\]byte\(\"(\w+)\"\)", src))
    # named validators
    funcs = {}
    for m in re.finditer(r"func\s+(validate\w+)\s*\(\s*v\s+interface\{\}\s*\)\s*error\s*\{", src):
        end = matching(src, m.end() - 1)
        funcs[m.group(1)] = src[m.end():end - 1]
    m = re.search(r"func\s+\(m\s+\*Params\)\s+ParamSetPairs\(\)\s+params\.ParamSetPairs\s*\{", src)
    if not m:
        raise Untranslatable("%s: ParamSetPairs not found" % path)
    body = src[m.end():matching(src, m.end() - 1) - 1]
    m2 = re.search(r"return\s+params\.ParamSetPairs\s*\{", body)
    if not m2:
        raise Untranslatable("%s: ParamSetPairs literal not found" % path)
    lit = body[m2.end():matching(body, m2.end() - 1) - 1]
    out = []
    i = 0
    while True:
        j = lit.find("{", i)
        if j < 0:
            break
        end = matching(lit, j)
        entry = lit[j + 1:end - 1]
        i = end
        mk = re.search(r"Key:\s*(\w+)\s*,", entry)
        mv = re.search(r"Value:\s*&m\.(\w+)\s*,", entry)
        mf = re.search(r"ValidatorFn:\s*", entry)
        if not (mk and mv and mf):
            raise Untranslatable("%s: ParamSetPair entry not understood: %r" % (path, entry[:80]))
        if mk.group(1) not in keys:
            raise Untranslatable("%s: key %s has no []byte literal" % (path, mk.group(1)))
        tail = entry[mf.end():].strip()
        where = "%s %s" % (path, mk.group(1))
        if tail.startswith("func"):
            mb = re.match(r"func\s*\(\s*v\s+interface\{\}\s*\)\s*error\s*\{", tail)
            if not mb:
                raise Untranslatable("%s: inline validator header not understood" % where)
            fend = matching(tail, mb.end() - 1)
            if tail[fend:].strip().strip(",").strip():
                raise Untranslatable("%s: text after the inline validator" % where)
            gotype, tests = parse_validator(tail[mb.end():fend - 1], where)
        else:
            name = tail.strip().rstrip(",").strip()
            if name not in funcs:
                raise Untranslatable("%s: validator %s not found" % (where, name))
            gotype, tests = parse_validator(funcs[name], where + " " + name)
        out.append((subspace, keys[mk.group(1)], mv.group(1), gotype, tests))
    if not out:
        raise Untranslatable("%s: no parameters" % path)
    return out


def main(argv):
    out_path = os.path.join(V, "coq", "theories", "Gen", "ParamRules.v")
    if "--out" in argv:
        out_path = argv[argv.index("--out") + 1]
    try:
        rules = []
        for mod, sub in MODULES:
            rules += translate_module(mod, sub)
    except (Untranslatable, OSError) as e:
        print("params2coq: %s" % e)
        if os.path.exists(out_path):
            os.remove(out_path)
        return 1
    lines = ["(* GENERATED by translator/params2coq.py from x/*/types/params.go of the repository -- do not edit. *)",
             "From Coq Require Import String List.", "Import ListNotations.", "Local Open Scope string_scope.", "",
             "Inductive gotype := GCoin | GCoins | GDuration | GInt64 | GDec | GBool | GString.",
             "Inductive ptest := TIsNil | TIsNegative | TNotValid | TLtZero | TEqZero | TEqNil | TAnyNil | TGtOne | TEmptyString | TBadDenom | TBadAccAddress.",
             "Inductive polarity := PRefuse | PAccept.", "",
             "(* (subspace, key, field of the Params struct, Go type of the value, tests in source order; falling through all of them accepts) *)",
             "Definition param_rules : list (string * string * string * gotype * list (polarity * ptest)) :="]
    items = []
    for sub, key, field, gt, tests in rules:
        ts = "; ".join("(%s, %s)" % t for t in tests)
        items.append('  ("%s", "%s", "%s", %s, [%s])' % (sub, key, field, gt, ts))
    lines.append("  [\n" + ";\n".join(items) + "\n  ].")
    os.makedirs(os.path.dirname(out_path), exist_ok=True)
    with open(out_path, "w") as f:
        f.write("\n".join(lines) + "\n")
    return 0


if __name__ == "__main__":
    sys.exit(main(sys.argv[1:]))
