#!/usr/bin/env python3
"""keys2coq: regenerate coq/theories/Gen/KeysGen.v from the hub source tree.

Thin wrapper around the Go program translator/keys2coq/main.go (go/parser, standard
library only, builds offline).  Fail closed: a non-zero exit status means that some
declaration of an x/*/types/keys.go (or the Store method of a sub-keeper, or the bech32
prefix constants) has a shape the translator does not know; the message names it.

    python3 translator/keys2coq.py [--repo /repo] [--out <verif>/coq/theories/Gen/KeysGen.v]

The output file is only rewritten when its content changes (keeps make's timestamps).
"""
import os
import subprocess
import sys

HERE = os.path.dirname(os.path.abspath(__file__))
GOENV = dict(os.environ, GOFLAGS="-mod=mod", GOPROXY="off", GOSUMDB="off", GOTOOLCHAIN="local")


def build():
    d = os.path.join(HERE, "keys2coq")
    exe = os.path.join(d, "keys2coq")
    src = os.path.join(d, "main.go")
    if not os.path.exists(exe) or os.path.getmtime(exe) < os.path.getmtime(src):
        p = subprocess.run(["go", "build", "-o", "keys2coq", "."], cwd=d, env=GOENV,
                           stdout=subprocess.PIPE, stderr=subprocess.STDOUT, text=True)
        if p.returncode != 0:
            return None, p.stdout
    return exe, ""


def translate(repo, out):
    """returns (rc, message)"""
    exe, err = build()
    if exe is None:
        return 2, "keys2coq does not build: " + err
    os.makedirs(os.path.dirname(out), exist_ok=True)
    p = subprocess.run([exe, "-repo", repo, "-out", out], stdout=subprocess.PIPE, stderr=subprocess.STDOUT, text=True)
    return p.returncode, p.stdout.strip()


def main(argv=None):
    argv = list(sys.argv[1:] if argv is None else argv)
    repo = "/repo"
    out = os.path.join(os.path.dirname(HERE), "coq", "theories", "Gen", "KeysGen.v")
    while argv:
        a = argv.pop(0)
        if a == "--repo":
            repo = argv.pop(0)
        elif a == "--out":
            out = argv.pop(0)
        else:
            print(__doc__)
            return 2
    rc, msg = translate(repo, out)
    print(msg)
    return rc


if __name__ == "__main__":
    sys.exit(main())
