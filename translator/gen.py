#!/usr/bin/env python3
"""Regenerate coq/theories/Gen/*.v from /repo's current source (all translators, fail closed)."""
import importlib.util
import os
import sys

T = os.path.dirname(os.path.abspath(__file__))


def load(name):
    spec = importlib.util.spec_from_file_location(name, os.path.join(T, name + ".py"))
    mod = importlib.util.module_from_spec(spec)
    spec.loader.exec_module(mod)
    return mod


OUTPUTS = {"queries2coq": "QueryShapes.v", "status2coq": "StatusTables.v", "keys2coq": "KeysGen.v", "wiring2coq": "Wiring.v", "params2coq": "ParamRules.v"}


def stub(name, why):
    """A translator that cannot translate the current source leaves a generated file that does not compile, so that exactly the
    proof cones that import it break (and no stale tables are ever used); everything else still builds."""
    out = os.path.join(os.path.dirname(T), "coq", "theories", "Gen", OUTPUTS[name])
    os.makedirs(os.path.dirname(out), exist_ok=True)
    msg = " ".join(str(why).split())[:300].replace('"', "'")
    with open(out, "w") as f:
        f.write("(* GENERATED STUB: translator/%s.py could not translate the current source of the repository. *)\n" % name)
        f.write("Lemma translator_failed : False.\nProof. fail \"%s: %s\". Qed.\n" % (name, msg))


def main():
    rc = 0
    for name in ("queries2coq", "status2coq", "keys2coq", "wiring2coq", "params2coq"):
        if not os.path.exists(os.path.join(T, name + ".py")):
            continue
        why = ""
        try:
            r = load(name).main([])
        except SystemExit as e:
            r = e.code
        except Exception as e:  # a translator that crashes is a broken obligation, not a pass
            print("translator %s crashed: %r" % (name, e))
            why = repr(e)
            r = 1
        out = os.path.join(os.path.dirname(T), "coq", "theories", "Gen", OUTPUTS[name])
        if r not in (0, None) or not os.path.exists(out):
            print("translator %s failed (exit %s)" % (name, r))
            stub(name, why or "exit %s (see the check log)" % r)
            rc = 1
    return rc


if __name__ == "__main__":
    sys.exit(main())
