#!/usr/bin/env python3
"""Regenerate coq/theories/Gen/*.v from /repo's current source (all translators, fail closed)."""
import importlib.util
import os
import sys

T = os.path.dirname(os.path.abspath(__file__))


def load(name):
    spec = importlib.util.spec_from_file_location(name, os.path.join(T, name + ".py"))
    mod = importlib.util.module_from_spec(spec)
    spec.loader.exec_module(mod)
    return mod


def main():
    rc = 0
    for name in ("queries2coq", "status2coq", "keys2coq", "wiring2coq"):
        if not os.path.exists(os.path.join(T, name + ".py")):
            continue
        try:
            r = load(name).main([])
        except SystemExit as e:
            r = e.code
        except Exception as e:  # a translator that crashes is a broken obligation, not a pass
            print("translator %s crashed: %r" % (name, e))
            r = 1
        if r not in (0, None):
            print("translator %s failed (exit %s)" % (name, r))
            rc = 1
    return rc


if __name__ == "__main__":
    sys.exit(main())
