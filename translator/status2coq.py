#!/usr/bin/env python3
"""status2coq: regenerate coq/theories/Gen/StatusTables.v from the hub source.

Inputs (current working tree of the repository):
  types/status.pb.go   generated:  `type Status int32`, the const block, `Status_name`, `Status_value`,
                                   `proto.RegisterEnum("<name>", Status_name, Status_value)`
  types/status.go      hand-written: init() (registration of printed names as parse aliases), String(),
                                   IsValid(), StatusFromString()  (+ Equal / IsOneOf, accepted verbatim)

Output: the tables exactly as gogoproto's jsonpb uses them
  * printing:  jsonpb writes an enum field with v.(fmt.Stringer).String()  (jsonpb.go `Handle enumerations`),
               i.e. the hand-written String() switch, unless the type has MarshalJSON (checked: it must not);
  * parsing:   a quoted value is looked up in proto.EnumValueMap(<name>) = the very map object Status_value
               (registered by reference), including whatever init() added to it; an unquoted one is a number.

Fail closed: every top-level declaration of types/status.go must be one of the shapes understood here; anything
else (a new method, a changed loop body, a MarshalJSON on Status anywhere in package types, a non-literal table
entry ...) is an error, exit status 1, and the old generated file is removed so that the proof cone cannot be
re-checked against stale tables.
"""
import os
import re
import sys


class Untranslatable(Exception):
    pass


# ----------------------------------------------------------------------------------------------
# a small Go tokenizer (enough for these two files): identifiers, integers, interpreted and raw
# string literals, runes, operators; comments dropped.
# ----------------------------------------------------------------------------------------------
TOKEN = re.compile(r"""
    (?P<ws>\s+)
  | (?P<lc>//[^\n]*)
  | (?P<bc>/\*.*?\*/)
  | (?P<str>"(?:[^"\\\n]|\\.)*")
  | (?P<raw>`[^`]*`)
  | (?P<rune>'(?:[^'\\\n]|\\.)+')
  | (?P<id>[A-Za-z_][A-Za-z_0-9]*)
  | (?P<num>0[xX][0-9a-fA-F_]+|[0-9][0-9_]*)
  | (?P<op>\.\.\.|:=|==|!=|<=|>=|&&|\|\||<-|\+\+|--|[-+*/%&|^<>=!(){}\[\],;:.])
""", re.X | re.S)


def tokenize(src, fname):
    out = []
    pos = 0
    while pos < len(src):
        m = TOKEN.match(src, pos)
        if not m:
            raise Untranslatable("%s: cannot tokenize at offset %d: %r" % (fname, pos, src[pos:pos + 30]))
        pos = m.end()
        k = m.lastgroup
        if k in ("ws", "lc", "bc"):
            continue
        out.append((k, m.group(k)))
    return out


def go_string(tok, where):
    """value of an interpreted string literal made of plain printable ASCII (no escapes)"""
    k, v = tok
    if k != "str":
        raise Untranslatable("%s: expected a string literal, found %r" % (where, v))
    body = v[1:-1]
    if "\\" in body or not all(32 <= ord(c) < 127 for c in body):
        raise Untranslatable("%s: string literal %s is not plain ASCII without escapes" % (where, v))
    return body


def go_int(toks, i, where):
    """optional minus, decimal integer literal; returns (value, next index)"""
    neg = False
    if toks[i] == ("op", "-"):
        neg = True
        i += 1
    k, v = toks[i]
    if k != "num" or not re.fullmatch(r"[0-9]+", v):
        raise Untranslatable("%s: expected a decimal integer, found %r" % (where, v))
    n = int(v)
    n = -n if neg else n
    if not (-2 ** 31 <= n < 2 ** 31):
        raise Untranslatable("%s: %d is not an int32" % (where, n))
    return n, i + 1


def matching(toks, i):
    """index of the bracket matching toks[i]"""
    op = toks[i][1]
    cl = {"(": ")", "{": "}", "[": "]"}[op]
    depth = 0
    for j in range(i, len(toks)):
        if toks[j] == ("op", op):
            depth += 1
        elif toks[j] == ("op", cl):
            depth -= 1
            if depth == 0:
                return j
    raise Untranslatable("unbalanced %s" % op)


def text(toks):
    return " ".join(v for _, v in toks)


def split_top_level(toks, fname):
    """split a file's token list into top-level declarations: list of (kind, name, tokens)"""
    decls = []
    i = 0
    if toks[i] != ("id", "package"):
        raise Untranslatable("%s: no package clause" % fname)
    pkg = toks[i + 1][1]
    i += 2
    while i < len(toks):
        k, v = toks[i]
        if (k, v) == ("op", ";"):
            i += 1
            continue
        if k != "id" or v not in ("import", "const", "var", "type", "func"):
            raise Untranslatable("%s: unexpected top-level token %r" % (fname, v))
        if v == "func":
            j = i + 1
            recv = None
            if toks[j] == ("op", "("):
                e = matching(toks, j)
                recv = toks[j + 1:e]
                j = e + 1
            name = toks[j][1]
            j += 1
            if toks[j] != ("op", "("):
                raise Untranslatable("%s: func %s: generic or odd signature" % (fname, name))
            pe = matching(toks, j)
            params = toks[j + 1:pe]
            j = pe + 1
            b = j
            while toks[b] != ("op", "{"):
                b += 1
            result = toks[j:b]
            be = matching(toks, b)
            decls.append(("func", name, {"recv": recv, "params": params, "result": result, "body": toks[b + 1:be]}))
            i = be + 1
        else:
            j = i + 1
            if toks[j] == ("op", "("):
                e = matching(toks, j)
                decls.append((v, None, toks[j + 1:e]))
                i = e + 1
            else:
                # single-spec declaration: runs to the end of its line; find it by bracket balance up to the next
                # top-level keyword at depth 0
                depth = 0
                e = j
                while e < len(toks):
                    tk, tv = toks[e]
                    if tk == "op" and tv in "({[":
                        depth += 1
                    elif tk == "op" and tv in ")}]":
                        depth -= 1
                    elif depth == 0 and tk == "id" and tv in ("import", "const", "var", "type", "func") and e > j + 1:
                        break
                    e += 1
                decls.append((v, None, toks[j:e]))
                i = e
    return pkg, decls


# ----------------------------------------------------------------------------------------------
# types/status.pb.go
# ----------------------------------------------------------------------------------------------
def parse_map_literal(toks, where, key_is_int):
    """entries of `map[K]V{ k: v, ... }` given the tokens between the braces"""
    out = []
    i = 0
    while i < len(toks):
        if key_is_int:
            kx, i = go_int(toks, i, where)
        else:
            kx = go_string(toks[i], where)
            i += 1
        if toks[i] != ("op", ":"):
            raise Untranslatable("%s: expected ':'" % where)
        i += 1
        if key_is_int:
            vx = go_string(toks[i], where)
            i += 1
        else:
            vx, i = go_int(toks, i, where)
        out.append((kx, vx))
        if i < len(toks):
            if toks[i] != ("op", ","):
                raise Untranslatable("%s: expected ',' after an entry" % where)
            i += 1
    return out


def parse_pb(path):
    src = open(path).read()
    if not src.startswith("// Code generated by protoc-gen-gogo. DO NOT EDIT."):
        raise Untranslatable("%s is not a protoc-gen-gogo output" % path)
    toks = tokenize(src, path)
    pkg, decls = split_top_level(toks, path)
    consts, name_map, value_map, enum_name = None, None, None, None
    saw_type = False
    for kind, name, body in decls:
        if kind == "type":
            if text(body) == "Status int32":
                saw_type = True
            elif body and body[0][1] == "Status":
                raise Untranslatable("%s: type Status is not int32: %s" % (path, text(body)))
        elif kind == "const" and any(t == ("id", "Status") for t in body):
            # NameX Status = n   (one per line; the tokenizer dropped newlines, the shape is regular)
            consts = []
            i = 0
            while i < len(body):
                if body[i] == ("op", ";"):
                    i += 1
                    continue
                if body[i][0] != "id" or body[i + 1] != ("id", "Status") or body[i + 2] != ("op", "="):
                    raise Untranslatable("%s: const block of Status has an entry of unknown shape near %r" % (path, text(body[i:i + 4])))
                n, j = go_int(body, i + 3, path + " const " + body[i][1])
                consts.append((body[i][1], n))
                i = j
        elif kind == "var":
            if len(body) > 2 and body[0][0] == "id" and body[0][1] in ("Status_name", "Status_value"):
                which = body[0][1]
                want = "= map [ int32 ] string {" if which == "Status_name" else "= map [ string ] int32 {"
                br = next((k for k, t in enumerate(body) if t == ("op", "{")), None)
                if br is None or text(body[1:br + 1]) != want:
                    raise Untranslatable("%s: %s is not a map literal of the expected type" % (path, which))
                e = matching(body, br)
                if e != len(body) - 1:
                    raise Untranslatable("%s: trailing tokens after the %s literal" % (path, which))
                entries = parse_map_literal(body[br + 1:e], path + " " + which, which == "Status_name")
                if which == "Status_name":
                    name_map = entries
                else:
                    value_map = entries
        elif kind == "func":
            if body["recv"] is not None and any(t == ("id", "Status") for t in body["recv"]):
                if name == "EnumDescriptor":
                    continue
                raise Untranslatable("%s: generated method Status.%s is not expected (goproto_enum_stringer must stay off: "
                                     "the printed names are those of the hand-written String())" % (path, name))
            if name == "init":
                t = text(body["body"])
                m = re.search(r'proto \. RegisterEnum \( "([^"]+)" , (\w+) , (\w+) \)', t)
                if m and (m.group(2) == "Status_name" or m.group(3) == "Status_value"):
                    if (m.group(2), m.group(3)) != ("Status_name", "Status_value"):
                        raise Untranslatable("%s: RegisterEnum with unexpected maps" % path)
                    enum_name = m.group(1)
    if not saw_type:
        raise Untranslatable("%s: `type Status int32` not found" % path)
    for what, v in (("const block", consts), ("Status_name", name_map), ("Status_value", value_map), ("RegisterEnum", enum_name)):
        if v is None:
            raise Untranslatable("%s: %s not found" % (path, what))
    for lst, what in ((consts, "const"), (name_map, "Status_name"), (value_map, "Status_value")):
        keys = [a for a, _ in lst]
        if len(set(keys)) != len(keys):
            raise Untranslatable("%s: duplicate key in %s" % (path, what))
    return {"consts": consts, "name": name_map, "value": value_map, "enum": enum_name}


# ----------------------------------------------------------------------------------------------
# types/status.go
# ----------------------------------------------------------------------------------------------
EQUAL_BODY = "return s == v"
ISONEOF_BODY = "for _ , item := range items { if s . Equal ( item ) { return true } } return false"
INIT_BODY = "for value := range Status_name { Status_value [ Status ( value ) . String ( ) ] = value }"


def const_val(consts, tok, where):
    k, v = tok
    d = dict(consts)
    if k != "id" or v not in d:
        raise Untranslatable("%s: %r is not a declared Status constant" % (where, v))
    return d[v]


def parse_switch(body, subject, consts, where, case_kind):
    """`switch <subject> { case X: return Y ... default: return Z }` -> (cases, default)
    case_kind "const->str": case labels are Status constants, results string literals;
              "str->const": labels are string literals, results Status constants."""
    head = "switch %s {" % subject
    if text(body[:3]) != head:
        raise Untranslatable("%s: expected `%s`, found `%s`" % (where, head, text(body[:3])))
    e = matching(body, 2)
    inner = body[3:e]
    rest = body[e + 1:]
    cases, default = [], None
    i = 0
    while i < len(inner):
        if inner[i] == ("id", "case"):
            if default is not None:
                raise Untranslatable("%s: case after default" % where)
            labels = []
            i += 1
            while True:
                labels.append(inner[i])
                i += 1
                if inner[i] == ("op", ","):
                    i += 1
                    continue
                break
            if inner[i] != ("op", ":") or inner[i + 1] != ("id", "return"):
                raise Untranslatable("%s: a case arm is not a plain `return <literal>`" % where)
            resv = inner[i + 2]
            i += 3
            for lb in labels:
                if case_kind == "const->str":
                    cases.append((const_val(consts, lb, where), go_string(resv, where)))
                else:
                    cases.append((go_string(lb, where), const_val(consts, resv, where)))
        elif inner[i] == ("id", "default"):
            if inner[i + 1] != ("op", ":") or inner[i + 2] != ("id", "return"):
                raise Untranslatable("%s: default arm is not a plain return" % where)
            resv = inner[i + 3]
            default = go_string(resv, where) if case_kind == "const->str" else const_val(consts, resv, where)
            i += 4
        else:
            raise Untranslatable("%s: unexpected token %r in switch" % (where, inner[i][1]))
    if default is None:
        raise Untranslatable("%s: switch without default arm" % where)
    keys = [a for a, _ in cases]
    if len(set(keys)) != len(keys):
        raise Untranslatable("%s: duplicate case label" % where)
    return cases, default, rest


def parse_hand(path, pb):
    toks = tokenize(open(path).read(), path)
    pkg, decls = split_top_level(toks, path)
    if pkg != "types":
        raise Untranslatable("%s: package %s" % (path, pkg))
    consts = pb["consts"]
    out = {"init": False, "string": None, "is_valid": None, "from_string": None}
    seen = set()
    for kind, name, body in decls:
        if kind == "import":
            continue
        if kind != "func":
            raise Untranslatable("%s: top-level %s declaration is not understood by the translator: %s" % (path, kind, text(body)[:80]))
        if name in seen:
            raise Untranslatable("%s: %s declared twice" % (path, name))
        seen.add(name)
        recv = text(body["recv"]) if body["recv"] is not None else None
        sig = (recv, text(body["params"]), text(body["result"]))
        b = body["body"]
        where = "%s func %s" % (path, name)
        if name == "init" and sig == (None, "", ""):
            if text(b) != INIT_BODY:
                raise Untranslatable("%s: body is not the registration loop `%s`" % (where, INIT_BODY))
            out["init"] = True
        elif name == "String" and sig == ("s Status", "", "string"):
            cases, default, rest = parse_switch(b, "s", consts, where, "const->str")
            if rest:
                raise Untranslatable("%s: statements after the switch" % where)
            out["string"] = (cases, default)
        elif name == "IsValid" and sig == ("s Status", "", "bool"):
            if b[0] != ("id", "return"):
                raise Untranslatable("%s: not a single return" % where)
            vals = []
            i = 1
            while True:
                if text(b[i:i + 2]) != "s ==":
                    raise Untranslatable("%s: not a disjunction of `s == Const`" % where)
                vals.append(const_val(consts, b[i + 2], where))
                i += 3
                if i == len(b):
                    break
                if b[i] != ("op", "||"):
                    raise Untranslatable("%s: not a disjunction of `s == Const`" % where)
                i += 1
            out["is_valid"] = vals
        elif name == "Equal" and sig == ("s Status", "v Status", "bool"):
            if text(b) != EQUAL_BODY:
                raise Untranslatable("%s: body changed" % where)
        elif name == "IsOneOf" and sig == ("s Status", "items ... Status", "bool"):
            if text(b) != ISONEOF_BODY:
                raise Untranslatable("%s: body changed" % where)
        elif name == "StatusFromString" and sig == (None, "s string", "Status"):
            pre = "s = strings . ToLower ( s )"
            if text(b[:8]) != pre:
                raise Untranslatable("%s: does not start with `%s`" % (where, pre))
            cases, default, rest = parse_switch(b[8:], "s", consts, where, "str->const")
            if rest:
                raise Untranslatable("%s: statements after the switch" % where)
            out["from_string"] = (cases, default)
        else:
            raise Untranslatable("%s: declaration with signature %r is not understood by the translator" % (where, sig))
    for k in ("string", "is_valid", "from_string"):
        if out[k] is None:
            raise Untranslatable("%s: %s not found" % (path, k))
    return out


def scan_package_for_status_methods(types_dir):
    """jsonpb prefers MarshalJSON over String() for an enum; text/yaml hooks would matter as well. None may exist."""
    bad = []
    for fn in sorted(os.listdir(types_dir)):
        if not fn.endswith(".go") or fn.endswith("_test.go"):
            continue
        if fn in ("status.go", "status.pb.go"):
            continue
        src = open(os.path.join(types_dir, fn)).read()
        for m in re.finditer(r"^func\s*\(\s*\w*\s*\*?\s*Status\s*\)\s*(\w+)", src, flags=re.M):
            bad.append("%s: method Status.%s" % (fn, m.group(1)))
        if re.search(r"\bStatus_value\s*\[|\bStatus_name\s*\[|delete\s*\(\s*Status_(value|name)", src):
            bad.append("%s: touches Status_value/Status_name" % fn)
    if bad:
        raise Untranslatable("package types has Status code outside status.go/status.pb.go: " + "; ".join(bad))


# ----------------------------------------------------------------------------------------------
# output
# ----------------------------------------------------------------------------------------------
def coq_str(s):
    return '"' + s.replace('"', '""') + '"'


def coq_z(n):
    return "(%d)" % n if n < 0 else "%d" % n


def render(pb, hand, repo):
    L = []
    A = L.append
    A("(* GENERATED by translator/status2coq.py from types/status.go and types/status.pb.go.  DO NOT EDIT.")
    A("   Regenerated from the current source tree on every check; the theorems of Proofs/CodecThm.v are")
    A("   re-checked against these tables. *)")
    A("From Coq Require Import ZArith String List.")
    A("Import ListNotations.")
    A("Local Open Scope string_scope.")
    A("Local Open Scope Z_scope.")
    A("")
    A("(* name under which the enum is registered: proto.RegisterEnum(name, Status_name, Status_value) *)")
    A("Definition status_enum_name : string := %s." % coq_str(pb["enum"]))
    A("")
    A("(* the Go constants of type Status (const block of status.pb.go) *)")
    A("Definition status_consts : list (string * Z) :=")
    A("  [" + "; ".join("(%s, %s)" % (coq_str(n), coq_z(v)) for n, v in pb["consts"]) + "].")
    A("")
    A("(* var Status_name = map[int32]string{...} *)")
    A("Definition status_name_pb : list (Z * string) :=")
    A("  [" + "; ".join("(%s, %s)" % (coq_z(k), coq_str(v)) for k, v in pb["name"]) + "].")
    A("")
    A("(* var Status_value = map[string]int32{...}, the literal, before any init() ran *)")
    A("Definition status_value_pb : list (string * Z) :=")
    A("  [" + "; ".join("(%s, %s)" % (coq_str(k), coq_z(v)) for k, v in pb["value"]) + "].")
    A("")
    A("(* func (s Status) String(): the case arms, and the default arm *)")
    A("Definition status_string_cases : list (Z * string) :=")
    A("  [" + "; ".join("(%s, %s)" % (coq_z(k), coq_str(v)) for k, v in hand["string"][0]) + "].")
    A("Definition status_string_default : string := %s." % coq_str(hand["string"][1]))
    A("")
    A("(* func init() { for value := range Status_name { Status_value[Status(value).String()] = value } } present? *)")
    A("Definition status_init_registers_printed_names : bool := %s." % ("true" if hand["init"] else "false"))
    A("")
    A("(* func (s Status) IsValid(): s == c1 || s == c2 ... *)")
    A("Definition status_is_valid_values : list Z := [" + "; ".join(coq_z(v) for v in hand["is_valid"]) + "].")
    A("")
    A("(* func StatusFromString(s): s = strings.ToLower(s); switch s {...} *)")
    A("Definition status_from_string_cases : list (string * Z) :=")
    A("  [" + "; ".join("(%s, %s)" % (coq_str(k), coq_z(v)) for k, v in hand["from_string"][0]) + "].")
    A("Definition status_from_string_default : Z := %s." % coq_z(hand["from_string"][1]))
    A("")
    return "\n".join(L)


def generate(repo):
    tdir = os.path.join(repo, "types")
    pb = parse_pb(os.path.join(tdir, "status.pb.go"))
    hand = parse_hand(os.path.join(tdir, "status.go"), pb)
    scan_package_for_status_methods(tdir)
    return render(pb, hand, repo)


def main(argv=None):
    argv = sys.argv[1:] if argv is None else argv
    here = os.path.dirname(os.path.abspath(__file__))
    repo = "/repo"
    out = os.path.join(os.path.dirname(here), "coq", "theories", "Gen", "StatusTables.v")
    i = 0
    while i < len(argv):
        if argv[i] == "--repo":
            repo = argv[i + 1]
            i += 2
        elif argv[i] == "--out":
            out = argv[i + 1]
            i += 2
        else:
            print("usage: status2coq.py [--repo DIR] [--out FILE]", file=sys.stderr)
            return 2
    try:
        body = generate(repo)
    except (Untranslatable, OSError, IndexError) as e:
        print("status2coq: CANNOT TRANSLATE: %s" % e, file=sys.stderr)
        try:
            os.remove(out)
        except OSError:
            pass
        return 1
    os.makedirs(os.path.dirname(out), exist_ok=True)
    old = open(out).read() if os.path.exists(out) else None
    if old != body:
        with open(out, "w") as f:
            f.write(body)
    print("status2coq: wrote %s (%s)" % (out, "unchanged" if old == body else "updated"))
    return 0


if __name__ == "__main__":
    sys.exit(main())
