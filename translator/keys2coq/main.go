// keys2coq: translate the store-key definitions of the hub modules into Gallina.
//
//	keys2coq -repo /repo -out KeysGen.v
//
// Reads every x/<module>/types/keys.go (prefix constants, key constructors, key
// decoders), the Store method of x/<module>/keeper/keeper.go (child prefix of the
// sub-keepers inside the vpn store), the bech32 prefix constants of
// types/address.go and their wiring in types/config.go, and the hash length of
// x/swap/types/ethereum.go.  Fail closed: every declaration of a keys.go file
// must be translated or be on the explicit ignore list; any other shape is an
// error (exit status 1) naming the declaration.
package main

import (
	"flag"
	"fmt"
	"go/ast"
	"go/parser"
	"go/token"
	"os"
	"path/filepath"
	"sort"
	"strconv"
	"strings"
)

type failure struct{ msg string }

func failf(format string, a ...interface{}) { panic(failure{fmt.Sprintf(format, a...)}) }

// declarations of keys.go files that are not key material
var ignore = map[string]bool{
	"subscription.Day":   true, // time constant
	"swap.PrecisionLoss": true, // sdkmath.Int
}

var coqReserved = map[string]bool{
	"at": true, "in": true, "as": true, "if": true, "then": true, "else": true, "let": true, "fun": true,
	"end": true, "match": true, "with": true, "return": true, "using": true, "where": true, "for": true,
	"fix": true, "cofix": true, "forall": true, "exists": true, "Type": true, "Prop": true, "Set": true,
	"IF": true, "mod": true, "by": true, "is": true,
}

func coqIdent(s string) string {
	if coqReserved[s] {
		return s + "_"
	}
	return s
}

const (
	pathSDK     = "github.com/cosmos/cosmos-sdk/types"
	pathAddress = "github.com/cosmos/cosmos-sdk/types/address"
	pathHub     = "github.com/sentinel-official/hub/v12/types"
	pathTime    = "time"
	pathFmt     = "fmt"
)

type kind int

const (
	kBytes kind = iota // address-like / raw []byte
	kU64
	kTime
	kHash
)

func (k kind) coqType() string {
	switch k {
	case kU64:
		return "N"
	case kTime:
		return "Z"
	}
	return "bytes"
}

type modFile struct {
	mod     string
	fset    *token.FileSet
	file    *ast.File
	imports map[string]string // local name -> path
	strs    map[string]string // string constants
	vars    map[string]bool   // translated []byte vars
	funcs   map[string][]kind // translated constructor functions -> parameter kinds
	out     []string
	ctors   []string
	decs    []string
	prefs   []string
	table   []string
	dtabN   []string
	dtabB   []string
}

func (m *modFile) pos(n ast.Node) string { return m.fset.Position(n.Pos()).String() }

func (m *modFile) importOf(x ast.Expr) string {
	id, ok := x.(*ast.Ident)
	if !ok {
		return ""
	}
	return m.imports[id.Name]
}

// paramKind: Coq-side kind of a Go parameter type
func (m *modFile) paramKind(t ast.Expr) (kind, bool) {
	switch tt := t.(type) {
	case *ast.Ident:
		switch tt.Name {
		case "uint64":
			return kU64, true
		case "EthereumHash":
			if m.mod == "swap" {
				return kHash, true
			}
		}
	case *ast.ArrayType:
		if tt.Len == nil {
			if id, ok := tt.Elt.(*ast.Ident); ok && id.Name == "byte" {
				return kBytes, true
			}
		}
	case *ast.SelectorExpr:
		p := m.importOf(tt.X)
		switch {
		case p == pathSDK && tt.Sel.Name == "AccAddress":
			return kBytes, true
		case p == pathHub && (tt.Sel.Name == "NodeAddress" || tt.Sel.Name == "ProvAddress"):
			return kBytes, true
		case p == pathTime && tt.Sel.Name == "Time":
			return kTime, true
		}
	}
	return 0, false
}

func bytesLit(bs []int) string {
	parts := make([]string, len(bs))
	for i, b := range bs {
		parts[i] = fmt.Sprintf("%d%%N", b)
	}
	return "[" + strings.Join(parts, "; ") + "]"
}

func intLit(e ast.Expr) (int, bool) {
	bl, ok := e.(*ast.BasicLit)
	if !ok {
		return 0, false
	}
	switch bl.Kind {
	case token.INT:
		v, err := strconv.ParseInt(bl.Value, 0, 64)
		if err != nil {
			return 0, false
		}
		return int(v), true
	case token.CHAR:
		s, err := strconv.Unquote(bl.Value)
		if err != nil || len(s) != 1 {
			return 0, false
		}
		return int(s[0]), true
	}
	return 0, false
}

func byteLit(e ast.Expr) (int, bool) {
	v, ok := intLit(e)
	if !ok || v < 0 || v > 255 {
		return 0, false
	}
	return v, true
}

type env struct {
	params map[string]kind
}

// bytesExpr translates a Go expression of type []byte; conds collects the
// conditions under which the Go expression does not panic.
func (m *modFile) bytesExpr(e ast.Expr, en *env, conds *[]string, where string) string {
	switch x := e.(type) {
	case *ast.ParenExpr:
		return m.bytesExpr(x.X, en, conds, where)
	case *ast.CompositeLit:
		at, ok := x.Type.(*ast.ArrayType)
		if !ok || at.Len != nil {
			break
		}
		if id, ok := at.Elt.(*ast.Ident); !ok || id.Name != "byte" {
			break
		}
		var bs []int
		for _, el := range x.Elts {
			b, ok := byteLit(el)
			if !ok {
				failf("%s: %s: unsupported element in []byte literal", m.pos(el), where)
			}
			bs = append(bs, b)
		}
		return bytesLit(bs)
	case *ast.Ident:
		if en != nil {
			if k, ok := en.params[x.Name]; ok {
				if k == kBytes || k == kHash {
					return coqIdent(x.Name)
				}
				failf("%s: %s: parameter %s is not a byte string", m.pos(x), where, x.Name)
			}
		}
		if m.vars[x.Name] {
			return m.mod + "_" + x.Name
		}
		failf("%s: %s: unknown identifier %s", m.pos(x), where, x.Name)
	case *ast.CallExpr:
		// append(a, b...) / append(a, lit, ...)
		if id, ok := x.Fun.(*ast.Ident); ok && id.Name == "append" {
			if len(x.Args) < 2 {
				failf("%s: %s: append with %d arguments", m.pos(x), where, len(x.Args))
			}
			a := m.bytesExpr(x.Args[0], en, conds, where)
			if x.Ellipsis.IsValid() {
				if len(x.Args) != 2 {
					failf("%s: %s: append(a, b...) with extra arguments", m.pos(x), where)
				}
				b := m.bytesExpr(x.Args[1], en, conds, where)
				return "(" + a + " ++ " + b + ")"
			}
			var bs []int
			for _, el := range x.Args[1:] {
				b, ok := byteLit(el)
				if !ok {
					failf("%s: %s: append of a non-literal byte", m.pos(el), where)
				}
				bs = append(bs, b)
			}
			return "(" + a + " ++ " + bytesLit(bs) + ")"
		}
		// local constructor call
		if id, ok := x.Fun.(*ast.Ident); ok {
			ks, ok := m.funcs[id.Name]
			if !ok {
				failf("%s: %s: call of unknown function %s", m.pos(x), where, id.Name)
			}
			if len(ks) != len(x.Args) {
				failf("%s: %s: call of %s with %d arguments", m.pos(x), where, id.Name, len(x.Args))
			}
			var args []string
			for i, a := range x.Args {
				aid, ok := a.(*ast.Ident)
				if !ok || en == nil {
					failf("%s: %s: argument %d of %s is not a parameter", m.pos(a), where, i, id.Name)
				}
				k, ok := en.params[aid.Name]
				if !ok || k != ks[i] {
					failf("%s: %s: argument %d of %s has the wrong kind", m.pos(a), where, i, id.Name)
				}
				args = append(args, coqIdent(aid.Name))
			}
			call := m.mod + "_" + id.Name + " " + strings.Join(args, " ")
			*conds = append(*conds, m.mod+"_"+id.Name+"_ok "+strings.Join(args, " "))
			return "(" + call + ")"
		}
		if sel, ok := x.Fun.(*ast.SelectorExpr); ok {
			p := m.importOf(sel.X)
			switch {
			case p == pathAddress && sel.Sel.Name == "MustLengthPrefix" && len(x.Args) == 1:
				a := m.bytesExpr(x.Args[0], en, conds, where)
				*conds = append(*conds, "len_ok "+a)
				return "len_prefix " + a
			case p == pathSDK && sel.Sel.Name == "Uint64ToBigEndian" && len(x.Args) == 1:
				return "u64be " + m.paramOfKind(x.Args[0], en, kU64, where)
			case p == pathSDK && sel.Sel.Name == "FormatTimeBytes" && len(x.Args) == 1:
				return "fmt_time " + m.paramOfKind(x.Args[0], en, kTime, where)
			case p == "" && sel.Sel.Name == "Bytes" && len(x.Args) == 0:
				// addr.Bytes() / hash.Bytes() on a parameter
				id, ok := sel.X.(*ast.Ident)
				if ok && en != nil {
					if k, ok := en.params[id.Name]; ok && (k == kBytes || k == kHash) {
						return coqIdent(id.Name)
					}
				}
			}
		}
	}
	failf("%s: %s: unsupported byte-string expression", m.pos(e), where)
	return ""
}

func (m *modFile) paramOfKind(e ast.Expr, en *env, k kind, where string) string {
	id, ok := e.(*ast.Ident)
	if ok && en != nil {
		if pk, ok := en.params[id.Name]; ok && pk == k {
			return coqIdent(id.Name)
		}
	}
	failf("%s: %s: argument is not a parameter of the expected type", m.pos(e), where)
	return ""
}

func (m *modFile) emit(format string, a ...interface{}) { m.out = append(m.out, fmt.Sprintf(format, a...)) }

func (m *modFile) strConst(e ast.Expr, where string) string {
	switch x := e.(type) {
	case *ast.BasicLit:
		if x.Kind == token.STRING {
			s, err := strconv.Unquote(x.Value)
			if err == nil {
				return s
			}
		}
	case *ast.Ident:
		if s, ok := m.strs[x.Name]; ok {
			return s
		}
	case *ast.BinaryExpr:
		if x.Op == token.ADD {
			return m.strConst(x.X, where) + m.strConst(x.Y, where)
		}
	case *ast.ParenExpr:
		return m.strConst(x.X, where)
	}
	failf("%s: %s: unsupported string constant expression", m.pos(e), where)
	return ""
}

func strBytes(s string) string {
	bs := make([]int, len(s))
	for i := 0; i < len(s); i++ {
		if s[i] < 32 || s[i] > 126 {
			failf("non-printable byte in string constant %q", s)
		}
		bs[i] = int(s[i])
	}
	return bytesLit(bs)
}

func isStringy(e ast.Expr) bool {
	switch x := e.(type) {
	case *ast.BasicLit:
		return x.Kind == token.STRING
	case *ast.BinaryExpr:
		return x.Op == token.ADD && (isStringy(x.X) || isStringy(x.Y))
	}
	return false
}

func (m *modFile) genDecl(d *ast.GenDecl) {
	switch d.Tok {
	case token.IMPORT, token.TYPE:
		if d.Tok == token.TYPE {
			failf("%s: type declaration in a keys file", m.pos(d))
		}
	case token.CONST:
		for _, sp := range d.Specs {
			vs := sp.(*ast.ValueSpec)
			for i, n := range vs.Names {
				full := m.mod + "." + n.Name
				if ignore[full] {
					m.emit("(* ignored: const %s *)", n.Name)
					continue
				}
				if i >= len(vs.Values) {
					failf("%s: const %s without a value", m.pos(n), full)
				}
				s := m.strConst(vs.Values[i], "const "+full)
				m.strs[n.Name] = s
				m.emit("Definition %s_%s : bytes := %s. (* %q *)", m.mod, n.Name, strBytes(s), s)
			}
		}
	case token.VAR:
		for _, sp := range d.Specs {
			vs := sp.(*ast.ValueSpec)
			for i, n := range vs.Names {
				full := m.mod + "." + n.Name
				if ignore[full] {
					m.emit("(* ignored: var %s *)", n.Name)
					continue
				}
				if i >= len(vs.Values) {
					failf("%s: var %s without a value", m.pos(n), full)
				}
				var conds []string
				t := m.bytesExpr(vs.Values[i], nil, &conds, "var "+full)
				if len(conds) != 0 {
					failf("%s: var %s: initializer may panic", m.pos(n), full)
				}
				m.vars[n.Name] = true
				m.prefs = append(m.prefs, m.mod+"_"+n.Name)
				m.emit("Definition %s_%s : bytes := %s.", m.mod, n.Name, t)
			}
		}
	default:
		failf("%s: unsupported declaration", m.pos(d))
	}
}

type param struct {
	name string
	k    kind
}

func (m *modFile) params(fd *ast.FuncDecl) []param {
	var ps []param
	for _, f := range fd.Type.Params.List {
		k, ok := m.paramKind(f.Type)
		if !ok {
			failf("%s: func %s.%s: unsupported parameter type", m.pos(f), m.mod, fd.Name.Name)
		}
		if len(f.Names) == 0 {
			failf("%s: func %s.%s: unnamed parameter", m.pos(f), m.mod, fd.Name.Name)
		}
		for _, n := range f.Names {
			ps = append(ps, param{n.Name, k})
		}
	}
	return ps
}

func (m *modFile) resultKind(fd *ast.FuncDecl) string {
	where := m.mod + "." + fd.Name.Name
	if fd.Type.Results == nil || len(fd.Type.Results.List) != 1 || len(fd.Type.Results.List[0].Names) > 1 {
		failf("%s: func %s: expected exactly one result", m.pos(fd), where)
	}
	t := fd.Type.Results.List[0].Type
	if id, ok := t.(*ast.Ident); ok && id.Name == "uint64" {
		return "u64"
	}
	if k, ok := m.paramKind(t); ok && k == kBytes {
		return "bytes"
	}
	failf("%s: func %s: unsupported result type", m.pos(fd), where)
	return ""
}

func (m *modFile) funcDecl(fd *ast.FuncDecl) {
	where := "func " + m.mod + "." + fd.Name.Name
	if fd.Recv != nil {
		failf("%s: %s: method in a keys file", m.pos(fd), where)
	}
	if fd.Body == nil {
		failf("%s: %s: no body", m.pos(fd), where)
	}
	ps := m.params(fd)
	rk := m.resultKind(fd)
	if len(ps) == 1 && ps[0].name == "key" && ps[0].k == kBytes {
		m.decoder(fd, rk, where)
		return
	}
	if rk != "bytes" {
		failf("%s: %s: not a key constructor and not a key decoder", m.pos(fd), where)
	}
	if len(fd.Body.List) != 1 {
		failf("%s: %s: constructor body is not a single return", m.pos(fd), where)
	}
	rs, ok := fd.Body.List[0].(*ast.ReturnStmt)
	if !ok || len(rs.Results) != 1 {
		failf("%s: %s: constructor body is not a single return", m.pos(fd), where)
	}
	en := &env{params: map[string]kind{}}
	var binders, names []string
	var ks []kind
	for _, p := range ps {
		en.params[p.name] = p.k
		binders = append(binders, fmt.Sprintf("(%s : %s)", coqIdent(p.name), p.k.coqType()))
		names = append(names, coqIdent(p.name))
		ks = append(ks, p.k)
	}
	var conds []string
	t := m.bytesExpr(rs.Results[0], en, &conds, where)
	name := m.mod + "_" + fd.Name.Name
	m.emit("Definition %s %s : bytes :=\n  %s.", name, strings.Join(binders, " "), t)
	okBody := "true"
	if len(conds) > 0 {
		okBody = strings.Join(conds, " && ")
	}
	m.emit("Definition %s_ok %s : bool :=\n  %s.", name, strings.Join(binders, " "), okBody)
	m.funcs[fd.Name.Name] = ks
	m.ctors = append(m.ctors, name)
	// uniform call: k-th byte-string parameter <- a1/a2, k-th uint64 <- id1/id2, time <- t, hash <- h
	cnt := map[kind]int{}
	var actual []string
	for _, p := range ps {
		cnt[p.k]++
		switch {
		case p.k == kBytes && cnt[p.k] <= 2:
			actual = append(actual, fmt.Sprintf("a%d", cnt[p.k]))
		case p.k == kU64 && cnt[p.k] <= 2:
			actual = append(actual, fmt.Sprintf("id%d", cnt[p.k]))
		case p.k == kTime && cnt[p.k] == 1:
			actual = append(actual, "t")
		case p.k == kHash && cnt[p.k] == 1:
			actual = append(actual, "h")
		default:
			failf("%s: %s: too many parameters of one kind for the uniform call table", m.pos(fd), where)
		}
	}
	as := strings.Join(actual, " ")
	m.table = append(m.table, fmt.Sprintf("(\"%s\", fun a1 a2 id1 id2 t h => (%s_ok %s, %s %s))", name, name, as, name, as))
}

// ---- decoders ----

type dctx struct {
	m      *modFile
	where  string
	locals map[string]bool
	binds  []string
	fresh  int
}

// intExpr: Go int expression over literals, locals, int(key[e]) and +
func (d *dctx) intExpr(e ast.Expr) string {
	switch x := e.(type) {
	case *ast.ParenExpr:
		return d.intExpr(x.X)
	case *ast.BasicLit:
		if v, ok := intLit(x); ok && v >= 0 {
			return strconv.Itoa(v)
		}
	case *ast.Ident:
		if d.locals[x.Name] {
			return coqIdent(x.Name)
		}
	case *ast.BinaryExpr:
		if x.Op == token.ADD {
			return "(" + d.intExpr(x.X) + " + " + d.intExpr(x.Y) + ")"
		}
	case *ast.CallExpr:
		if id, ok := x.Fun.(*ast.Ident); ok && id.Name == "int" && len(x.Args) == 1 {
			if ix, ok := x.Args[0].(*ast.IndexExpr); ok {
				if kid, ok := ix.X.(*ast.Ident); ok && kid.Name == "key" {
					i := d.intExpr(ix.Index)
					d.fresh++
					v := fmt.Sprintf("b%d", d.fresh)
					d.binds = append(d.binds, fmt.Sprintf("let! %s := key_at key (%s)%%N in", v, i))
					return v
				}
			}
		}
	}
	failf("%s: %s: unsupported integer expression", d.m.pos(e), d.where)
	return ""
}

func (d *dctx) flush(lines *[]string) {
	*lines = append(*lines, d.binds...)
	d.binds = nil
}

// sliceExpr: key[a:] or key[a:b]; returns a res-valued Coq term
func (d *dctx) sliceExpr(e ast.Expr) string {
	sx, ok := e.(*ast.SliceExpr)
	if ok && !sx.Slice3 {
		if kid, ok := sx.X.(*ast.Ident); ok && kid.Name == "key" {
			lo := "0"
			if sx.Low != nil {
				lo = d.intExpr(sx.Low)
			}
			if sx.High == nil {
				return fmt.Sprintf("slice_from key (%s)%%N", lo)
			}
			return fmt.Sprintf("slice key (%s)%%N (%s)%%N", lo, d.intExpr(sx.High))
		}
	}
	failf("%s: %s: unsupported slice expression", d.m.pos(e), d.where)
	return ""
}

func (m *modFile) decoder(fd *ast.FuncDecl, rk string, where string) {
	d := &dctx{m: m, where: where, locals: map[string]bool{}}
	var lines []string
	n := len(fd.Body.List)
	for i, st := range fd.Body.List {
		last := i == n-1
		switch s := st.(type) {
		case *ast.AssignStmt:
			if last || s.Tok != token.DEFINE || len(s.Lhs) != len(s.Rhs) {
				failf("%s: %s: unsupported assignment", m.pos(s), where)
			}
			var names, terms []string
			for j := range s.Lhs {
				id, ok := s.Lhs[j].(*ast.Ident)
				if !ok || id.Name == "key" || d.locals[id.Name] {
					failf("%s: %s: unsupported assignment target", m.pos(s), where)
				}
				names = append(names, id.Name)
				terms = append(terms, d.intExpr(s.Rhs[j])) // may not mention the new names
			}
			d.flush(&lines)
			for j, nme := range names {
				d.locals[nme] = true
				lines = append(lines, fmt.Sprintf("let %s := (%s)%%N in", coqIdent(nme), terms[j]))
			}
		case *ast.IfStmt:
			// if len(key) != E { panic(...) }
			if last || s.Init != nil || s.Else != nil {
				failf("%s: %s: unsupported if statement", m.pos(s), where)
			}
			be, ok := s.Cond.(*ast.BinaryExpr)
			if !ok || be.Op != token.NEQ {
				failf("%s: %s: unsupported condition", m.pos(s), where)
			}
			lc, ok := be.X.(*ast.CallExpr)
			okLen := false
			if ok && len(lc.Args) == 1 {
				if id, ok := lc.Fun.(*ast.Ident); ok && id.Name == "len" {
					if kid, ok := lc.Args[0].(*ast.Ident); ok && kid.Name == "key" {
						okLen = true
					}
				}
			}
			if !okLen {
				failf("%s: %s: condition is not len(key) != ...", m.pos(s), where)
			}
			if len(s.Body.List) != 1 {
				failf("%s: %s: unsupported if body", m.pos(s), where)
			}
			es, ok := s.Body.List[0].(*ast.ExprStmt)
			isPanic := false
			if ok {
				if c, ok := es.X.(*ast.CallExpr); ok {
					if id, ok := c.Fun.(*ast.Ident); ok && id.Name == "panic" {
						isPanic = true
					}
				}
			}
			if !isPanic {
				failf("%s: %s: if body is not a panic", m.pos(s), where)
			}
			want := d.intExpr(be.Y)
			d.flush(&lines)
			lines = append(lines, fmt.Sprintf("if negb (key_len key =? %s)%%N then Panic else", want))
		case *ast.ReturnStmt:
			if !last || len(s.Results) != 1 {
				failf("%s: %s: unsupported return", m.pos(s), where)
			}
			r := s.Results[0]
			if rk == "bytes" {
				t := d.sliceExpr(r)
				d.flush(&lines)
				lines = append(lines, t+".")
			} else {
				c, ok := r.(*ast.CallExpr)
				okc := false
				if ok && len(c.Args) == 1 {
					if sel, ok := c.Fun.(*ast.SelectorExpr); ok && m.importOf(sel.X) == pathSDK && sel.Sel.Name == "BigEndianToUint64" {
						okc = true
					}
				}
				if !okc {
					failf("%s: %s: result is not sdk.BigEndianToUint64(key[...])", m.pos(s), where)
				}
				t := d.sliceExpr(c.Args[0])
				d.flush(&lines)
				lines = append(lines, fmt.Sprintf("let! s := %s in", t), "be_u64 s.")
			}
		default:
			failf("%s: %s: unsupported statement", m.pos(st), where)
		}
	}
	if n == 0 {
		failf("%s: %s: empty body", m.pos(fd), where)
	}
	if _, ok := fd.Body.List[n-1].(*ast.ReturnStmt); !ok {
		failf("%s: %s: body does not end in a return", m.pos(fd), where)
	}
	ty := "bytes"
	if rk == "u64" {
		ty = "N"
	}
	name := m.mod + "_" + fd.Name.Name
	m.emit("Definition %s (key : bytes) : res %s :=\n  %s", name, ty, strings.Join(lines, "\n  "))
	m.decs = append(m.decs, name)
	if rk == "u64" {
		m.dtabN = append(m.dtabN, fmt.Sprintf("(\"%s\", %s)", name, name))
	} else {
		m.dtabB = append(m.dtabB, fmt.Sprintf("(\"%s\", %s)", name, name))
	}
}

func parseFile(fset *token.FileSet, path string) *ast.File {
	f, err := parser.ParseFile(fset, path, nil, parser.SkipObjectResolution)
	if err != nil {
		failf("%s: parse error: %v", path, err)
	}
	return f
}

func importsOf(f *ast.File) map[string]string {
	r := map[string]string{}
	for _, im := range f.Imports {
		p, _ := strconv.Unquote(im.Path.Value)
		name := filepath.Base(p)
		if im.Name != nil {
			name = im.Name.Name
		}
		r[name] = p
	}
	return r
}

func translateKeys(repo, mod string) *modFile {
	fset := token.NewFileSet()
	path := filepath.Join(repo, "x", mod, "types", "keys.go")
	f := parseFile(fset, path)
	m := &modFile{mod: mod, fset: fset, file: f, imports: importsOf(f),
		strs: map[string]string{}, vars: map[string]bool{}, funcs: map[string][]kind{}}
	m.emit("(* ---- x/%s/types/keys.go ---- *)", mod)
	for _, d := range f.Decls {
		switch dd := d.(type) {
		case *ast.GenDecl:
			m.genDecl(dd)
		case *ast.FuncDecl:
			m.funcDecl(dd)
		default:
			failf("%s: unsupported declaration", m.pos(d))
		}
	}
	return m
}

// storePrefix: the Store method of x/<mod>/keeper/keeper.go:
//
//	return ctx.KVStore(k.key)                                             -> ""
//	child := fmt.Sprintf("%s/", types.ModuleName)
//	return prefix.NewStore(ctx.KVStore(k.key), []byte(child))             -> ModuleName + "/"
func storePrefix(repo string, m *modFile) (string, bool) {
	fset := token.NewFileSet()
	path := filepath.Join(repo, "x", m.mod, "keeper", "keeper.go")
	if _, err := os.Stat(path); err != nil {
		return "", false
	}
	f := parseFile(fset, path)
	imps := importsOf(f)
	for _, d := range f.Decls {
		fd, ok := d.(*ast.FuncDecl)
		if !ok || fd.Recv == nil || fd.Name.Name != "Store" {
			continue
		}
		where := fmt.Sprintf("%s: method Store", path)
		isKV := func(e ast.Expr) bool { // ctx.KVStore(k.key)
			c, ok := e.(*ast.CallExpr)
			if !ok || len(c.Args) != 1 {
				return false
			}
			sel, ok := c.Fun.(*ast.SelectorExpr)
			if !ok || sel.Sel.Name != "KVStore" {
				return false
			}
			a, ok := c.Args[0].(*ast.SelectorExpr)
			return ok && a.Sel.Name == "key"
		}
		body := fd.Body.List
		if len(body) == 1 {
			if rs, ok := body[0].(*ast.ReturnStmt); ok && len(rs.Results) == 1 && isKV(rs.Results[0]) {
				return "", true
			}
		}
		if len(body) == 2 {
			as, ok1 := body[0].(*ast.AssignStmt)
			rs, ok2 := body[1].(*ast.ReturnStmt)
			if ok1 && ok2 && as.Tok == token.DEFINE && len(as.Lhs) == 1 && len(as.Rhs) == 1 && len(rs.Results) == 1 {
				child := as.Lhs[0].(*ast.Ident).Name
				sp, ok := as.Rhs[0].(*ast.CallExpr)
				format := ""
				if ok && len(sp.Args) == 2 {
					if sel, ok := sp.Fun.(*ast.SelectorExpr); ok && sel.Sel.Name == "Sprintf" {
						if id, ok := sel.X.(*ast.Ident); ok && imps[id.Name] == pathFmt {
							if bl, ok := sp.Args[0].(*ast.BasicLit); ok && bl.Kind == token.STRING {
								if a, ok := sp.Args[1].(*ast.SelectorExpr); ok && a.Sel.Name == "ModuleName" {
									if tid, ok := a.X.(*ast.Ident); ok && strings.HasSuffix(imps[tid.Name], "/x/"+m.mod+"/types") {
										format, _ = strconv.Unquote(bl.Value)
									}
								}
							}
						}
					}
				}
				ns, ok := rs.Results[0].(*ast.CallExpr)
				okNew := false
				if ok && len(ns.Args) == 2 && isKV(ns.Args[0]) {
					if sel, ok := ns.Fun.(*ast.SelectorExpr); ok && sel.Sel.Name == "NewStore" {
						if conv, ok := ns.Args[1].(*ast.CallExpr); ok && len(conv.Args) == 1 {
							if at, ok := conv.Fun.(*ast.ArrayType); ok && at.Len == nil {
								if id, ok := conv.Args[0].(*ast.Ident); ok && id.Name == child {
									okNew = true
								}
							}
						}
					}
				}
				if okNew && strings.Count(format, "%") == 1 && strings.HasPrefix(format, "%s") {
					mn, ok := m.strs["ModuleName"]
					if !ok {
						failf("%s: ModuleName of %s unknown", where, m.mod)
					}
					return mn + format[2:], true
				}
			}
		}
		failf("%s: unsupported shape", where)
	}
	if len(m.ctors) == 0 && len(m.prefs) == 0 {
		return "", false // a module without keys of its own (x/vpn)
	}
	failf("%s: no Store method", path)
	return "", false
}

func translateAddress(repo string) []string {
	fset := token.NewFileSet()
	path := filepath.Join(repo, "types", "address.go")
	f := parseFile(fset, path)
	m := &modFile{mod: "types", fset: fset, file: f, imports: importsOf(f), strs: map[string]string{}}
	m.emit("(* ---- types/address.go (bech32 prefix constants), types/config.go (their wiring) ---- *)")
	for _, d := range f.Decls {
		gd, ok := d.(*ast.GenDecl)
		if !ok || gd.Tok != token.CONST {
			continue
		}
		for _, sp := range gd.Specs {
			vs := sp.(*ast.ValueSpec)
			for i, n := range vs.Names {
				if i >= len(vs.Values) {
					failf("%s: const %s without a value", m.pos(n), n.Name)
				}
				s := m.strConst(vs.Values[i], "const types."+n.Name)
				m.strs[n.Name] = s
				m.emit("Definition types_%s : bytes := %s. (* %q *)", n.Name, strBytes(s), s)
			}
		}
	}
	// config.go: which constant each role's parser and printer use
	cpath := filepath.Join(repo, "types", "config.go")
	cf := parseFile(fset, cpath)
	roles := map[string]string{}
	ast.Inspect(cf, func(n ast.Node) bool {
		switch x := n.(type) {
		case *ast.KeyValueExpr:
			if k, ok := x.Key.(*ast.BasicLit); ok && k.Kind == token.STRING {
				ks, _ := strconv.Unquote(k.Value)
				if id, ok := x.Value.(*ast.Ident); ok {
					if ks == "node_addr" {
						roles["RoleNode"] = id.Name
					}
					if ks == "provider_addr" {
						roles["RoleProv"] = id.Name
					}
				}
			}
		case *ast.CallExpr:
			if sel, ok := x.Fun.(*ast.SelectorExpr); ok && sel.Sel.Name == "SetBech32PrefixForAccount" && len(x.Args) == 2 {
				if id, ok := x.Args[0].(*ast.Ident); ok {
					roles["RoleAcc"] = id.Name
				}
			}
		}
		return true
	})
	// the getters must read those map entries
	getters := map[string]string{"GetBech32NodeAddrPrefix": "node_addr", "GetBech32ProviderAddrPrefix": "provider_addr"}
	seen := map[string]bool{}
	for _, d := range cf.Decls {
		fd, ok := d.(*ast.FuncDecl)
		if !ok {
			continue
		}
		want, ok := getters[fd.Name.Name]
		if !ok {
			continue
		}
		found := false
		ast.Inspect(fd.Body, func(n ast.Node) bool {
			if ix, ok := n.(*ast.IndexExpr); ok {
				if bl, ok := ix.Index.(*ast.BasicLit); ok {
					if s, _ := strconv.Unquote(bl.Value); s == want {
						found = true
					}
				}
			}
			return true
		})
		if !found {
			failf("%s: %s does not read prefixes[%q]", cpath, fd.Name.Name, want)
		}
		seen[fd.Name.Name] = true
	}
	for g := range getters {
		if !seen[g] {
			failf("%s: getter %s not found", cpath, g)
		}
	}
	for _, r := range []string{"RoleAcc", "RoleNode", "RoleProv"} {
		c, ok := roles[r]
		if !ok {
			failf("%s: bech32 prefix of role %s not found", cpath, r)
		}
		if _, ok := m.strs[c]; !ok {
			failf("%s: role %s uses unknown constant %s", cpath, r, c)
		}
	}
	m.emit("Definition hrp_of (r : arole) : bytes :=\n  match r with\n  | RoleAcc => types_%s\n  | RoleNode => types_%s\n  | RoleProv => types_%s\n  end.",
		roles["RoleAcc"], roles["RoleNode"], roles["RoleProv"])
	return m.out
}

func hashLength(repo string) int {
	fset := token.NewFileSet()
	path := filepath.Join(repo, "x", "swap", "types", "ethereum.go")
	f := parseFile(fset, path)
	length := -1
	typed := false
	for _, d := range f.Decls {
		gd, ok := d.(*ast.GenDecl)
		if !ok {
			continue
		}
		for _, sp := range gd.Specs {
			switch s := sp.(type) {
			case *ast.ValueSpec:
				for i, n := range s.Names {
					if n.Name == "EthereumHashLength" && i < len(s.Values) {
						if v, ok := intLit(s.Values[i]); ok {
							length = v
						}
					}
				}
			case *ast.TypeSpec:
				if s.Name.Name == "EthereumHash" {
					if at, ok := s.Type.(*ast.ArrayType); ok {
						if id, ok := at.Len.(*ast.Ident); ok && id.Name == "EthereumHashLength" {
							if el, ok := at.Elt.(*ast.Ident); ok && el.Name == "byte" {
								typed = true
							}
						}
					}
				}
			}
		}
	}
	if length < 0 || !typed {
		failf("%s: EthereumHash is not [EthereumHashLength]byte with a literal length", path)
	}
	return length
}

func coqStrList(xs []string) string {
	q := make([]string, len(xs))
	for i, x := range xs {
		q[i] = "\"" + x + "\""
	}
	return "[" + strings.Join(q, "; ") + "]%string"
}

func run(repo, out string) {
	matches, err := filepath.Glob(filepath.Join(repo, "x", "*", "types", "keys.go"))
	if err != nil || len(matches) == 0 {
		failf("no x/*/types/keys.go under %s", repo)
	}
	sort.Strings(matches)
	var lines, storeTab []string
	lines = append(lines,
		"(* GENERATED by translator/keys2coq from x/*/types/keys.go, x/*/keeper/keeper.go (Store),",
		"   types/address.go, types/config.go, x/swap/types/ethereum.go.  DO NOT EDIT. *)",
		"From Hub Require Import Base.Prelude Base.Bytes Base.Time Base.Bech32.",
		"")
	var ctors, decs, prefs, stores, table, dtabN, dtabB, ptab []string
	for _, p := range matches {
		mod := filepath.Base(filepath.Dir(filepath.Dir(p)))
		m := translateKeys(repo, mod)
		if sp, ok := storePrefix(repo, m); ok {
			sk := m.strs["ModuleName"]
			if mod == "swap" || mod == "mint" {
				if s, ok := m.strs["StoreKey"]; ok {
					sk = s
				} else {
					failf("x/%s/types/keys.go: no StoreKey", mod)
				}
			}
			m.emit("Definition %s_StorePrefix : bytes := %s. (* %q *)", mod, strBytes(sp), sp)
			stores = append(stores, mod)
			storeTab = append(storeTab, fmt.Sprintf("(\"%s\", %s_StorePrefix)", mod, mod))
			_ = sk
		}
		lines = append(lines, m.out...)
		lines = append(lines, "")
		ctors = append(ctors, m.ctors...)
		decs = append(decs, m.decs...)
		prefs = append(prefs, m.prefs...)
		table = append(table, m.table...)
		dtabN = append(dtabN, m.dtabN...)
		dtabB = append(dtabB, m.dtabB...)
		for _, p := range m.prefs {
			ptab = append(ptab, fmt.Sprintf("(\"%s\", %s)", p, p))
		}
	}
	lines = append(lines, fmt.Sprintf("Definition swap_EthereumHashLength : nat := %d.", hashLength(repo)), "")
	lines = append(lines, translateAddress(repo)...)
	lines = append(lines, "",
		"(* inventory: Proofs/KeysThm.v checks that it covers exactly these *)",
		"Definition gen_prefixes : list string :=\n  "+coqStrList(prefs)+".",
		"Definition gen_constructors : list string :=\n  "+coqStrList(ctors)+".",
		"Definition gen_decoders : list string :=\n  "+coqStrList(decs)+".",
		"Definition gen_stores : list string :=\n  "+coqStrList(stores)+".",
		"",
		"(* unfolding hints for the constructor functions (used by Proofs/KeysThm.v) *)",
		"Create HintDb keysgen.",
		"#[global] Hint Unfold "+strings.Join(ctors, " ")+" : keysgen.",
		"",
		"(* uniform call tables for the model runner *)",
		"Definition gen_prefix_table : list (string * bytes) :=\n  ["+strings.Join(ptab, ";\n   ")+"]%string.",
		"Definition gen_ctor_table : list (string * (bytes -> bytes -> N -> N -> Z -> bytes -> bool * bytes)) :=\n  ["+strings.Join(table, ";\n   ")+"]%string.",
		"Definition gen_dec_u64_table : list (string * (bytes -> res N)) :=\n  ["+strings.Join(dtabN, ";\n   ")+"]%string.",
		"Definition gen_dec_bytes_table : list (string * (bytes -> res bytes)) :=\n  ["+strings.Join(dtabB, ";\n   ")+"]%string.",
		"Definition gen_store_table : list (string * bytes) :=\n  ["+strings.Join(storeTab, ";\n   ")+"]%string.")
	text := strings.Join(lines, "\n") + "\n"
	if old, err := os.ReadFile(out); err == nil && string(old) == text {
		fmt.Println("unchanged", out)
		return
	}
	if err := os.WriteFile(out, []byte(text), 0o644); err != nil {
		failf("write %s: %v", out, err)
	}
	fmt.Println("wrote", out)
}

func main() {
	repo := flag.String("repo", "/repo", "hub source tree")
	out := flag.String("out", "KeysGen.v", "output file")
	flag.Parse()
	defer func() {
		if r := recover(); r != nil {
			if f, ok := r.(failure); ok {
				fmt.Fprintln(os.Stderr, "keys2coq: cannot translate:", f.msg)
				os.Exit(1)
			}
			panic(r)
		}
	}()
	run(*repo, *out)
}
