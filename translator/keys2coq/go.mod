module keys2coq

go 1.21
