#!/usr/bin/env python3
"""wiring2coq: regenerate coq/theories/Gen/Wiring.v from the application wiring of the hub.

Inputs (current working tree of the repository):
  app/module.go   SetOrderBeginBlockers(...), SetOrderEndBlockers(...), SetOrderInitGenesis(...) argument lists,
                  the map literal returned by ModuleAccPerms(), and BlockedAccAddrs() (must range over ModuleAccPerms()).
  x/vpn/abci.go   the bodies of BeginBlock / EndBlock: cache context + deferred write, then the sequence of sub-module hooks.
  x/mint/abci.go  BeginBlock of the inflation module (shape only: one IterateInflations loop).

Output: plain lists of the Go expressions, in source order.  The theorems of Proofs/WiringThm.v (custommint before mint,
gov before vpn at the end of a block, the deposit module account holds no mint/burn permission, only swap mints among the
hub's module accounts, every module account is a blocked recipient, the end-blocker order node; session; subscription the
model's [end_block] is written in) are re-checked against these lists on every run.

Fail closed: any shape not understood is an error, exit status 1, and the old generated file is removed.
"""
import os
import re
import sys

REPO = os.environ.get("HUB_REPO", "/repo")
OUT = os.path.join(os.path.dirname(os.path.dirname(os.path.abspath(__file__))), "coq", "theories", "Gen", "Wiring.v")


class Untranslatable(Exception):
    pass


def strip_comments(src):
    src = re.sub(r"/\*.*?\*/", "", src, flags=re.S)
    return re.sub(r"//[^\n]*", "", src)


def balanced(src, start, open_ch, close_ch):
    """src[start] == open_ch; returns the index just after the matching close_ch"""
    assert src[start] == open_ch
    depth = 0
    i = start
    while i < len(src):
        c = src[i]
        if c == '"':
            j = i + 1
            while src[j] != '"':
                j += 2 if src[j] == "\\" else 1
            i = j
        elif c == open_ch:
            depth += 1
        elif c == close_ch:
            depth -= 1
            if depth == 0:
                return i + 1
        i += 1
    raise Untranslatable("unbalanced %s" % open_ch)


def call_args(src, callee, fname):
    ms = list(re.finditer(re.escape(callee) + r"\s*\(", src))
    if len(ms) != 1:
        raise Untranslatable("%s: expected exactly one call of %s, found %d" % (fname, callee, len(ms)))
    a = ms[0].end() - 1
    b = balanced(src, a, "(", ")")
    body = src[a + 1:b - 1]
    args = [x.strip() for x in body.split(",")]
    args = [x for x in args if x]
    for x in args:
        if not re.fullmatch(r"[A-Za-z_][A-Za-z_0-9]*\.[A-Za-z_][A-Za-z_0-9]*", x):
            raise Untranslatable("%s: argument %r of %s is not a qualified constant" % (fname, x, callee))
    if len(set(args)) != len(args):
        raise Untranslatable("%s: duplicate module in %s" % (fname, callee))
    return args


def func_body(src, name, fname):
    ms = list(re.finditer(r"^func\s+" + re.escape(name) + r"\s*\(", src, flags=re.M))
    if len(ms) != 1:
        raise Untranslatable("%s: expected exactly one func %s" % (fname, name))
    i = src.index("{", balanced(src, ms[0].end() - 1, "(", ")"))
    # skip a result type in braces-free form; the first '{' after the parameter list opens the body unless the result is a map/struct literal type
    j = balanced(src, i, "{", "}")
    return src[i + 1:j - 1]


def module_perms(src, fname):
    m = re.search(r"^func\s+ModuleAccPerms\s*\(\s*\)\s*map\[string\]\[\]string\s*\{", src, flags=re.M)
    if not m:
        raise Untranslatable("%s: func ModuleAccPerms() map[string][]string not found" % fname)
    body = src[m.end():balanced(src, m.end() - 1, "{", "}") - 1]
    m2 = re.fullmatch(r"\s*return\s+map\[string\]\[\]string\s*\{(.*)\}\s*", body, flags=re.S)
    if not m2:
        raise Untranslatable("%s: ModuleAccPerms is not a single returned map literal" % fname)
    entries = []
    rest = m2.group(1)
    pos = 0
    ent = re.compile(r"\s*([A-Za-z_][A-Za-z_0-9]*\.[A-Za-z_][A-Za-z_0-9]*)\s*:\s*(nil|\{([^{}]*)\})\s*,")
    while True:
        if not rest[pos:].strip():
            break
        m3 = ent.match(rest, pos)
        if not m3:
            raise Untranslatable("%s: ModuleAccPerms entry not understood near %r" % (fname, rest[pos:pos + 60]))
        perms = []
        if m3.group(2) != "nil":
            perms = [x.strip() for x in m3.group(3).split(",") if x.strip()]
            for x in perms:
                if not re.fullmatch(r"authtypes\.(Minter|Burner|Staking)", x):
                    raise Untranslatable("%s: unknown permission %r" % (fname, x))
        entries.append((m3.group(1), perms))
        pos = m3.end()
    if len(set(k for k, _ in entries)) != len(entries):
        raise Untranslatable("%s: duplicate key in ModuleAccPerms" % fname)
    return entries


def blocked_shape(src, fname):
    body = func_body(src, "BlockedAccAddrs", fname)
    norm = re.sub(r"\s+", " ", body).strip()
    want = ("accAddrs := make(map[string]bool) for v := range ModuleAccPerms() { accAddr := authtypes.NewModuleAddress(v) "
            "accAddrs[accAddr.String()] = true } return accAddrs")
    if norm != want:
        raise Untranslatable("%s: BlockedAccAddrs no longer blocks exactly the module accounts of ModuleAccPerms(): %r" % (fname, norm))
    return True


def hook_calls(src, name, fname):
    body = func_body(src, name, fname)
    stmts = [re.sub(r"\s+", " ", x).strip() for x in body.split("\n")]
    stmts = [x for x in stmts if x]
    if stmts[:2] != ["ctx, write := cacheContext(ctx)", "defer write()"]:
        raise Untranslatable("%s: %s does not start with the cache context and deferred write: %r" % (fname, name, stmts[:2]))
    calls = []
    for x in stmts[2:]:
        m = re.fullmatch(r"([a-z]+)\.(BeginBlock|EndBlock)\(ctx, k\.([A-Za-z]+)\)", x)
        if m:
            calls.append("%s.%s" % (m.group(1), m.group(2)))
        elif x == "return nil":
            continue
        else:
            raise Untranslatable("%s: statement %r of %s not understood" % (fname, x, name))
    return calls


def coq_list(xs):
    return "[" + "; ".join('"%s"' % x for x in xs) + "]"


def main(argv):
    try:
        os.remove(OUT)
    except OSError:
        pass
    try:
        f1 = os.path.join(REPO, "app", "module.go")
        s1 = strip_comments(open(f1).read())
        begin = call_args(s1, "manager.SetOrderBeginBlockers", f1)
        end = call_args(s1, "manager.SetOrderEndBlockers", f1)
        initg = call_args(s1, "manager.SetOrderInitGenesis", f1)
        perms = module_perms(s1, f1)
        blocked_shape(s1, f1)
        f2 = os.path.join(REPO, "x", "vpn", "abci.go")
        s2 = strip_comments(open(f2).read())
        cc = re.sub(r"\s+", " ", func_body(s2, "cacheContext", f2)).strip()
        if cc != "cms := c.MultiStore().CacheMultiStore() cc = c.WithMultiStore(cms) return cc, cms.Write":
            raise Untranslatable("%s: cacheContext changed: %r" % (f2, cc))
        vb = hook_calls(s2, "BeginBlock", f2)
        ve = hook_calls(s2, "EndBlock", f2)
    except (Untranslatable, OSError, AssertionError, ValueError, IndexError) as e:
        print("wiring2coq: cannot translate: %s" % e)
        return 1
    out = []
    out.append("(* GENERATED by translator/wiring2coq.py from app/module.go and x/vpn/abci.go -- do not edit. *)")
    out.append("From Coq Require Import String List.")
    out.append("Import ListNotations.")
    out.append("Open Scope string_scope.")
    out.append("")
    out.append("Definition begin_blockers : list string :=\n  %s." % coq_list(begin))
    out.append("Definition end_blockers : list string :=\n  %s." % coq_list(end))
    out.append("Definition init_genesis_order : list string :=\n  %s." % coq_list(initg))
    out.append("Definition module_perms : list (string * list string) :=\n  [" +
               ";\n   ".join('("%s", %s)' % (k, coq_list(v)) for k, v in perms) + "].")
    out.append("(* BlockedAccAddrs() blocks exactly the module accounts listed in ModuleAccPerms() (shape checked by the translator) *)")
    out.append("Definition blocked_is_all_module_accounts : bool := true.")
    out.append("(* x/vpn/abci.go: both hooks run inside one cache context with a deferred write, then call: *)")
    out.append("Definition vpn_begin_block_calls : list string := %s." % coq_list(vb))
    out.append("Definition vpn_end_block_calls : list string := %s." % coq_list(ve))
    os.makedirs(os.path.dirname(OUT), exist_ok=True)
    open(OUT, "w").write("\n".join(out) + "\n")
    return 0


if __name__ == "__main__":
    sys.exit(main(sys.argv[1:]))
