(* Byte strings as used in store keys: the helpers every x/*/types/keys.go constructor
   is built from.  Model file: definitions only (proofs are in Proofs/BytesThm.v).

     len_prefix  = address.MustLengthPrefix   (cosmos-sdk types/address/store_key.go)
     u64be       = sdk.Uint64ToBigEndian
     be_u64      = sdk.BigEndianToUint64
     bytes_cmp   = bytes.Compare (the order in which the IAVL / prefix store iterates)
   A byte is an [N] (< 256 for well-formed strings, see [bytes_ok]). *)
From Coq Require Import Ascii.
From Hub Require Import Base.Prelude.

Definition bytes := list N.

Definition byte_ok (b : N) : bool := (b <? 256)%N.
Definition bytes_ok (l : bytes) : bool := forallb byte_ok l.

(* ---- fixed-width big-endian positional numerals (base 256 for integers,
        base 10 with offset '0' for the decimal fields of a formatted time) ---- *)
Fixpoint digits (base off : N) (k : nat) (n : N) : bytes :=
  match k with
  | O => []
  | S k' => (off + (n / base ^ N.of_nat k') mod base)%N :: digits base off k' n
  end.

Definition u64be (n : N) : bytes := digits 256 0 8 n.

(* value of a big-endian byte string *)
Definition be_val (l : bytes) : N := fold_left (fun acc b => (acc * 256 + b)%N) l 0%N.

(* sdk.BigEndianToUint64: 0 on the empty slice, otherwise binary.BigEndian.Uint64,
   which panics on fewer than 8 bytes and reads the first 8. *)
Definition be_u64 (l : bytes) : res N :=
  match l with
  | [] => Ok 0%N
  | _ => if (length l <? 8)%nat then Panic else Ok (be_val (firstn 8 l))
  end.

(* address.LengthPrefix: the empty string stays empty, more than 255 bytes is an
   error (MustLengthPrefix panics: [len_ok] is the domain on which it returns). *)
Definition len_ok (bz : bytes) : bool := (length bz <=? 255)%nat.
Definition len_prefix (bz : bytes) : bytes :=
  match bz with
  | [] => []
  | _ => N.of_nat (length bz) :: bz
  end.

(* ---- Go slice primitives used by the key decoders (index / slice out of range
        is a run-time panic) ---- *)
Definition key_at (key : bytes) (i : N) : res N :=
  match nth_error key (N.to_nat i) with
  | Some b => Ok b
  | None => Panic
  end.

(* key[a:] *)
Definition slice_from (key : bytes) (a : N) : res bytes :=
  if (length key <? N.to_nat a)%nat then Panic else Ok (skipn (N.to_nat a) key).

(* key[a:b] *)
Definition slice (key : bytes) (a b : N) : res bytes :=
  if (b <? a)%N || (length key <? N.to_nat b)%nat then Panic
  else Ok (firstn (N.to_nat b - N.to_nat a) (skipn (N.to_nat a) key)).

Definition key_len (key : bytes) : N := N.of_nat (length key).

(* ---- order and prefix tests ---- *)
Fixpoint bytes_cmp (a b : bytes) : comparison :=
  match a, b with
  | [], [] => Eq
  | [], _ :: _ => Lt
  | _ :: _, [] => Gt
  | x :: a', y :: b' =>
      match N.compare x y with
      | Eq => bytes_cmp a' b'
      | c => c
      end
  end.

Definition bytes_lt (a b : bytes) : Prop := bytes_cmp a b = Lt.

Fixpoint bytes_eqb (a b : bytes) : bool :=
  match a, b with
  | [], [] => true
  | x :: a', y :: b' => (x =? y)%N && bytes_eqb a' b'
  | _, _ => false
  end.

Fixpoint is_prefixb (p k : bytes) : bool :=
  match p, k with
  | [], _ => true
  | x :: p', y :: k' => (x =? y)%N && is_prefixb p' k'
  | _ :: _, [] => false
  end.

(* ASCII text as bytes *)
Fixpoint bytes_of_string (s : string) : bytes :=
  match s with
  | EmptyString => []
  | String c s' => N_of_ascii c :: bytes_of_string s'
  end.
