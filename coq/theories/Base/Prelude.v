(* Common prelude: result monad, basic types shared by model and proofs. *)
From Coq Require Export ZArith List Bool String Lia.
From stdpp Require Export base option list gmap sorting.
From RecordUpdate Require Export RecordUpdate.
Export ListNotations.
#[global] Open Scope Z_scope.

(* Result of an operation of the Go code: a value, an ordinary error
   ([return err]), or a Go panic.  Inside a transaction both [Err] and [Panic]
   discard the state (baseapp recovers panics); inside a block hook a [Panic]
   halts the chain. *)
Inductive res (A : Type) : Type :=
| Ok (a : A)
| Err
| Panic.
Arguments Ok {A} a.
Arguments Err {A}.
Arguments Panic {A}.

Definition rbind {A B} (m : res A) (f : A -> res B) : res B :=
  match m with
  | Ok a => f a
  | Err => Err
  | Panic => Panic
  end.

Notation "'let!' x ':=' m 'in' k" := (rbind m (fun x => k))
  (at level 200, x name, m at level 100, k at level 200, right associativity) : Z_scope.

Notation "'let!' ' pat ':=' m 'in' k" := (rbind m (fun x => match x with pat => k end))
  (at level 200, pat pattern, m at level 100, k at level 200, right associativity) : Z_scope.

Definition ensure (b : bool) : res unit := if b then Ok tt else Err.
Definition assertp (b : bool) : res unit := if b then Ok tt else Panic.

(* an error raised inside a block hook is turned into a panic by the code *)
Definition must {A} (m : res A) : res A :=
  match m with
  | Ok a => Ok a
  | _ => Panic
  end.

Fixpoint rfold {A S} (f : S -> A -> res S) (l : list A) (s : S) : res S :=
  match l with
  | [] => Ok s
  | x :: l' => let! s' := f s x in rfold f l' s'
  end.

Lemma rbind_ok {A B} (m : res A) (f : A -> res B) b :
  rbind m f = Ok b <-> exists a, m = Ok a /\ f a = Ok b.
Proof.
  destruct m; simpl; split; try (intros [a [H _]]; discriminate); try discriminate.
  - intros H; eauto.
  - intros [a' [H1 H2]]. injection H1 as ->. exact H2.
Qed.
