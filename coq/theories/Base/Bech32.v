(* Executable bech32 as used for account / node / provider addresses.
   Model file: definitions only (proofs are in Proofs/Bech32Thm.v).

   Follows github.com/cosmos/btcutil/bech32 (Encode, Decode with a length limit,
   Normalize, DecodeUnsafe, bech32Polymod, ConvertBits) and the wrappers
   cosmos-sdk types/bech32 (ConvertAndEncode, DecodeAndConvert with limit 1023),
   sdk.GetFromBech32, sdk.VerifyAddressFormat, sdk.AccAddressFromBech32 and
   hub types.NodeAddressFromBech32 / ProvAddressFromBech32.
   Text is a list of byte values (ASCII codes). *)
From Coq Require Import Ascii.
From Hub Require Import Base.Prelude Base.Bytes.

Definition charset : bytes := bytes_of_string "qpzry9x8gf2tvdw0s3jn54khce6mua7l".

Definition GEN0 : N := 0x3b6a57b2%N.
Definition GEN1 : N := 0x26508e6d%N.
Definition GEN2 : N := 0x1ea119fa%N.
Definition GEN3 : N := 0x3d4233dd%N.
Definition GEN4 : N := 0x2a1462b3%N.
Definition MASK25 : N := 0x1ffffff%N.

(* ---- checksum ---- *)
Definition sel (b i g : N) : N := if N.testbit b i then g else 0%N.

Definition gen_mix (b : N) : N :=
  N.lxor (sel b 0 GEN0) (N.lxor (sel b 1 GEN1) (N.lxor (sel b 2 GEN2) (N.lxor (sel b 3 GEN3) (sel b 4 GEN4)))).

(* one round of bech32Polymod:  b := chk >> 25; chk = (chk & 0x1ffffff) << 5 ^ v;
   for i in 0..4: if (b >> i) & 1 == 1 then chk ^= gen[i] *)
Definition pm_step (chk v : N) : N :=
  N.lxor (N.lxor (N.shiftl (N.land chk MASK25) 5) v) (gen_mix (N.shiftr chk 25)).

Definition hrp_expand (hrp : bytes) : list N :=
  map (fun c => N.shiftr c 5) hrp ++ [0%N] ++ map (fun c => N.land c 31) hrp.

Definition polymod (hrp : bytes) (values checksum : list N) : N :=
  fold_left pm_step (hrp_expand hrp ++ values ++ checksum) 1%N.

Definition ZERO6 : list N := [0; 0; 0; 0; 0; 0]%N.

Definition checksum (hrp : bytes) (data : list N) : list N :=
  let pm := N.lxor (polymod hrp data ZERO6) 1 in
  map (fun i => N.land (N.shiftr pm (5 * (5 - i))) 31) [0; 1; 2; 3; 4; 5]%N.

(* ---- characters ---- *)
Definition to_lower (c : N) : N := if (65 <=? c)%N && (c <=? 90)%N then (c + 32)%N else c.
Definition char_of (v : N) : N := nth (N.to_nat v) charset 0%N.

Fixpoint index_of (c : N) (l : list N) (i : N) : option N :=
  match l with
  | [] => None
  | x :: l' => if (x =? c)%N then Some i else index_of c l' (i + 1)%N
  end.
Definition char_index (c : N) : option N := index_of c charset 0.

Fixpoint to_values (s : bytes) : option (list N) :=
  match s with
  | [] => Some []
  | c :: s' =>
      match char_index c, to_values s' with
      | Some v, Some vs => Some (v :: vs)
      | _, _ => None
      end
  end.

(* bech32.Encode *)
Definition bech32_encode (hrp : bytes) (data : list N) : option bytes :=
  let hrp' := map to_lower hrp in
  if forallb (fun v => (v <? 32)%N) data
  then Some (hrp' ++ [49%N] ++ map char_of data ++ map char_of (checksum hrp' data))
  else None.

(* bech32.Normalize *)
Definition is_lower (c : N) : bool := (97 <=? c)%N && (c <=? 122)%N.
Definition is_upper (c : N) : bool := (65 <=? c)%N && (c <=? 90)%N.
Definition printable (c : N) : bool := (33 <=? c)%N && (c <=? 126)%N.

Definition normalize (s : bytes) : option bytes :=
  if negb (forallb printable s) then None
  else if existsb is_lower s && existsb is_upper s then None
  else if existsb is_upper s then Some (map to_lower s) else Some s.

(* strings.LastIndexByte *)
Fixpoint last_index (c : N) (s : bytes) (i : nat) (acc : option nat) : option nat :=
  match s with
  | [] => acc
  | x :: s' => last_index c s' (S i) (if (x =? c)%N then Some i else acc)
  end.

(* bech32.Decode(bech, limit): human-readable part and 5-bit data without checksum *)
Definition bech32_decode (s : bytes) (limit : nat) : option (bytes * list N) :=
  if (limit <? length s)%nat then None
  else if (length s <? 8)%nat then None
  else
    match normalize s with
    | None => None
    | Some s' =>
        match last_index 49 s' 0 None with
        | None => None
        | Some one =>
            if (one <? 1)%nat || (length s' <? one + 7)%nat then None
            else
              let hrp := firstn one s' in
              match to_values (skipn (one + 1) s') with
              | None => None
              | Some dec =>
                  let n := (length dec - 6)%nat in
                  if (polymod hrp (firstn n dec) (skipn n dec) =? 1)%N
                  then Some (hrp, firstn n dec) else None
              end
        end
    end.

(* ---- bech32.ConvertBits: regroup [from]-bit values into [to]-bit values ---- *)
Fixpoint bits_of (w : nat) (v : N) : list bool :=
  match w with
  | O => []
  | S w' => N.testbit v (N.of_nat w') :: bits_of w' v
  end.

Definition bits_val (bs : list bool) : N :=
  fold_left (fun acc (b : bool) => (2 * acc + (if b then 1 else 0))%N) bs 0%N.

(* the next [w] bits as a number (most significant first), if there are that many *)
Fixpoint take_bits (w : nat) (bs : list bool) (acc : N) : option (N * list bool) :=
  match w with
  | O => Some (acc, bs)
  | S w' =>
      match bs with
      | [] => None
      | b :: bs' => take_bits w' bs' (2 * acc + (if b then 1 else 0))%N
      end
  end.

(* full groups of [w] bits, and the incomplete rest *)
Fixpoint group_bits (fuel w : nat) (bs : list bool) : list N * list bool :=
  match fuel with
  | O => ([], bs)
  | S fuel' =>
      match take_bits w bs 0 with
      | None => ([], bs)
      | Some (v, rest) => let '(gs, r) := group_bits fuel' w rest in (v :: gs, r)
      end
  end.

Definition convert_bits (from to : nat) (pad : bool) (data : list N) : option (list N) :=
  let bs := flat_map (bits_of from) data in
  let '(gs, rest) := group_bits (length bs) to bs in
  match rest with
  | [] => Some gs
  | _ =>
      if pad then Some (gs ++ [bits_val (rest ++ repeat false (to - length rest))])
      else if (4 <? length rest)%nat || negb (bits_val rest =? 0)%N then None
      else Some gs
  end.

(* sdk bech32.ConvertAndEncode / DecodeAndConvert *)
Definition convert_and_encode (hrp data : bytes) : option bytes :=
  match convert_bits 8 5 true data with
  | Some c => bech32_encode hrp c
  | None => None
  end.

Definition decode_and_convert (s : bytes) : option (bytes * bytes) :=
  match bech32_decode s 1023 with
  | Some (hrp, d5) =>
      match convert_bits 5 8 false d5 with
      | Some d8 => Some (hrp, d8)
      | None => None
      end
  | None => None
  end.

(* sdk.GetFromBech32 *)
Definition get_from_bech32 (s prefix : bytes) : option bytes :=
  match s with
  | [] => None
  | _ =>
      match decode_and_convert s with
      | Some (hrp, bz) => if bytes_eqb hrp prefix then Some bz else None
      | None => None
      end
  end.

(* sdk.VerifyAddressFormat (no custom verifier is configured) *)
Definition verify_address_format (bz : bytes) : bool :=
  negb (length bz =? 0)%nat && (length bz <=? 255)%nat.

(* strings.TrimSpace restricted to ASCII text *)
Definition is_space (c : N) : bool :=
  (c =? 32)%N || ((9 <=? c)%N && (c <=? 13)%N).
Fixpoint trim_left (s : bytes) : bytes :=
  match s with
  | c :: s' => if is_space c then trim_left s' else s
  | [] => []
  end.
Definition trim_space (s : bytes) : bytes := rev (trim_left (rev (trim_left s))).

(* ---- the three address roles ---- *)
Inductive arole := RoleAcc | RoleNode | RoleProv.

Section Roles.
  (* human-readable parts, supplied from Gen/KeysGen.v (read from /repo/types/address.go) *)
  Variable hrp_of : arole -> bytes.

  (* AccAddress.String / NodeAddress.String / ProvAddress.String *)
  Definition addr_to_text (r : arole) (a : bytes) : option bytes :=
    match a with
    | [] => Some []
    | _ => convert_and_encode (hrp_of r) a
    end.

  (* sdk.AccAddressFromBech32 tests the trimmed text for emptiness but parses the
     untrimmed text; the hub parsers for node and provider parse the trimmed text. *)
  Definition addr_from_text (r : arole) (s : bytes) : option bytes :=
    match trim_space s with
    | [] => None
    | s' =>
        let arg := match r with RoleAcc => s | _ => s' end in
        match get_from_bech32 arg (hrp_of r) with
        | Some bz => if verify_address_format bz then Some bz else None
        | None => None
        end
    end.
End Roles.
