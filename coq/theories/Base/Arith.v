(* Model of the arithmetic of cosmossdk.io/math v1.3.0 used by the hub:
   sdkmath.Int (256-bit checked big integer) and LegacyDec (18-decimal fixed
   point, 315-bit check), and of the three hub functions built on them:
   utils.AmountForBytes, utils.GetProportionOfCoin, types.Bandwidth.CeilTo. *)
From Hub Require Import Base.Prelude.

(** * sdkmath.Int *)

Definition MAXINT : Z := 2 ^ 256.           (* |x| < 2^256  <->  BitLen(x) <= 256 *)
Definition fits (z : Z) : bool := Z.abs z <? MAXINT.
Definition chk (z : Z) : res Z := if fits z then Ok z else Panic.

Definition int_add (a b : Z) : res Z := chk (a + b).
Definition int_sub (a b : Z) : res Z := chk (a - b).
Definition int_mul (a b : Z) : res Z := chk (a * b).
(* big.Int.Quo: truncated division; division by zero panics *)
Definition int_quo (a b : Z) : res Z := if b =? 0 then Panic else Ok (Z.quot a b).
(* big.Int.Mod: Euclidean modulus; for b > 0 this is Z.modulo *)
Definition int_mod (a b : Z) : res Z :=
  if b =? 0 then Panic else Ok (if 0 <? b then a mod b else a mod (- b)).

(** * LegacyDec: a decimal d is represented by the integer d * 10^18 *)

Definition P18 : Z := 10 ^ 18.
Definition HALF18 : Z := 5 * 10 ^ 17.
Definition GB : Z := 10 ^ 9.                (* hubtypes.Gigabyte *)
Definition MAXDEC : Z := 2 ^ 315.           (* |x| < 2^315 <-> BitLen(x) <= 315 *)
Definition MAXDEC1 : Z := 2 ^ 314.          (* |x| < 2^314 <-> BitLen(x) < 315 *)

(* chopPrecisionAndRound: divide by 10^18, round half to even, symmetric in sign *)
Definition chop_round_pos (d : Z) : Z :=
  let q := d / P18 in
  let r := d mod P18 in
  if r =? 0 then q
  else if r <? HALF18 then q
  else if HALF18 <? r then q + 1
  else if Z.even q then q else q + 1.
Definition chop_round (d : Z) : Z :=
  if d <? 0 then - chop_round_pos (- d) else chop_round_pos d.

Definition dec_of_int (i : Z) : Z := i * P18.            (* LegacyNewDecFromInt *)
Definition dec_mul (a b : Z) : res Z :=                  (* LegacyDec.Mul *)
  let c := chop_round (a * b) in
  if Z.abs c <? MAXDEC then Ok c else Panic.
Definition dec_quo_int (a i : Z) : Z := Z.quot a i.      (* LegacyDec.QuoInt (no check) *)
Definition dec_ceil (d : Z) : res Z :=                   (* LegacyDec.Ceil *)
  let q := Z.quot d P18 in
  let r := Z.rem d P18 in
  if r <=? 0 then Ok (q * P18)
  else if Z.abs d <? MAXDEC1 then Ok ((q + 1) * P18) else Panic.
Definition dec_truncate_int (d : Z) : res Z := chk (Z.quot d P18).   (* TruncateInt *)
Definition dec_round_int (d : Z) : res Z := chk (chop_round d).      (* RoundInt *)

(** * hub functions *)

(* utils.AmountForBytes(gigabytePrice, bytes) *)
Definition amount_for_bytes (p b : Z) : res Z :=
  let byte_price := dec_quo_int (dec_of_int p) GB in
  let! m := dec_mul (dec_of_int b) byte_price in
  let! c := dec_ceil m in
  dec_truncate_int c.

(* utils.GetProportionOfCoin(coin, share): the amount part; [share] is the
   18-decimal representation.  sdk.NewCoin panics on a negative amount. *)
Definition proportion (a share : Z) : res Z :=
  let! m := dec_mul (dec_of_int a) share in
  let! r := dec_round_int m in
  if r <? 0 then Panic else Ok r.

(* one component of Bandwidth.CeilTo(pre) *)
Definition ceil_to1 (pre v : Z) : res Z :=
  if pre <=? 0 then Ok v
  else
    let! m := int_mod v pre in
    let! d := int_sub pre m in
    let d' := if d =? pre then 0 else d in
    int_add v d'.
