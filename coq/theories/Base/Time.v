(* sdk.FormatTimeBytes as a function of an instant.  Model file: definitions only
   (proofs are in Proofs/TimeThm.v).

   An instant is a [Z]: nanoseconds since the Unix epoch 1970-01-01T00:00:00Z.
   FormatTimeBytes(t) = t.UTC().Round(0).Format("2006-01-02T15:04:05.000000000"),
   which for years 1..9999 is the fixed-width 29-byte text
        YYYY-MM-DDThh:mm:ss.nnnnnnnnn
   (proleptic Gregorian calendar, the calendar of Go's time package).
   [time_ok] is the domain years 1..9999; outside it Go prints the year with more
   digits or a sign and the model is not claimed. *)
From Hub Require Import Base.Prelude Base.Bytes.

Definition NS_PER_S : Z := 1000000000.
Definition S_PER_DAY : Z := 86400.

(* days since 1970-01-01 -> (year, month, day); the era / day-of-era algorithm
   (shift the year to start on 1 March; 146097 days per 400-year era). *)
Definition civil_of_doe (doe : Z) : Z * Z * Z :=
  let yoe := (doe - doe / 1460 + doe / 36524 - doe / 146096) / 365 in
  let doy := doe - (365 * yoe + yoe / 4 - yoe / 100) in
  let mp := (5 * doy + 2) / 153 in
  let d := doy - (153 * mp + 2) / 5 + 1 in
  let m := if mp <? 10 then mp + 3 else mp - 9 in
  let y := yoe + (if m <=? 2 then 1 else 0) in
  (y, m, d).

Definition civil_from_days (days : Z) : Z * Z * Z :=
  let z := days + 719468 in
  let era := z / 146097 in
  let doe := z mod 146097 in
  let '(y, m, d) := civil_of_doe doe in
  (y + era * 400, m, d).

(* first and last instant of the years 1..9999 *)
Definition MIN_TIME : Z := -62135596800 * NS_PER_S.
Definition MAX_TIME : Z := 253402300799 * NS_PER_S + 999999999.
Definition time_ok (t : Z) : bool := (MIN_TIME <=? t) && (t <=? MAX_TIME).

Definition dec (k : nat) (v : Z) : bytes := digits 10 48 k (Z.to_N v).

Definition fmt_time (t : Z) : bytes :=
  let secs := t / NS_PER_S in
  let ns := t mod NS_PER_S in
  let days := secs / S_PER_DAY in
  let sod := secs mod S_PER_DAY in
  let '(y, m, d) := civil_from_days days in
  dec 4 y ++ [45%N] ++ dec 2 m ++ [45%N] ++ dec 2 d ++ [84%N] ++
  dec 2 (sod / 3600) ++ [58%N] ++ dec 2 ((sod mod 3600) / 60) ++ [58%N] ++ dec 2 (sod mod 60) ++
  [46%N] ++ dec 9 ns.
