(* Genesis export / validation / import of the three hub modules, as the Go code
   does it (x/*/genesis.go, x/*/types/genesis.go, x/vpn/genesis.go).
   Executable, no proofs.  Faithful to the code INCLUDING its defects:
   the subscription module exports an empty list and imports only its
   parameters (F5); session and plan import re-derive the counter as the
   largest id among the imported records (F8 for sessions).

   Not modelled (named in out/agent_genesis.md): URL syntax checks of
   Provider.Website / Node.RemoteURL inside the per-record Validate (the same
   check guards registration; the model's messages carry it as an oracle bit),
   nil-ness of sdk.Int / sdk.Coins fields (not representable in the model). *)
From Hub Require Import Base.Prelude Base.Arith Model.Types Model.Keeper Model.Handlers Model.Hooks Model.Step.

(** * the exported documents *)

Record gplan := { gp_plan : plan; gp_nodes : list addr }.                    (* plantypes.GenesisPlan *)
Record gsub := { gs_sub : subscription; gs_allocs : list allocation }.       (* subscriptiontypes.GenesisSubscription *)

Record gen_doc := {
  gd_deposits : list (addr * coins);      (* deposittypes.GenesisState = Deposits *)
  gd_providers : list provider;
  gd_nodes : list node;
  gd_plans : list gplan;
  gd_subs : list gsub;
  gd_sessions : list session;
  gd_swaps : list swap;
  gd_inflations : list inflation;
  gd_params : params }.                   (* the Params fields of the provider, node, subscription, session, swap documents *)

(** * ExportGenesis: records in the iteration order of the store *)

Definition by_addr {V} (m : gmap addr V) : list (addr * V) := sort_by (fun x y => addr_cmp x.1 y.1) (map_to_list m).
Definition by_z {V} (m : gmap Z V) : list (Z * V) := sort_by (fun x y => Z.compare x.1 y.1) (map_to_list m).
Definition by_bytes {V} (m : gmap (list N) V) : list (list N * V) := sort_by (fun x y => bytes_cmp x.1 y.1) (map_to_list m).

(* k.GetDeposits *)
Definition exp_deposits (s : state) : list (addr * coins) := by_addr (deposits s).
(* k.GetProviders: prefix 0x10 = active partition (0x10 0x01) then inactive (0x10 0x02) *)
Definition exp_providers (s : state) : list provider := map snd (by_addr (prov_act s)) ++ map snd (by_addr (prov_inact s)).
(* k.GetNodes *)
Definition exp_nodes (s : state) : list node := map snd (by_addr (node_act s)) ++ map snd (by_addr (node_inact s)).
(* k.GetPlans *)
Definition all_plans (s : state) : list plan := map snd (by_z (plan_act s)) ++ map snd (by_z (plan_inact s)).
(* node.GetNodesForPlan: keys 0x12 | id | len-prefixed address; panics when the node record is missing;
   the exported string is the Address field of the node record found *)
Definition links_of (s : state) (id : Z) : list addr :=
  sort_by addr_cmp (elements (node_plan s) ≫= fun e => if bool_decide (e.1 = id) then [e.2] else []).
Fixpoint link_addrs (s : state) (l : list addr) : res (list addr) :=
  match l with
  | [] => Ok []
  | a :: l' =>
      match get_node s a with
      | None => Panic
      | Some n => let! r := link_addrs s l' in Ok (nd_addr n :: r)
      end
  end.
Fixpoint exp_plan_items (s : state) (l : list plan) : res (list gplan) :=
  match l with
  | [] => Ok []
  | p :: l' =>
      let! ns := link_addrs s (links_of s (pl_id p)) in
      let! r := exp_plan_items s l' in
      Ok ({| gp_plan := p; gp_nodes := ns |} :: r)
  end.
Definition exp_plans (s : state) : res (list gplan) := exp_plan_items s (all_plans s).
(* subscription.ExportGenesis: `items = make(GenesisSubscriptions, 0, len(subscriptions))` is returned unfilled *)
Definition exp_subs (s : state) : list gsub := [].
(* k.GetSessions *)
Definition exp_sessions (s : state) : list session := map snd (by_z (sessions s)).
Definition exp_swaps (s : state) : list swap := map snd (by_bytes (swaps s)).
Definition exp_inflations (s : state) : list inflation := map snd (by_z (inflations s)).

Definition export (s : state) : res gen_doc :=
  let! plans := exp_plans s in
  Ok {| gd_deposits := exp_deposits s; gd_providers := exp_providers s; gd_nodes := exp_nodes s;
        gd_plans := plans; gd_subs := exp_subs s; gd_sessions := exp_sessions s;
        gd_swaps := exp_swaps s; gd_inflations := exp_inflations s; gd_params := pars s |}.

(** * Validate *)

Definition addr_ok (a : addr) : bool := (0 <? Z.of_nat (length a)) && (Z.of_nat (length a) <=? 255).
(* sdk.Coins: non-nil, Len > 0, IsValid.  The model's coins are sorted and duplicate-free by construction. *)
Definition coins_ok (c : coins) : bool := forallb (fun '(d, a) => (0 <? a) && negb (d =? 0)%N) (coins_list c).
Definition coins_nonempty_ok (c : coins) : bool := negb (bool_decide (c = ∅)) && coins_ok c.
Definition slen (x : string) : Z := Z.of_nat (String.length x).
Definition status_ai (x : status) : bool := match x with SActive | SInactive => true | _ => false end.
Definition nodupb {A} `{EqDecision A} (l : list A) : bool := bool_decide (NoDup l).
Definition share_ok (z : Z) : bool := (0 <=? z) && (z <=? P18).

Definition validate_deposit (d : addr * coins) : bool := addr_ok d.1 && coins_nonempty_ok d.2.
Definition validate_provider (p : provider) : bool :=
  addr_ok (pv_addr p) && (0 <? slen (pv_name p)) && (slen (pv_name p) <=? 64) && (slen (pv_identity p) <=? 64) &&
  (slen (pv_website p) <=? 64) && (slen (pv_description p) <=? 256) && status_ai (pv_status p).
Definition validate_node (n : node) : bool :=
  addr_ok (nd_addr n) && coins_nonempty_ok (nd_gb_prices n) && coins_nonempty_ok (nd_hr_prices n) &&
  (0 <? slen (nd_url n)) && (slen (nd_url n) <=? 64) &&
  (if nd_inactive_at n =? tzero then bool_decide (nd_status n = SInactive) else bool_decide (nd_status n = SActive)) &&
  status_ai (nd_status n) && negb (nd_status_at n =? tzero).
Definition validate_plan (p : plan) : bool :=
  negb (pl_id p =? 0) && addr_ok (pl_prov p) && (0 <? pl_duration p) && (0 <? pl_gb p) &&
  coins_nonempty_ok (pl_prices p) && status_ai (pl_status p) && negb (pl_status_at p =? tzero).
Definition validate_session (x : session) : bool :=
  negb (ss_id x =? 0) && negb (ss_sub x =? 0) && addr_ok (ss_node x) && addr_ok (ss_addr x) &&
  (0 <=? ss_up x) && (0 <=? ss_down x) && (0 <=? ss_duration x) && negb (ss_inactive_at x =? tzero) &&
  (match ss_status x with SActive | SPending => true | _ => false end) && negb (ss_status_at x =? tzero).
Definition validate_swap (w : swap) : bool :=
  (Z.of_nat (length (sw_hash w)) =? 32) && ta_valid RAcc (sw_receiver w) &&
  (0 <? (sw_amount w).2) && negb ((sw_amount w).1 =? 0)%N.
Definition validate_inflation (i : inflation) : bool :=
  share_ok (inf_max i) && share_ok (inf_min i) && (inf_min i <=? inf_max i) && share_ok (inf_rate i) &&
  negb (inf_ts i =? tzero).
Definition validate_allocation (a : allocation) : bool :=
  addr_ok (al_addr a) && (0 <=? al_granted a) && (0 <=? al_used a).

(* Params.Validate of the five parameter sets *)
Definition deposit_coin_ok (c : coin) : bool := (0 <=? c.2) && negb (c.1 =? 0)%N.
Definition prov_params_ok (p : params) : bool := deposit_coin_ok (p_prov_deposit p) && share_ok (p_prov_share p).
Definition node_params_ok (p : params) : bool :=
  deposit_coin_ok (p_node_deposit p) && (0 <? p_node_active p) &&
  coins_ok (p_max_gb p) && coins_ok (p_min_gb p) && coins_ok (p_max_hr p) && coins_ok (p_min_hr p) &&
  (0 <? p_max_sub_gb p) && (0 <? p_min_sub_gb p) && (0 <? p_max_sub_hr p) && (0 <? p_min_sub_hr p) &&
  share_ok (p_node_share p).
Definition sub_params_ok (p : params) : bool := 0 <? p_sub_delay p.
Definition sess_params_ok (p : params) : bool := 0 <? p_sess_delay p.
Definition swap_params_ok (p : params) : bool := negb (p_swap_denom p =? 0)%N && ta_valid RAcc (p_swap_approver p).

(* one verdict per module, in the order of vpntypes.GenesisState.Validate, then swap, custommint *)
Record verdict := {
  v_deposit : bool; v_provider : bool; v_node : bool; v_plan : bool; v_subscription : bool; v_session : bool;
  v_swap : bool; v_mint : bool }.

Definition validate_deposits (l : list (addr * coins)) : bool := nodupb (l.*1) && forallb validate_deposit l.
Definition validate_providers (p : params) (l : list provider) : bool :=
  prov_params_ok p && nodupb (map pv_addr l) && forallb validate_provider l.
Definition validate_nodes (p : params) (l : list node) : bool :=
  node_params_ok p && nodupb (map nd_addr l) && forallb validate_node l.
Definition validate_plans (l : list gplan) : bool :=
  nodupb (map (fun i => pl_id (gp_plan i)) l) && forallb (fun i => nodupb (gp_nodes i)) l &&
  forallb (fun i => validate_plan (gp_plan i)) l.
Definition validate_subs (p : params) (l : list gsub) : bool :=
  sub_params_ok p && nodupb (map (fun i => sb_id (gs_sub i)) l) &&
  forallb (fun i => nodupb (map al_addr (gs_allocs i))) l &&
  forallb (fun i => forallb validate_allocation (gs_allocs i)) l.
Definition validate_sessions (p : params) (l : list session) : bool :=
  sess_params_ok p && nodupb (map ss_id l) && forallb validate_session l.
Definition validate_swaps (p : params) (l : list swap) : bool :=
  swap_params_ok p && nodupb (map sw_hash l) && forallb validate_swap l.
Definition validate_inflations (l : list inflation) : bool := nodupb (map inf_ts l) && forallb validate_inflation l.

Definition validate (d : gen_doc) : verdict :=
  {| v_deposit := validate_deposits (gd_deposits d);
     v_provider := validate_providers (gd_params d) (gd_providers d);
     v_node := validate_nodes (gd_params d) (gd_nodes d);
     v_plan := validate_plans (gd_plans d);
     v_subscription := validate_subs (gd_params d) (gd_subs d);
     v_session := validate_sessions (gd_params d) (gd_sessions d);
     v_swap := validate_swaps (gd_params d) (gd_swaps d);
     v_mint := validate_inflations (gd_inflations d) |}.
Definition verdict_ok (v : verdict) : bool :=
  v_deposit v && v_provider v && v_node v && v_plan v && v_subscription v && v_session v && v_swap v && v_mint v.
Definition all_ok : verdict :=
  {| v_deposit := true; v_provider := true; v_node := true; v_plan := true; v_subscription := true;
     v_session := true; v_swap := true; v_mint := true |}.

(** * InitGenesis *)

(* deposit.InitGenesis: SetDeposit per item *)
Definition imp_deposit (s : state) (d : addr * coins) : res state :=
  Ok (s <| deposits ::= fun m => <[d.1 := d.2]> m |>).
(* node.InitGenesis: SetParams; SetNode (panics on a status other than active/inactive);
   active nodes get their lease-queue key *)
Definition imp_node (s : state) (n : node) : res state :=
  let! s1 := set_node s n in
  if bool_decide (nd_status n = SActive)
  then Ok (s1 <| node_q ::= fun q => q ∪ {[ (nd_inactive_at n, nd_addr n) ]} |>)
  else Ok s1.
(* plan.InitGenesis: SetPlan, SetPlanForProvider, SetNodeForPlan per listed node
   (NodeAddressFromBech32 panics on a malformed address); afterwards the counter = largest id *)
Definition imp_plan_link (id : Z) (s : state) (a : addr) : res state :=
  if addr_ok a then Ok (s <| node_plan ::= fun x => x ∪ {[ (id, a) ]} |>) else Panic.
Definition imp_plan (s : state) (i : gplan) : res state :=
  let p := gp_plan i in
  let! s1 := set_plan s p in
  let s2 := s1 <| plan_prov ::= fun x => x ∪ {[ (pl_prov p, pl_id p) ]} |> in
  rfold (imp_plan_link (pl_id p)) (gp_nodes i) s2.
Definition max_id {A} (f : A -> Z) (l : list A) : Z := fold_left (fun c x => if c <? f x then f x else c) l 0.
(* provider.InitGenesis: SetParams; SetProvider *)
Definition imp_provider (s : state) (p : provider) : res state := set_provider s p.
(* session.InitGenesis: SetParams; record + five index keys per session; counter = largest id *)
Definition imp_session (s : state) (x : session) : res state :=
  Ok (s <| sessions ::= fun m => <[ss_id x := x]> m |>
        <| sess_acc ::= fun i => i ∪ {[ (ss_addr x, ss_id x) ]} |>
        <| sess_node ::= fun i => i ∪ {[ (ss_node x, ss_id x) ]} |>
        <| sess_sub ::= fun i => i ∪ {[ (ss_sub x, ss_id x) ]} |>
        <| sess_alloc ::= fun i => i ∪ {[ (ss_sub x, ss_addr x, ss_id x) ]} |>
        <| sess_q ::= fun i => i ∪ {[ (ss_inactive_at x, ss_id x) ]} |>).
(* swap: SetSwap under SwapKey(BytesToHash(TxHash)): left-padded / truncated to 32 bytes *)
Definition swap_key_of (b : list N) : list N :=
  let n := length b in
  if (32 <? n)%nat then drop (n - 32) b else replicate (32 - n) 0%N ++ b.
Definition imp_swap (s : state) (w : swap) : res state :=
  Ok (s <| swaps ::= fun m => <[swap_key_of (sw_hash w) := w]> m |>).
(* custommint: SetInflation under the timestamp *)
Definition imp_inflation (s : state) (i : inflation) : res state :=
  Ok (s <| inflations ::= fun m => <[inf_ts i := i]> m |>).

(* parameter sets are written per module (x/params SetParamSet marks every key as modified) *)
Definition set_prov_params (q : params) (s : state) : state :=
  s <| pars ::= fun p => p <| p_prov_deposit := p_prov_deposit q |> <| p_prov_share := p_prov_share q |> |>.
Definition set_node_params (q : params) (s : state) : state :=
  s <| pars ::= fun p => p <| p_node_deposit := p_node_deposit q |> <| p_node_active := p_node_active q |>
                           <| p_max_gb := p_max_gb q |> <| p_min_gb := p_min_gb q |>
                           <| p_max_hr := p_max_hr q |> <| p_min_hr := p_min_hr q |>
                           <| p_max_sub_gb := p_max_sub_gb q |> <| p_min_sub_gb := p_min_sub_gb q |>
                           <| p_max_sub_hr := p_max_sub_hr q |> <| p_min_sub_hr := p_min_sub_hr q |>
                           <| p_node_share := p_node_share q |> |>
    <| modified := all_flags |>.
Definition set_sub_params (q : params) (s : state) : state :=
  s <| pars ::= fun p => p <| p_sub_delay := p_sub_delay q |> |>.
Definition set_sess_params (q : params) (s : state) : state :=
  s <| pars ::= fun p => p <| p_sess_delay := p_sess_delay q |> <| p_sess_proof := p_sess_proof q |> |>.
Definition set_swap_params (q : params) (s : state) : state :=
  s <| pars ::= fun p => p <| p_swap_enabled := p_swap_enabled q |> <| p_swap_denom := p_swap_denom q |>
                           <| p_swap_approver := p_swap_approver q |> |>.

(* vpn.InitGenesis: deposit, node, plan, provider, session, subscription — in this order *)
Definition import_vpn (d : gen_doc) (s : state) : res state :=
  let q := gd_params d in
  let! s := rfold imp_deposit (gd_deposits d) s in
  let! s := rfold imp_node (gd_nodes d) (set_node_params q s) in
  let! s := rfold imp_plan (gd_plans d) s in
  let s := s <| plan_count := max_id (fun i => pl_id (gp_plan i)) (gd_plans d) |> in
  let! s := rfold imp_provider (gd_providers d) (set_prov_params q s) in
  let! s := rfold imp_session (gd_sessions d) (set_sess_params q s) in
  let s := s <| sess_count := max_id ss_id (gd_sessions d) |> in
  (* subscription.InitGenesis: k.SetParams(ctx, state.Params) and nothing else *)
  Ok (set_sub_params q s).
Definition import_swap (d : gen_doc) (s : state) : res state :=
  rfold imp_swap (gd_swaps d) (set_swap_params (gd_params d) s).
Definition import_mint (d : gen_doc) (s : state) : res state :=
  rfold imp_inflation (gd_inflations d) s.

Definition import_hub (d : gen_doc) (s : state) : res state :=
  let! s := import_vpn d s in
  let! s := import_swap d s in
  import_mint d s.

(* the parameters a fresh chain has before InitGenesis writes any: irrelevant defaults, every field is overwritten *)
Definition blank_params : params :=
  {| p_prov_deposit := (0%N, 0); p_prov_share := 0; p_node_deposit := (0%N, 0); p_node_active := 0;
     p_max_gb := ∅; p_min_gb := ∅; p_max_hr := ∅; p_min_hr := ∅;
     p_max_sub_gb := 0; p_min_sub_gb := 0; p_max_sub_hr := 0; p_min_sub_hr := 0; p_node_share := 0;
     p_sub_delay := 0; p_sess_delay := 0; p_sess_proof := false;
     p_swap_enabled := false; p_swap_denom := 0%N;
     p_swap_approver := {| ta_role := RAcc; ta_upper := false; ta_bytes := [] |} |}.

(* A fresh chain whose SDK side (bank, supply, SDK mint parameters, block time) is that of [s]
   — those modules have their own genesis and are outside the hub. *)
Definition fresh_like (s : state) : state :=
  (empty_state (cfg s) blank_params)
    <| bank := bank s |> <| supply := supply s |>
    <| mint_max := mint_max s |> <| mint_min := mint_min s |> <| mint_rate := mint_rate s |>
    <| mint_inflation := mint_inflation s |> <| now := now s |>.

Definition import (s_sdk : state) (d : gen_doc) : res state := import_hub d (fresh_like s_sdk).

(* export, validate, re-import: what `export` + `init` of a new chain do *)
Definition roundtrip (s : state) : res (verdict * state) :=
  let! d := export s in
  let! s' := import s d in
  Ok (validate d, s').

(* entry point of the model runner (model/genesis): (all validations passed, state after re-import) *)
Definition genesis_roundtrip (s : state) : option (bool * state) :=
  match roundtrip s with
  | Ok (v, s') => Some (verdict_ok v, s')
  | _ => None
  end.
