(* C19 — executable model of how a hub `Status` is written to and read from JSON.

   What the code does (gogoproto v1.4.10, jsonpb/jsonpb.go, as used by codec.ProtoCodec.MarshalJSON /
   UnmarshalJSON of the SDK through ProtoMarshalJSON with EmitDefaults, OrigName):

   writing an enum field  (marshalValue, "Handle enumerations", EnumsAsInts = false):
       enumStr := v.(fmt.Stringer).String()          -- the HAND-WRITTEN types.Status.String()
       valStr  := strconv.Itoa(int(v))
       (no MarshalJSON on Status; the translator fails if one appears)
       if enumStr != valStr  then  write  "enumStr"  (quoted)  else  write  enumStr  (bare number)

   reading an enum field  (unmarshalValue):
       if input starts with a double quote :  s := input[1:len-1];  n, ok := proto.EnumValueMap(name)[s];  !ok -> error
       otherwise              :  json.Unmarshal(input, *int32)   -- JSON integer literal in int32 range, or null (no-op)
   proto.EnumValueMap(name) is the map object Status_value itself (RegisterEnum stores the reference), i.e.
   the literal of status.pb.go plus whatever types/status.go's init() stored into it.

   The tables come from Gen/StatusTables.v (regenerated from the source on every run).
   No proofs in this file. *)
From Coq Require Import ZArith String Ascii List Bool DecimalString.
From Hub Require Import Gen.StatusTables.
Import ListNotations.
Local Open Scope Z_scope.

(* ---- association lists with Go-map semantics (first entry wins; later writes are put in front) ---- *)
Fixpoint assoc_z (k : Z) (l : list (Z * string)) : option string :=
  match l with
  | [] => None
  | (k', v) :: r => if Z.eqb k k' then Some v else assoc_z k r
  end.

Fixpoint assoc_s (k : string) (l : list (string * Z)) : option Z :=
  match l with
  | [] => None
  | (k', v) :: r => if String.eqb k k' then Some v else assoc_s k r
  end.

(* ---- func (s Status) String() ---- *)
Definition status_string_with (cases : list (Z * string)) (dflt : string) (v : Z) : string :=
  match assoc_z v cases with
  | Some s => s
  | None => dflt
  end.

Definition status_string : Z -> string := status_string_with status_string_cases status_string_default.

(* the declared enum numbers: keys of Status_name *)
Definition declared_values : list Z := map fst status_name_pb.

(* ---- run-time contents of Status_value ---- *)
(* init(): for value := range Status_name { Status_value[Status(value).String()] = value }
   Go ranges over the map in an unspecified order; [status_value_aliases_of order] is the effect of the
   loop when the keys are visited in [order] (a later assignment to the same key overwrites). *)
Definition status_value_aliases_of (order : list Z) : list (string * Z) :=
  rev (map (fun v => (status_string v, v)) order).

Definition status_value_runtime_of (order : list Z) : list (string * Z) :=
  (if status_init_registers_printed_names then status_value_aliases_of order else []) ++ status_value_pb.

Definition status_value_runtime : list (string * Z) := status_value_runtime_of declared_values.

(* ---- strconv.Itoa ---- *)
Definition itoa (z : Z) : string := NilZero.string_of_int (Z.to_int z).

Definition dquote : ascii := Ascii.ascii_of_nat 34.
Definition quote (s : string) : string := String dquote (s ++ String dquote EmptyString).

(* ---- jsonpb, writing ---- *)
Definition print_enum_json (to_string : Z -> string) (v : Z) : string :=
  let e := to_string v in
  if String.eqb e (itoa v) then e else quote e.

Definition print_status_json : Z -> string := print_enum_json status_string.

(* ---- jsonpb, reading ---- *)
Definition is_digit (c : ascii) : bool := let n := nat_of_ascii c in (Nat.leb 48 n && Nat.leb n 57)%bool.
Definition is_digit19 (c : ascii) : bool := let n := nat_of_ascii c in (Nat.leb 49 n && Nat.leb n 57)%bool.

Fixpoint all_digits (s : string) : bool :=
  match s with
  | EmptyString => true
  | String c r => (is_digit c && all_digits r)%bool
  end.

(* JSON grammar of an integer literal: 0 | [1-9][0-9]*, with an optional leading minus *)
Definition json_uint_literal (s : string) : bool :=
  match s with
  | EmptyString => false
  | String c r => if Ascii.eqb c "0"%char then (match r with EmptyString => true | _ => false end)
                  else (is_digit19 c && all_digits r)%bool
  end.

Definition json_int_literal (s : string) : bool :=
  match s with
  | String c r => if Ascii.eqb c "-"%char then json_uint_literal r else json_uint_literal s
  | EmptyString => false
  end.

Definition in_int32 (z : Z) : bool := ((- 2147483648 <=? z) && (z <=? 2147483647))%bool.

(* json.Unmarshal(input, *int32): strconv.ParseInt(literal, 10, 64) and the int32 overflow check *)
Definition parse_int32_json (s : string) : option Z :=
  if json_int_literal s then
    match NilZero.int_of_string s with
    | Some d => let z := Z.of_int d in if in_int32 z then Some z else None
    | None => None
    end
  else None.

(* s[0 : len-1] *)
Fixpoint drop_last (s : string) : string :=
  match s with
  | EmptyString => EmptyString
  | String c EmptyString => EmptyString
  | String c r => String c (drop_last r)
  end.

Definition parse_enum_json (table : list (string * Z)) (input : string) : option Z :=
  match input with
  | String c r =>
      if Ascii.eqb c dquote then assoc_s (drop_last r) table
      else if String.eqb input "null" then Some 0     (* json.Unmarshal of null into a non-pointer: no-op, field stays 0 *)
      else parse_int32_json input
  | EmptyString => None
  end.

Definition parse_status_json : string -> option Z := parse_enum_json status_value_runtime.

(* the same reader over the generated table alone (the tree before `fix: Status values printed in JSON can be parsed back`) *)
Definition parse_status_json_generated_only : string -> option Z := parse_enum_json status_value_pb.

(* ---- func StatusFromString(s string) Status  (command-line flag, queries) ---- *)
Definition lower_ascii (c : ascii) : ascii :=
  let n := nat_of_ascii c in if (Nat.leb 65 n && Nat.leb n 90)%bool then ascii_of_nat (n + 32) else c.
Fixpoint to_lower (s : string) : string :=
  match s with
  | EmptyString => EmptyString
  | String c r => String (lower_ascii c) (to_lower r)
  end.

Definition status_from_string (s : string) : Z :=
  match assoc_s (to_lower s) status_from_string_cases with
  | Some v => v
  | None => status_from_string_default
  end.

(* func (s Status) IsValid() *)
Definition status_is_valid (v : Z) : bool := existsb (Z.eqb v) status_is_valid_values.

(* Boolean form of "no two declared values print the same name" *)
Fixpoint nodup_strings (l : list string) : bool :=
  match l with
  | [] => true
  | x :: r => (negb (existsb (String.eqb x) r) && nodup_strings r)%bool
  end.
