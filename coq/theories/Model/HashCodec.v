(* C19 — executable model of the hand-written codec of x/swap/types/ethereum.go (EthereumHash).

     type EthereumHash [32]byte
     SetBytes(b):  if len(b) > 32 { b = b[len(b)-32:] };  copy(e[32-len(b):], b)
     BytesToHash(b) = SetBytes on the zero hash
     Marshal = the 32 bytes;  Unmarshal(data) = BytesToHash(data)
     MarshalJSON = json.Marshal(hex.EncodeToString(e[:]));
     UnmarshalJSON(data) = json.Unmarshal(data,&s); hex.DecodeString(s); BytesToHash

   Bytes are numbers [N] below 256.  encoding/hex: lower-case on output; digits, a-f and A-F on input, an odd
   length or any other character is an error.  JSON string layer: the model covers string tokens without
   escapes (which is all json.Marshal produces for hex text) and [null]; for anything else it answers
   [JOutside] and makes no claim.  No proofs in this file. *)
From Coq Require Import NArith ZArith String Ascii List Bool.
Import ListNotations.
Local Open Scope N_scope.

Definition HASH_LEN : nat := 32.

(* ---- encoding/hex ---- *)
Definition hexdigit (n : N) : ascii :=
  if n <? 10 then ascii_of_N (48 + n) else ascii_of_N (87 + n).

Fixpoint hex_encode (l : list N) : string :=
  match l with
  | [] => EmptyString
  | b :: r => String (hexdigit (b / 16)) (String (hexdigit (b mod 16)) (hex_encode r))
  end.

Definition from_hex_char (c : ascii) : option N :=
  let n := N_of_ascii c in
  if (48 <=? n) && (n <=? 57) then Some (n - 48)
  else if (97 <=? n) && (n <=? 102) then Some (n - 87)
  else if (65 <=? n) && (n <=? 70) then Some (n - 55)
  else None.

Fixpoint hex_decode (s : string) : option (list N) :=
  match s with
  | EmptyString => Some []
  | String _ EmptyString => None
  | String a (String b r) =>
      match from_hex_char a, from_hex_char b, hex_decode r with
      | Some x, Some y, Some l => Some ((x * 16 + y) :: l)
      | _, _, _ => None
      end
  end.

(* ---- SetBytes / BytesToHash ---- *)
Definition set_bytes (e b : list N) : list N :=
  let b' := if Nat.ltb HASH_LEN (length b) then skipn (length b - HASH_LEN) b else b in
  firstn (HASH_LEN - length b') e ++ b'.

Definition zero_hash : list N := repeat 0 HASH_LEN.
Definition bytes_to_hash (b : list N) : list N := set_bytes zero_hash b.

Definition hash_marshal (e : list N) : list N := e.
Definition hash_unmarshal (data : list N) : list N := bytes_to_hash data.

(* ---- JSON string token (restricted, see header) ---- *)
Inductive jres (A : Type) : Type := JOk (a : A) | JErr | JOutside.
Arguments JOk {A} a.
Arguments JErr {A}.
Arguments JOutside {A}.

Definition dquote : ascii := Ascii.ascii_of_nat 34.
Definition quote (s : string) : string := String dquote (s ++ String dquote EmptyString).

Definition plain_char (c : ascii) : bool :=
  let n := N_of_ascii c in (32 <=? n) && (n <? 127) && negb (n =? 34) && negb (n =? 92).

(* body up to the closing quote, which must be the last character *)
Fixpoint unquote_body (s : string) : jres string :=
  match s with
  | EmptyString => JErr                                     (* unterminated string *)
  | String c r =>
      if Ascii.eqb c dquote then (match r with EmptyString => JOk EmptyString | _ => JOutside end)
      else if plain_char c then
        match unquote_body r with
        | JOk t => JOk (String c t)
        | e => e
        end
      else JOutside
  end.

Definition json_unquote (s : string) : jres string :=
  match s with
  | String c r => if Ascii.eqb c dquote then unquote_body r
                  else if String.eqb s "null" then JOk EmptyString   (* json.Unmarshal(null, &s): s stays "" *)
                  else JOutside
  | EmptyString => JErr
  end.

Definition hash_marshal_json (e : list N) : string := quote (hex_encode e).

Definition hash_unmarshal_json (data : string) : jres (list N) :=
  match json_unquote data with
  | JOk s => match hex_decode s with
             | Some l => JOk (bytes_to_hash l)
             | None => JErr
             end
  | JErr => JErr
  | JOutside => JOutside
  end.

Definition bytes_ok (l : list N) : Prop := Forall (fun b => b < 256) l.

(* upper-case variant of a hex text (what other tools may produce; hex.DecodeString accepts it) *)
Definition upper_hex_char (c : ascii) : ascii :=
  let n := N_of_ascii c in if (97 <=? n) && (n <=? 102) then ascii_of_N (n - 32) else c.
Fixpoint upper_hex (s : string) : string :=
  match s with
  | EmptyString => EmptyString
  | String c r => String (upper_hex_char c) (upper_hex r)
  end.
