(* The transition function of the model and its lift to histories. *)
From Hub Require Import Base.Prelude Base.Arith Model.Types Model.Keeper Model.Handlers Model.Hooks.

Definition apply_pchange (s : state) (c : pchange) : state :=
  match c with
  | PCProvDeposit c => s <| pars ::= fun p => p <| p_prov_deposit := c |> |>
  | PCProvShare z => s <| pars ::= fun p => p <| p_prov_share := z |> |>
  | PCNodeDeposit c => s <| pars ::= fun p => p <| p_node_deposit := c |> |>
  | PCNodeActive z => s <| pars ::= fun p => p <| p_node_active := z |> |>
  | PCMaxGb c => s <| pars ::= fun p => p <| p_max_gb := coins_of c |> |> <| modified ::= fun f => f <| m_max_gb := true |> |>
  | PCMinGb c => s <| pars ::= fun p => p <| p_min_gb := coins_of c |> |> <| modified ::= fun f => f <| m_min_gb := true |> |>
  | PCMaxHr c => s <| pars ::= fun p => p <| p_max_hr := coins_of c |> |> <| modified ::= fun f => f <| m_max_hr := true |> |>
  | PCMinHr c => s <| pars ::= fun p => p <| p_min_hr := coins_of c |> |> <| modified ::= fun f => f <| m_min_hr := true |> |>
  | PCMaxSubGb z => s <| pars ::= fun p => p <| p_max_sub_gb := z |> |>
  | PCMinSubGb z => s <| pars ::= fun p => p <| p_min_sub_gb := z |> |>
  | PCMaxSubHr z => s <| pars ::= fun p => p <| p_max_sub_hr := z |> |>
  | PCMinSubHr z => s <| pars ::= fun p => p <| p_min_sub_hr := z |> |>
  | PCNodeShare z => s <| pars ::= fun p => p <| p_node_share := z |> |>
  | PCSubDelay z => s <| pars ::= fun p => p <| p_sub_delay := z |> |>
  | PCSessDelay z => s <| pars ::= fun p => p <| p_sess_delay := z |> |>
  | PCSessProof b => s <| pars ::= fun p => p <| p_sess_proof := b |> |>
  | PCSwapEnabled b => s <| pars ::= fun p => p <| p_swap_enabled := b |> |>
  | PCSwapDenom d => s <| pars ::= fun p => p <| p_swap_denom := d |> |>
  | PCSwapApprover t => s <| pars ::= fun p => p <| p_swap_approver := t |> |>
  end.

Definition no_flags : modflags := {| m_max_gb := false; m_min_gb := false; m_max_hr := false; m_min_hr := false |}.
Definition all_flags : modflags := {| m_max_gb := true; m_min_gb := true; m_max_hr := true; m_min_hr := true |}.

Definition clear_events (s : state) : state := s <| events := [] |>.

(* the per-key validator functions of the parameter sets (x/*/types/params.go, run by x/params
   Subspace.Update on every governance change; one failing change fails the whole proposal, whose
   cached writes -- the transient "modified" marks included -- are then discarded) *)
Definition I64MAX : Z := 9223372036854775807.
Definition pos_i64 (z : Z) : bool := (0 <? z) && (z <=? I64MAX).
Definition coins_param_ok (l : list coin) : bool := bool_decide (l = []) || coins_sorted l.   (* nil, or Coins.IsValid *)
Definition coin_param_ok (c : coin) : bool := (0 <=? c.2) && (c.2 <? MAXINT) && denom_ok c.1.  (* not negative, Coin.IsValid *)
Definition share_ok (z : Z) : bool := (0 <=? z) && (z <=? P18).
Definition pchange_valid (c : pchange) : bool :=
  match c with
  | PCProvDeposit c | PCNodeDeposit c => coin_param_ok c
  | PCProvShare z | PCNodeShare z => share_ok z
  | PCNodeActive z | PCSubDelay z | PCSessDelay z => pos_i64 z
  | PCMaxGb c | PCMinGb c | PCMaxHr c | PCMinHr c => coins_param_ok c
  | PCMaxSubGb z | PCMinSubGb z | PCMaxSubHr z | PCMinSubHr z => pos_i64 z
  | PCSessProof _ | PCSwapEnabled _ => true
  | PCSwapDenom d => denom_ok d
  | PCSwapApprover t => ta_valid RAcc t
  end.

Definition step (s : state) (o : op) : outcome :=
  let s := clear_events s in
  match o with
  | OBegin t =>
      match begin_block (s <| now := t |>) with
      | Ok s' => OOk s'
      | _ => OHalt
      end
  | OTx m =>
      match run_tx s m with
      | Ok s' => OOk s'
      | _ => ORejected
      end
  | OGov cs => if forallb pchange_valid cs then OOk (fold_left apply_pchange cs s) else ORejected
  | OEnd =>
      match end_block s with
      | Ok s' => OOk (s' <| modified := no_flags |>)
      | _ => OHalt
      end
  end.

(* running a history: a rejected transaction leaves the state as it was; a halt
   stops the chain (remaining operations are not executed) *)
Inductive run_result := RunOk (s : state) | RunHalt (s_before : state) (at_op : nat).

Fixpoint run_from (s : state) (ops : list op) (i : nat) : run_result :=
  match ops with
  | [] => RunOk s
  | o :: ops' =>
      match step s o with
      | OOk s' => run_from s' ops' (S i)
      | ORejected => run_from (clear_events s) ops' (S i)
      | OHalt => RunHalt s i
      end
  end.
Definition run (s : state) (ops : list op) : run_result := run_from s ops 0.

(** * genesis *)

Record genesis := {
  g_cfg : config;
  g_balances : list (addr * coin);
  g_params : params;
  g_inflations : list inflation;
  g_mint : Z * Z * Z * Z;            (* SDK mint: max, min, rate change, current inflation *)
  g_time : time }.

Definition empty_state (c : config) (p : params) : state :=
  {| cfg := c; bank := ∅; supply := ∅; deposits := ∅;
     prov_act := ∅; prov_inact := ∅; node_act := ∅; node_inact := ∅; node_q := ∅; node_plan := ∅;
     plan_count := 0; plan_act := ∅; plan_inact := ∅; plan_prov := ∅;
     sub_count := 0; subs := ∅; sub_q := ∅; sub_acc := ∅; sub_node := ∅; sub_plan := ∅;
     allocs := ∅; payouts := ∅; pay_q := ∅; pay_acc := ∅; pay_node := ∅; pay_acc_node := ∅;
     sess_count := 0; sessions := ∅; sess_q := ∅; sess_acc := ∅; sess_node := ∅; sess_sub := ∅; sess_alloc := ∅;
     pars := p; modified := all_flags; swaps := ∅; inflations := ∅;
     mint_max := 0; mint_min := 0; mint_rate := 0; mint_inflation := 0;
     now := 0; events := [] |}.

Definition init (g : genesis) : state :=
  let s0 := empty_state (g_cfg g) (g_params g) in
  let s1 := fold_left (fun s '(a, (d, v)) =>
                         set_bal (s <| supply ::= fun c => coins_add c d v |>) a d (bal s a d + v))
                      (g_balances g) s0 in
  let '(mx, mn, rc, inf) := g_mint g in
  s1 <| inflations := list_to_map (map (fun i => (inf_ts i, i)) (g_inflations g)) |>
     <| mint_max := mx |> <| mint_min := mn |> <| mint_rate := rc |> <| mint_inflation := inf |>
     <| now := g_time g |>.
