(* Types of the hub model: records stored by the keepers, the chain state with
   every secondary index of the KV store as its own field, messages, events.
   No proofs in this directory: the model must stay runnable when a proof breaks. *)
From Hub Require Import Base.Prelude Base.Arith.

Definition addr := list N.          (* raw address bytes, 1..255 of them *)
Definition denom := N.              (* 0 stands for a syntactically invalid denomination *)
Definition time := Z.               (* nanoseconds since the Unix epoch *)
Definition coin := (denom * Z)%type.
Notation coins := (gmap denom Z).   (* canonical sdk.Coins: only positive entries *)

Definition tzero : time := -62135596800000000000.   (* Go's zero time.Time, 0001-01-01T00:00:00Z *)
Definition HOUR : Z := 3600000000000.
Definition DAY : Z := 24 * HOUR.

Inductive status := SUnspec | SActive | SPending | SInactive.
#[export] Instance status_eq_dec : EqDecision status.
Proof. solve_decision. Defined.

Inductive role := RAcc | RNode | RProv.
#[export] Instance role_eq_dec : EqDecision role.
Proof. solve_decision. Defined.

(* An address as it appears in a message: bech32 text of [ta_bytes] under the
   prefix of [ta_role], all lower case or all upper case.  Stored addresses are
   always the lower-case text ([ta_upper = false]). *)
Record taddr := { ta_role : role; ta_upper : bool; ta_bytes : addr }.
#[export] Instance taddr_eq_dec : EqDecision taddr.
Proof. solve_decision. Defined.

Definition canon (r : role) (a : addr) : taddr := {| ta_role := r; ta_upper := false; ta_bytes := a |}.
(* XxxAddressFromBech32 succeeds: right prefix and 1..255 bytes *)
Definition ta_valid (r : role) (t : taddr) : bool :=
  bool_decide (ta_role t = r) && (0 <? Z.of_nat (length (ta_bytes t))) && (Z.of_nat (length (ta_bytes t)) <=? 255).
(* Go string equality of the two texts *)
Definition ta_eqb (a b : taddr) : bool := bool_decide (a = b).

(** * coins *)

Definition amount_of (c : coins) (d : denom) : Z := default 0 (c !! d).
Definition coins_set (c : coins) (d : denom) (a : Z) : coins :=
  if a =? 0 then delete d c else <[d := a]> c.
Definition coins_add (c : coins) (d : denom) (a : Z) : coins := coins_set c d (amount_of c d + a).

(* sdk.Coins.IsValid on a message field: sorted by denomination without
   duplicates, valid denominations, positive amounts; non-empty is checked separately *)
Fixpoint coins_sorted (l : list coin) : bool :=
  match l with
  | [] => true
  | (d, a) :: l' =>
      (0 <? a) && (negb (d =? 0)%N) && (Z.abs a <? MAXINT) &&
      match l' with
      | [] => true
      | (d', _) :: _ => (d <? d')%N && coins_sorted l'
      end
  end.
Definition coins_of (l : list coin) : coins := list_to_map l.

(** * stored records *)

Record provider := {
  pv_addr : addr; pv_name : string; pv_identity : string; pv_website : string;
  pv_description : string; pv_status : status; pv_status_at : time }.

Record node := {
  nd_addr : addr; nd_gb_prices : coins; nd_hr_prices : coins; nd_url : string;
  nd_inactive_at : time; nd_status : status; nd_status_at : time }.

Record plan := {
  pl_id : Z; pl_prov : addr; pl_duration : Z; pl_gb : Z; pl_prices : coins;
  pl_status : status; pl_status_at : time }.

Inductive sub_kind :=
| KNode (node_addr : addr) (gigabytes hours : Z) (deposit : coin)
| KPlan (plan_id : Z) (dn : denom).

Record subscription := {
  sb_id : Z; sb_addr : addr; sb_inactive_at : time; sb_status : status; sb_status_at : time;
  sb_kind : sub_kind }.

Record allocation := { al_id : Z; al_addr : addr; al_granted : Z; al_used : Z }.

Record payout := {
  po_id : Z; po_addr : addr; po_node : addr; po_hours : Z; po_price : coin; po_next_at : time }.

Record session := {
  ss_id : Z; ss_sub : Z; ss_node : addr; ss_addr : addr; ss_up : Z; ss_down : Z; ss_duration : Z;
  ss_inactive_at : time; ss_status : status; ss_status_at : time }.

Record swap := { sw_hash : list N; sw_receiver : taddr; sw_amount : coin }.

(* decimals are the 18-digit fixed point integers of Base/Arith.v *)
Record inflation := { inf_max : Z; inf_min : Z; inf_rate : Z; inf_ts : time }.

Record params := {
  p_prov_deposit : coin; p_prov_share : Z;
  p_node_deposit : coin; p_node_active : Z;
  p_max_gb : coins; p_min_gb : coins; p_max_hr : coins; p_min_hr : coins;
  p_max_sub_gb : Z; p_min_sub_gb : Z; p_max_sub_hr : Z; p_min_sub_hr : Z;
  p_node_share : Z;
  p_sub_delay : Z;
  p_sess_delay : Z; p_sess_proof : bool;
  p_swap_enabled : bool; p_swap_denom : denom; p_swap_approver : taddr }.

(* which of the four price-bound parameters were written in this block (x/params transient store) *)
Record modflags := { m_max_gb : bool; m_min_gb : bool; m_max_hr : bool; m_min_hr : bool }.

(* static configuration: addresses of the module accounts involved, and the set
   of addresses bank refuses as recipients of module-to-account transfers *)
Record config := {
  c_deposit : addr; c_feecoll : addr; c_distr : addr; c_swap : addr;
  c_blocked : list addr }.

(** * events (typed events of the hub modules, in emission order) *)

Inductive evv :=
| VZ (z : Z) | VT (t : taddr) | VS (s : status) | VC (c : list coin) | VH (h : list N).
Definition event := (string * list evv)%type.
Definition ev (name : string) (vals : list evv) : event := (name, vals).

(** * the state *)

Record state := {
  cfg : config;
  bank : gmap addr coins;
  supply : coins;
  deposits : gmap addr coins;
  prov_act : gmap addr provider; prov_inact : gmap addr provider;
  node_act : gmap addr node; node_inact : gmap addr node;
  node_q : gset (time * addr);
  node_plan : gset (Z * addr);
  plan_count : Z;
  plan_act : gmap Z plan; plan_inact : gmap Z plan;
  plan_prov : gset (addr * Z);
  sub_count : Z;
  subs : gmap Z subscription;
  sub_q : gset (time * Z);
  sub_acc : gset (addr * Z);
  sub_node : gset (addr * Z);
  sub_plan : gset (Z * Z);
  allocs : gmap (Z * addr) allocation;
  payouts : gmap Z payout;
  pay_q : gset (time * Z);
  pay_acc : gset (addr * Z);
  pay_node : gset (addr * Z);
  pay_acc_node : gset (addr * addr * Z);
  sess_count : Z;
  sessions : gmap Z session;
  sess_q : gset (time * Z);
  sess_acc : gset (addr * Z);
  sess_node : gset (addr * Z);
  sess_sub : gset (Z * Z);
  sess_alloc : gset (Z * addr * Z);
  pars : params;
  modified : modflags;
  swaps : gmap (list N) swap;
  inflations : gmap time inflation;
  mint_max : Z; mint_min : Z; mint_rate : Z; mint_inflation : Z;
  now : time;
  events : list event }.

#[export] Instance eta_provider : Settable _ :=
  settable! Build_provider <pv_addr; pv_name; pv_identity; pv_website; pv_description; pv_status; pv_status_at>.
#[export] Instance eta_node : Settable _ :=
  settable! Build_node <nd_addr; nd_gb_prices; nd_hr_prices; nd_url; nd_inactive_at; nd_status; nd_status_at>.
#[export] Instance eta_plan : Settable _ :=
  settable! Build_plan <pl_id; pl_prov; pl_duration; pl_gb; pl_prices; pl_status; pl_status_at>.
#[export] Instance eta_subscription : Settable _ :=
  settable! Build_subscription <sb_id; sb_addr; sb_inactive_at; sb_status; sb_status_at; sb_kind>.
#[export] Instance eta_allocation : Settable _ :=
  settable! Build_allocation <al_id; al_addr; al_granted; al_used>.
#[export] Instance eta_payout : Settable _ :=
  settable! Build_payout <po_id; po_addr; po_node; po_hours; po_price; po_next_at>.
#[export] Instance eta_session : Settable _ :=
  settable! Build_session <ss_id; ss_sub; ss_node; ss_addr; ss_up; ss_down; ss_duration; ss_inactive_at; ss_status; ss_status_at>.
#[export] Instance eta_params : Settable _ :=
  settable! Build_params <p_prov_deposit; p_prov_share; p_node_deposit; p_node_active;
    p_max_gb; p_min_gb; p_max_hr; p_min_hr; p_max_sub_gb; p_min_sub_gb; p_max_sub_hr; p_min_sub_hr;
    p_node_share; p_sub_delay; p_sess_delay; p_sess_proof; p_swap_enabled; p_swap_denom; p_swap_approver>.
#[export] Instance eta_modflags : Settable _ :=
  settable! Build_modflags <m_max_gb; m_min_gb; m_max_hr; m_min_hr>.
#[export] Instance eta_state : Settable _ :=
  settable! Build_state <cfg; bank; supply; deposits; prov_act; prov_inact; node_act; node_inact; node_q;
    node_plan; plan_count; plan_act; plan_inact; plan_prov; sub_count; subs; sub_q; sub_acc; sub_node;
    sub_plan; allocs; payouts; pay_q; pay_acc; pay_node; pay_acc_node; sess_count; sessions; sess_q;
    sess_acc; sess_node; sess_sub; sess_alloc; pars; modified; swaps; inflations;
    mint_max; mint_min; mint_rate; mint_inflation; now; events>.

(** * messages *)

Inductive msg :=
| MProvRegister (from : taddr) (name identity website description : string) (website_ok : bool)
| MProvUpdate (from : taddr) (name identity website description : string) (website_ok : bool) (st : status)
| MNodeRegister (from : taddr) (gb hr : option (list coin)) (url : string) (url_ok : bool)
| MNodeUpdateDetails (from : taddr) (gb hr : option (list coin)) (url : string) (url_ok : bool)
| MNodeUpdateStatus (from : taddr) (st : status)
| MNodeSubscribe (from : taddr) (nd : taddr) (gigabytes hours : Z) (dn : denom)
| MPlanCreate (from : taddr) (duration gigabytes : Z) (prices : option (list coin))
| MPlanUpdateStatus (from : taddr) (id : Z) (st : status)
| MPlanLink (from : taddr) (id : Z) (nd : taddr)
| MPlanUnlink (from : taddr) (id : Z) (nd : taddr)
| MPlanSubscribe (from : taddr) (id : Z) (dn : denom)
| MSubCancel (from : taddr) (id : Z)
| MSubAllocate (from : taddr) (id : Z) (to : taddr) (bytes : Z)
| MSessStart (from : taddr) (id : Z) (nd : taddr)
| MSessUpdate (from : taddr) (id : Z) (up down duration : Z) (sig_len : option Z) (sig_ok : bool)
| MSessEnd (from : taddr) (id : Z) (rating : Z)
| MSwap (from : taddr) (hash : list N) (receiver : taddr) (amount : Z).

(* governance parameter changes (x/params Subspace.Update at the gov end-blocker) *)
Inductive pchange :=
| PCProvDeposit (c : coin) | PCProvShare (z : Z)
| PCNodeDeposit (c : coin) | PCNodeActive (z : Z)
| PCMaxGb (c : list coin) | PCMinGb (c : list coin) | PCMaxHr (c : list coin) | PCMinHr (c : list coin)
| PCMaxSubGb (z : Z) | PCMinSubGb (z : Z) | PCMaxSubHr (z : Z) | PCMinSubHr (z : Z)
| PCNodeShare (z : Z)
| PCSubDelay (z : Z)
| PCSessDelay (z : Z) | PCSessProof (b : bool)
| PCSwapEnabled (b : bool) | PCSwapDenom (d : denom) | PCSwapApprover (t : taddr).

Inductive op :=
| OBegin (t : time)            (* new block at time t: custommint.BeginBlock; vpn.BeginBlock *)
| OTx (m : msg)                (* ValidateBasic + handler, atomically *)
| OGov (cs : list pchange)     (* parameter changes, at the gov end-blocker position *)
| OEnd.                        (* vpn.EndBlock, then commit (transient flags cleared) *)

Inductive outcome :=
| OOk (s : state)
| ORejected                    (* error or panic inside a transaction: state unchanged *)
| OHalt.                       (* panic inside a block hook *)

(** * orders used by the ordered iteration of the KV store *)

(* byte strings compare lexicographically *)
Fixpoint bytes_cmp (a b : list N) : comparison :=
  match a, b with
  | [], [] => Eq
  | [], _ => Lt
  | _, [] => Gt
  | x :: a', y :: b' => match (x ?= y)%N with Eq => bytes_cmp a' b' | c => c end
  end.
(* length-prefixed addresses: shorter first, then lexicographic *)
Definition addr_cmp (a b : addr) : comparison :=
  match Nat.compare (length a) (length b) with Eq => bytes_cmp a b | c => c end.
Definition lex {A B} (ca : A -> A -> comparison) (cb : B -> B -> comparison) (x y : A * B) : comparison :=
  match ca x.1 y.1 with Eq => cb x.2 y.2 | c => c end.
Definition cmp_le {A} (c : A -> A -> comparison) (x y : A) : Prop := c x y <> Gt.
#[export] Instance cmp_le_dec {A} (c : A -> A -> comparison) x y : Decision (cmp_le c x y).
Proof. unfold cmp_le. destruct (c x y); [left|left|right]; congruence. Defined.

Definition sort_by {A} (c : A -> A -> comparison) (l : list A) : list A := merge_sort (cmp_le c) l.

Definition cmp_tz : (time * Z) -> (time * Z) -> comparison := lex Z.compare Z.compare.
Definition cmp_ta : (time * addr) -> (time * addr) -> comparison := lex Z.compare addr_cmp.
Definition cmp_az : (addr * Z) -> (addr * Z) -> comparison := lex addr_cmp Z.compare.
Definition cmp_zz : (Z * Z) -> (Z * Z) -> comparison := lex Z.compare Z.compare.
Definition cmp_za : (Z * addr) -> (Z * addr) -> comparison := lex Z.compare addr_cmp.

(* sdk.Coins are kept sorted by denomination *)
Definition coins_list (c : coins) : list coin := sort_by (fun x y => N.compare x.1 y.1) (map_to_list c).
