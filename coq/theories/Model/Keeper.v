(* Keeper primitives of the model: bank (modelled SDK behaviour), the deposit
   keeper, store getters/setters with their status partitions, ordered
   iteration, parameter checks.  Follows x/*/keeper/*.go of the hub. *)
From Hub Require Import Base.Prelude Base.Arith Model.Types.

Definition emit (e : event) (s : state) : state := s <| events ::= fun l => l ++ [e] |>.

(** * x/bank as used by the hub (modelled, see DESIGN §8) *)

Definition bal (s : state) (a : addr) (d : denom) : Z := amount_of (default ∅ (bank s !! a)) d.
Definition set_bal (s : state) (a : addr) (d : denom) (v : Z) : state :=
  s <| bank ::= fun b => <[a := coins_set (default ∅ (b !! a)) d v]> b |>.
Definition is_blocked (s : state) (a : addr) : bool := bool_decide (a ∈ c_blocked (cfg s)).

(* bank.SendCoins with one coin of positive amount: subUnlockedCoins, then addCoins *)
Definition bank_send (s : state) (from to : addr) (d : denom) (amt : Z) : res state :=
  if amt <? 0 then Panic                               (* sdk.NewCoins on a negative coin *)
  else if amt =? 0 then Ok s
  else if bal s from d <? amt then Err                 (* ErrInsufficientFunds *)
  else
    let s1 := set_bal s from d (bal s from d - amt) in
    Ok (set_bal s1 to d (bal s1 to d + amt)).

(* bank.SendCoinsFromModuleToAccount: refuses blocked recipients *)
Definition bank_send_to_account (s : state) (from to : addr) (d : denom) (amt : Z) : res state :=
  if is_blocked s to then Err else bank_send s from to d amt.

(* bank.MintCoins(swap, coin) followed by nothing else: supply and module balance grow *)
Definition bank_mint (s : state) (module : addr) (d : denom) (amt : Z) : res state :=
  if amt <=? 0 then Panic
  else
    let s1 := s <| supply ::= fun c => coins_add c d amt |> in
    Ok (set_bal s1 module d (bal s1 module d + amt)).

(** * x/deposit keeper *)

Definition dep_of (s : state) (a : addr) : coins := default ∅ (deposits s !! a).

(* SendCoinsFromAccountToDeposit(from = to = a) *)
Definition dep_add (s : state) (a : addr) (d : denom) (amt : Z) : res state :=
  let! s1 := bank_send s a (c_deposit (cfg s)) d amt in
  let dep := coins_add (dep_of s1 a) d amt in
  Ok (emit (ev "deposit.EventAdd" [VT (canon RAcc a); VC [(d, amt)]])
        (s1 <| deposits ::= fun m => <[a := dep]> m |>)).

(* the record side of SendCoinsFromDepositTo*: the remaining coins of the deposit *)
Definition dep_remaining (s : state) (from : addr) (d : denom) (amt : Z) : res coins :=
  match deposits s !! from with
  | None => Err
  | Some dep =>
      let r := amount_of dep d - amt in
      if r <? 0 then Err else Ok (coins_set dep d r)
  end.
Definition dep_store (s : state) (from : addr) (dep : coins) : state :=
  if bool_decide (dep = ∅) then s <| deposits ::= fun m => delete from m |>
  else s <| deposits ::= fun m => <[from := dep]> m |>.

Definition dep_to_account (s : state) (from to : addr) (d : denom) (amt : Z) : res state :=
  let! dep := dep_remaining s from d amt in
  let! s1 := bank_send_to_account s (c_deposit (cfg s)) to d amt in
  Ok (emit (ev "deposit.EventSubtract" [VT (canon RAcc from); VC [(d, amt)]]) (dep_store s1 from dep)).

Definition dep_to_module (s : state) (from : addr) (module : addr) (d : denom) (amt : Z) : res state :=
  let! dep := dep_remaining s from d amt in
  let! s1 := bank_send s (c_deposit (cfg s)) module d amt in
  Ok (emit (ev "deposit.EventSubtract" [VT (canon RAcc from); VC [(d, amt)]]) (dep_store s1 from dep)).

(* the alias.go wrappers: a zero coin short-circuits *)
Definition z_send (s : state) (from to : addr) (c : coin) : res state :=
  if c.2 =? 0 then Ok s else bank_send s from to c.1 c.2.
Definition z_dep_add (s : state) (a : addr) (c : coin) : res state :=
  if c.2 =? 0 then Ok s else dep_add s a c.1 c.2.
Definition z_dep_to_account (s : state) (from to : addr) (c : coin) : res state :=
  if c.2 =? 0 then Ok s else dep_to_account s from to c.1 c.2.
Definition z_dep_to_module (s : state) (from module : addr) (c : coin) : res state :=
  if c.2 =? 0 then Ok s else dep_to_module s from module c.1 c.2.
(* FundCommunityPool: account -> distribution module *)
Definition fund_pool (s : state) (from : addr) (c : coin) : res state :=
  if c.2 =? 0 then Ok s else bank_send s from (c_distr (cfg s)) c.1 c.2.

(* sdk.NewCoin panics on a negative amount *)
Definition new_coin (d : denom) (a : Z) : res coin := if a <? 0 then Panic else Ok (d, a).
(* sdk.Coin.Sub *)
Definition coin_sub (c : coin) (a : Z) : res coin :=
  let! r := int_sub c.2 a in new_coin c.1 r.

(** * providers, nodes, plans: two status partitions *)

Definition get_provider (s : state) (a : addr) : option provider :=
  match prov_act s !! a with Some p => Some p | None => prov_inact s !! a end.
Definition has_provider (s : state) (a : addr) : bool := bool_decide (is_Some (get_provider s a)).
Definition set_provider (s : state) (p : provider) : res state :=
  match pv_status p with
  | SActive => Ok (s <| prov_act ::= fun m => <[pv_addr p := p]> m |>)
  | SInactive => Ok (s <| prov_inact ::= fun m => <[pv_addr p := p]> m |>)
  | _ => Panic
  end.

Definition get_node (s : state) (a : addr) : option node :=
  match node_act s !! a with Some n => Some n | None => node_inact s !! a end.
Definition has_node (s : state) (a : addr) : bool := bool_decide (is_Some (get_node s a)).
Definition set_node (s : state) (n : node) : res state :=
  match nd_status n with
  | SActive => Ok (s <| node_act ::= fun m => <[nd_addr n := n]> m |>)
  | SInactive => Ok (s <| node_inact ::= fun m => <[nd_addr n := n]> m |>)
  | _ => Panic
  end.

Definition get_plan (s : state) (id : Z) : option plan :=
  match plan_act s !! id with Some p => Some p | None => plan_inact s !! id end.
Definition set_plan (s : state) (p : plan) : res state :=
  match pl_status p with
  | SActive => Ok (s <| plan_act ::= fun m => <[pl_id p := p]> m |>)
  | SInactive => Ok (s <| plan_inact ::= fun m => <[pl_id p := p]> m |>)
  | _ => Panic
  end.

(** * parameter checks of the node keeper *)

Definition bounds_ok (prices maxp minp : coins) : bool :=
  forallb (fun '(d, a) => negb (a <? amount_of prices d)) (coins_list maxp) &&
  forallb (fun '(d, a) => negb (amount_of prices d <? a)) (coins_list minp).
Definition valid_gb_prices (s : state) (p : coins) : bool := bounds_ok p (p_max_gb (pars s)) (p_min_gb (pars s)).
Definition valid_hr_prices (s : state) (p : coins) : bool := bounds_ok p (p_max_hr (pars s)) (p_min_hr (pars s)).
Definition valid_sub_gb (s : state) (g : Z) : bool := (p_min_sub_gb (pars s) <=? g) && (g <=? p_max_sub_gb (pars s)).
Definition valid_sub_hr (s : state) (h : Z) : bool := (p_min_sub_hr (pars s) <=? h) && (h <=? p_max_sub_hr (pars s)).

(** * ordered iteration over index snapshots *)

(* [store.Iterator(prefix, PrefixEnd(prefix | time))]: all queue entries with a time <= t,
   in key order (time, then id / length-prefixed address) *)
Definition due_z (q : gset (time * Z)) (t : time) : list (time * Z) :=
  filter (fun e => e.1 <= t) (sort_by cmp_tz (elements q)).
Definition due_a (q : gset (time * addr)) (t : time) : list (time * addr) :=
  filter (fun e => e.1 <= t) (sort_by cmp_ta (elements q)).

(* ids below a (Z, ·) prefix, ascending *)
Definition ids_for_z (ix : gset (Z * Z)) (k : Z) : list Z :=
  (sort_by Z.compare (elements ix ≫= fun e => if bool_decide (e.1 = k) then [e.2] else [])).
Definition ids_for_a (ix : gset (addr * Z)) (k : addr) : list Z :=
  (sort_by Z.compare (elements ix ≫= fun e => if bool_decide (e.1 = k) then [e.2] else [])).
Definition ids_for_aa (ix : gset (addr * addr * Z)) (k1 k2 : addr) : list Z :=
  (sort_by Z.compare (elements ix ≫= fun e => if bool_decide (e.1 = (k1, k2)) then [e.2] else [])).
Definition ids_for_za (ix : gset (Z * addr * Z)) (k1 : Z) (k2 : addr) : list Z :=
  (sort_by Z.compare (elements ix ≫= fun e => if bool_decide (e.1 = (k1, k2)) then [e.2] else [])).
Definition last_opt {A} (l : list A) : option A := last l.

(* allocations of one subscription, in key order (length-prefixed address) *)
Definition allocs_for (s : state) (id : Z) : list allocation :=
  map snd (sort_by (fun x y => cmp_za x.1 y.1)
             (filter (fun kv => kv.1.1 = id) (map_to_list (allocs s)))).

(* all nodes under prefix 0x10: active partition (0x10 0x01) first, then inactive (0x10 0x02) *)
Definition all_nodes (s : state) : list node :=
  map snd (sort_by (fun x y => addr_cmp x.1 y.1) (map_to_list (node_act s))) ++
  map snd (sort_by (fun x y => addr_cmp x.1 y.1) (map_to_list (node_inact s))).
