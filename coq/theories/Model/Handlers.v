(* Message handling: stateless validation (ValidateBasic) and the msg servers of
   provider, node, plan, subscription, session and swap, after
   x/*/types/msg.go and x/*/keeper/msg_server.go and the Create functions of subscription.go. *)
From Hub Require Import Base.Prelude Base.Arith Model.Types Model.Keeper.

Definition slen (x : string) : Z := Z.of_nat (String.length x).
Definition is_empty (x : string) : bool := (slen x =? 0).

(* a Coins message field: not nil, not empty, IsValid *)
Definition coins_field_ok (c : option (list coin)) : bool :=
  match c with
  | None => false
  | Some l => negb (bool_decide (l = [])) && coins_sorted l
  end.
(* optional Coins field of an update: nil is fine *)
Definition coins_field_opt_ok (c : option (list coin)) : bool :=
  match c with
  | None => true
  | Some l => negb (bool_decide (l = [])) && coins_sorted l
  end.
Definition denom_ok (d : denom) : bool := negb (d =? 0)%N.

(** * ValidateBasic *)

Definition validate_basic (m : msg) : bool :=
  match m with
  | MProvRegister from name identity website description website_ok =>
      ta_valid RAcc from && negb (is_empty name) && (slen name <=? 64) && (slen identity <=? 64) &&
      (slen website <=? 64) && (is_empty website || website_ok) && (slen description <=? 256)
  | MProvUpdate from name identity website description website_ok st =>
      ta_valid RProv from && (slen name <=? 64) && (slen identity <=? 64) &&
      (slen website <=? 64) && (is_empty website || website_ok) && (slen description <=? 256) &&
      bool_decide (st = SUnspec \/ st = SActive \/ st = SInactive)
  | MNodeRegister from gb hr url url_ok =>
      ta_valid RAcc from && coins_field_ok gb && coins_field_ok hr &&
      negb (is_empty url) && (slen url <=? 64) && url_ok
  | MNodeUpdateDetails from gb hr url url_ok =>
      ta_valid RNode from && coins_field_opt_ok gb && coins_field_opt_ok hr &&
      (is_empty url || ((slen url <=? 64) && url_ok))
  | MNodeUpdateStatus from st =>
      ta_valid RNode from && bool_decide (st = SActive \/ st = SInactive)
  | MNodeSubscribe from nd gigabytes hours dn =>
      ta_valid RAcc from && ta_valid RNode nd &&
      negb ((gigabytes =? 0) && (hours =? 0)) && negb (negb (gigabytes =? 0) && negb (hours =? 0)) &&
      (0 <=? gigabytes) && (0 <=? hours) && denom_ok dn
  | MPlanCreate from duration gigabytes prices =>
      ta_valid RProv from && (0 <? duration) && (0 <? gigabytes) && coins_field_ok prices
  | MPlanUpdateStatus from id st =>
      ta_valid RProv from && negb (id =? 0) && bool_decide (st = SActive \/ st = SInactive)
  | MPlanLink from id nd | MPlanUnlink from id nd =>
      ta_valid RProv from && negb (id =? 0) && ta_valid RNode nd
  | MPlanSubscribe from id dn =>
      ta_valid RAcc from && negb (id =? 0) && denom_ok dn
  | MSubCancel from id => ta_valid RAcc from && negb (id =? 0)
  | MSubAllocate from id to bytes =>
      ta_valid RAcc from && negb (id =? 0) && ta_valid RAcc to && (0 <=? bytes) && (bytes <? MAXINT)
  | MSessStart from id nd => ta_valid RAcc from && negb (id =? 0) && ta_valid RNode nd
  | MSessUpdate from id up down duration sig_len _ =>
      ta_valid RNode from && negb (id =? 0) && (0 <=? up) && (up <? MAXINT) && (0 <=? down) && (down <? MAXINT) &&
      (up + down <? MAXINT) && (0 <=? duration) &&
      match sig_len with None => true | Some n => n =? 64 end
  | MSessEnd from id rating => ta_valid RAcc from && negb (id =? 0) && (0 <=? rating) && (rating <=? 10)
  | MSwap from hash receiver amount =>
      ta_valid RAcc from && ta_valid RAcc receiver && (Z.of_nat (length hash) =? 32) &&
      (100 <=? amount) && (amount <? MAXINT)
  end.

(** * provider *)

Definition h_prov_register (s : state) (from : taddr) (name identity website description : string) : res state :=
  let a := ta_bytes from in
  let! _ := ensure (negb (has_provider s a)) in
  let! s1 := fund_pool s a (p_prov_deposit (pars s)) in
  let p := {| pv_addr := a; pv_name := name; pv_identity := identity; pv_website := website;
              pv_description := description; pv_status := SInactive; pv_status_at := now s |} in
  let! s2 := set_provider s1 p in
  Ok (emit (ev "provider.EventRegister" [VT (canon RProv a)]) s2).

Definition h_prov_update (s : state) (from : taddr) (name identity website description : string) (st : status) : res state :=
  let a := ta_bytes from in
  match get_provider s a with
  | None => Err
  | Some p =>
      let p1 := p <| pv_name := if is_empty name then pv_name p else name |>
                  <| pv_identity := identity |> <| pv_website := website |> <| pv_description := description |> in
      let '(s1, p2) :=
        if bool_decide (st = SUnspec) then (s, p1)
        else
          let s1 := if bool_decide (pv_status p = SActive /\ st = SInactive)
                    then s <| prov_act ::= fun m => delete a m |> else s in
          let s2 := if bool_decide (pv_status p = SInactive /\ st = SActive)
                    then s1 <| prov_inact ::= fun m => delete a m |> else s1 in
          (s2, p1 <| pv_status := st |> <| pv_status_at := now s |>) in
      let! s2 := set_provider s1 p2 in
      Ok (emit (ev "provider.EventUpdate" [VT (canon RProv a)]) s2)
  end.

(** * node *)

Definition h_node_register (s : state) (from : taddr) (gb hr : list coin) (url : string) : res state :=
  let! _ := ensure (valid_gb_prices s (coins_of gb)) in
  let! _ := ensure (valid_hr_prices s (coins_of hr)) in
  let a := ta_bytes from in
  let! _ := ensure (negb (has_node s a)) in
  let! s1 := fund_pool s a (p_node_deposit (pars s)) in
  let n := {| nd_addr := a; nd_gb_prices := coins_of gb; nd_hr_prices := coins_of hr; nd_url := url;
              nd_inactive_at := tzero; nd_status := SInactive; nd_status_at := now s |} in
  let! s2 := set_node s1 n in
  Ok (emit (ev "node.EventRegister" [VT (canon RNode a)]) s2).

Definition h_node_update_details (s : state) (from : taddr) (gb hr : option (list coin)) (url : string) : res state :=
  let! _ := ensure (match gb with Some l => valid_gb_prices s (coins_of l) | None => true end) in
  let! _ := ensure (match hr with Some l => valid_hr_prices s (coins_of l) | None => true end) in
  let a := ta_bytes from in
  match get_node s a with
  | None => Err
  | Some n =>
      let n1 := n <| nd_gb_prices := match gb with Some l => coins_of l | None => nd_gb_prices n end |>
                  <| nd_hr_prices := match hr with Some l => coins_of l | None => nd_hr_prices n end |>
                  <| nd_url := if is_empty url then nd_url n else url |> in
      let! s1 := set_node s n1 in
      Ok (emit (ev "node.EventUpdateDetails" [VT (canon RNode a)]) s1)
  end.

Definition h_node_update_status (s : state) (from : taddr) (st : status) : res state :=
  let a := ta_bytes from in
  match get_node s a with
  | None => Err
  | Some n =>
      let s1 :=
        if bool_decide (nd_status n = SActive) then
          let s' := s <| node_q ::= fun q => q ∖ {[ (nd_inactive_at n, a) ]} |> in
          if bool_decide (st = SInactive) then s' <| node_act ::= fun m => delete a m |> else s'
        else s in
      let s2 :=
        if bool_decide (nd_status n = SInactive /\ st = SActive)
        then s1 <| node_inact ::= fun m => delete a m |> else s1 in
      let '(s3, n1) :=
        if bool_decide (st = SActive) then
          let t := now s + p_node_active (pars s) in
          (s2 <| node_q ::= fun q => q ∪ {[ (t, a) ]} |>, n <| nd_inactive_at := t |>)
        else (s2, n) in
      let n2 := if bool_decide (st = SInactive) then n1 <| nd_inactive_at := tzero |> else n1 in
      let n3 := n2 <| nd_status := st |> <| nd_status_at := now s |> in
      let! s4 := set_node s3 n3 in
      Ok (emit (ev "node.EventUpdateStatus" [VS st; VT (canon RNode a)]) s4)
  end.

(* x/subscription/keeper/subscription.go CreateSubscriptionForNode *)
Definition create_sub_for_node (s : state) (acc nd : addr) (gigabytes hours : Z) (dn : denom) : res (state * Z) :=
  match get_node s nd with
  | None => Err
  | Some n =>
      let! _ := ensure (bool_decide (nd_status n = SActive)) in
      let id := sub_count s + 1 in
      let! '(inact1, dep1) :=
        (if negb (gigabytes =? 0) then
           match nd_gb_prices n !! dn with
           | None => Err
           | Some price =>
               let! bytes := int_mul GB gigabytes in
               let! a := amount_for_bytes price bytes in
               let! c := new_coin dn a in
               Ok (now s + 90 * DAY, c)
           end
         else Ok (tzero, (0%N, 0))) in
      let! '(inact2, dep2) :=
        (if negb (hours =? 0) then
           match nd_hr_prices n !! dn with
           | None => Err
           | Some price =>
               let! a := int_mul price hours in
               let! c := new_coin dn a in
               Ok (now s + hours * HOUR, c)
           end
         else Ok (inact1, dep1)) in
      let! s1 := z_dep_add s acc dep2 in
      let sb := {| sb_id := id; sb_addr := acc; sb_inactive_at := inact2; sb_status := SActive;
                   sb_status_at := now s; sb_kind := KNode nd gigabytes hours dep2 |} in
      let s2 := s1 <| sub_count := id |> <| subs ::= fun m => <[id := sb]> m |>
                   <| sub_acc ::= fun x => x ∪ {[ (acc, id) ]} |>
                   <| sub_node ::= fun x => x ∪ {[ (nd, id) ]} |>
                   <| sub_q ::= fun x => x ∪ {[ (inact2, id) ]} |> in
      let! s3 :=
        (if negb (gigabytes =? 0) then
           let! g := int_mul GB gigabytes in
           let al := {| al_id := id; al_addr := acc; al_granted := g; al_used := 0 |} in
           Ok (emit (ev "subscription.EventAllocate" [VT (canon RAcc acc); VZ g; VZ 0; VZ id])
                 (s2 <| allocs ::= fun m => <[(id, acc) := al]> m |>))
         else Ok s2) in
      let! s4 :=
        (if negb (hours =? 0) then
           let! pr := int_quo dep2.2 hours in
           let! pc := new_coin dep2.1 pr in
           let po := {| po_id := id; po_addr := acc; po_node := nd; po_hours := hours; po_price := pc;
                        po_next_at := now s |} in
           Ok (emit (ev "subscription.EventCreatePayout" [VT (canon RAcc acc); VT (canon RNode nd); VZ id])
                 (s3 <| payouts ::= fun m => <[id := po]> m |>
                     <| pay_acc ::= fun x => x ∪ {[ (acc, id) ]} |>
                     <| pay_node ::= fun x => x ∪ {[ (nd, id) ]} |>
                     <| pay_acc_node ::= fun x => x ∪ {[ (acc, nd, id) ]} |>
                     <| pay_q ::= fun x => x ∪ {[ (now s, id) ]} |>))
         else Ok s3) in
      Ok (s4, id)
  end.

Definition h_node_subscribe (s : state) (from nd : taddr) (gigabytes hours : Z) (dn : denom) : res state :=
  let! _ := ensure ((gigabytes =? 0) || valid_sub_gb s gigabytes) in
  let! _ := ensure ((hours =? 0) || valid_sub_hr s hours) in
  let! '(s1, id) := create_sub_for_node s (ta_bytes from) (ta_bytes nd) gigabytes hours dn in
  Ok (emit (ev "node.EventCreateSubscription" [VT (canon RAcc (ta_bytes from)); VT (canon RNode (ta_bytes nd)); VZ id]) s1).

(** * plan *)

Definition h_plan_create (s : state) (from : taddr) (duration gigabytes : Z) (prices : list coin) : res state :=
  let a := ta_bytes from in
  let! _ := ensure (has_provider s a) in
  let id := plan_count s + 1 in
  let p := {| pl_id := id; pl_prov := a; pl_duration := duration; pl_gb := gigabytes;
              pl_prices := coins_of prices; pl_status := SInactive; pl_status_at := now s |} in
  let! s1 := set_plan (s <| plan_count := id |>) p in
  Ok (emit (ev "plan.EventCreate" [VT (canon RProv a); VZ id])
        (s1 <| plan_prov ::= fun x => x ∪ {[ (a, id) ]} |>)).

Definition plan_authorised (p : plan) (from : taddr) : bool := ta_eqb from (canon RProv (pl_prov p)).

Definition h_plan_update_status (s : state) (from : taddr) (id : Z) (st : status) : res state :=
  match get_plan s id with
  | None => Err
  | Some p =>
      let! _ := ensure (plan_authorised p from) in
      let s1 := if bool_decide (pl_status p = SActive /\ st = SInactive)
                then s <| plan_act ::= fun m => delete id m |> else s in
      let s2 := if bool_decide (pl_status p = SInactive /\ st = SActive)
                then s1 <| plan_inact ::= fun m => delete id m |> else s1 in
      let! s3 := set_plan s2 (p <| pl_status := st |> <| pl_status_at := now s |>) in
      Ok (emit (ev "plan.EventUpdateStatus" [VS st; VT (canon RProv (pl_prov p)); VZ id]) s3)
  end.

Definition h_plan_link (s : state) (from : taddr) (id : Z) (nd : taddr) : res state :=
  match get_plan s id with
  | None => Err
  | Some p =>
      let! _ := ensure (plan_authorised p from) in
      let! _ := ensure (has_node s (ta_bytes nd)) in
      Ok (emit (ev "plan.EventLinkNode" [VT (canon RProv (pl_prov p)); VT nd; VZ id])
            (s <| node_plan ::= fun x => x ∪ {[ (id, ta_bytes nd) ]} |>))
  end.

Definition h_plan_unlink (s : state) (from : taddr) (id : Z) (nd : taddr) : res state :=
  match get_plan s id with
  | None => Err
  | Some p =>
      let! _ := ensure (plan_authorised p from) in
      Ok (emit (ev "plan.EventUnlinkNode" [VT (canon RProv (pl_prov p)); VT nd; VZ id])
            (s <| node_plan ::= fun x => x ∖ {[ (id, ta_bytes nd) ]} |>))
  end.

(* x/subscription/keeper/subscription.go CreateSubscriptionForPlan *)
Definition create_sub_for_plan (s : state) (acc : addr) (pid : Z) (dn : denom) : res (state * Z) :=
  match get_plan s pid with
  | None => Err
  | Some p =>
      let! _ := ensure (bool_decide (pl_status p = SActive)) in
      match pl_prices p !! dn with
      | None => Err
      | Some price =>
          let! reward := proportion price (p_prov_share (pars s)) in
          let! s1 := z_send s acc (c_feecoll (cfg s)) (dn, reward) in
          let! payment := coin_sub (dn, price) reward in
          let! s2 := z_send s1 acc (pl_prov p) payment in
          let s3 := emit (ev "subscription.EventPayForPlan" [VT (canon RAcc acc); VC [payment]; VT (canon RProv (pl_prov p)); VC [(dn, reward)]; VZ pid]) s2 in
          let id := sub_count s3 + 1 in
          let inact := now s + pl_duration p in
          let sb := {| sb_id := id; sb_addr := acc; sb_inactive_at := inact; sb_status := SActive;
                       sb_status_at := now s; sb_kind := KPlan pid dn |} in
          let! g := int_mul GB (pl_gb p) in
          let al := {| al_id := id; al_addr := acc; al_granted := g; al_used := 0 |} in
          let s4 := s3 <| sub_count := id |> <| subs ::= fun m => <[id := sb]> m |>
                       <| sub_acc ::= fun x => x ∪ {[ (acc, id) ]} |>
                       <| sub_plan ::= fun x => x ∪ {[ (pid, id) ]} |>
                       <| sub_q ::= fun x => x ∪ {[ (inact, id) ]} |>
                       <| allocs ::= fun m => <[(id, acc) := al]> m |> in
          Ok (emit (ev "subscription.EventAllocate" [VT (canon RAcc acc); VZ g; VZ 0; VZ id]) s4, id)
      end
  end.

Definition h_plan_subscribe (s : state) (from : taddr) (pid : Z) (dn : denom) : res state :=
  let! '(s1, id) := create_sub_for_plan s (ta_bytes from) pid dn in
  Ok (emit (ev "plan.EventCreateSubscription" [VT (canon RAcc (ta_bytes from)); VZ id; VZ pid]) s1).

(** * session keeper hook used by subscription: SubscriptionInactivePendingHook *)

Definition session_make_pending (s : state) (x : session) : state :=
  let t := now s + p_sess_delay (pars s) in
  let x' := x <| ss_inactive_at := t |> <| ss_status := SPending |> <| ss_status_at := now s |> in
  emit (ev "session.EventUpdateStatus" [VS SPending; VT (canon RAcc (ss_addr x)); VT (canon RNode (ss_node x)); VZ (ss_id x); VZ (ss_sub x)])
    (s <| sess_q ::= fun q => (q ∖ {[ (ss_inactive_at x, ss_id x) ]}) ∪ {[ (t, ss_id x) ]} |>
       <| sessions ::= fun m => <[ss_id x := x']> m |>).

(* reverse iteration over the sessions of a subscription; an index entry without
   a session panics *)
Definition sub_pending_hook (s : state) (id : Z) : res state :=
  rfold (fun s sid =>
           match sessions s !! sid with
           | None => Panic
           | Some x => if bool_decide (ss_status x = SActive) then Ok (session_make_pending s x) else Ok s
           end)
        (rev (ids_for_z (sess_sub s) id)) s.

(** * subscription *)

(* the tail shared by MsgCancel and the end-blocker: detach the payout of an hourly subscription.
   [missing] is what a missing payout yields (error in the handler, panic in the hook) *)
Definition detach_payout (s : state) (sb : subscription) (missing : res state) : res state :=
  match sb_kind sb with
  | KNode _ _ hours _ =>
      if hours =? 0 then Ok s
      else match payouts s !! sb_id sb with
           | None => missing
           | Some po =>
               Ok (s <| pay_acc_node ::= fun x => x ∖ {[ (po_addr po, po_node po, po_id po) ]} |>
                     <| pay_q ::= fun x => x ∖ {[ (po_next_at po, po_id po) ]} |>
                     <| payouts ::= fun m => <[po_id po := po <| po_next_at := tzero |>]> m |>)
           end
  | KPlan _ _ => Ok s
  end.

Definition sub_make_pending (s : state) (sb : subscription) : state :=
  let t := now s + p_sub_delay (pars s) in
  let sb' := sb <| sb_inactive_at := t |> <| sb_status := SPending |> <| sb_status_at := now s |> in
  emit (ev "subscription.EventUpdateStatus" [VS SPending; VT (canon RAcc (sb_addr sb)); VZ (sb_id sb)])
    (s <| subs ::= fun m => <[sb_id sb := sb']> m |>
       <| sub_q ::= fun q => q ∪ {[ (t, sb_id sb) ]} |>).

Definition h_sub_cancel (s : state) (from : taddr) (id : Z) : res state :=
  match subs s !! id with
  | None => Err
  | Some sb =>
      let! _ := ensure (bool_decide (sb_status sb = SActive)) in
      let! _ := ensure (bool_decide (ta_bytes from = sb_addr sb)) in
      let s1 := s <| sub_q ::= fun q => q ∖ {[ (sb_inactive_at sb, id) ]} |> in
      let! s2 := sub_pending_hook s1 id in
      let s3 := sub_make_pending s2 sb in
      detach_payout s3 sb Err
  end.

Definition h_sub_allocate (s : state) (from : taddr) (id : Z) (to : taddr) (bytes : Z) : res state :=
  match subs s !! id with
  | None => Err
  | Some sb =>
      let! _ := ensure (match sb_kind sb with KPlan _ _ => true | _ => false end) in
      let fa := ta_bytes from in
      let! _ := ensure (bool_decide (fa = sb_addr sb)) in
      match allocs s !! (id, fa) with
      | None => Err
      | Some fal =>
          let ta := ta_bytes to in
          let! _ := ensure (negb (bool_decide (fa = ta))) in
          let '(s1, tal) :=
            match allocs s !! (id, ta) with
            | Some tal => (s, tal)
            | None => (s <| sub_acc ::= fun x => x ∪ {[ (ta, id) ]} |>,
                       {| al_id := id; al_addr := ta; al_granted := 0; al_used := 0 |})
            end in
          let! granted := int_add (al_granted fal) (al_granted tal) in
          let! utilised := int_add (al_used fal) (al_used tal) in
          let! available := int_sub granted utilised in
          let! _ := ensure (negb (available <? bytes)) in
          let! fg := int_sub granted bytes in
          let! _ := ensure (negb (fg <? al_used fal)) in
          let fal' := fal <| al_granted := fg |> in
          let s2 := emit (ev "subscription.EventAllocate" [VT (canon RAcc fa); VZ fg; VZ (al_used fal); VZ id])
                      (s1 <| allocs ::= fun m => <[(id, fa) := fal']> m |>) in
          let! _ := ensure (negb (bytes <? al_used tal)) in
          let tal' := tal <| al_granted := bytes |> in
          Ok (emit (ev "subscription.EventAllocate" [VT (canon RAcc ta); VZ bytes; VZ (al_used tal); VZ id])
                (s2 <| allocs ::= fun m => <[(id, ta) := tal']> m |>))
      end
  end.

(** * session *)

Definition latest_payout_for (s : state) (acc nd : addr) : res (option payout) :=
  match last_opt (ids_for_aa (pay_acc_node s) acc nd) with
  | None => Ok None
  | Some id => match payouts s !! id with None => Panic | Some po => Ok (Some po) end
  end.
Definition latest_session_for_alloc (s : state) (id : Z) (acc : addr) : res (option session) :=
  match last_opt (ids_for_za (sess_alloc s) id acc) with
  | None => Ok None
  | Some sid => match sessions s !! sid with None => Panic | Some x => Ok (Some x) end
  end.

Definition h_sess_start (s : state) (from : taddr) (id : Z) (nd : taddr) : res state :=
  match subs s !! id with
  | None => Err
  | Some sb =>
      let! _ := ensure (bool_decide (sb_status sb = SActive)) in
      let na := ta_bytes nd in
      match get_node s na with
      | None => Err
      | Some n =>
          let! _ := ensure (bool_decide (nd_status n = SActive)) in
          let! _ :=
            match sb_kind sb with
            | KNode sn _ _ _ => ensure (bool_decide (nd_addr n = sn))
            | KPlan pid _ =>
                match get_plan s pid with
                | None => Err
                | Some p =>
                    let! po := latest_payout_for s (pl_prov p) na in
                    let! _ := ensure (bool_decide (is_Some po)) in
                    ensure (bool_decide ((pid, na) ∈ node_plan s))
                end
            end in
          let acc := ta_bytes from in
          let! check_alloc :=
            match sb_kind sb with
            | KNode _ _ hours _ =>
                let! _ := ensure (ta_eqb from (canon RAcc (sb_addr sb))) in
                Ok (hours =? 0)
            | KPlan _ _ => Ok true
            end in
          let! _ :=
            (if check_alloc then
               match allocs s !! (id, acc) with
               | None => Err
               | Some al => ensure (negb (al_granted al <=? al_used al))
               end
             else Ok tt) in
          let! latest := latest_session_for_alloc s id acc in
          let! _ := ensure (match latest with Some x => negb (bool_decide (ss_status x = SActive)) | None => true end) in
          let sid := sess_count s + 1 in
          let t := now s + p_sess_delay (pars s) in
          let x := {| ss_id := sid; ss_sub := id; ss_node := na; ss_addr := acc; ss_up := 0; ss_down := 0;
                      ss_duration := 0; ss_inactive_at := t; ss_status := SActive; ss_status_at := now s |} in
          Ok (emit (ev "session.EventStart" [VT (canon RAcc acc); VT (canon RNode na); VZ sid; VZ id])
                (s <| sess_count := sid |> <| sessions ::= fun m => <[sid := x]> m |>
                   <| sess_acc ::= fun i => i ∪ {[ (acc, sid) ]} |>
                   <| sess_node ::= fun i => i ∪ {[ (na, sid) ]} |>
                   <| sess_sub ::= fun i => i ∪ {[ (id, sid) ]} |>
                   <| sess_alloc ::= fun i => i ∪ {[ (id, acc, sid) ]} |>
                   <| sess_q ::= fun i => i ∪ {[ (t, sid) ]} |>))
      end
  end.

Definition h_sess_update (s : state) (from : taddr) (id up down duration : Z) (sig_ok : bool) : res state :=
  match sessions s !! id with
  | None => Err
  | Some x =>
      let! _ := ensure (negb (bool_decide (ss_status x = SInactive))) in
      let! _ := ensure (ta_eqb from (canon RNode (ss_node x))) in
      let! _ := ensure (negb (p_sess_proof (pars s)) || sig_ok) in
      let '(s1, x1) :=
        if bool_decide (ss_status x = SActive) then
          let t := now s + p_sess_delay (pars s) in
          (s <| sess_q ::= fun q => (q ∖ {[ (ss_inactive_at x, id) ]}) ∪ {[ (t, id) ]} |>,
           x <| ss_inactive_at := t |>)
        else (s, x) in
      let x2 := x1 <| ss_up := up |> <| ss_down := down |> <| ss_duration := duration |> in
      Ok (emit (ev "session.EventUpdateDetails" [VT (canon RAcc (ss_addr x)); VT (canon RNode (ss_node x)); VZ id; VZ (ss_sub x)])
            (s1 <| sessions ::= fun m => <[id := x2]> m |>))
  end.

Definition h_sess_end (s : state) (from : taddr) (id : Z) : res state :=
  match sessions s !! id with
  | None => Err
  | Some x =>
      let! _ := ensure (bool_decide (ss_status x = SActive)) in
      let! _ := ensure (ta_eqb from (canon RAcc (ss_addr x))) in
      Ok (session_make_pending s x)
  end.

(** * swap *)

Definition h_swap (s : state) (from : taddr) (hash : list N) (receiver : taddr) (amount : Z) : res state :=
  let! _ := ensure (p_swap_enabled (pars s)) in
  let! _ := ensure (ta_eqb (p_swap_approver (pars s)) from) in
  let! _ := ensure (negb (bool_decide (is_Some (swaps s !! hash)))) in
  let! q := int_quo amount 100 in
  let! c := new_coin (p_swap_denom (pars s)) q in
  let w := {| sw_hash := hash; sw_receiver := receiver; sw_amount := c |} in
  let! s1 := bank_mint s (c_swap (cfg s)) c.1 c.2 in
  let! s2 := bank_send_to_account s1 (c_swap (cfg s)) (ta_bytes receiver) c.1 c.2 in
  Ok (emit (ev "swap.EventSwap" [VH hash; VT receiver])
        (s2 <| swaps ::= fun m => <[hash := w]> m |>)).

(** * dispatch *)

Definition handle (s : state) (m : msg) : res state :=
  match m with
  | MProvRegister from name identity website description _ => h_prov_register s from name identity website description
  | MProvUpdate from name identity website description _ st => h_prov_update s from name identity website description st
  | MNodeRegister from gb hr url _ => h_node_register s from (default [] gb) (default [] hr) url
  | MNodeUpdateDetails from gb hr url _ => h_node_update_details s from gb hr url
  | MNodeUpdateStatus from st => h_node_update_status s from st
  | MNodeSubscribe from nd g h dn => h_node_subscribe s from nd g h dn
  | MPlanCreate from duration g prices => h_plan_create s from duration g (default [] prices)
  | MPlanUpdateStatus from id st => h_plan_update_status s from id st
  | MPlanLink from id nd => h_plan_link s from id nd
  | MPlanUnlink from id nd => h_plan_unlink s from id nd
  | MPlanSubscribe from id dn => h_plan_subscribe s from id dn
  | MSubCancel from id => h_sub_cancel s from id
  | MSubAllocate from id to bytes => h_sub_allocate s from id to bytes
  | MSessStart from id nd => h_sess_start s from id nd
  | MSessUpdate from id up down duration _ sig_ok => h_sess_update s from id up down duration sig_ok
  | MSessEnd from id _ => h_sess_end s from id
  | MSwap from hash receiver amount => h_swap s from hash receiver amount
  end.

Definition run_tx (s : state) (m : msg) : res state :=
  if validate_basic m then handle s m else Err.
