(* The configuration domain of DESIGN section 5 as an executable check on concrete operations, for the
   correspondence run: which generated histories lie inside the domain the no-halt and life-cycle theorems
   quantify over.  Soundness (wf_op_c03_b = true -> wf_op_c03) is proved in Proofs/TotalClosed.v.  No proofs here. *)
From Hub Require Import Base.Prelude Base.Arith Model.Types Model.Keeper Model.Handlers Model.Hooks Model.Step.

(* DESIGN 5.1: no account ever holds 2^250 base units or more of a denomination (total supply < 2^250) *)
Definition BIG : Z := 2 ^ 250.

Definition msg_sender (m : msg) : taddr :=
  match m with
  | MProvRegister f _ _ _ _ _ | MProvUpdate f _ _ _ _ _ _ | MNodeRegister f _ _ _ _ | MNodeUpdateDetails f _ _ _ _
  | MNodeUpdateStatus f _ | MNodeSubscribe f _ _ _ _ | MPlanCreate f _ _ _ | MPlanUpdateStatus f _ _
  | MPlanLink f _ _ | MPlanUnlink f _ _ | MPlanSubscribe f _ _ | MSubCancel f _ | MSubAllocate f _ _ _
  | MSessStart f _ _ | MSessUpdate f _ _ _ _ _ _ | MSessEnd f _ _ | MSwap f _ _ _ => f
  end.

Definition bal_small_b (s : state) (a : addr) : bool :=
  bool_decide (map_Forall (fun _ v => v < BIG) (default ∅ (bank s !! a))).

Definition par_ok_b (p : params) : bool :=
  (0 <? p_sub_delay p) && (0 <? p_sess_delay p) && (p_sess_delay p <=? p_sub_delay p) && (0 <? p_node_active p) &&
  (0 <=? p_node_share p) && (p_node_share p <=? P18) && (0 <=? p_prov_share p) && (p_prov_share p <=? P18).

Definition wf_op_c03_b (s : state) (o : op) : bool :=
  match o with
  | OBegin t => now s <? t
  | OTx m => bool_decide (ta_bytes (msg_sender m) ∉ c_blocked (cfg s)) && bal_small_b s (ta_bytes (msg_sender m))
  | OGov cs =>
      (* a proposal that fails a per-key validator is not executed at all; an executed one must keep the one
         cross-field condition the validators cannot see *)
      let s' := fold_left apply_pchange cs s in
      negb (forallb pchange_valid cs) ||
      ((p_sess_delay (pars s') <=? p_sub_delay (pars s')) &&
       bool_decide (map_Forall (fun _ x => ss_status x = SPending -> ss_inactive_at x <= now s + p_sub_delay (pars s')) (sessions s)))
  | OEnd => true
  end.

(* the genesis part: parameters and the inflation schedule (module-account set-up is checked by the harness, which takes
   it from app.ModuleAccPerms / app.BlockedAccAddrs) *)
Definition wf_genesis_b (g : genesis) : bool :=
  par_ok_b (g_params g) &&
  forallb (fun it => mint_params_valid (inf_max it) (inf_min it) (inf_rate it)) (g_inflations g) &&
  bool_decide (c_deposit (g_cfg g) ∈ c_blocked (g_cfg g)).
