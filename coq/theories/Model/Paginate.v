(* Executable model of cosmos-sdk v0.47.10 types/query/pagination.go [Paginate] and
   filtered_pagination.go [FilteredPaginate], as used by the hub's gRPC list queries.

   The prefix store a handler pages over is abstracted as the list of its (key, value)
   entries in store order (ascending, byte-wise lexicographic, no duplicates); keys are
   relative to the prefix (the prefix store strips it).  Everything here is what the Go
   code DOES, including: uint64 wrap-around of [offset + limit] and [end + 1]; [total]
   only in offset mode with count_total (or limit = 0); [next_key] rules that differ
   between the two modes; the reverse iterator built by [getIterator].  No proofs here. *)
From Hub Require Import Base.Prelude.
Local Open Scope N_scope.

Notation key := (list N) (only parsing). (* a byte string *)

(* bytes.Compare a b < 0 *)
Fixpoint key_ltb (a b : key) : bool :=
  match a, b with
  | _, [] => false
  | [], _ :: _ => true
  | x :: a', y :: b' => if x <? y then true else if y <? x then false else key_ltb a' b'
  end.

(* query.PageRequest.  [pr_key = None] is a nil slice, [Some []] an empty non-nil one
   (the code distinguishes them: [key != nil] in the both-set test, [len(key) != 0] for the mode). *)
Record page_request := mk_req {
  pr_key : option key;
  pr_offset : N;
  pr_limit : N;
  pr_count_total : bool;
  pr_reverse : bool
}.
#[global] Instance eta_page_request : Settable _ :=
  settable! mk_req <pr_key; pr_offset; pr_limit; pr_count_total; pr_reverse>.

(* a nil *PageRequest is replaced by &PageRequest{} *)
Definition nil_request : page_request := mk_req None 0 0 false false.

(* query.PageResponse *)
Record page_response := mk_resp {
  next_key : option key;
  total : N
}.

Definition u64 : N := 18446744073709551616.     (* 2^64 *)
Definition wrap (n : N) : N := n mod u64.         (* uint64 arithmetic *)
Definition default_limit : N := 100.

Definition opt_list {A} (o : option A) : list A :=
  match o with Some a => [a] | None => [] end.

Fixpoint drop_while {A} (p : A -> bool) (l : list A) : list A :=
  match l with
  | [] => []
  | x :: l' => if p x then drop_while p l' else l
  end.

Fixpoint take_while {A} (p : A -> bool) (l : list A) : list A :=
  match l with
  | [] => []
  | x :: l' => if p x then x :: take_while p l' else []
  end.

(* getIterator(prefixStore, start, reverse): the entries in the order the iterator yields them.
   Forward: Iterator(start, nil) = entries with key >= start.
   Reverse with a start key: a forward iterator is positioned at the first key >= start; if there is
   none the reverse iterator is unbounded; otherwise [itr.Next(); end = itr.Key()] - calling Key() on an
   iterator that became invalid panics ("prefixIterator invalid, cannot call Key()") - and the reverse
   iterator yields the entries with key < end. *)
Definition iter_from {V} (items : list (key * V)) (start : option key) (reverse : bool)
  : res (list (key * V)) :=
  match start with
  | None => Ok (if reverse then rev items else items)
  | Some st =>
      let tail := drop_while (fun kv => key_ltb (fst kv) st) items in
      if reverse then
        match tail with
        | [] => Ok (rev items)
        | [_] => Panic
        | _ :: (k2, _) :: _ => Ok (rev (take_while (fun kv => key_ltb (fst kv) k2) items))
        end
      else Ok tail
  end.

(* ---------------------------------------------------------------- Paginate *)

(* [onResult key value] of Paginate: every hub callback either fails or appends exactly one
   element to the handler's result slice; modelled as returning that element. *)
Definition callback (V R : Type) := key -> V -> res R.

Section Paginate.
  Context {V R : Type} (cb : callback V R).

  (* key mode: for ; Valid; Next { if count == limit {nextKey = Key; break}; onResult; count++ } *)
  Fixpoint pg_key_loop (limit : N) (it : list (key * V)) (count : N) : res (list R * option key) :=
    match it with
    | [] => Ok ([], None)
    | (k, v) :: it' =>
        if count =? limit then Ok ([], Some k)
        else
          let! r := cb k v in
          let! '(page, nk) := pg_key_loop limit it' (wrap (count + 1)) in
          Ok (r :: page, nk)
    end.

  (* offset mode: count++; if count <= offset continue; if count <= end onResult
     else if count == end+1 { nextKey = Key; if !countTotal break } *)
  Fixpoint pg_off_loop (offset endp : N) (ct : bool) (it : list (key * V)) (count : N) (nk : option key)
    : res (list R * option key * N) :=
    match it with
    | [] => Ok ([], nk, count)
    | (k, v) :: it' =>
        let count' := wrap (count + 1) in
        if count' <=? offset then pg_off_loop offset endp ct it' count' nk
        else if count' <=? endp then
          let! r := cb k v in
          let! '(page, nk', n) := pg_off_loop offset endp ct it' count' nk in
          Ok (r :: page, nk', n)
        else if count' =? wrap (endp + 1) then
          if ct then pg_off_loop offset endp ct it' count' (Some k)
          else Ok ([], Some k, count')
        else pg_off_loop offset endp ct it' count' nk
    end.

  Definition paginate (items : list (key * V)) (req : page_request) : res (list R * page_response) :=
    let offset := pr_offset req in
    let okey := pr_key req in
    if (0 <? offset) && (match okey with Some _ => true | None => false end) then Err
    else
      let '(limit, ct) := if pr_limit req =? 0 then (default_limit, true)
                          else (pr_limit req, pr_count_total req) in
      match okey with
      | Some (b :: kt) =>
          let! it := iter_from items (Some (b :: kt)) (pr_reverse req) in
          let! '(page, nk) := pg_key_loop limit it 0 in
          Ok (page, mk_resp nk 0)
      | _ =>
          let! it := iter_from items None (pr_reverse req) in
          let endp := wrap (offset + limit) in
          let! '(page, nk, n) := pg_off_loop offset endp ct it 0 None in
          Ok (page, mk_resp nk (if ct then n else 0))
      end.
End Paginate.

(* -------------------------------------------------------- FilteredPaginate *)

(* [onResult key value accumulate] of FilteredPaginate returns (hit, err) and may append to the
   handler's result slice: modelled as returning the hit flag and the element appended, if any. *)
Definition fcallback (V R : Type) := key -> V -> bool -> res (bool * option R).

Section Filtered.
  Context {V R : Type} (cb : fcallback V R).

  (* key mode: if numHits == limit {nextKey = Key; break}; hit := onResult(k, v, true); if hit numHits++ *)
  Fixpoint fp_key_loop (limit : N) (it : list (key * V)) (hits : N) : res (list R * option key) :=
    match it with
    | [] => Ok ([], None)
    | (k, v) :: it' =>
        if hits =? limit then Ok ([], Some k)
        else
          let! '(hit, out) := cb k v true in
          let hits' := if hit : bool then wrap (hits + 1) else hits in
          let! '(page, nk) := fp_key_loop limit it' hits' in
          Ok (opt_list out ++ page, nk)
    end.

  (* offset mode: accumulate := numHits >= offset && numHits < end; hit := onResult(k, v, accumulate);
     if hit numHits++; if numHits == end+1 { if nextKey == nil {nextKey = Key}; if !countTotal break } *)
  Fixpoint fp_off_loop (offset endp : N) (ct : bool) (it : list (key * V)) (hits : N) (nk : option key)
    : res (list R * option key * N) :=
    match it with
    | [] => Ok ([], nk, hits)
    | (k, v) :: it' =>
        let accumulate := (offset <=? hits) && (hits <? endp) in
        let! '(hit, out) := cb k v accumulate in
        let hits' := if hit : bool then wrap (hits + 1) else hits in
        if hits' =? wrap (endp + 1) then
          let nk' := match nk with None => Some k | Some _ => nk end in
          if ct then
            let! '(page, nk'', n) := fp_off_loop offset endp ct it' hits' nk' in
            Ok (opt_list out ++ page, nk'', n)
          else Ok (opt_list out, nk', hits')
        else
          let! '(page, nk'', n) := fp_off_loop offset endp ct it' hits' nk in
          Ok (opt_list out ++ page, nk'', n)
    end.

  Definition filtered_paginate (items : list (key * V)) (req : page_request)
    : res (list R * page_response) :=
    let offset := pr_offset req in
    let okey := pr_key req in
    if (0 <? offset) && (match okey with Some _ => true | None => false end) then Err
    else
      let '(limit, ct) := if pr_limit req =? 0 then (default_limit, true)
                          else (pr_limit req, pr_count_total req) in
      match okey with
      | Some (b :: kt) =>
          let! it := iter_from items (Some (b :: kt)) (pr_reverse req) in
          let! '(page, nk) := fp_key_loop limit it 0 in
          Ok (page, mk_resp nk 0)
      | _ =>
          let! it := iter_from items None (pr_reverse req) in
          let endp := wrap (offset + limit) in
          let! '(page, nk, n) := fp_off_loop offset endp ct it 0 None in
          Ok (page, mk_resp nk (if ct then n else 0))
      end.
End Filtered.

(* ------------------------------------------------------ callbacks of the hub *)

(* The two callback shapes of the hub's handlers, for a filter [h] (the status test, or "always")
   and a result constructor [f] (unmarshal the value / look the record up by the key). *)

(* current shape: the hit is decided first; the element is appended only when accumulate is set *)
Definition good_cb {V R} (h : key -> V -> bool) (f : key -> V -> R) : fcallback V R :=
  fun k v acc => Ok (h k v, if acc && h k v then Some (f k v) else None).

(* the shape before commit 629f405 ("if !accumulate { return false, nil }" at the top) *)
Definition defect_cb {V R} (h : key -> V -> bool) (f : key -> V -> R) : fcallback V R :=
  fun k v acc => if acc : bool then Ok (h k v, if h k v then Some (f k v) else None)
                 else Ok (false, None).

Definition total_cb {V R} (f : key -> V -> R) : callback V R := fun k v => Ok (f k v).

(* ------------------------------------------------------------------ clients *)

(* A client that follows next_key until it is empty (at most [fuel] requests). *)
Fixpoint follow_keys {R} (fuel : nat) (q : page_request -> res (list R * page_response))
    (req : page_request) : option (list (list R)) :=
  match fuel with
  | O => None
  | S n =>
      match q req with
      | Ok (page, resp) =>
          match next_key resp with
          | None | Some [] => Some [page]
          | Some k => option_map (cons page) (follow_keys n q (req <| pr_key := Some k |>))
          end
      | _ => None
      end
  end.

(* A client that steps the offset by the limit until a page comes back with fewer than [limit]
   elements (an empty page included). *)
Fixpoint step_offsets {R} (fuel : nat) (q : page_request -> res (list R * page_response))
    (req : page_request) (lim : N) (off : N) : option (list (list R)) :=
  match fuel with
  | O => None
  | S n =>
      match q (req <| pr_offset := off |>) with
      | Ok (page, _) =>
          if N.of_nat (length page) <? lim then Some [page]
          else option_map (cons page) (step_offsets n q req lim (off + lim))
      | _ => None
      end
  end.

(* A client that steps the offset by the limit until no next_key comes back. *)
Fixpoint step_offsets_nk {R} (fuel : nat) (q : page_request -> res (list R * page_response))
    (req : page_request) (lim : N) (off : N) : option (list (list R)) :=
  match fuel with
  | O => None
  | S n =>
      match q (req <| pr_offset := off |>) with
      | Ok (page, resp) =>
          match next_key resp with
          | None | Some [] => Some [page]
          | Some _ => option_map (cons page) (step_offsets_nk n q req lim (off + lim))
          end
      | _ => None
      end
  end.

Definition eff_limit (l : N) : N := if l =? 0 then default_limit else l.

(* ---------------------------------------- rows generated by translator/queries2coq *)

Inductive paginator := UsesPaginate | UsesFilteredPaginate.

Record query_shape := mk_shape {
  qs_module : string;
  qs_handler : string;
  qs_paginator : paginator;
  qs_prefix : string;                      (* store-prefix constructor expression(s), as source text *)
  qs_hit_depends_on_accumulate : bool;     (* the hit result is decided under a condition mentioning accumulate *)
  qs_appends_unguarded : bool              (* FilteredPaginate only: an append to the result not under "if accumulate" *)
}.

(* The model of a list handler with a given shape, for the handler's filter [h] and constructor [f]. *)
Definition shape_cb {V R} (s : query_shape) (h : key -> V -> bool) (f : key -> V -> R) : fcallback V R :=
  if qs_hit_depends_on_accumulate s then defect_cb h f else good_cb h f.

Definition run_query {V R} (s : query_shape) (h : key -> V -> bool) (f : key -> V -> R)
    (items : list (key * V)) (req : page_request) : res (list R * page_response) :=
  match qs_paginator s with
  | UsesPaginate => paginate (total_cb f) items req
  | UsesFilteredPaginate => filtered_paginate (shape_cb s h f) items req
  end.

(* what the handler lists: all entries for Paginate, the entries passing the filter otherwise *)
Definition matching {V} (s : query_shape) (h : key -> V -> bool) (items : list (key * V)) : list (key * V) :=
  match qs_paginator s with
  | UsesPaginate => items
  | UsesFilteredPaginate => List.filter (fun kv => h (fst kv) (snd kv)) items
  end.
