(* Plain-list views of the state for the model runner's printer (no logic). *)
From Hub Require Import Base.Prelude Base.Arith Model.Types Model.Keeper Model.Handlers Model.Hooks Model.Step.

Definition d_bank (s : state) : list (addr * list coin) := map (fun kv => (kv.1, coins_list kv.2)) (map_to_list (bank s)).
Definition d_supply (s : state) : list coin := coins_list (supply s).
Definition d_deposits (s : state) : list (addr * list coin) := map (fun kv => (kv.1, coins_list kv.2)) (map_to_list (deposits s)).
Definition d_prov_act (s : state) : list (addr * provider) := map_to_list (prov_act s).
Definition d_prov_inact (s : state) : list (addr * provider) := map_to_list (prov_inact s).
Definition d_node_act (s : state) : list (addr * node) := map_to_list (node_act s).
Definition d_node_inact (s : state) : list (addr * node) := map_to_list (node_inact s).
Definition d_plan_act (s : state) : list (Z * plan) := map_to_list (plan_act s).
Definition d_plan_inact (s : state) : list (Z * plan) := map_to_list (plan_inact s).
Definition d_subs (s : state) : list (Z * subscription) := map_to_list (subs s).
Definition d_allocs (s : state) : list ((Z * addr) * allocation) := map_to_list (allocs s).
Definition d_payouts (s : state) : list (Z * payout) := map_to_list (payouts s).
Definition d_sessions (s : state) : list (Z * session) := map_to_list (sessions s).
Definition d_swaps (s : state) : list (list N * swap) := map_to_list (swaps s).
Definition d_inflations (s : state) : list (time * inflation) := map_to_list (inflations s).
Definition d_node_q (s : state) := elements (node_q s).
Definition d_node_plan (s : state) := elements (node_plan s).
Definition d_plan_prov (s : state) := elements (plan_prov s).
Definition d_sub_q (s : state) := elements (sub_q s).
Definition d_sub_acc (s : state) := elements (sub_acc s).
Definition d_sub_node (s : state) := elements (sub_node s).
Definition d_sub_plan (s : state) := elements (sub_plan s).
Definition d_pay_q (s : state) := elements (pay_q s).
Definition d_pay_acc (s : state) := elements (pay_acc s).
Definition d_pay_node (s : state) := elements (pay_node s).
Definition d_pay_acc_node (s : state) := elements (pay_acc_node s).
Definition d_sess_q (s : state) := elements (sess_q s).
Definition d_sess_acc (s : state) := elements (sess_acc s).
Definition d_sess_node (s : state) := elements (sess_node s).
Definition d_sess_sub (s : state) := elements (sess_sub s).
Definition d_sess_alloc (s : state) := elements (sess_alloc s).
Definition d_coins (c : coins) : list coin := coins_list c.
