(* Block hooks: custommint.BeginBlock, vpn.BeginBlock (subscription payouts),
   vpn.EndBlock = node; session; subscription.  After x/mint/abci.go,
   x/vpn/abci.go, x/{node,session,subscription}/keeper/abci.go and
   x/subscription/keeper/hooks.go.  Every iteration runs over a snapshot of the
   index taken when the iterator is opened (cachekv semantics) while look-ups
   read the current state; every Go panic site is an explicit [Panic]. *)
From Hub Require Import Base.Prelude Base.Arith Model.Types Model.Keeper Model.Handlers.

(** * custommint.BeginBlock *)

Definition mint_params_valid (mx mn rc : Z) : bool :=
  (0 <=? rc) && (rc <=? P18) && (0 <=? mx) && (mx <=? P18) && (0 <=? mn) && (mn <=? P18) && (mn <=? mx).

Definition mint_apply (s : state) (it : inflation) : state :=
  s <| mint_max := inf_max it |> <| mint_min := inf_min it |> <| mint_rate := inf_rate it |>
    <| mint_inflation := inf_min it |>
    <| inflations ::= fun m => delete (inf_ts it) m |>.

(* the callback returns true (stop) at the first entry in the future *)
Fixpoint mint_loop (l : list inflation) (s : state) : res state :=
  match l with
  | [] => Ok s
  | it :: l' =>
      if now s <? inf_ts it then Ok s
      else
        let! _ := assertp (mint_params_valid (inf_max it) (inf_min it) (inf_rate it)) in
        mint_loop l' (mint_apply s it)
  end.

Definition mint_items (s : state) : list inflation :=
  map snd (sort_by (fun x y => Z.compare x.1 y.1) (map_to_list (inflations s))).

Definition mint_begin_block (s : state) : res state := mint_loop (mint_items s) s.

(** * subscription.BeginBlock: hourly payouts *)

Definition payout_step (s : state) (e : time * Z) : res state :=
  match payouts s !! e.2 with
  | None => Panic
  | Some po =>
      let s1 := s <| pay_q ::= fun q => q ∖ {[ (po_next_at po, po_id po) ]} |> in
      let! reward := must (proportion (po_price po).2 (p_node_share (pars s1))) in
      let d := (po_price po).1 in
      let! s2 := must (z_dep_to_module s1 (po_addr po) (c_feecoll (cfg s1)) (d, reward)) in
      let! payment := must (coin_sub (po_price po) reward) in
      let! s3 := must (z_dep_to_account s2 (po_addr po) (po_node po) payment) in
      let s4 := emit (ev "subscription.EventPayForPayout" [VT (canon RAcc (po_addr po)); VT (canon RNode (po_node po)); VC [payment]; VC [(d, reward)]; VZ (po_id po)]) s3 in
      let h := po_hours po - 1 in
      let nx := if h =? 0 then tzero else po_next_at po + HOUR in
      let po' := po <| po_hours := h |> <| po_next_at := nx |> in
      let s5 := s4 <| payouts ::= fun m => <[po_id po := po']> m |> in
      Ok (if 0 <? h then s5 <| pay_q ::= fun q => q ∪ {[ (nx, po_id po) ]} |> else s5)
  end.

Definition sub_begin_block (s : state) : res state := rfold payout_step (due_z (pay_q s) (now s)) s.

(** * node.EndBlock *)

Definition clamp_max (prices bound : coins) : coins :=
  fold_left (fun p '(d, a) => if a <? amount_of p d then coins_set p d a else p) (coins_list bound) prices.
Definition clamp_min (prices bound : coins) : coins :=
  fold_left (fun p '(d, a) => if amount_of p d <? a then coins_set p d a else p) (coins_list bound) prices.

Definition node_sweep_one (s : state) (n : node) : res state :=
  let f := modified s in
  let gb1 := if m_max_gb f then clamp_max (nd_gb_prices n) (p_max_gb (pars s)) else nd_gb_prices n in
  let gb2 := if m_min_gb f then clamp_min gb1 (p_min_gb (pars s)) else gb1 in
  let hr1 := if m_max_hr f then clamp_max (nd_hr_prices n) (p_max_hr (pars s)) else nd_hr_prices n in
  let hr2 := if m_min_hr f then clamp_min hr1 (p_min_hr (pars s)) else hr1 in
  let n' := n <| nd_gb_prices := gb2 |> <| nd_hr_prices := hr2 |> in
  let! s1 := must (set_node s n') in
  Ok (emit (ev "node.EventUpdateDetails" [VT (canon RNode (nd_addr n)); VC (coins_list gb2); VC (coins_list hr2)]) s1).

Definition node_expire_one (s : state) (e : time * addr) : res state :=
  match get_node s e.2 with
  | None => Panic
  | Some n =>
      let a := nd_addr n in
      let s1 := s <| node_act ::= fun m => delete a m |>
                  <| node_q ::= fun q => q ∖ {[ (nd_inactive_at n, a) ]} |> in
      let n' := n <| nd_inactive_at := tzero |> <| nd_status := SInactive |> <| nd_status_at := now s |> in
      let! s2 := must (set_node s1 n') in
      Ok (emit (ev "node.EventUpdateStatus" [VS SInactive; VT (canon RNode a)]) s2)
  end.

Definition node_end_block (s : state) : res state :=
  let f := modified s in
  let! s1 := (if m_max_gb f || m_min_gb f || m_max_hr f || m_min_hr f
              then rfold node_sweep_one (all_nodes s) s else Ok s) in
  rfold node_expire_one (due_a (node_q s1) (now s1)) s1.

(** * subscription hook called by session.EndBlock: SessionInactiveHook *)

Definition session_inactive_hook (s : state) (sid : Z) (acc nd : addr) (bytes : Z) : res state :=
  match sessions s !! sid with
  | None => Err
  | Some x =>
      let! _ := ensure (bool_decide (ss_status x = SPending)) in
      match subs s !! ss_sub x with
      | None => Err
      | Some sb =>
          let hourly := match sb_kind sb with KNode _ _ h _ => negb (h =? 0) | KPlan _ _ => false end in
          if hourly then Ok s
          else
            match allocs s !! (sb_id sb, acc) with
            | None => Err
            | Some al =>
                let metered := match sb_kind sb with KNode _ g _ dep => if g =? 0 then None else Some (g, dep) | KPlan _ _ => None end in
                let! '(price, previous) :=
                  match metered with
                  | Some (g, dep) =>
                      let! pr := int_quo dep.2 g in
                      let! pc := new_coin dep.1 pr in
                      let! prev := amount_for_bytes pr (al_used al) in
                      Ok (pc, prev)
                  | None => Ok ((0%N, 0), 0)
                  end in
                let! remaining := int_sub (al_granted al) (al_used al) in
                let! used' := (if remaining <? bytes then Ok (al_granted al) else int_add (al_used al) bytes) in
                let al' := al <| al_used := used' |> in
                let s1 := emit (ev "subscription.EventAllocate" [VT (canon RAcc (al_addr al)); VZ (al_granted al); VZ used'; VZ (al_id al)])
                            (s <| allocs ::= fun m => <[(al_id al, al_addr al) := al']> m |>) in
                match metered with
                | Some _ =>
                    let! current := amount_for_bytes price.2 used' in
                    let! diff := int_sub current previous in
                    let! pay := new_coin price.1 diff in
                    let! reward := proportion pay.2 (p_node_share (pars s1)) in
                    let! s2 := z_dep_to_module s1 acc (c_feecoll (cfg s1)) (price.1, reward) in
                    let! payment := coin_sub pay reward in
                    let! s3 := z_dep_to_account s2 acc nd payment in
                    Ok (emit (ev "subscription.EventPayForSession" [VT (canon RAcc (ss_addr x)); VT (canon RNode (ss_node x)); VC [payment];
                               VC [(price.1, reward)]; VZ (ss_id x); VZ (ss_sub x)]) s3)
                | None => Ok s1
                end
            end
      end
  end.

(** * session.EndBlock *)

Definition session_expire_one (s : state) (e : time * Z) : res state :=
  match sessions s !! e.2 with
  | None => Panic
  | Some x =>
      let s0 := s <| sess_q ::= fun q => q ∖ {[ (ss_inactive_at x, ss_id x) ]} |> in
      if bool_decide (ss_status x = SActive) then
        let t := now s + p_sess_delay (pars s) in
        let x' := x <| ss_inactive_at := t |> <| ss_status := SPending |> <| ss_status_at := now s |> in
        Ok (emit (ev "session.EventUpdateStatus" [VS SPending; VT (canon RAcc (ss_addr x)); VT (canon RNode (ss_node x)); VZ (ss_id x); VZ (ss_sub x)])
              (s0 <| sessions ::= fun m => <[ss_id x := x']> m |>
                  <| sess_q ::= fun q => q ∪ {[ (t, ss_id x) ]} |>))
      else
        let! total := int_add (ss_up x) (ss_down x) in            (* Bandwidth.Sum() *)
        let! s1 := must (session_inactive_hook s0 (ss_id x) (ss_addr x) (ss_node x) total) in
        Ok (emit (ev "session.EventUpdateStatus" [VS SInactive; VT (canon RAcc (ss_addr x)); VT (canon RNode (ss_node x)); VZ (ss_id x); VZ (ss_sub x)])
              (s1 <| sessions ::= fun m => delete (ss_id x) m |>
                  <| sess_acc ::= fun i => i ∖ {[ (ss_addr x, ss_id x) ]} |>
                  <| sess_node ::= fun i => i ∖ {[ (ss_node x, ss_id x) ]} |>
                  <| sess_sub ::= fun i => i ∖ {[ (ss_sub x, ss_id x) ]} |>
                  <| sess_alloc ::= fun i => i ∖ {[ (ss_sub x, ss_addr x, ss_id x) ]} |>))
  end.

Definition session_end_block (s : state) : res state := rfold session_expire_one (due_z (sess_q s) (now s)) s.

(** * subscription.EndBlock *)

Definition sub_refund (s : state) (sb : subscription) : res state :=
  match sb_kind sb with
  | KPlan _ _ => Ok s
  | KNode nd g h dep =>
      let! s1 :=
        (if negb (g =? 0) then
           let! pr := int_quo dep.2 g in
           let! _ := new_coin dep.1 pr in
           match allocs s !! (sb_id sb, sb_addr sb) with
           | None => Panic
           | Some al =>
               let! paid := amount_for_bytes pr (al_used al) in
               let! r := int_sub dep.2 paid in
               let! refund := new_coin dep.1 r in
               let! s' := must (if refund.2 =? 0 then Ok s else dep_to_account s (sb_addr sb) (sb_addr sb) refund.1 refund.2) in
               Ok (emit (ev "subscription.EventRefund" [VT (canon RAcc (sb_addr sb)); VC [refund]; VZ (sb_id sb)]) s')
           end
         else Ok s) in
      if negb (h =? 0) then
        match payouts s1 !! sb_id sb with
        | None => Panic
        | Some po =>
            let! r := int_mul (po_price po).2 (po_hours po) in
            let! refund := new_coin (po_price po).1 r in
            let! s' := must (if refund.2 =? 0 then Ok s1 else dep_to_account s1 (po_addr po) (po_addr po) refund.1 refund.2) in
            Ok (emit (ev "subscription.EventRefund" [VT (canon RAcc (sb_addr sb)); VC [refund]; VZ (sb_id sb)]) s')
        end
      else Ok s1
  end.

Definition sub_cleanup (s : state) (sb : subscription) : state :=
  match sb_kind sb with
  | KNode nd _ _ _ =>
      s <| sub_node ::= fun i => i ∖ {[ (nd, sb_id sb) ]} |>
        <| allocs ::= fun m => delete (sb_id sb, sb_addr sb) m |>
        <| sub_acc ::= fun i => i ∖ {[ (sb_addr sb, sb_id sb) ]} |>
  | KPlan pid _ =>
      fold_left (fun s al =>
                   s <| allocs ::= fun m => delete (sb_id sb, al_addr al) m |>
                     <| sub_acc ::= fun i => i ∖ {[ (al_addr al, sb_id sb) ]} |>)
                (allocs_for s (sb_id sb))
                (s <| sub_plan ::= fun i => i ∖ {[ (pid, sb_id sb) ]} |>)
  end.

Definition sub_delete_payout (s : state) (sb : subscription) : res state :=
  match sb_kind sb with
  | KNode _ _ h _ =>
      if h =? 0 then Ok s
      else match payouts s !! sb_id sb with
           | None => Panic
           | Some po =>
               Ok (s <| payouts ::= fun m => delete (po_id po) m |>
                     <| pay_acc ::= fun i => i ∖ {[ (po_addr po, po_id po) ]} |>
                     <| pay_node ::= fun i => i ∖ {[ (po_node po, po_id po) ]} |>)
           end
  | KPlan _ _ => Ok s
  end.

Definition sub_expire_one (s : state) (e : time * Z) : res state :=
  match subs s !! e.2 with
  | None => Panic
  | Some sb =>
      let s0 := s <| sub_q ::= fun q => q ∖ {[ (sb_inactive_at sb, sb_id sb) ]} |> in
      if bool_decide (sb_status sb = SActive) then
        let! s1 := must (sub_pending_hook s0 (sb_id sb)) in
        let s2 := sub_make_pending s1 sb in
        detach_payout s2 sb Panic
      else
        let! s1 := sub_refund s0 sb in
        let s2 := sub_cleanup s1 sb in
        let s3 := emit (ev "subscription.EventUpdateStatus" [VS SInactive; VT (canon RAcc (sb_addr sb)); VZ (sb_id sb)])
                    (s2 <| subs ::= fun m => delete (sb_id sb) m |>) in
        sub_delete_payout s3 sb
  end.

Definition sub_end_block (s : state) : res state := rfold sub_expire_one (due_z (sub_q s) (now s)) s.

(** * vpn.BeginBlock / vpn.EndBlock *)

Definition begin_block (s : state) : res state :=
  let! s1 := mint_begin_block s in
  sub_begin_block s1.

Definition end_block (s : state) : res state :=
  let! s1 := node_end_block s in
  let! s2 := session_end_block s1 in
  sub_end_block s2.
