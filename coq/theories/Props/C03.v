(* C03 — Block processing never halts: begin/end-of-block hooks cannot panic.
   Statements only; proofs are in Proofs/Total.v (each panic site excluded by the invariants),
   Proofs/Range.v (value ranges and recipients), Proofs/TotalClosed.v (induction over histories).
   [hook_inv] = life_inv (all index invariants, parameters, session/subscription link)
              /\ quota_inv /\ ledger_inv /\ money_inv /\ range_inv;
   [wf_op_c03], [wf_genesis_c03] (Proofs/RangeDefs.v) spell out the configuration domain of DESIGN §5. *)
From Hub Require Import Base.Prelude Base.Arith Model.Types Model.Keeper Model.Handlers Model.Hooks Model.Step.
From Hub Require Import Proofs.Tactics Proofs.Frames Proofs.Money Proofs.KeysInv Proofs.Quota Proofs.InvDefs Proofs.Link
  Proofs.Ledger3 Proofs.RangeDefs Proofs.Range Proofs.Total Proofs.TotalClosed Proofs.Witness.
From Hub Require Import Gen.Wiring Proofs.WiringThm Gen.ParamRules Proofs.ParamRulesThm.

(* From every genesis of the configuration domain (valid parameter sets with session delay <=
   subscription delay, validated inflation schedule, module accounts set up as the app does), every
   finite history of blocks with strictly increasing times (any gaps), any transactions in them --
   valid or not, authorised or not, with any numbers stateless validation accepts -- and governance
   changes inside DESIGN §5.3, runs to its end: no begin-of-block or end-of-block step panics.
   [run] returns [RunHalt] exactly when a block hook panics. *)
Theorem C03_chain_never_halts : forall g ops,
  wf_genesis_c03 g -> wf_hist wf_op_c03 (init g) ops -> exists s', run (init g) ops = RunOk s' /\ hook_inv s'.
Proof. exact chain_never_halts. Qed.

(* the same from any state satisfying the invariant (DESIGN §5.2: a consistent imported state) *)
Theorem C03_run_never_halts : forall ops s i,
  hook_inv s -> wf_hist wf_op_c03 s ops -> exists s', run_from s ops i = RunOk s' /\ hook_inv s'.
Proof. exact run_never_halts. Qed.

(* one step: no operation of the domain yields [OHalt] *)
Theorem C03_step_never_halts : forall s o, hook_inv s -> wf_op_c03 s o -> step s o <> OHalt.
Proof. exact step_never_halts. Qed.

(* the two block hooks complete in every state satisfying the invariant, whatever the time gap *)
Theorem C03_begin_block_never_panics : forall s t,
  hook_inv s -> now s < t -> exists s', begin_block (clear_events s <| now := t |>) = Ok s' /\ hook_inv s'.
Proof. exact begin_block_never_panics. Qed.

Theorem C03_end_block_never_panics : forall s,
  hook_inv s -> exists s', end_block (clear_events s) = Ok s' /\ hook_inv s' /\ now s' = now s.
Proof. exact end_block_never_panics. Qed.

(* every single iteration of the three queue loops: a queued entry always resolves to its record,
   every transfer is covered by the escrow, every checked 256/315-bit operation is in range *)
Theorem C03_payout_never_panics : forall s e, hook_inv s -> e ∈ pay_q s -> exists s', payout_step s e = Ok s'.
Proof. exact payout_never_panics. Qed.
Theorem C03_session_expiry_never_panics : forall s e, hook_inv s -> e ∈ sess_q s -> exists s', session_expire_one s e = Ok s'.
Proof. exact session_expiry_never_panics. Qed.
Theorem C03_subscription_expiry_never_panics : forall s e, hook_inv s -> e ∈ sub_q s -> exists s', sub_expire_one s e = Ok s'.
Proof. exact subscription_expiry_never_panics. Qed.

(* the invariant is inductive and holds at genesis *)
Theorem C03_invariant_inductive : forall s o s', hook_inv s -> wf_op_c03 s o -> step s o = OOk s' -> hook_inv s'.
Proof. exact hook_inv_step. Qed.
Theorem C03_invariant_genesis : forall g, wf_genesis_c03 g -> hook_inv (init g).
Proof. exact hook_inv_init. Qed.

(** * the domain boundary (DESIGN §5.3, observation O2): if governance lowers the subscription delay
      below the remaining pending time of a live pending session, the chain DOES halt.  The premise
      [wf_op_life] of the theorem above is therefore necessary, and the checker rejects this history. *)
Definition c03_o2_ops : list op :=
  let acc9 := canon RAcc [9%N] in
  let acc5 := canon RAcc [5%N] in
  let node5 := canon RNode [5%N] in
  [OBegin 1000;
   OTx (MNodeRegister acc5 (Some [(1%N, 700)]) (Some [(1%N, 11)]) "u" true);
   OTx (MNodeUpdateStatus node5 SActive);
   OTx (MNodeSubscribe acc9 node5 2 0 1%N);
   OEnd;
   OBegin 2000;
   OTx (MSessStart acc9 1 node5);
   OTx (MSessEnd acc9 1 0);                      (* session 1 pending until 2000 + 120 *)
   OGov [PCSessDelay 5; PCSubDelay 10];          (* both delays lowered, 5 <= 10 *)
   OEnd;
   OBegin 2001;
   OTx (MSubCancel acc9 1);                      (* subscription 1 pending until 2011 only *)
   OEnd;
   OBegin 2050; OEnd;                            (* subscription 1 removed and refunded; session 1 still pending *)
   OBegin 2200; OEnd].                           (* settlement of session 1: its subscription is gone *)

Theorem C03_domain_boundary_witness :
  (match run (init ledger_ex_genesis) c03_o2_ops with RunHalt _ i => i = 16%nat | RunOk _ => False end) /\
  wf_hist_b (init ledger_ex_genesis) c03_o2_ops = false /\
  wf_hist_b (init ledger_ex_genesis) (take 8 c03_o2_ops) = true.
Proof. vm_compute. repeat split; reflexivity. Qed.

(** * non-vacuity: a history inside the domain in which the hooks do real work *)

#[export] Instance eta_genesis : Settable _ := settable! Build_genesis <g_cfg; g_balances; g_params; g_inflations; g_mint; g_time>.

Definition c03_genesis : genesis :=
  wt_genesis <| g_inflations := [ {| inf_max := 2 * 10 ^ 17; inf_min := 10 ^ 17; inf_rate := 10 ^ 17; inf_ts := 1500 |};
                                   {| inf_max := 3 * 10 ^ 17; inf_min := 10 ^ 17; inf_rate := 10 ^ 17; inf_ts := 1700 |};
                                   {| inf_max := 10 ^ 18; inf_min := 0; inf_rate := 10 ^ 18; inf_ts := 1000 + 2 * HOUR |} ] |>.

Definition c03_ops : list op :=
  wt_ops1 ++ wt_ops2 ++
  [ OBegin (1000 + HOUR);                                        (* two hourly payouts due, two inflation entries already applied *)
    OTx (MSessUpdate wt_node 2 (2 ^ 255) (2 ^ 255 - 1) 1 None true);  (* the largest report stateless validation accepts *)
    OGov [PCMaxGb [(1%N, 4)]; PCSubDelay 300];                   (* bounds tightened below the node's price: sweep *)
    OEnd;
    OBegin (1000 + 3 * HOUR);                                    (* multi-hour stall: payouts, lease, sessions, subscriptions all due *)
    OTx (MSubCancel wt_acc 4);
    OEnd;
    OBegin (1000 + 200 * HOUR); OEnd;
    OBegin (1000 + 2200 * HOUR); OEnd;                           (* 90 days later: the per-gigabyte subscription expires ... *)
    OBegin (1000 + 2201 * HOUR); OEnd ].                         (* ... and is refunded and removed *)

Example C03_nonvacuous :
  wf_genesis_c03 c03_genesis /\
  wf_hist_b (init c03_genesis) c03_ops = true /\
  match run (init c03_genesis) c03_ops with
  | RunOk s => sess_count s = 2 /\ sub_count s = 4 /\ map_to_list (sessions s) = [] /\ map_to_list (subs s) = [] /\ map_to_list (deposits s) = [] /\ map_to_list (inflations s) = []
  | RunHalt _ _ => False
  end.
Proof.
  split; [|vm_compute; repeat split; reflexivity].
  split; [split|split].
  - split; vm_compute; try discriminate. apply elem_of_list_here.
  - intros a c Hin. vm_compute in Hin. vm_compute. intros ->.
    repeat (apply elem_of_cons in Hin as [Hin|Hin]; [discriminate|]). inversion Hin.
  - apply par_ok_b_sound. vm_compute. reflexivity.
  - intros it Hin. vm_compute in Hin.
    repeat (apply elem_of_cons in Hin as [->|Hin]; [vm_compute; reflexivity|]). inversion Hin.
Qed.

Section wiring.
Local Open Scope string_scope.
(* app wiring (regenerated from app/module.go and x/vpn/abci.go on every run): the hooks the theorems above are about
   are composed in the order the application runs them *)
Theorem C03_end_block_order_is_the_apps : vpn_end_block_calls = ["node.EndBlock"; "session.EndBlock"; "subscription.EndBlock"] /\
  forall s, end_block s = (let! s1 := node_end_block s in let! s2 := session_end_block s1 in sub_end_block s2).
Proof. exact (conj vpn_end_block_is_model model_end_block_order). Qed.
Theorem C03_begin_block_order_is_the_apps : vpn_begin_block_calls = ["subscription.BeginBlock"] /\
  runs_before "customminttypes.ModuleName" "minttypes.ModuleName" begin_blockers /\
  forall s, begin_block s = (let! s1 := mint_begin_block s in sub_begin_block s1).
Proof. exact (conj vpn_begin_block_is_model (conj custommint_before_mint model_begin_block_order)). Qed.
End wiring.

(* THE GOVERNANCE GATE.  A proposal is executed only if every one of its changes passes the per-key
   validator of its parameter (x/*/types/params.go, run by Subspace.Update); a proposal with one failing
   change changes nothing.  An executed proposal keeps every single-parameter condition the block hooks
   rely on (delays and the node lease positive, both staking shares within [0, 1]), so the only thing
   the configuration domain has to ASSUME about governance is the one cross-parameter condition the
   validators cannot see (session delay <= subscription delay) -- see [wf_op_life]. *)
Theorem C03_governance_gate : forall s cs s',
  step s (OGov cs) = OOk s' ->
  forallb pchange_valid cs = true /\ s' = fold_left apply_pchange cs (clear_events s).
Proof. exact step_gov_ok. Qed.

Theorem C03_executed_proposal_keeps_parameters_sane : forall cs s,
  par_ok (pars s) -> forallb pchange_valid cs = true ->
  p_sess_delay (pars (fold_left apply_pchange cs s)) <= p_sub_delay (pars (fold_left apply_pchange cs s)) ->
  par_ok (pars (fold_left apply_pchange cs s)).
Proof. exact gov_par_ok. Qed.

(* ... and that gate IS the source's validators: [param_rules] is regenerated on every run from the ParamSetPairs and
   the validate* functions of x/*/types/params.go (Go type and ordered refuse / accept tests of every parameter);
   [rule_valid] evaluates the regenerated rule of the parameter a change writes on the value it carries. *)
Theorem C03_gate_is_the_source_validators : forall c, pchange_valid c = rule_valid c.
Proof. exact pchange_valid_is_the_regenerated_rule. Qed.
Theorem C03_every_parameter_has_a_source_rule : forall c, is_Some (lookup_rule (pchange_key c)).
Proof. exact every_parameter_has_a_rule. Qed.

(* non-vacuity of the gate: a staking share above 1, a zero delay and a negative deposit are each refused
   (the whole proposal, also its valid first change), a valid proposal is executed *)
Example C03_gate_examples :
  let s := init wt_genesis in
  step s (OGov [PCSessProof true; PCNodeShare (P18 + 1)]) = ORejected /\
  step s (OGov [PCSubDelay 0]) = ORejected /\
  step s (OGov [PCProvDeposit (1%N, -1)]) = ORejected /\
  (exists s', step s (OGov [PCNodeShare P18; PCSubDelay 7]) = OOk s' /\ p_node_share (pars s') = P18 /\ p_sub_delay (pars s') = 7).
Proof. vm_compute. repeat split. eexists. repeat split. Qed.

(* crossed price bounds (a minimum above the maximum: each per-key validator accepts its half) are inside this theorem's
   domain: the sweep ends with the price at the new minimum and the chain goes on; lowering the minimum again later leaves
   the price above the maximum (only the modified vector is swept), which is why the price statement C11 is made for
   histories that never cross the bounds *)
Example C03_crossed_bounds_do_not_halt :
  match run (init wt_genesis) (wt_ops1 ++ [OBegin 1500; OGov [PCMaxGb [(1%N, 3)]; PCMinGb [(1%N, 9)]]; OEnd;
                                           OBegin 1600; OGov [PCMinGb [(1%N, 1)]]; OEnd]) with
  | RunOk s => map (fun n => coins_list (nd_gb_prices n)) (all_nodes s) = [[(1%N, 9)]] /\
               coins_list (p_max_gb (pars s)) = [(1%N, 3)] /\ coins_list (p_min_gb (pars s)) = [(1%N, 1)]
  | _ => False
  end.
Proof. vm_compute. repeat split. Qed.

Print Assumptions C03_chain_never_halts.
Print Assumptions C03_run_never_halts.
Print Assumptions C03_step_never_halts.
Print Assumptions C03_begin_block_never_panics.
Print Assumptions C03_end_block_never_panics.
Print Assumptions C03_payout_never_panics.
Print Assumptions C03_session_expiry_never_panics.
Print Assumptions C03_subscription_expiry_never_panics.
Print Assumptions C03_invariant_inductive.
Print Assumptions C03_invariant_genesis.
Print Assumptions C03_domain_boundary_witness.
Print Assumptions C03_end_block_order_is_the_apps.
Print Assumptions C03_begin_block_order_is_the_apps.
Print Assumptions C03_governance_gate.
Print Assumptions C03_executed_proposal_keeps_parameters_sane.
Print Assumptions C03_gate_is_the_source_validators.
