(* C17 — Addresses and store keys encode injectively and sort chronologically.
   Statements only; proofs are in Proofs/KeysThm.v (keys, over the definitions generated
   from x/*/types/keys.go in Gen/KeysGen.v), Proofs/TimeThm.v + Proofs/Calendar.v
   (FormatTimeBytes) and Proofs/Bech32Thm.v (address text).

   Domain ([rkey_ok], [listing_ok]): addresses of 1..255 bytes, identifiers below 2^64,
   instants in the years 1..9999 at nanosecond resolution, 32-byte hashes. *)
From Hub Require Import Base.Prelude Base.Bytes Base.Time Base.Bech32 Gen.KeysGen.
From Hub Require Import Proofs.BytesThm Proofs.Calendar Proofs.TimeThm Proofs.KeysThm Proofs.Bech32Checksum Proofs.Bech32Thm.

(* ---- the key of one record is never equal to or a prefix of the key of a different
        record: within a family, across the families of a module, across the modules
        that share the vpn store ---- *)
Theorem C17_key_not_prefix_store : forall k1 k2 : rkey,
  rkey_ok k1 -> rkey_ok k2 -> rk_kv k1 = rk_kv k2 ->
  full_key k1 `prefix_of` full_key k2 -> k1 = k2.
Proof. exact key_not_prefix_store. Qed.

Theorem C17_key_not_prefix_module : forall k1 k2 : rkey,
  rkey_ok k1 -> rkey_ok k2 -> rk_module k1 = rk_module k2 ->
  key_bytes k1 `prefix_of` key_bytes k2 -> k1 = k2.
Proof. exact key_not_prefix_module. Qed.

(* every constructor is injective in all its arguments *)
Theorem C17_key_injective : forall k1 k2 : rkey,
  rkey_ok k1 -> rkey_ok k2 -> rk_module k1 = rk_module k2 -> key_bytes k1 = key_bytes k2 -> k1 = k2.
Proof. exact key_inj. Qed.

Theorem C17_vpn_children_disjoint : forall m1 m2 (x y : bytes),
  module_kv m1 = KVVpn -> module_kv m2 = KVVpn ->
  (module_prefix m1 ++ x) `prefix_of` (module_prefix m2 ++ y) -> m1 = m2.
Proof. exact vpn_children_disjoint. Qed.

(* ---- an owner-scoped (or parent- / deadline-scoped) listing prefix matches only the
        keys of that family with exactly those leading components ---- *)
Theorem C17_prefix_isolates : forall (l : listing) (k : rkey),
  listing_ok l -> rkey_ok k -> fam_module (l_fam l) = rk_module k ->
  (l_bytes l `prefix_of` key_bytes k <-> listed l k).
Proof. exact prefix_isolates. Qed.

Theorem C17_node_umbrella : forall k, rkey_ok k -> rk_module k = MNode ->
  (node_NodeKeyPrefix `prefix_of` key_bytes k <-> rk_fam k = FActiveNode \/ rk_fam k = FInactiveNode).
Proof. exact node_umbrella. Qed.
Theorem C17_plan_umbrella : forall k, rkey_ok k -> rk_module k = MPlan ->
  (plan_PlanKeyPrefix `prefix_of` key_bytes k <-> rk_fam k = FActivePlan \/ rk_fam k = FInactivePlan).
Proof. exact plan_umbrella. Qed.

(* ---- every decoder returns the component the key was built from ---- *)
Theorem C17_decode_node_for_plan : forall p a, addr_ok a ->
  node_AddressFromNodeForPlanKey (node_NodeForPlanKey p a) = Ok a.
Proof. exact dec_node_for_plan. Qed.
Theorem C17_decode_node_for_inactive_at : forall t a, addr_ok a ->
  node_AddressFromNodeForInactiveAtKey (node_NodeForInactiveAtKey t a) = Ok a.
Proof. exact dec_node_for_inactive_at. Qed.
Theorem C17_decode_plan_for_provider : forall a id, addr_ok a -> u64_ok id ->
  plan_IDFromPlanForProviderKey (plan_PlanForProviderKey a id) = Ok id.
Proof. exact dec_plan_for_provider. Qed.
Theorem C17_decode_sess_for_account : forall a id, addr_ok a -> u64_ok id ->
  session_IDFromSessionForAccountKey (session_SessionForAccountKey a id) = Ok id.
Proof. exact dec_sess_for_account. Qed.
Theorem C17_decode_sess_for_node : forall a id, addr_ok a -> u64_ok id ->
  session_IDFromSessionForNodeKey (session_SessionForNodeKey a id) = Ok id.
Proof. exact dec_sess_for_node. Qed.
Theorem C17_decode_sess_for_subscription : forall s id, u64_ok id ->
  session_IDFromSessionForSubscriptionKey (session_SessionForSubscriptionKey s id) = Ok id.
Proof. exact dec_sess_for_subscription. Qed.
Theorem C17_decode_sess_for_allocation : forall s a id, addr_ok a -> u64_ok id ->
  session_IDFromSessionForAllocationKey (session_SessionForAllocationKey s a id) = Ok id.
Proof. exact dec_sess_for_allocation. Qed.
Theorem C17_decode_sess_for_inactive_at : forall t id, u64_ok id ->
  session_IDFromSessionForInactiveAtKey (session_SessionForInactiveAtKey t id) = Ok id.
Proof. exact dec_sess_for_inactive_at. Qed.
Theorem C17_decode_sub_for_account_addr : forall a id, addr_ok a -> u64_ok id ->
  subscription_AccAddrFromSubscriptionForAccountKey (subscription_SubscriptionForAccountKey a id) = Ok a.
Proof. exact dec_sub_for_account_addr. Qed.
Theorem C17_decode_sub_for_account_id : forall a id, addr_ok a -> u64_ok id ->
  subscription_IDFromSubscriptionForAccountKey (subscription_SubscriptionForAccountKey a id) = Ok id.
Proof. exact dec_sub_for_account_id. Qed.
Theorem C17_decode_sub_for_node : forall a id, addr_ok a -> u64_ok id ->
  subscription_IDFromSubscriptionForNodeKey (subscription_SubscriptionForNodeKey a id) = Ok id.
Proof. exact dec_sub_for_node. Qed.
Theorem C17_decode_sub_for_plan : forall p id, u64_ok id ->
  subscription_IDFromSubscriptionForPlanKey (subscription_SubscriptionForPlanKey p id) = Ok id.
Proof. exact dec_sub_for_plan. Qed.
Theorem C17_decode_sub_for_inactive_at : forall t id, u64_ok id ->
  subscription_IDFromSubscriptionForInactiveAtKey (subscription_SubscriptionForInactiveAtKey t id) = Ok id.
Proof. exact dec_sub_for_inactive_at. Qed.
Theorem C17_decode_payout_for_account : forall a id, addr_ok a -> u64_ok id ->
  subscription_IDFromPayoutForAccountKey (subscription_PayoutForAccountKey a id) = Ok id.
Proof. exact dec_payout_for_account. Qed.
Theorem C17_decode_payout_for_node : forall a id, addr_ok a -> u64_ok id ->
  subscription_IDFromPayoutForNodeKey (subscription_PayoutForNodeKey a id) = Ok id.
Proof. exact dec_payout_for_node. Qed.
Theorem C17_decode_payout_for_account_by_node : forall acc node id, addr_ok acc -> addr_ok node -> u64_ok id ->
  subscription_IDFromPayoutForAccountByNodeKey (subscription_PayoutForAccountByNodeKey acc node id) = Ok id.
Proof. exact dec_payout_for_account_by_node. Qed.
Theorem C17_decode_payout_for_next_at : forall t id, u64_ok id ->
  subscription_IDFromPayoutForNextAtKey (subscription_PayoutForNextAtKey t id) = Ok id.
Proof. exact dec_payout_for_next_at. Qed.

(* a decoder returns a value only on a key of exactly the expected length (the address
   length is read from the key); any other key makes it panic *)
Theorem C17_decoders_length_checked : decoders_length_checked.
Proof. exact dec_length_checked. Qed.

(* ---- the time text is fixed-width and ordered like the instants ---- *)
Theorem C17_time_text_order : forall t1 t2, time_ok t1 = true -> time_ok t2 = true ->
  bytes_cmp (fmt_time t1) (fmt_time t2) = Z.compare t1 t2.
Proof. exact fmt_time_cmp. Qed.

Theorem C17_time_text_width : forall t, length (fmt_time t) = 29%nat.
Proof. exact fmt_time_length. Qed.

(* ---- deadline-queue keys sort by timestamp, then identifier (node queue: then
        length-prefixed address) ---- *)
Theorem C17_sub_inactive_queue_order : forall t1 id1 t2 id2,
  time_ok t1 = true -> time_ok t2 = true -> u64_ok id1 -> u64_ok id2 ->
  (bytes_lt (subscription_SubscriptionForInactiveAtKey t1 id1) (subscription_SubscriptionForInactiveAtKey t2 id2)
   <-> t1 < t2 \/ (t1 = t2 /\ (id1 < id2)%N)).
Proof. exact sub_inactive_queue_order. Qed.
Theorem C17_payout_queue_order : forall t1 id1 t2 id2,
  time_ok t1 = true -> time_ok t2 = true -> u64_ok id1 -> u64_ok id2 ->
  (bytes_lt (subscription_PayoutForNextAtKey t1 id1) (subscription_PayoutForNextAtKey t2 id2)
   <-> t1 < t2 \/ (t1 = t2 /\ (id1 < id2)%N)).
Proof. exact payout_queue_order. Qed.
Theorem C17_session_queue_order : forall t1 id1 t2 id2,
  time_ok t1 = true -> time_ok t2 = true -> u64_ok id1 -> u64_ok id2 ->
  (bytes_lt (session_SessionForInactiveAtKey t1 id1) (session_SessionForInactiveAtKey t2 id2)
   <-> t1 < t2 \/ (t1 = t2 /\ (id1 < id2)%N)).
Proof. exact session_queue_order. Qed.
Theorem C17_node_queue_order : forall t1 a1 t2 a2,
  time_ok t1 = true -> time_ok t2 = true -> addr_ok a1 -> addr_ok a2 ->
  (bytes_lt (node_NodeForInactiveAtKey t1 a1) (node_NodeForInactiveAtKey t2 a2)
   <-> t1 < t2 \/ (t1 = t2 /\ bytes_lt (len_prefix a1) (len_prefix a2))).
Proof. exact node_queue_order. Qed.
Theorem C17_inflation_queue_order : forall t1 t2, time_ok t1 = true -> time_ok t2 = true ->
  (bytes_lt (mint_InflationKey t1) (mint_InflationKey t2) <-> t1 < t2).
Proof. exact inflation_queue_order. Qed.

(* ---- addresses: text and back, for every length 1..255 and every role; the
        human-readable parts are the constants read from /repo/types/address.go ---- *)
Theorem C17_addr_roundtrip : forall (r : arole) (a : bytes),
  (1 <= length a <= 255)%nat /\ bytes_ok a = true ->
  exists s, addr_to_text hrp_of r a = Some s /\ addr_from_text hrp_of r s = Some a.
Proof. exact addr_roundtrip. Qed.

Theorem C17_role_separation : forall (r r' : arole) (a s : bytes), r <> r' ->
  (1 <= length a <= 255)%nat /\ bytes_ok a = true ->
  addr_to_text hrp_of r a = Some s -> addr_from_text hrp_of r' s = None.
Proof. exact role_separation. Qed.

(* the checksum Encode appends always verifies (any human-readable part, any data) *)
Theorem C17_checksum_verifies : forall hrp data, polymod hrp data (checksum hrp data) = 1%N.
Proof. exact checksum_verifies. Qed.

(* ---- non-vacuity ---- *)
Definition ex_addr20 : bytes := repeat 7%N 20.
Example C17_ex_key : key_bytes (RSubForAccount ex_addr20 258) =
  [18%N; 20%N] ++ ex_addr20 ++ [0; 0; 0; 0; 0; 0; 1; 2]%N.
Proof. vm_compute. reflexivity. Qed.
Example C17_ex_ok : rkey_ok (RSubForAccount ex_addr20 258) /\ rkey_ok (RNodeForInactiveAt 1700000000123456789 [1%N]).
Proof. split; repeat constructor; vm_compute; try reflexivity; intros; discriminate. Qed.
(* addresses in prefix relation: the shorter owner's listing prefix does not match the longer owner's key *)
Example C17_ex_prefix_pair :
  ~ l_bytes (LSubForAccount [1; 2]%N) `prefix_of` key_bytes (RSubForAccount [1; 2; 3]%N 5).
Proof. rewrite <- is_prefixb_spec. vm_compute. discriminate. Qed.
(* one nanosecond apart across a year boundary (2023-12-31T23:59:59.999999999 / 2024-01-01T00:00:00) *)
Example C17_ex_time : fmt_time 1704067199999999999 = bytes_of_string "2023-12-31T23:59:59.999999999"
  /\ fmt_time 1704067200000000000 = bytes_of_string "2024-01-01T00:00:00.000000000".
Proof. vm_compute. split; reflexivity. Qed.
(* the domain hypothesis is needed: with an empty address two different records share a key *)
Example C17_ex_empty_address_collides :
  key_bytes (RPayoutForAccountByNode [] [7%N] 0) = key_bytes (RPayoutForAccountByNode [7%N] [] 0).
Proof. exact empty_address_collides. Qed.

Example C17_ex_addr_text :
  addr_to_text hrp_of RoleNode [1; 2; 3]%N = Some (bytes_of_string "sentnode1qypqx0rhvra")
  /\ addr_from_text hrp_of RoleNode (bytes_of_string "sentnode1qypqx0rhvra") = Some [1; 2; 3]%N
  /\ addr_from_text hrp_of RoleAcc (bytes_of_string "sentnode1qypqx0rhvra") = None.
Proof. vm_compute. repeat split; reflexivity. Qed.

Print Assumptions C17_addr_roundtrip.
Print Assumptions C17_role_separation.
Print Assumptions C17_checksum_verifies.
Print Assumptions C17_key_not_prefix_store.
Print Assumptions C17_key_not_prefix_module.
Print Assumptions C17_key_injective.
Print Assumptions C17_vpn_children_disjoint.
Print Assumptions C17_prefix_isolates.
Print Assumptions C17_node_umbrella.
Print Assumptions C17_decode_payout_for_account_by_node.
Print Assumptions C17_decode_sub_for_account_addr.
Print Assumptions C17_decoders_length_checked.
Print Assumptions C17_time_text_order.
Print Assumptions C17_sub_inactive_queue_order.
Print Assumptions C17_payout_queue_order.
Print Assumptions C17_session_queue_order.
Print Assumptions C17_node_queue_order.
Print Assumptions C17_inflation_queue_order.
