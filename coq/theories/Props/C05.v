(* C05 — Buyers pay exactly the quoted price; every payment is split without loss.
   Statements only; proofs are in Proofs/Pricing.v and Proofs/ArithThm.v.
   [moved f t d amt x d'] is the change of the balance of [x] in denomination [d'] when [amt] of
   [d] moves from [f] to [t]; every theorem gives the EXACT effect on ALL balances. *)
From Hub Require Import Base.Prelude Base.Arith Model.Types Model.Keeper Model.Handlers Model.Hooks Model.Step.
From Hub Require Import Proofs.Tactics Proofs.ArithThm Proofs.Frames Proofs.Money Proofs.Pricing.

(* A per-gigabyte subscription escrows the charge for the purchased bytes at the node's quote in the
   requested denomination at that moment — the subscriber's balance falls and the escrow rises by
   exactly that amount, nobody else changes — and a denomination the node does not quote is rejected
   (acceptance implies a quote exists). *)
Theorem C05_gigabyte_purchase : forall s acc nd g dn s' id,
  g <> 0 -> create_sub_for_node s acc nd g 0 dn = Ok (s', id) ->
  exists n price b amount,
    get_node s nd = Some n /\ nd_status n = SActive /\ nd_gb_prices n !! dn = Some price /\
    int_mul GB g = Ok b /\ amount_for_bytes price b = Ok amount /\ 0 <= amount /\
    (forall x d', bal s' x d' = bal s x d' + moved acc (c_deposit (cfg s)) dn amount x d') /\
    exists sb, subs s' !! id = Some sb /\ sb_kind sb = KNode nd g 0 (dn, amount) /\ sb_addr sb = acc.
Proof. exact node_subscribe_gigabytes. Qed.

(* ... which is exactly price x gigabytes *)
Theorem C05_gigabyte_price_exact : forall s acc nd g dn s' id n price,
  create_sub_for_node s acc nd g 0 dn = Ok (s', id) -> g <> 0 -> 0 <= g -> GB * g <= 2 ^ 128 ->
  get_node s nd = Some n -> nd_gb_prices n !! dn = Some price -> 0 <= price <= 2 ^ 128 ->
  (forall x d', bal s' x d' = bal s x d' + moved acc (c_deposit (cfg s)) dn (price * g) x d') /\
  exists sb, subs s' !! id = Some sb /\ sb_kind sb = KNode nd g 0 (dn, price * g).
Proof. exact node_subscribe_gigabyte_price. Qed.

(* A per-hour subscription escrows the quoted hourly price times the hours. *)
Theorem C05_hourly_purchase : forall s acc nd h dn s' id,
  h <> 0 -> create_sub_for_node s acc nd 0 h dn = Ok (s', id) ->
  exists n price,
    get_node s nd = Some n /\ nd_status n = SActive /\ nd_hr_prices n !! dn = Some price /\ 0 <= price * h /\
    (forall x d', bal s' x d' = bal s x d' + moved acc (c_deposit (cfg s)) dn (price * h) x d') /\
    exists sb, subs s' !! id = Some sb /\ sb_kind sb = KNode nd 0 h (dn, price * h) /\ sb_addr sb = acc.
Proof. exact node_subscribe_hours. Qed.

(* A plan subscription costs exactly the plan's price in that denomination (an unquoted denomination is
   rejected): the subscriber pays fee + (price - fee), the fee collector receives fee and the plan's
   provider the rest; fee is the provider's staking share of the price. *)
Theorem C05_plan_purchase : forall s acc pid dn s' id,
  create_sub_for_plan s acc pid dn = Ok (s', id) ->
  exists p price fee,
    get_plan s pid = Some p /\ pl_status p = SActive /\ pl_prices p !! dn = Some price /\
    proportion price (p_prov_share (pars s)) = Ok fee /\ 0 <= fee <= price /\
    forall x d', bal s' x d' = bal s x d' + moved acc (c_feecoll (cfg s)) dn fee x d' + moved acc (pl_prov p) dn (price - fee) x d'.
Proof. exact plan_subscribe_pays. Qed.

(* Every hourly payout takes exactly the hourly price out of the escrow and splits it between the
   fee collector and the node (node's staking share). *)
Theorem C05_payout_split : forall s e s',
  payout_step s e = Ok s' ->
  exists po fee,
    payouts s !! e.2 = Some po /\ proportion (po_price po).2 (p_node_share (pars s)) = Ok fee /\ 0 <= fee <= (po_price po).2 /\
    forall x d', bal s' x d' = bal s x d' + moved (c_deposit (cfg s)) (c_feecoll (cfg s)) (po_price po).1 fee x d'
                                          + moved (c_deposit (cfg s)) (po_node po) (po_price po).1 ((po_price po).2 - fee) x d'.
Proof. exact payout_split. Qed.

(* Every session settlement either moves nothing or takes one payment out of the escrow and splits it
   between the fee collector and the session's node. *)
Theorem C05_settlement_split : forall s sid acc nd b s',
  session_inactive_hook s sid acc nd b = Ok s' ->
  (forall x d', bal s' x d' = bal s x d') \/
  exists dn pay fee,
    proportion pay (p_node_share (pars s)) = Ok fee /\ 0 <= fee <= pay /\
    forall x d', bal s' x d' = bal s x d' + moved (c_deposit (cfg s)) (c_feecoll (cfg s)) dn fee x d'
                                          + moved (c_deposit (cfg s)) nd dn (pay - fee) x d'.
Proof. exact settlement_split. Qed.

(* In all three paths the parts add up to the payment and the fee collector's part is the exactly
   (half-even) rounded staking-share x payment: within half a base unit. *)
Theorem C05_fee_within_one_unit : forall pay share fee,
  0 <= pay <= 2 ^ 128 -> 0 <= share <= P18 -> proportion pay share = Ok fee ->
  fee + (pay - fee) = pay /\ 0 <= fee <= pay /\ fee = chop_round (pay * share) /\ - HALF18 <= fee * P18 - pay * share <= HALF18.
Proof. exact fee_within_share. Qed.

(* Metered usage is charged at the per-gigabyte price on the cumulative settled bytes, rounded up to
   one base unit: the charge function is the exact ceiling (C16), and the settlement pays the
   difference of two cumulative charges (see the model of session_inactive_hook; the run-level
   ledger statement is C02). *)

Example C05_nonvacuous : proportion 1000003 (5 * 10 ^ 17) = Ok 500002 /\ amount_for_bytes 7 (GB * 3) = Ok 21.
Proof. vm_compute. split; reflexivity. Qed.

Print Assumptions C05_gigabyte_purchase.
Print Assumptions C05_gigabyte_price_exact.
Print Assumptions C05_hourly_purchase.
Print Assumptions C05_plan_purchase.
Print Assumptions C05_payout_split.
Print Assumptions C05_settlement_split.
Print Assumptions C05_fee_within_one_unit.
