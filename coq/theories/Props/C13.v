(* C13 - Paged queries enumerate the complete result exactly once.
   Statements only; the model is Model/Paginate.v (cosmos-sdk v0.47.10 query.Paginate / query.FilteredPaginate
   over the key-sorted entries of a prefix store), proofs are in Proofs/PaginateThm.v, the table of the hub's
   list handlers is generated from /repo by translator/queries2coq.py into Gen/QueryShapes.v.

   [pages_completely q l ct rv n expected] (Proofs/PaginateThm.v) says, for limit l (0 = default 100),
   count_total ct, direction rv, a store of n entries:
   (a) following next_key from the empty key until it is empty takes at most n+1 requests and the pages
       concatenate to [expected];  (b) stepping offset 0, L, 2L, .. until a short page - or until no
       next_key - gives the same concatenation;  (c) with count_total (or limit 0) every offset-mode
       request reports total = |expected|.
   Side conditions: [key_sorted] (entries strictly ascending by key: what a KVStore iterator yields),
   [keys_nonempty] (no entry's key equals the store prefix itself), [no_wrap] (|store| + limit + 1 < 2^64:
   the paginators compute offset+limit and end+1 in uint64). *)
From Hub Require Import Base.Prelude Model.Paginate Proofs.PaginateThm Gen.QueryShapes.
Local Open Scope N_scope.

(* FilteredPaginate: for every limit, both directions, with and without count_total, every store, and every
   callback that on each store entry succeeds, reports its hit independently of [accumulate] and appends
   the entry exactly when it is a hit and accumulate is set: the pages are the matching entries in
   iteration order, each exactly once. *)
Theorem C13_filtered_paging_complete :
  forall (V R : Type) (cb : fcallback V R) (h : key -> V -> bool) (f : key -> V -> R)
         (items : list (key * V)) (l : N) (ct rv : bool),
  key_sorted items -> keys_nonempty items -> no_wrap items l ->
  hit_independent_of_accumulate cb h f items ->
  pages_completely (filtered_paginate cb items) l ct rv (length items)
    (map (fun kv => f (fst kv) (snd kv)) (order rv (List.filter (fun kv => h (fst kv) (snd kv)) items))).
Proof. exact @filtered_paging_complete. Qed.

(* Paginate: same, for every callback that succeeds on each store entry and appends it. *)
Theorem C13_plain_paging_complete :
  forall (V R : Type) (cb : callback V R) (f : key -> V -> R) (items : list (key * V)) (l : N) (ct rv : bool),
  key_sorted items -> keys_nonempty items -> no_wrap items l ->
  appends_each cb f items ->
  pages_completely (paginate cb items) l ct rv (length items)
    (map (fun kv => f (fst kv) (snd kv)) (order rv items)).
Proof. exact @paginate_paging_complete. Qed.

(* Every paginated list handler of the hub (the rows generated from the query servers' source) has a
   callback whose hit does not depend on accumulate and which appends only under accumulate; hence each
   pages completely, for every filter [h] (status test) and record constructor [f]. *)
Theorem all_list_queries_complete :
  Forall (fun s => qs_hit_depends_on_accumulate s = false /\ qs_appends_unguarded s = false) query_shapes /\
  forall s, In s query_shapes ->
  forall (V R : Type) (h : key -> V -> bool) (f : key -> V -> R) (items : list (key * V)) (l : N) (ct rv : bool),
    key_sorted items -> keys_nonempty items -> no_wrap items l ->
    pages_completely (run_query s h f items) l ct rv (length items)
      (map (fun kv => f (fst kv) (snd kv)) (order rv (matching s h items))).
Proof. exact (shapes_complete query_shapes eq_refl). Qed.

(* The hypothesis on the callback is necessary: with the callback shape the two filtered handlers had
   before commit 629f405 (no hit unless accumulate), 5 matching entries and limit 2, count_total:
   following next_key yields 2 entries, stepping the offset yields 2 entries, total is 2. *)
Theorem C13_refuted_if_hit_depends_on_accumulate :
  key_sorted five /\ keys_nonempty five /\ no_wrap five 2 /\
  (forall pages, follow_keys 6 (filtered_paginate (defect_cb all_hit the_key) five)
                   (mk_req None 0 2 true false) = Some pages -> concat pages <> map fst five) /\
  (forall pages, step_offsets 6 (filtered_paginate (defect_cb all_hit the_key) five)
                   (mk_req None 0 2 true false) 2 0 = Some pages -> concat pages <> map fst five) /\
  (forall page resp, filtered_paginate (defect_cb all_hit the_key) five (mk_req None 0 2 true false) =
                       Ok (page, resp) -> total resp <> 5).
Proof. exact defect_incomplete. Qed.

(* ... and any generated row with hit_depends_on_accumulate = true is a handler that does not page completely. *)
Theorem C13_refuted_row :
  forall s, qs_paginator s = UsesFilteredPaginate -> qs_hit_depends_on_accumulate s = true ->
  ~ pages_completely (run_query s all_hit the_key five) 2 true false (length five)
      (map (fun kv => the_key (fst kv) (snd kv)) (order false (matching s all_hit five))).
Proof. exact defect_shape_incomplete. Qed.

(* The side condition no_wrap is necessary for offset stepping: FilteredPaginate with limit = 2^64-1,
   no count_total and a first entry that is not a hit returns an empty page (end+1 wraps to 0). *)
Theorem C13_refuted_at_max_limit :
  key_sorted two /\ keys_nonempty two /\
  filtered_paginate (good_cb flag_hit flag_key) two (mk_req None 0 (u64 - 1) false false) =
    Ok ([], mk_resp (Some [1]) 0) /\
  step_offsets 3 (filtered_paginate (good_cb flag_hit flag_key) two) (mk_req None 0 (u64 - 1) false false)
    (u64 - 1) 0 = Some [[]] /\
  follow_keys 3 (filtered_paginate (good_cb flag_hit flag_key) two) (mk_req None 0 (u64 - 1) false false) =
    Some [[]; [[2]]].
Proof. exact maxlimit_incomplete. Qed.

(* non-vacuity: a 5-entry store with a filter rejecting two entries, limit 2, reverse, count_total *)
Example C13_example_items_ok :
  key_sorted [([1], true); ([2], false); ([3], true); ([4], false); ([5], true)] /\
  keys_nonempty [([1], true); ([2], false); ([3], true); ([4], false); ([5], true)] /\
  no_wrap [([1], true); ([2], false); ([3], true); ([4], false); ([5], true)] 2.
Proof.
  split; [unfold key_sorted; repeat (constructor; try reflexivity)|].
  split; [unfold keys_nonempty; repeat (constructor; try discriminate)|].
  unfold no_wrap. vm_compute. reflexivity.
Qed.

Example C13_example_pages :
  follow_keys 6 (filtered_paginate (good_cb flag_hit flag_key)
                   [([1], true); ([2], false); ([3], true); ([4], false); ([5], true)])
             (mk_req None 0 2 true true) = Some [[[5]; [3]]; [[1]]] /\
  filtered_paginate (good_cb flag_hit flag_key)
     [([1], true); ([2], false); ([3], true); ([4], false); ([5], true)] (mk_req None 2 2 true true) =
    Ok ([[1]], mk_resp None 3).
Proof. split; vm_compute; reflexivity. Qed.

Example C13_rows_nonempty : query_shapes <> [].
Proof. discriminate. Qed.

Print Assumptions C13_filtered_paging_complete.
Print Assumptions C13_plain_paging_complete.
Print Assumptions all_list_queries_complete.
Print Assumptions C13_refuted_if_hit_depends_on_accumulate.
Print Assumptions C13_refuted_row.
Print Assumptions C13_refuted_at_max_limit.
