(* C18 — Identifiers are issued in increasing order and never reused.
   Statements only; proofs are in Proofs/KeysInv.v and Proofs/Lifecycle.v.

   [kinv] (key/record agreement: every record is stored under its own identifier, every
   live identifier is between 1 and the counter of its kind) holds in the genesis state
   and after every operation of every history. *)
From Hub Require Import Base.Prelude Base.Arith Model.Types Model.Keeper Model.Handlers Model.Hooks Model.Step.
From Hub Require Import Proofs.Tactics Proofs.Frames Proofs.KeysInv Proofs.Lifecycle.

Theorem C18_invariant_everywhere : forall g ops s', run (init g) ops = RunOk s' -> kinv s'.
Proof. intros g ops s' H. exact (kinv_run ops (init g) 0%nat s' (kinv_init g) H). Qed.

(* Subscriptions: in one operation either nothing is created (counter unchanged, every record
   descends from the record with the same identifier and keeps identifier, owner and kind),
   or exactly one subscription is created and it gets the identifier counter+1, which becomes
   the new counter.  Same for sessions.  So the k-th accepted creation gets identifier k. *)
Theorem C18_subscriptions_sequential : forall s o s',
  kinv s -> step s o = OOk s' -> sub_evo s s' \/ sub_new s s'.
Proof. intros s o s' Hi H. exact (proj1 (evo_step s o s' Hi H)). Qed.

Theorem C18_sessions_sequential : forall s o s',
  kinv s -> step s o = OOk s' -> sess_evo s s' \/ sess_new s s'.
Proof. intros s o s' Hi H. exact (proj2 (evo_step s o s' Hi H)). Qed.

(* Plans: created with identifier counter+1, never removed, never re-identified. *)
Theorem C18_plans_sequential : forall s o s',
  kinv s -> step s o = OOk s' -> plan_evo s s' \/ plan_new s s'.
Proof. exact plan_step. Qed.

(* A rejected request consumes no identifier: it leaves the whole state as it was. *)
Theorem C18_rejected_consumes_none : forall s o ops i,
  step s o = ORejected -> run_from s (o :: ops) i = run_from (clear_events s) ops (S i).
Proof. intros s o ops i H. simpl. rewrite H. reflexivity. Qed.

(* Never reused: an identifier at or below the counter whose record is gone (or was never
   there) stays unused for the rest of every history. *)
Theorem C18_never_reissued : forall ops s s' id,
  kinv s -> run s ops = RunOk s' ->
  (id <= sub_count s -> subs s !! id = None -> subs s' !! id = None) /\
  (id <= sess_count s -> sessions s !! id = None -> sessions s' !! id = None).
Proof. intros ops s s' id. exact (ids_never_reissued ops s 0%nat s' id). Qed.

(* Allocations and payouts carry the identifier of the subscription they are stored under,
   sessions and subscriptions their own, and every live identifier is within the counter. *)
Theorem C18_children_carry_id : forall s,
  kinv s ->
  (forall id a al, allocs s !! (id, a) = Some al -> al_id al = id /\ al_addr al = a /\ 1 <= id <= sub_count s) /\
  (forall id po, payouts s !! id = Some po -> po_id po = id /\ 1 <= id <= sub_count s) /\
  (forall id sb, subs s !! id = Some sb -> sb_id sb = id /\ 1 <= id <= sub_count s) /\
  (forall id x, sessions s !! id = Some x -> ss_id x = id /\ 1 <= id <= sess_count s).
Proof.
  intros s [_ _ _ [A B C _] [D _]]. repeat split.
  - destruct (B _ _ H) as (E & _); exact E.
  - destruct (B _ _ H) as (_ & E & _); exact E.
  - destruct (B _ _ H) as (_ & _ & E); apply E.
  - destruct (B _ _ H) as (_ & _ & E); apply E.
  - destruct (C _ _ H) as (E & _); exact E.
  - destruct (C _ _ H) as (_ & E); apply E.
  - destruct (C _ _ H) as (_ & E); apply E.
  - destruct (A _ _ H) as (E & _); exact E.
  - destruct (A _ _ H) as (_ & E & _); apply E.
  - destruct (A _ _ H) as (_ & E & _); apply E.
  - destruct (D _ _ H) as (E & _); exact E.
  - destruct (D _ _ H) as (_ & E & _); apply E.
  - destruct (D _ _ H) as (_ & E & _); apply E.
Qed.

(* A session is tied for life to the subscription, node and account it was started with:
   settlement (which reads [ss_sub]) can never be made against another subscription. *)
Theorem C18_session_keeps_its_subscription : forall s o s' id x x',
  kinv s -> step s o = OOk s' -> sessions s !! id = Some x -> sessions s' !! id = Some x' ->
  ss_sub x' = ss_sub x /\ ss_node x' = ss_node x /\ ss_addr x' = ss_addr x.
Proof.
  intros s o s' id x x' Hi H Hx Hx'. destruct (proj2 (evo_step s o s' Hi H)) as [[A B]|[A B C D]].
  - destruct (B _ _ Hx') as (y & Hy & S). rewrite Hx in Hy. injection Hy as <-. unfold sess_same in S. tauto.
  - destruct (decide (id = sess_count s + 1)) as [->|Hne].
    + destruct (k_ss _ (ki_sess _ Hi) _ _ Hx) as (_ & ? & _). lia.
    + rewrite (C _ _ Hne Hx') in Hx. injection Hx as <-. auto.
Qed.

(* non-vacuity: a history that creates two plans; they get identifiers 1 and 2 *)
Definition ex_cfg : config := {| c_deposit := [1%N]; c_feecoll := [2%N]; c_distr := [3%N]; c_swap := [4%N]; c_blocked := [] |}.
Definition ex_params : params :=
  {| p_prov_deposit := (1%N, 0); p_prov_share := 0; p_node_deposit := (1%N, 0); p_node_active := HOUR;
     p_max_gb := ∅; p_min_gb := ∅; p_max_hr := ∅; p_min_hr := ∅;
     p_max_sub_gb := 10; p_min_sub_gb := 1; p_max_sub_hr := 10; p_min_sub_hr := 1; p_node_share := 0;
     p_sub_delay := 120; p_sess_delay := 120; p_sess_proof := false;
     p_swap_enabled := true; p_swap_denom := 1%N; p_swap_approver := canon RAcc [9%N] |}.
Definition ex_genesis : genesis :=
  {| g_cfg := ex_cfg; g_balances := []; g_params := ex_params; g_inflations := []; g_mint := (1, 1, 1, 1); g_time := 0 |}.
Definition prov := {| ta_role := RAcc; ta_upper := false; ta_bytes := [7%N] |}.
Definition prov' := {| ta_role := RProv; ta_upper := false; ta_bytes := [7%N] |}.
Example C18_nonvacuous :
  match run (init ex_genesis)
            [OBegin 10; OTx (MProvRegister prov "p" "" "" "" true);
             OTx (MPlanCreate prov' 100 5 (Some [(1%N, 3)]));
             OTx (MPlanCreate prov' 0 5 (Some [(1%N, 3)]));          (* rejected: consumes no identifier *)
             OTx (MPlanCreate prov' 100 6 (Some [(1%N, 4)]))] with
  | RunOk s' => plan_count s' = 2 /\ map fst (map_to_list (plan_inact s')) = [1; 2]
  | _ => False
  end.
Proof. vm_compute. split; reflexivity. Qed.

Print Assumptions C18_invariant_everywhere.
Print Assumptions C18_subscriptions_sequential.
Print Assumptions C18_sessions_sequential.
Print Assumptions C18_plans_sequential.
Print Assumptions C18_rejected_consumes_none.
Print Assumptions C18_never_reissued.
Print Assumptions C18_children_carry_id.
Print Assumptions C18_session_keeps_its_subscription.
