(* C08 — Admission rules: only valid market actions are accepted.
   Statements only; proofs are in Proofs/Admission.v and Proofs/OneActive.v.  The rules are written over public
   state ([start_rule], [node_active_now], ...); both directions where proved. *)
From Hub Require Import Base.Prelude Base.Arith Model.Types Model.Keeper Model.Handlers Model.Hooks Model.Step.
From Hub Require Import Proofs.Tactics Proofs.Frames Proofs.KeysInv Proofs.Admission Proofs.IndexSess Proofs.OneActive Proofs.RangeDefs Proofs.AdmissionConv.

(* A session can only be started on an active subscription, on an active node that the subscription
   covers (its own node — and then only by the subscriber — or a node linked to the plan and currently
   leased by the plan's provider), by a holder of unexhausted quota (or the owner of an hourly
   subscription) whose latest session on that subscription is not active. *)
Theorem C08_start_accepted_implies_rule : forall s from id nd s',
  kinv_node s -> h_sess_start s from id nd = Ok s' -> start_rule s from id (ta_bytes nd).
Proof. exact start_accepted. Qed.

(* Conversely a request meeting the rule is accepted (the two premises are instances of the index
   invariant: index entries point at live records). *)
Theorem C08_rule_implies_start_accepted : forall s from id nd,
  kinv_node s -> ta_valid RAcc from = true -> start_rule s from id (ta_bytes nd) ->
  (forall a b pid, (a, b, pid) ∈ pay_acc_node s -> is_Some (payouts s !! pid)) ->
  (forall a sid, (id, a, sid) ∈ sess_alloc s -> is_Some (sessions s !! sid)) ->
  exists s', h_sess_start s from id nd = Ok s'.
Proof. exact start_complete. Qed.

(* A subscription can only be bought against a node that is active at that moment and for a quantity
   inside the governance limits; against a plan that is active at that moment. *)
Theorem C08_node_subscription_rule : forall s from nd g h dn s',
  h_node_subscribe s from nd g h dn = Ok s' ->
  node_active_now s (ta_bytes nd) /\
  (g <> 0 -> p_min_sub_gb (pars s) <= g <= p_max_sub_gb (pars s)) /\
  (h <> 0 -> p_min_sub_hr (pars s) <= h <= p_max_sub_hr (pars s)).
Proof. exact node_subscribe_accepted. Qed.

Theorem C08_plan_subscription_rule : forall s from pid dn s',
  h_plan_subscribe s from pid dn = Ok s' -> plan_active_now s pid.
Proof. exact plan_subscribe_accepted. Qed.

(* Providers and nodes can register only once; plans need a registered provider; links need a
   registered node (and the plan). *)
Theorem C08_provider_registers_once : forall s from n i w d s',
  h_prov_register s from n i w d = Ok s' -> get_provider s (ta_bytes from) = None.
Proof. exact prov_register_accepted. Qed.
Theorem C08_provider_second_registration_rejected : forall s from n i w d p,
  get_provider s (ta_bytes from) = Some p -> h_prov_register s from n i w d = Err.
Proof. exact prov_register_twice. Qed.
(* ... and conversely: an account that is not registered yet and can pay the registration deposit IS
   registered (the deposit goes to the community pool) *)
Theorem C08_provider_registration_accepted : forall s from n i w d,
  get_provider s (ta_bytes from) = None ->
  0 <= (p_prov_deposit (pars s)).2 <= bal s (ta_bytes from) (p_prov_deposit (pars s)).1 ->
  exists s', h_prov_register s from n i w d = Ok s'.
Proof. exact prov_register_complete. Qed.
Theorem C08_node_registration_accepted : forall s from gb hr url,
  valid_gb_prices s (coins_of gb) = true -> valid_hr_prices s (coins_of hr) = true ->
  get_node s (ta_bytes from) = None ->
  0 <= (p_node_deposit (pars s)).2 <= bal s (ta_bytes from) (p_node_deposit (pars s)).1 ->
  exists s', h_node_register s from gb hr url = Ok s'.
Proof. exact node_register_complete. Qed.
Theorem C08_node_registers_once : forall s from gb hr url s',
  h_node_register s from gb hr url = Ok s' -> get_node s (ta_bytes from) = None.
Proof. exact node_register_accepted. Qed.
Theorem C08_plan_needs_provider : forall s from du g pr s',
  h_plan_create s from du g pr = Ok s' -> is_Some (get_provider s (ta_bytes from)).
Proof. exact plan_create_accepted. Qed.
Theorem C08_plan_with_provider_accepted : forall s from du g pr,
  is_Some (get_provider s (ta_bytes from)) -> exists s', h_plan_create s from du g pr = Ok s'.
Proof. exact plan_create_complete. Qed.
Theorem C08_link_needs_node : forall s from id nd s',
  h_plan_link s from id nd = Ok s' -> is_Some (get_plan s id) /\ is_Some (get_node s (ta_bytes nd)).
Proof. exact plan_link_accepted. Qed.
Theorem C08_link_accepted : forall s from id nd p,
  get_plan s id = Some p -> from = canon RProv (pl_prov p) -> is_Some (get_node s (ta_bytes nd)) ->
  exists s', h_plan_link s from id nd = Ok s'.
Proof. exact plan_link_complete. Qed.

(* In every state reachable from any genesis by any history, an account has at most one ACTIVE
   session on a subscription: two live active sessions of the same (subscription, address) are the
   same session.  (Invariant: an active session is the newest live session of its pair; MsgStart
   creates one only when the newest session of the pair is not active.) *)
Theorem C08_one_active_session : forall g ops s' x y,
  run (init g) ops = RunOk s' -> sessions s' !! ss_id x = Some x -> sessions s' !! ss_id y = Some y ->
  ss_status x = SActive -> ss_status y = SActive -> ss_sub x = ss_sub y -> ss_addr x = ss_addr y -> ss_id x = ss_id y.
Proof. exact one_active_session. Qed.

Theorem C08_one_active_invariant : forall s o s', kinv s -> idx_sess s -> one_act s -> step s o = OOk s' -> one_act s'.
Proof. exact one_act_step. Qed.

(* Conversely, a purchase that meets the admission rules and can be paid for IS accepted: an active node that
   quotes the denomination, a quantity within the governance limits, a balance covering price x quantity, and
   amounts below the supply bound (so that the checked 256-/315-bit arithmetic of the SDK cannot fail) ... *)
Theorem C08_gigabyte_purchase_accepted : forall s from nd g dn n price,
  get_node s (ta_bytes nd) = Some n -> nd_status n = SActive ->
  0 < g -> valid_sub_gb s g = true -> nd_gb_prices n !! dn = Some price ->
  0 <= price -> price * g <= bal s (ta_bytes from) dn -> price * g < BIG -> GB * g < MAXINT ->
  exists s', h_node_subscribe s from nd g 0 dn = Ok s'.
Proof. exact node_subscribe_gb_complete. Qed.

Theorem C08_hourly_purchase_accepted : forall s from nd h dn n price,
  get_node s (ta_bytes nd) = Some n -> nd_status n = SActive ->
  0 < h -> valid_sub_hr s h = true -> nd_hr_prices n !! dn = Some price ->
  0 <= price -> price * h <= bal s (ta_bytes from) dn -> price * h < MAXINT ->
  exists s', h_node_subscribe s from nd 0 h dn = Ok s'.
Proof. exact node_subscribe_hr_complete. Qed.

(* ... and likewise an active plan that quotes the denomination, bought by an account (not the fee collector
   itself) that holds the price. *)
Theorem C08_plan_purchase_accepted : forall s from pid dn p price,
  get_plan s pid = Some p -> pl_status p = SActive -> pl_prices p !! dn = Some price ->
  0 <= p_prov_share (pars s) <= P18 -> 0 <= price < BIG -> price <= bal s (ta_bytes from) dn ->
  ta_bytes from <> c_feecoll (cfg s) -> 0 <= pl_gb p -> GB * pl_gb p < MAXINT ->
  exists s', h_plan_subscribe s from pid dn = Ok s'.
Proof. exact plan_subscribe_complete. Qed.

Print Assumptions C08_start_accepted_implies_rule.
Print Assumptions C08_rule_implies_start_accepted.
Print Assumptions C08_node_subscription_rule.
Print Assumptions C08_plan_subscription_rule.
Print Assumptions C08_provider_registers_once.
Print Assumptions C08_provider_second_registration_rejected.
Print Assumptions C08_node_registers_once.
Print Assumptions C08_plan_needs_provider.
Print Assumptions C08_plan_with_provider_accepted.
Print Assumptions C08_link_needs_node.
Print Assumptions C08_link_accepted.
Print Assumptions C08_one_active_session.
Print Assumptions C08_one_active_invariant.
Print Assumptions C08_gigabyte_purchase_accepted.
Print Assumptions C08_hourly_purchase_accepted.
Print Assumptions C08_plan_purchase_accepted.
Print Assumptions C08_provider_registration_accepted.
Print Assumptions C08_node_registration_accepted.
