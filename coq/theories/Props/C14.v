(* C14 — A swap is minted at most once per Ethereum tx hash, only by the approver.
   Statements only; proofs are in Proofs/Supply.v. *)
From Hub Require Import Base.Prelude Base.Arith Model.Types Model.Keeper Model.Handlers Model.Hooks Model.Step.
From Hub Require Import Proofs.Tactics Proofs.Frames Proofs.Money Proofs.Supply.
From Hub Require Import Gen.Wiring Proofs.WiringThm.
From Hub Require Import Base.Bytes Gen.KeysGen Model.HashCodec Proofs.CodecThm.

(* For each hash at most one swap is ever executed: once recorded, a request with the
   same hash is rejected, and a recorded swap is never altered or removed. *)
Theorem C14_once_per_hash : forall s from hash receiver amount w,
  swaps s !! hash = Some w -> step s (OTx (MSwap from hash receiver amount)) = ORejected.
Proof. exact swap_once. Qed.

Theorem C14_records_are_permanent : forall s o s' h w,
  step s o = OOk s' -> swaps s !! h = Some w -> swaps s' !! h = Some w.
Proof. exact swaps_monotone. Qed.

(* It is executed only while swaps are enabled and only on a request from the configured
   approver, for a 32-byte hash not seen before; it records the swap, credits the named
   receiver (not a blocked address) with exactly amount/100 rounded down in the swap
   denomination and nobody else, and the supply grows by that amount. *)
Theorem C14_accepted_swap : forall s from hash receiver amount s',
  step s (OTx (MSwap from hash receiver amount)) = OOk s' ->
  let d := p_swap_denom (pars s) in
  let q := Z.quot amount 100 in
  p_swap_enabled (pars s) = true /\
  p_swap_approver (pars s) = from /\
  swaps s !! hash = None /\
  Z.of_nat (length hash) = 32 /\ 100 <= amount /\
  swaps s' = <[hash := {| sw_hash := hash; sw_receiver := receiver; sw_amount := (d, q) |}]> (swaps s) /\
  supply s' = coins_add (supply s) d q /\
  is_blocked s (ta_bytes receiver) = false /\
  (forall x d', x <> c_swap (cfg s) ->
     bal s' x d' = bal s x d' + delta (bool_decide (ta_bytes receiver = x /\ d = d')) q).
Proof. exact swap_step. Qed.

(* Nothing else the hub does changes the supply or the swap records ... *)
Theorem C14_nothing_else : forall s o s',
  (forall m, o = OTx m -> is_swap m = false) -> step s o = OOk s' ->
  supply s' = supply s /\ swaps s' = swaps s.
Proof. exact non_swap_step. Qed.

(* ... so over any history the supply of every denomination grows by exactly the sum of
   the swaps recorded during that history. *)
Theorem C14_supply_is_sum_of_swaps : forall ops s s' d,
  run s ops = RunOk s' ->
  amount_of (supply s') d - amount_of (supply s) d = swap_total s' d - swap_total s d.
Proof. intros ops s s' d H. exact (supply_tracks_swaps_run ops s 0%nat s' d H). Qed.

(* The key a record is stored under is the key it is looked up under, for byte strings of ANY length (the keeper and
   the genesis import do not check the length): both normalise with BytesToHash (left-pad with zeros / keep the last
   32 bytes), the normal form is 32 bytes long and a fixed point, and the key constructor (regenerated from
   x/swap/types/keys.go) is injective -- so two requests are "the same hash" exactly when their normal forms are equal,
   in particular when they differ only in leading zero bytes.  Tie: the real SwapKey(swap.GetTxHash()) and
   SwapKey(BytesToHash(msg.TxHash)) are compared with this model on generated inputs of all lengths (tools/ext_c14.py). *)
Theorem C14_stored_key_is_lookup_key : forall x y : list N,
  (swap_SwapKey (bytes_to_hash x) = swap_SwapKey (bytes_to_hash y) <-> bytes_to_hash x = bytes_to_hash y) /\
  List.length (bytes_to_hash x) = 32%nat /\ bytes_to_hash (bytes_to_hash x) = bytes_to_hash x /\
  (bytes_to_hash (0%N :: x) = bytes_to_hash x \/ (32 <= List.length x)%nat).
Proof.
  intros x y. split; [split; [unfold swap_SwapKey; intros H; apply app_inv_head in H; exact H|intros ->; reflexivity]|].
  split; [apply bytes_to_hash_length|]. split; [apply bytes_to_hash_exact, bytes_to_hash_length|].
  destruct (le_lt_dec 32 (List.length x)) as [Hge|Hlt]; [right; exact Hge|left].
  rewrite (bytes_to_hash_short (0%N :: x)) by (simpl; unfold HASH_LEN; lia). rewrite (bytes_to_hash_short x) by (unfold HASH_LEN; lia).
  simpl List.length. replace (HASH_LEN - S (List.length x))%nat with (HASH_LEN - List.length x - 1)%nat by lia.
  destruct (HASH_LEN - List.length x)%nat as [|k] eqn:E; [unfold HASH_LEN in E; lia|]. simpl. rewrite Nat.sub_0_r.
  change (0%N :: repeat 0%N k ++ x)%list with ((0%N :: repeat 0%N k) ++ x)%list. rewrite repeat_cons, <- app_assoc. reflexivity.
Qed.

Section wiring.
Local Open Scope string_scope.
(* app wiring (regenerated from app/module.go on every run): among the hub's module accounts only swap can mint, none can burn *)
Theorem C14_only_swap_mints :
  perms_of "swaptypes.ModuleName" = Some ["authtypes.Minter"] /\ perms_of "deposittypes.ModuleName" = Some [] /\
  perms_of "customminttypes.ModuleName" = Some [].
Proof. exact (conj swap_can_only_mint (conj deposit_cannot_mint_or_burn custommint_has_no_permission)). Qed.
End wiring.

Print Assumptions C14_once_per_hash.
Print Assumptions C14_records_are_permanent.
Print Assumptions C14_accepted_swap.
Print Assumptions C14_nothing_else.
Print Assumptions C14_supply_is_sum_of_swaps.
Print Assumptions C14_only_swap_mints.
Print Assumptions C14_stored_key_is_lookup_key.
