(* C14 — A swap is minted at most once per Ethereum tx hash, only by the approver.
   Statements only; proofs are in Proofs/Supply.v. *)
From Hub Require Import Base.Prelude Base.Arith Model.Types Model.Keeper Model.Handlers Model.Hooks Model.Step.
From Hub Require Import Proofs.Tactics Proofs.Frames Proofs.Money Proofs.Supply.
From Hub Require Import Gen.Wiring Proofs.WiringThm.

(* For each hash at most one swap is ever executed: once recorded, a request with the
   same hash is rejected, and a recorded swap is never altered or removed. *)
Theorem C14_once_per_hash : forall s from hash receiver amount w,
  swaps s !! hash = Some w -> step s (OTx (MSwap from hash receiver amount)) = ORejected.
Proof. exact swap_once. Qed.

Theorem C14_records_are_permanent : forall s o s' h w,
  step s o = OOk s' -> swaps s !! h = Some w -> swaps s' !! h = Some w.
Proof. exact swaps_monotone. Qed.

(* It is executed only while swaps are enabled and only on a request from the configured
   approver, for a 32-byte hash not seen before; it records the swap, credits the named
   receiver (not a blocked address) with exactly amount/100 rounded down in the swap
   denomination and nobody else, and the supply grows by that amount. *)
Theorem C14_accepted_swap : forall s from hash receiver amount s',
  step s (OTx (MSwap from hash receiver amount)) = OOk s' ->
  let d := p_swap_denom (pars s) in
  let q := Z.quot amount 100 in
  p_swap_enabled (pars s) = true /\
  p_swap_approver (pars s) = from /\
  swaps s !! hash = None /\
  Z.of_nat (length hash) = 32 /\ 100 <= amount /\
  swaps s' = <[hash := {| sw_hash := hash; sw_receiver := receiver; sw_amount := (d, q) |}]> (swaps s) /\
  supply s' = coins_add (supply s) d q /\
  is_blocked s (ta_bytes receiver) = false /\
  (forall x d', x <> c_swap (cfg s) ->
     bal s' x d' = bal s x d' + delta (bool_decide (ta_bytes receiver = x /\ d = d')) q).
Proof. exact swap_step. Qed.

(* Nothing else the hub does changes the supply or the swap records ... *)
Theorem C14_nothing_else : forall s o s',
  (forall m, o = OTx m -> is_swap m = false) -> step s o = OOk s' ->
  supply s' = supply s /\ swaps s' = swaps s.
Proof. exact non_swap_step. Qed.

(* ... so over any history the supply of every denomination grows by exactly the sum of
   the swaps recorded during that history. *)
Theorem C14_supply_is_sum_of_swaps : forall ops s s' d,
  run s ops = RunOk s' ->
  amount_of (supply s') d - amount_of (supply s) d = swap_total s' d - swap_total s d.
Proof. intros ops s s' d H. exact (supply_tracks_swaps_run ops s 0%nat s' d H). Qed.

Section wiring.
Local Open Scope string_scope.
(* app wiring (regenerated from app/module.go on every run): among the hub's module accounts only swap can mint, none can burn *)
Theorem C14_only_swap_mints :
  perms_of "swaptypes.ModuleName" = Some ["authtypes.Minter"] /\ perms_of "deposittypes.ModuleName" = Some [] /\
  perms_of "customminttypes.ModuleName" = Some [].
Proof. exact (conj swap_can_only_mint (conj deposit_cannot_mint_or_burn custommint_has_no_permission)). Qed.
End wiring.

Print Assumptions C14_once_per_hash.
Print Assumptions C14_records_are_permanent.
Print Assumptions C14_accepted_swap.
Print Assumptions C14_nothing_else.
Print Assumptions C14_supply_is_sum_of_swaps.
Print Assumptions C14_only_swap_mints.
