(* C10 — State transitions are deterministic: same history, same state and events.
   Statements only; proofs are in Proofs/Determinism.v.

   What is decided HERE is the model side: the specification every run of the
   implementation is compared with (correspondence on every projected observable after
   every operation) is a mathematical function of the history, and every ordered
   iteration inside it is canonical — it depends only on the set of stored entries.
   What a Gallina function cannot exhibit (Go map iteration order, goroutine scheduling,
   wall-clock reads) is decided by translation validation: the same histories executed in
   several fresh processes under different runtime settings must produce byte-identical
   stores and event lists (tools/ext_c10.py), plus a typed source scan.  C10 is therefore
   claimed at level translation_validation, labelled partial in DESIGN section 10. *)
From Hub Require Import Base.Prelude Base.Arith Model.Types Model.Keeper Model.Handlers Model.Hooks Model.Step.
From Hub Require Import Proofs.Sorting Proofs.Determinism.

Theorem C10_step_is_a_function : forall s o r1 r2, step s o = r1 -> step s o = r2 -> r1 = r2.
Proof. exact step_deterministic. Qed.

Theorem C10_run_is_a_function : forall s ops r1 r2, run s ops = r1 -> run s ops = r2 -> r1 = r2.
Proof. exact run_deterministic. Qed.

(* every prefix of a history determines the intermediate state the rest continues from *)
Theorem C10_prefixes_agree : forall ops1 ops2 s i,
  run_from s (ops1 ++ ops2) i =
  match run_from s ops1 i with
  | RunOk s1 => run_from s1 ops2 (i + length ops1)
  | h => h
  end.
Proof. exact run_prefix_deterministic. Qed.

(* ordered iteration is canonical: however the entries of a deadline queue are enumerated,
   the scan processes them in one and the same order (timestamp, then identifier / address) *)
Theorem C10_queue_scan_canonical_ids : forall (q : gset (time * Z)) (t : time) (l : list (time * Z)),
  l ≡ₚ elements q -> filter (fun e => e.1 <= t) (sort_by cmp_tz l) = due_z q t.
Proof. exact due_z_canonical. Qed.

Theorem C10_queue_scan_canonical_addrs : forall (q : gset (time * addr)) (t : time) (l : list (time * addr)),
  l ≡ₚ elements q -> filter (fun e => e.1 <= t) (sort_by cmp_ta l) = due_a q t.
Proof. exact due_a_canonical. Qed.

Theorem C10_sorting_canonical : forall (l1 l2 : list (addr * Z)), l1 ≡ₚ l2 -> sort_by cmp_az l1 = sort_by cmp_az l2.
Proof. intros l1 l2. apply sort_by_canonical, _. Qed.

Theorem C10_queue_scan_chronological : forall q t, StronglySorted (cmp_le cmp_tz) (due_z q t).
Proof. exact due_z_sorted. Qed.

Example C10_nonvacuous :
  due_z ({[ (30, 2); (10, 7); (10, 3); (99, 1) ]} : gset (time * Z)) 50 = [(10, 3); (10, 7); (30, 2)].
Proof. vm_compute. reflexivity. Qed.

Print Assumptions C10_step_is_a_function.
Print Assumptions C10_run_is_a_function.
Print Assumptions C10_prefixes_agree.
Print Assumptions C10_queue_scan_canonical_ids.
Print Assumptions C10_queue_scan_canonical_addrs.
Print Assumptions C10_sorting_canonical.
Print Assumptions C10_queue_scan_chronological.
