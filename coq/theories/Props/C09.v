(* C09 — Filtered listings agree with the full listing; no dangling or missing entries.
   Statements only; proofs are in Proofs/IndexSess.v, IndexNode.v, IndexSub.v, IndexSub2.v,
   IndexPlan.v (the indices are exactly the images of the primary records, for every reachable
   state) and Proofs/Listing.v (what that means for the ordered listings the keepers compute). *)
From Hub Require Import Base.Prelude Base.Arith Model.Types Model.Keeper Model.Handlers Model.Hooks Model.Step.
From Hub Require Import Proofs.Tactics Proofs.Sorting Proofs.Frames Proofs.KeysInv Proofs.IndexSess Proofs.IndexNode Proofs.InvDefs
  Proofs.IndexSub Proofs.IndexSub2 Proofs.IndexPlan Proofs.Listing Proofs.IndexAll Proofs.Witness.

(* In every state reachable from any genesis by any history — after every transaction and
   every block hook — every secondary index of the store is exactly the image of the primary
   records it is derived from, every record sits under the key built from its own identifier /
   address in the partition of its status, and allocations / payouts exist exactly for the live
   subscriptions of the right kind. *)
Theorem C09_indices_exact : forall g ops s, run (init g) ops = RunOk s -> all_idx s.
Proof. exact all_idx_reachable. Qed.

Theorem C09_invariant_inductive : forall s o s', all_idx s -> step s o = OOk s' -> all_idx s'.
Proof. exact all_idx_step. Qed.

(* Each id listing below an index prefix is THE strictly ascending list of exactly the ids indexed
   under that very key: none missing, none extra, none twice, in a stable order. *)
Theorem C09_listing_is_exact : forall (ix : gset (addr * Z)) a (l : list Z),
  l = ids_for_a ix a <-> StronglySorted Z.lt l /\ forall id, id ∈ l <-> (a, id) ∈ ix.
Proof. exact ids_for_a_spec. Qed.

(* ... including when one address's bytes are a prefix of another's: entries of the longer
   address are listed under it and never under the shorter one. *)
Theorem C09_prefix_isolated : forall (ix : gset (addr * Z)) a ext id,
  ext <> [] -> (a ++ ext, id) ∈ ix -> (a, id) ∉ ix -> id ∉ ids_for_a ix a /\ id ∈ ids_for_a ix (a ++ ext).
Proof. exact ids_for_a_prefix_isolated. Qed.

(* Filtered listing = the unfiltered listing filtered by the requested attribute, for every reachable state. *)
Theorem C09_sessions_for_account : forall g ops s a, run (init g) ops = RunOk s ->
  omap (fun id => sessions s !! id) (ids_for_a (sess_acc s) a) = filter (fun x => ss_addr x = a) (listing (sessions s)).
Proof. intros g ops s a H. exact (sessions_for_account s (ai_sess _ (all_idx_reachable g ops s H)) a). Qed.

Theorem C09_sessions_for_node : forall g ops s a, run (init g) ops = RunOk s ->
  omap (fun id => sessions s !! id) (ids_for_a (sess_node s) a) = filter (fun x => ss_node x = a) (listing (sessions s)).
Proof. intros g ops s a H. exact (sessions_for_node s (ai_sess _ (all_idx_reachable g ops s H)) a). Qed.

Theorem C09_sessions_for_subscription : forall g ops s k, run (init g) ops = RunOk s ->
  omap (fun id => sessions s !! id) (ids_for_z (sess_sub s) k) = filter (fun x => ss_sub x = k) (listing (sessions s)).
Proof. intros g ops s k H. exact (sessions_for_subscription s (ai_sess _ (all_idx_reachable g ops s H)) k). Qed.

Theorem C09_sessions_for_allocation : forall g ops s k a, run (init g) ops = RunOk s ->
  omap (fun id => sessions s !! id) (ids_for_za (sess_alloc s) k a) =
  filter (fun x => ss_sub x = k /\ ss_addr x = a) (listing (sessions s)).
Proof. intros g ops s k a H. exact (sessions_for_allocation s (ai_sess _ (all_idx_reachable g ops s H)) k a). Qed.

Theorem C09_subscriptions_for_node : forall g ops s n, run (init g) ops = RunOk s ->
  omap (fun id => subs s !! id) (ids_for_a (sub_node s) n) = filter (fun sb => sub_node_of sb = Some n) (listing (subs s)).
Proof. intros g ops s n H. exact (subscriptions_for_node s (ai_sub _ (all_idx_reachable g ops s H)) n). Qed.

Theorem C09_subscriptions_for_plan : forall g ops s p, run (init g) ops = RunOk s ->
  omap (fun id => subs s !! id) (ids_for_z (sub_plan s) p) = filter (fun sb => sub_plan_of sb = Some p) (listing (subs s)).
Proof. intros g ops s p H. exact (subscriptions_for_plan s (ai_sub _ (all_idx_reachable g ops s H)) p). Qed.

(* subscriptions of an account: those it owns or holds an allocation of — with every observable of the query *)
Theorem C09_subscriptions_for_account : forall g ops s a, run (init g) ops = RunOk s ->
  query_ok (Qdec := fun id sb => decide (sb_addr sb = a \/ is_Some (allocs s !! (id, a)))) (subs s)
    (fun id sb => sb_addr sb = a \/ is_Some (allocs s !! (id, a))) (ids_for_a (sub_acc s) a).
Proof. intros g ops s a H. exact (subscriptions_for_account_ok s (ai_sub _ (all_idx_reachable g ops s H)) a). Qed.

Theorem C09_payouts_for_account : forall g ops s a, run (init g) ops = RunOk s ->
  omap (fun id => payouts s !! id) (ids_for_a (pay_acc s) a) = filter (fun po => po_addr po = a) (listing (payouts s)).
Proof. intros g ops s a H. exact (payouts_for_account s (ai_sub _ (all_idx_reachable g ops s H)) a). Qed.

Theorem C09_payouts_for_node : forall g ops s n, run (init g) ops = RunOk s ->
  omap (fun id => payouts s !! id) (ids_for_a (pay_node s) n) = filter (fun po => po_node po = n) (listing (payouts s)).
Proof. intros g ops s n H. exact (payouts_for_node s (ai_sub _ (all_idx_reachable g ops s H)) n). Qed.

Theorem C09_plans_for_provider : forall g ops s a, run (init g) ops = RunOk s ->
  omap (fun id => get_plan s id) (ids_for_a (plan_prov s) a) = filter (fun p => pl_prov p = a) (listing (all_plans s)).
Proof. intros g ops s a H. exact (plans_for_provider s (ai_plan _ (all_idx_reachable g ops s H)) a). Qed.

(* listings by status are the full listing filtered by status *)
Theorem C09_plans_by_status : forall g ops s, run (init g) ops = RunOk s ->
  listing (plan_act s) = filter (fun p => pl_status p = SActive) (listing (all_plans s)) /\
  listing (plan_inact s) = filter (fun p => pl_status p = SInactive) (listing (all_plans s)).
Proof.
  intros g ops s H. pose proof (ki_plan _ (ai_k _ (all_idx_reachable g ops s H))) as Hk.
  split; [exact (plans_active s Hk)|exact (plans_inactive s Hk)].
Qed.

Theorem C09_nodes_by_status : forall g ops s, run (init g) ops = RunOk s ->
  filter (fun n => nd_status n = SActive) (all_nodes s) = nodes_of (node_act s) /\
  filter (fun n => nd_status n = SInactive) (all_nodes s) = nodes_of (node_inact s) /\ NoDup (all_nodes s).
Proof.
  intros g ops s H. pose proof (ki_node _ (ai_k _ (all_idx_reachable g ops s H))) as Hk.
  split; [exact (nodes_active s Hk)|split; [exact (nodes_inactive s Hk)|exact (NoDup_all_nodes s Hk)]].
Qed.

(* never an internal error: the "latest" look-ups used by MsgStart find their record *)
Theorem C09_latest_lookups_total : forall g ops s, run (init g) ops = RunOk s ->
  (forall a n, latest_payout_for s a n <> Panic /\ latest_payout_for s a n <> Err) /\
  (forall k a, latest_session_for_alloc s k a <> Panic /\ latest_session_for_alloc s k a <> Err).
Proof.
  intros g ops s H. pose proof (all_idx_reachable g ops s H) as Hi. split.
  - intros a n. exact (latest_payout_for_no_panic s (ai_sub _ Hi) a n).
  - intros k a. pose proof (latest_session_for_alloc_ok s (ai_sess _ Hi) k a (ki_sess _ (ai_k _ Hi))) as L.
    destruct (latest_session_for_alloc s k a) as [[x|]| |]; try contradiction; split; discriminate.
Qed.

(* A record that has been removed is in no listing and no queue scan of that very state. *)
Theorem C09_removed_everywhere : forall g ops s, run (init g) ops = RunOk s ->
  (forall id, sessions s !! id = None ->
     (forall a, id ∉ ids_for_a (sess_acc s) a) /\ (forall a, id ∉ ids_for_a (sess_node s) a) /\
     (forall k, id ∉ ids_for_z (sess_sub s) k) /\ (forall k a, id ∉ ids_for_za (sess_alloc s) k a) /\
     (forall t T, (t, id) ∉ due_z (sess_q s) T)) /\
  (forall id, subs s !! id = None ->
     (forall a, id ∉ ids_for_a (sub_acc s) a) /\ (forall n, id ∉ ids_for_a (sub_node s) n) /\
     (forall p, id ∉ ids_for_z (sub_plan s) p) /\ (forall t T, (t, id) ∉ due_z (sub_q s) T) /\
     allocs_for s id = [] /\ payouts s !! id = None) /\
  (forall id, payouts s !! id = None ->
     (forall a, id ∉ ids_for_a (pay_acc s) a) /\ (forall n, id ∉ ids_for_a (pay_node s) n) /\
     (forall a n, id ∉ ids_for_aa (pay_acc_node s) a n) /\ (forall t T, (t, id) ∉ due_z (pay_q s) T)).
Proof.
  intros g ops s H. pose proof (all_idx_reachable g ops s H) as Hi. split; [|split].
  - intros id. exact (session_removed s id (ai_sess _ Hi)).
  - intros id. exact (subscription_removed s id (ai_sub _ Hi)).
  - intros id. exact (payout_removed s id (ai_sub _ Hi)).
Qed.

(* Every queue entry the block hooks will consume points at a live record with exactly that deadline. *)
Theorem C09_queue_entries_live : forall g ops s T, run (init g) ops = RunOk s ->
  (forall t id, (t, id) ∈ due_z (sub_q s) T -> exists sb, subs s !! id = Some sb /\ sb_inactive_at sb = t /\ t <= T) /\
  (forall t id, (t, id) ∈ due_z (sess_q s) T -> exists x, sessions s !! id = Some x /\ ss_inactive_at x = t /\ t <= T) /\
  (forall t a, (t, a) ∈ due_a (node_q s) T -> exists n, node_act s !! a = Some n /\ nd_inactive_at n = t /\ t <= T) /\
  (forall t id, (t, id) ∈ due_z (pay_q s) T ->
     exists po sb, payouts s !! id = Some po /\ po_next_at po = t /\ 0 < po_hours po /\ subs s !! id = Some sb /\
                   sb_status sb = SActive /\ t <= T).
Proof.
  intros g ops s T H. pose proof (all_idx_reachable g ops s H) as Hi. repeat split.
  - intros t id. exact (sub_q_live s t id T (ai_sub _ Hi)).
  - intros t id. exact (sess_q_live s t id T (ai_sess _ Hi)).
  - intros t a. exact (node_q_live s t a T (ai_node _ Hi)).
  - intros t id. exact (pay_q_live s t id T (ai_sub _ Hi)).
Qed.

(* node links point at registered plans and nodes; every plan has a registered provider *)
Theorem C09_links_live : forall g ops s id a, run (init g) ops = RunOk s ->
  (id, a) ∈ node_plan s -> is_Some (get_plan s id) /\ is_Some (get_node s a).
Proof. intros g ops s id a H. exact (ix_nodeplan _ (ai_plan _ (all_idx_reachable g ops s H)) id a). Qed.

(* non-vacuity: a reachable state with four subscriptions (one shared with an address that extends the
   owner's bytes), two sessions, three allocations, two payouts; the listings of the prefix pair differ *)
Example C09_nonvacuous :
  wt_obs wt_state2 (fun s => (size (subs s), size (sessions s), size (allocs s), size (payouts s),
                              ids_for_a (sub_acc s) [8%N], ids_for_a (sub_acc s) [8%N; 1%N], ids_for_z (sess_sub s) 4,
                              ids_for_aa (pay_acc_node s) [9%N] [7%N]))
  = Some (4%nat, 2%nat, 3%nat, 2%nat, [2; 3; 4], [4], [2], [1]).
Proof. vm_compute. reflexivity. Qed.

Print Assumptions C09_indices_exact.
Print Assumptions C09_invariant_inductive.
Print Assumptions C09_listing_is_exact.
Print Assumptions C09_prefix_isolated.
Print Assumptions C09_sessions_for_account.
Print Assumptions C09_sessions_for_node.
Print Assumptions C09_sessions_for_subscription.
Print Assumptions C09_sessions_for_allocation.
Print Assumptions C09_subscriptions_for_node.
Print Assumptions C09_subscriptions_for_plan.
Print Assumptions C09_subscriptions_for_account.
Print Assumptions C09_payouts_for_account.
Print Assumptions C09_payouts_for_node.
Print Assumptions C09_plans_for_provider.
Print Assumptions C09_plans_by_status.
Print Assumptions C09_nodes_by_status.
Print Assumptions C09_latest_lookups_total.
Print Assumptions C09_removed_everywhere.
Print Assumptions C09_queue_entries_live.
Print Assumptions C09_links_live.
