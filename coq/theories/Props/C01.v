(* C01 — Escrow is fully backed and the marketplace never creates or destroys coins.
   Statements only; proofs are in Proofs/Money.v and Proofs/Supply.v. *)
From Hub Require Import Base.Prelude Base.Arith Model.Types Model.Keeper Model.Handlers Model.Hooks Model.Step.
From Hub Require Import Proofs.Tactics Proofs.Frames Proofs.Money Proofs.Supply Proofs.KeysInv Proofs.Flow.
From Hub Require Import Gen.Wiring Proofs.WiringThm.

(* After every operation of every history (every block, every transaction valid or
   not, from any actor that is not a module account) started in a state satisfying the
   money invariant — in particular any genesis of DESIGN section 5.2 — the escrow
   account equals, denomination by denomination, the sum of the deposit records. *)
Theorem C01_escrow_backed : forall ops s s',
  money_inv s -> wf_ops s ops -> run s ops = RunOk s' ->
  forall d, bal s' (c_deposit (cfg s')) d = dep_total s' d.
Proof. intros ops s s' Hi Hw Hr. exact (mi_escrow _ (money_inv_run ops s 0%nat s' Hi Hw Hr)). Qed.

(* ... and in every such state the balances of each denomination add up to its supply:
   whatever leaves one balance arrives in another in the same step. *)
Theorem C01_balances_add_up_to_supply : forall ops s s',
  money_inv s -> wf_ops s ops -> run s ops = RunOk s' ->
  forall d, bank_total s' d = amount_of (supply s') d.
Proof. intros ops s s' Hi Hw Hr. exact (mi_total _ (money_inv_run ops s 0%nat s' Hi Hw Hr)). Qed.

(* one step: the invariant is inductive (also at the intermediate points inside a block) *)
Theorem C01_invariant_inductive : forall s o s',
  money_inv s -> wf_op s o -> step s o = OOk s' -> money_inv s'.
Proof. exact money_inv_step. Qed.

(* the genesis states of the domain satisfy it *)
Theorem C01_genesis : forall g, wf_genesis g -> money_inv (init g).
Proof. exact money_inv_init. Qed.

(* no marketplace message and no begin/end-of-block step mints or burns: every
   operation other than a swap request leaves the supply untouched *)
Theorem C01_no_mint_no_burn : forall s o s',
  (forall m, o = OTx m -> is_swap m = false) -> step s o = OOk s' -> supply s' = supply s.
Proof. intros s o s' Hm H. exact (proj1 (non_swap_step s o s' Hm H)). Qed.

(* a rejected transaction changes nothing at all (failed transfers leave balances untouched) *)
Theorem C01_rejected_unchanged : forall s o ops i,
  step s o = ORejected -> run_from s (o :: ops) i = run_from (clear_events s) ops (S i).
Proof. intros s o ops i H. simpl. rewrite H. reflexivity. Qed.

(* non-vacuity: a concrete state with a backed deposit satisfies the invariant's escrow clause *)
Example C01_nonvacuous :
  let c := {| c_deposit := [1%N]; c_feecoll := [2%N]; c_distr := [3%N]; c_swap := [4%N]; c_blocked := [[1%N]; [2%N]; [3%N]; [4%N]] |} in
  wf_genesis {| g_cfg := c; g_balances := [([9%N], (1%N, 500))]; g_params := g_params_dummy; g_inflations := []; g_mint := (0, 0, 0, 0); g_time := 0 |}.
Proof.
  split.
  - split; simpl; try discriminate. set_solver.
  - intros a c0 H. simpl in H. apply elem_of_list_singleton in H. injection H as -> _. discriminate.
Qed.

(* Where coins can ARRIVE.  Across one whole operation -- any transaction, either block hook with all its loop iterations,
   governance -- an account's balance in any denomination grows only if the account is the escrow account, the fee
   collector, the community pool (distribution module account), the provider of a stored plan, the node of a stored
   payout or session, or the subscriber of a stored subscription or payout; for a swap (C14) also the named receiver.
   Together with C01_no_mint_no_burn (supply unchanged by every non-swap operation) and C01_balances_add_up_to_supply:
   whatever leaves a balance or the escrow arrives, in the same step, in one of these accounts. *)
Theorem C01_coins_arrive_only_at_parties : forall s o s' x,
  kinv s -> step s o = OOk s' -> (exists d, bal s x d < bal s' x d) ->
  x = c_deposit (cfg s) \/ x = c_feecoll (cfg s) \/ x = c_distr (cfg s) \/
  (exists id p, get_plan s id = Some p /\ pl_prov p = x) \/
  (exists id po, payouts s !! id = Some po /\ (po_node po = x \/ po_addr po = x)) \/
  (exists id y, sessions s !! id = Some y /\ ss_node y = x) \/
  (exists id sb, subs s !! id = Some sb /\ sb_addr sb = x) \/
  (exists from hash receiver amount, o = OTx (MSwap from hash receiver amount) /\ x = ta_bytes receiver).
Proof.
  intros s o s' x Hi Hs G. destruct (flow_step s o s' x Hi Hs G) as [R|R]; unfold recipient in *; tauto.
Qed.

Section wiring.
Local Open Scope string_scope.
(* app wiring (regenerated from app/module.go on every run): the escrow account can neither mint nor burn,
   and every module account is a blocked recipient *)
Theorem C01_escrow_account_cannot_mint_or_burn : perms_of "deposittypes.ModuleName" = Some [].
Proof. exact deposit_cannot_mint_or_burn. Qed.
Theorem C01_payees_are_module_accounts :
  perms_of "authtypes.FeeCollectorName" = Some [] /\ perms_of "distributiontypes.ModuleName" = Some [] /\ blocked_is_all_module_accounts = true.
Proof. exact payees_are_module_accounts. Qed.
End wiring.

Print Assumptions C01_escrow_backed.
Print Assumptions C01_balances_add_up_to_supply.
Print Assumptions C01_invariant_inductive.
Print Assumptions C01_genesis.
Print Assumptions C01_no_mint_no_burn.
Print Assumptions C01_escrow_account_cannot_mint_or_burn.
Print Assumptions C01_payees_are_module_accounts.
Print Assumptions C01_coins_arrive_only_at_parties.
