(* C19 — Messages, records and genesis survive binary and JSON encoding unchanged.

   CLAIMED PARTIAL.  What is proved here is the hand-written codec code of the hub:
     * types/status.go + types/status.pb.go: how jsonpb prints a Status (hand-written String()) and reads it
       back (registered Status_value map, incl. the names added by init(); bare numbers), over the tables that
       translator/status2coq.py regenerates from the current source on every run (Gen/StatusTables.v);
     * x/swap/types/ethereum.go: EthereumHash bytes <-> hex JSON, SetBytes / BytesToHash.
     (Address text, types/address.go, is bech32 and belongs to another file.)
   What is NOT modelled: the gogoproto-generated binary codec and jsonpb for all other field kinds (trusted
   generated code).  For those the check runs an implementation-side round-trip monitor (`harness codec`):
   generated values of every message type registered under `sentinel.`, binary and JSON, genesis entry points,
   tx JSON flow.  The model of this file is tied to the code by correspondence (`harness codec -dump`).

   Statements only; proofs are in Proofs/CodecThm.v. *)
From Coq Require Import ZArith NArith String List Permutation.
From Hub Require Import Gen.StatusTables Model.StatusCodec Model.HashCodec Proofs.CodecThm.
Import ListNotations.

(* every declared status value, printed the way the chain prints it in JSON, is read back as itself *)
Theorem C19_status_json_roundtrip :
  forall v, In v declared_values -> parse_status_json (print_status_json v) = Some v.
Proof. exact status_json_roundtrip. Qed.

(* ... whatever order Go's map iteration takes inside types/status.go init() *)
Theorem C19_status_json_roundtrip_any_init_order :
  forall order, Permutation order declared_values ->
  forall v, In v declared_values ->
  parse_enum_json (status_value_runtime_of order) (print_status_json v) = Some v.
Proof. exact status_json_roundtrip_any_init_order. Qed.

(* the generated STATUS_* spellings keep their meaning *)
Theorem C19_status_generated_names_parse :
  forall v name, In (v, name) status_name_pb -> parse_status_json (StatusCodec.quote name) = Some v.
Proof. exact status_generated_names_parse. Qed.

(* a status written as a bare number is read back as that number, for every int32 *)
Theorem C19_status_json_number_roundtrip :
  forall z, in_int32 z = true -> parse_status_json (itoa z) = Some z.
Proof. exact status_json_number_roundtrip. Qed.

(* command-line / query text: StatusFromString (s.String()) = s *)
Theorem C19_status_from_string_roundtrip :
  forall v, In v declared_values -> status_from_string (status_string v) = v.
Proof. exact status_from_string_roundtrip. Qed.

(* the historical defect (F4): with the generated Status_value table alone, i.e. without the names that
   init() registers, the statement is false *)
Theorem C19_status_json_generated_only_refuted :
  exists v, In v declared_values /\ parse_status_json_generated_only (print_status_json v) <> Some v.
Proof. exact status_json_roundtrip_generated_only_refuted. Qed.

(* boundary: numbers outside the declared enum (invalid everywhere in the hub) are not preserved by JSON *)
Theorem C19_status_json_undeclared_not_preserved :
  exists v, ~ In v declared_values /\ status_is_valid v = false /\
            parse_status_json (print_status_json v) = Some 0%Z /\ v <> 0%Z.
Proof. exact status_json_undeclared_not_preserved. Qed.

(* hex text of any byte list decodes to the same bytes (lower case as written, and upper case) *)
Theorem C19_hex_roundtrip : forall l, bytes_ok l -> hex_decode (hex_encode l) = Some l.
Proof. exact hex_roundtrip. Qed.

Theorem C19_hex_roundtrip_upper : forall l, bytes_ok l -> hex_decode (upper_hex (hex_encode l)) = Some l.
Proof. exact hex_roundtrip_upper. Qed.

(* BytesToHash: always 32 bytes; left-pads short input with zeros; keeps the last 32 bytes of long input *)
Theorem C19_bytes_to_hash_length : forall b, length (bytes_to_hash b) = HASH_LEN.
Proof. exact bytes_to_hash_length. Qed.

Theorem C19_bytes_to_hash_short : forall b, (length b <= HASH_LEN)%nat ->
  bytes_to_hash b = repeat 0%N (HASH_LEN - length b) ++ b.
Proof. exact bytes_to_hash_short. Qed.

Theorem C19_bytes_to_hash_long : forall b, (HASH_LEN < length b)%nat ->
  bytes_to_hash b = skipn (length b - HASH_LEN) b.
Proof. exact bytes_to_hash_long. Qed.

(* EthereumHash binary and JSON round trips for every 32-byte value *)
Theorem C19_hash_binary_roundtrip : forall e, length e = HASH_LEN -> hash_unmarshal (hash_marshal e) = e.
Proof. exact hash_binary_roundtrip. Qed.

Theorem C19_hash_json_roundtrip : forall e, length e = HASH_LEN -> bytes_ok e ->
  hash_unmarshal_json (hash_marshal_json e) = JOk e.
Proof. exact hash_json_roundtrip. Qed.

(* non-vacuity *)
Example C19_ex_declared : declared_values = [0; 1; 2; 3]%Z.
Proof. vm_compute. reflexivity. Qed.
Example C19_ex_print : print_status_json 1 = """active"""%string /\ print_status_json 2 = """inactive_pending"""%string.
Proof. vm_compute. split; reflexivity. Qed.
Example C19_ex_parse : parse_status_json """inactive"""%string = Some 3%Z /\ parse_status_json """STATUS_INACTIVE"""%string = Some 3%Z
                       /\ parse_status_json "3"%string = Some 3%Z /\ parse_status_json """Inactive"""%string = None
                       /\ parse_status_json """3"""%string = None /\ parse_status_json "03"%string = None.
Proof. vm_compute. repeat split; reflexivity. Qed.
Example C19_ex_hex : hex_encode [0; 171; 255]%N = "00abff"%string /\ hex_decode "00ABff"%string = Some [0; 171; 255]%N
                     /\ hex_decode "0"%string = None /\ hex_decode "0g"%string = None.
Proof. vm_compute. repeat split; reflexivity. Qed.
Example C19_ex_hash : bytes_to_hash [1; 2]%N = repeat 0%N 30 ++ [1; 2]%N
                      /\ bytes_to_hash (7 :: repeat 9 32)%N = repeat 9%N 32.
Proof. vm_compute. split; reflexivity. Qed.

Print Assumptions C19_status_json_roundtrip.
Print Assumptions C19_status_json_roundtrip_any_init_order.
Print Assumptions C19_status_generated_names_parse.
Print Assumptions C19_status_json_number_roundtrip.
Print Assumptions C19_status_from_string_roundtrip.
Print Assumptions C19_status_json_generated_only_refuted.
Print Assumptions C19_status_json_undeclared_not_preserved.
Print Assumptions C19_hex_roundtrip.
Print Assumptions C19_hex_roundtrip_upper.
Print Assumptions C19_bytes_to_hash_length.
Print Assumptions C19_bytes_to_hash_short.
Print Assumptions C19_bytes_to_hash_long.
Print Assumptions C19_hash_binary_roundtrip.
Print Assumptions C19_hash_json_roundtrip.
