(* C04 — Lifecycles only move forward; deadlines are met, never early, never late.
   Statements only; proofs are in Proofs/Lifecycle.v (statuses move forward, identifiers are never
   re-issued), Proofs/Link.v (the end-blocker leaves no due record; pending sessions never outlive
   their subscription; exact effect of every demotion/removal) and Proofs/Sorting.v (only due
   queue entries are scanned). *)
From Hub Require Import Base.Prelude Base.Arith Model.Types Model.Keeper Model.Handlers Model.Hooks Model.Step.
From Hub Require Import Proofs.Tactics Proofs.Sorting Proofs.Frames Proofs.KeysInv Proofs.Lifecycle Proofs.IndexSess Proofs.IndexNode
  Proofs.InvDefs Proofs.IndexSub Proofs.IndexSub2 Proofs.IndexAll Proofs.Link Proofs.Witness Proofs.Cause Proofs.CauseSess Proofs.CauseNode Proofs.Events.

(* The life-cycle invariant (indices exact, parameters sane, every session linked to a live
   subscription which it cannot outlive) holds in every state of every history with increasing block
   times and parameter changes inside DESIGN §5.3, from every genesis with sane parameters. *)
Theorem C04_invariant : forall g ops s,
  par_ok (g_params g) -> wf_hist wf_op_life (init g) ops -> run (init g) ops = RunOk s -> life_inv s.
Proof. intros g ops s Hp Hwf H. exact (life_run ops (init g) 0%nat s (life_init g Hp) Hwf H). Qed.

Theorem C04_invariant_inductive : forall s o s', life_inv s -> wf_op_life s o -> step s o = OOk s' -> life_inv s'.
Proof. exact life_step. Qed.

(* Subscriptions and sessions only ever go active -> inactive-pending -> removed: in one operation a
   record either keeps its status or moves from active to pending (identity, owner, kind unchanged),
   or disappears; new records are created active with the next identifier. *)
Theorem C04_status_forward : forall s o s',
  kinv s -> step s o = OOk s' -> (sub_evo s s' \/ sub_new s s') /\ (sess_evo s s' \/ sess_new s s').
Proof. exact evo_step. Qed.

(* ... and a removed record never comes back (its identifier is never issued again). *)
Theorem C04_removed_stays_removed : forall ops s i s' id,
  kinv s -> run_from s ops i = RunOk s' ->
  (id <= sub_count s -> subs s !! id = None -> subs s' !! id = None) /\
  (id <= sess_count s -> sessions s !! id = None -> sessions s' !! id = None).
Proof. exact ids_never_reissued. Qed.

(* At the end of every block no node, subscription or session remains whose deadline is at or before
   the block time. *)
Theorem C04_deadlines_met : forall s s',
  life_inv s -> step s OEnd = OOk s' ->
  (forall sid x, sessions s' !! sid = Some x -> now s' < ss_inactive_at x) /\
  (forall id sb, subs s' !! id = Some sb -> now s' < sb_inactive_at sb) /\
  (forall a n, node_act s' !! a = Some n -> now s' < nd_inactive_at n).
Proof. exact deadlines_met. Qed.

(* Never early: the end-blockers only touch records whose queue entry is due ... *)
Theorem C04_only_due_entries_scanned : forall s,
  (forall e, e ∈ due_z (sub_q s) (now s) -> e ∈ sub_q s /\ e.1 <= now s) /\
  (forall e, e ∈ due_z (sess_q s) (now s) -> e ∈ sess_q s /\ e.1 <= now s) /\
  (forall e, e ∈ due_a (node_q s) (now s) -> e ∈ node_q s /\ e.1 <= now s) /\
  (forall e, e ∈ due_z (pay_q s) (now s) -> e ∈ pay_q s /\ e.1 <= now s).
Proof.
  intros s. repeat split; try (apply elem_of_due_z in H; tauto); try (apply elem_of_due_a in H; tauto).
Qed.

(* ... and processing the entry of subscription [e.2] changes that subscription only: an active one
   becomes pending until exactly now + the configured delay, a pending one is removed; all sessions of
   a demoted subscription that were still active become pending until now + the session delay. *)
Theorem C04_subscription_expiry_exact : forall s e s' sb,
  kinv s -> idx_sess s -> subs s !! e.2 = Some sb -> sb_id sb = e.2 -> sub_expire_one s e = Ok s' ->
  now s' = now s /\ pars s' = pars s /\
  (subs s' = if bool_decide (sb_status sb = SActive)
             then <[e.2 := sb <| sb_inactive_at := now s + p_sub_delay (pars s) |> <| sb_status := SPending |> <| sb_status_at := now s |>]> (subs s)
             else delete e.2 (subs s)) /\
  (forall sid, sessions s' !! sid = if bool_decide (sb_status sb = SActive)
                                    then demote_sess e.2 (now s + p_sess_delay (pars s)) (now s) <$> sessions s !! sid
                                    else sessions s !! sid).
Proof. exact sub_expire_one_effect. Qed.

Theorem C04_session_expiry_exact : forall s e s' x,
  sessions s !! e.2 = Some x -> ss_id x = e.2 -> session_expire_one s e = Ok s' ->
  now s' = now s /\ pars s' = pars s /\
  sessions s' = if bool_decide (ss_status x = SActive)
                then <[e.2 := x <| ss_inactive_at := now s + p_sess_delay (pars s) |> <| ss_status := SPending |> <| ss_status_at := now s |>]> (sessions s)
                else delete e.2 (sessions s).
Proof. exact session_expire_one_sessions. Qed.

Theorem C04_node_expiry_exact : forall s e s' n,
  kinv_node s -> node_act s !! e.2 = Some n -> node_expire_one s e = Ok s' ->
  now s' = now s /\ node_act s' = delete e.2 (node_act s).
Proof. exact node_expire_one_effect. Qed.

(* A session never outlives its subscription: in every reachable state each session belongs to a live
   subscription, an active session to an active one, and a pending session's deadline is not after the
   removal deadline of its (pending) subscription. *)
Theorem C04_session_within_subscription : forall g ops s sid x,
  par_ok (g_params g) -> wf_hist wf_op_life (init g) ops -> run (init g) ops = RunOk s ->
  sessions s !! sid = Some x ->
  exists sb, subs s !! ss_sub x = Some sb /\
    (ss_status x = SActive -> sb_status sb = SActive) /\
    (ss_status x = SPending -> sb_status sb = SPending -> ss_inactive_at x <= sb_inactive_at sb).
Proof.
  intros g ops s sid x Hp Hwf H Hx. destruct (lf_link _ (C04_invariant g ops s Hp Hwf H)) as [L].
  destruct (L _ _ Hx) as (sb & Hsb & _ & L1 & L2 & _). eauto.
Qed.

(* Hourly payouts: one step of the payout loop pays the payout whose queue entry it was given, lowers
   its hours by exactly one and moves its due time on by exactly one hour (zero time when exhausted);
   C04_only_due_entries_scanned says the entry was due, and in every reachable state the queue holds
   only payouts of ACTIVE subscriptions with hours left, at their due time (C09_indices_exact). *)
Theorem C04_payout_exact : forall s e s' po,
  payouts s !! e.2 = Some po -> payout_step s e = Ok s' ->
  let h := po_hours po - 1 in
  let nx := if h =? 0 then tzero else po_next_at po + HOUR in
  subs s' = subs s /\ allocs s' = allocs s /\ sub_q s' = sub_q s /\ sub_acc s' = sub_acc s /\ sub_node s' = sub_node s /\
  sub_plan s' = sub_plan s /\ pay_acc s' = pay_acc s /\ pay_node s' = pay_node s /\ pay_acc_node s' = pay_acc_node s /\
  payouts s' = <[po_id po := po <| po_hours := h |> <| po_next_at := nx |>]> (payouts s) /\
  pay_q s' = if 0 <? h then (pay_q s ∖ {[ (po_next_at po, po_id po) ]}) ∪ {[ (nx, po_id po) ]}
             else pay_q s ∖ {[ (po_next_at po, po_id po) ]}.
Proof. exact payout_step_spec. Qed.

(* The CAUSE of every demotion and removal of a subscription, seen across one whole operation of any
   kind (any transaction, either block hook with all its loop iterations, governance): a stored
   subscription goes active -> inactive-pending only by its owner's MsgCancel or in the end-blocker of
   a block at or after its deadline, and is then pending until exactly now + the delay in force ... *)
Theorem C04_subscription_demotion_cause : forall s o s' id sb sb',
  life_inv s -> step s o = OOk s' -> subs s !! id = Some sb -> subs s' !! id = Some sb' ->
  sb_status sb = SActive -> sb_status sb' = SPending ->
  sb_inactive_at sb' = now s + p_sub_delay (pars s) /\
  ((exists from, o = OTx (MSubCancel from id) /\ ta_bytes from = sb_addr sb) \/ (o = OEnd /\ sb_inactive_at sb <= now s)).
Proof. exact sub_demotion_cause. Qed.

(* ... it is removed only in the end-blocker of a block at or after the end of its pending period, never
   while it was still active when the operation started ... *)
Theorem C04_subscription_removal_cause : forall s o s' id sb,
  life_inv s -> step s o = OOk s' -> subs s !! id = Some sb -> subs s' !! id = None ->
  o = OEnd /\ sb_status sb = SPending /\ sb_inactive_at sb <= now s.
Proof. exact sub_removal_cause. Qed.

(* ... and nothing else ever happens to a stored subscription: same status => same record. *)
Theorem C04_subscription_untouched_otherwise : forall s o s' id sb sb',
  life_inv s -> step s o = OOk s' -> subs s !! id = Some sb -> subs s' !! id = Some sb' ->
  sb_status sb' = sb_status sb -> sb' = sb.
Proof. exact sub_untouched_otherwise. Qed.

(* The same for SESSIONS: a stored session goes active -> inactive-pending only by its owner's MsgEnd, by
   the cancellation of its subscription by that subscription's owner, or in the end-blocker of a block
   at or after its own deadline or at or after the deadline of its (active) subscription -- and is then
   pending until exactly now + the session delay in force ... *)
Theorem C04_session_demotion_cause : forall s o s' id x x',
  life_inv s -> step s o = OOk s' -> sessions s !! id = Some x -> sessions s' !! id = Some x' ->
  ss_status x = SActive -> ss_status x' = SPending ->
  ss_inactive_at x' = now s + p_sess_delay (pars s) /\
  ((exists from rating, o = OTx (MSessEnd from id rating) /\ from = canon RAcc (ss_addr x)) \/
   (exists from sb, o = OTx (MSubCancel from (ss_sub x)) /\ subs s !! ss_sub x = Some sb /\ ta_bytes from = sb_addr sb) \/
   (o = OEnd /\ (ss_inactive_at x <= now s \/
                 exists sb, subs s !! ss_sub x = Some sb /\ sb_status sb = SActive /\ sb_inactive_at sb <= now s))).
Proof. exact sess_demotion_cause. Qed.

(* ... it is removed (the only point at which it is settled: [session_expire_one] calls the settlement hook
   exactly when it deletes the record) only in the end-blocker of a block at or after the end of its
   pending period, never while it was still active when the operation started ... *)
Theorem C04_session_removal_cause : forall s o s' id x,
  life_inv s -> step s o = OOk s' -> sessions s !! id = Some x -> sessions s' !! id = None ->
  o = OEnd /\ ss_status x = SPending /\ ss_inactive_at x <= now s.
Proof. exact sess_removal_cause. Qed.

(* ... and the deadline of a pending session never moves (usage reports refresh only an ACTIVE session). *)
Theorem C04_pending_session_deadline_fixed : forall s o s' id x x',
  life_inv s -> step s o = OOk s' -> sessions s !! id = Some x -> sessions s' !! id = Some x' ->
  ss_status x = SPending -> ss_status x' = SPending /\ ss_inactive_at x' = ss_inactive_at x.
Proof. exact pending_session_deadline_fixed. Qed.

(* NODES: an active node stops being active, across one whole operation, only by its own MsgUpdateStatus(inactive)
   or in the end-blocker of a block at or after the end of its lease (a price sweep in the same end-blocker never
   deactivates it). *)
Theorem C04_node_deactivation_cause : forall s o s' a n,
  life_inv s -> step s o = OOk s' -> node_act s !! a = Some n -> node_act s' !! a = None ->
  (exists from, o = OTx (MNodeUpdateStatus from SInactive) /\ ta_bytes from = a) \/ (o = OEnd /\ nd_inactive_at n <= now s).
Proof. exact node_deactivation_cause. Qed.

(* Still checked by the implementation-side monitor only: "settled exactly once" at the level of EVENTS
   (the model settles in the same step that deletes the record, and removed identifiers never return:
   C04_removed_stays_removed). *)

(* THE EVENT LIST (the observable the correspondence check compares with the real chain's events).
   In the events of one whole operation of any kind the removal event of session [id]
   ("session.EventUpdateStatus", status inactive, that identifier) occurs exactly once if the stored
   session disappears in this operation and not at all otherwise; its settlement payment event
   ("subscription.EventPayForSession" carrying that session identifier) occurs at most as often. *)
Theorem C04_session_events_in_one_operation : forall s o s' id,
  life_inv s -> step s o = OOk s' ->
  cnt (is_removed_ev id) (events s') = removed_in s s' id /\
  cnt (is_paysess_ev id) (events s') <= removed_in s s' id.
Proof. exact step_session_events. Qed.

(* Over a whole history (the concatenated event lists of all its operations): a session is removed --
   and settled -- at most once, and exactly once if it was stored at the start and is gone at the end. *)
Theorem C04_session_settled_at_most_once : forall ops s id,
  life_inv s -> wf_hist wf_op_life s ops ->
  cnt (is_removed_ev id) (trace s ops) <= 1 /\
  cnt (is_paysess_ev id) (trace s ops) <= cnt (is_removed_ev id) (trace s ops).
Proof. exact trace_settled_at_most_once. Qed.

Theorem C04_session_settled_exactly_once : forall ops s i s' id x,
  life_inv s -> wf_hist wf_op_life s ops -> run_from s ops i = RunOk s' ->
  sessions s !! id = Some x -> sessions s' !! id = None ->
  cnt (is_removed_ev id) (trace s ops) = 1.
Proof. exact trace_settled_exactly_once. Qed.

(* An hourly payout event for payout [id] occurs only in a begin-blocker, at most once per block, only
   when the payout is due (next_at <= block time) and its subscription is active, and takes exactly
   one hour off the payout while moving its due time on by exactly one hour: at most once per due
   hour and never before it is due. *)
Theorem C04_hourly_payout_once_per_due_hour : forall s o s' id,
  life_inv s -> step s o = OOk s' ->
  let k := cnt (is_payout_ev id) (events s') in
  k = 0 \/
  (k = 1 /\ exists t po, o = OBegin t /\ payouts s !! id = Some po /\ po_next_at po <= t /\ 0 < po_hours po /\
            (exists sb, subs s !! id = Some sb /\ sb_status sb = SActive) /\
            payouts s' !! id = Some (po <| po_hours := po_hours po - 1 |>
                                        <| po_next_at := if po_hours po - 1 =? 0 then tzero else po_next_at po + HOUR |>)).
Proof. exact step_payout_events. Qed.

(* ... and over a whole history a payout is paid at most as many times as it has hours left (so a subscription for h hours
   is paid at most h hourly payouts in total, whatever the block gaps and stalls) *)
Theorem C04_hourly_payouts_within_hours : forall ops s id po,
  life_inv s -> wf_hist wf_op_life s ops -> payouts s !! id = Some po ->
  cnt (is_payout_ev id) (trace s ops) <= Z.max 0 (po_hours po).
Proof. exact trace_payouts_within_hours. Qed.

(* non-vacuity: in the witness history session 1 is removed once and paid for once, payouts 1 and 3 are
   each paid twice (in two different blocks), among 43 events *)
Example C04_events_nonvacuous :
  let tr := trace (init wt_genesis) (wt_ops1 ++ wt_ops2 ++ wt_ops3) in
  (length tr, map (fun id => (cnt (is_removed_ev id) tr, cnt (is_paysess_ev id) tr, cnt (is_payout_ev id) tr)) [1; 2; 3])
  = (43%nat, [(1, 1, 2); (0, 0, 0); (0, 0, 2)]).
Proof. vm_compute. reflexivity. Qed.


(* non-vacuity: the witness history satisfies the hypotheses, and in its last block a session was
   settled and removed exactly at its deadline while the other one lives on *)
Example C04_nonvacuous :
  par_ok wt_params /\
  wt_obs wt_state2 (fun s => (ss_status <$> sessions s !! 1, ss_inactive_at <$> sessions s !! 1)) = Some (Some SPending, Some 2120) /\
  wt_obs wt_state3 (fun s => (size (sessions s), ss_status <$> sessions s !! 2, bool_decide (now s < default 0 (ss_inactive_at <$> sessions s !! 2))))
    = Some (1%nat, Some SPending, true).
Proof. split; [split; vm_compute; intuition discriminate|]. split; vm_compute; reflexivity. Qed.

(* the witness history is well formed (increasing block times), so C04_invariant applies to it *)
Example C04_witness_well_formed : wf_hist wf_op_life (init wt_genesis) (wt_ops1 ++ wt_ops2 ++ wt_ops3).
Proof. vm_compute. repeat split. Qed.

Print Assumptions C04_invariant.
Print Assumptions C04_invariant_inductive.
Print Assumptions C04_status_forward.
Print Assumptions C04_removed_stays_removed.
Print Assumptions C04_deadlines_met.
Print Assumptions C04_only_due_entries_scanned.
Print Assumptions C04_subscription_expiry_exact.
Print Assumptions C04_session_expiry_exact.
Print Assumptions C04_node_expiry_exact.
Print Assumptions C04_session_within_subscription.
Print Assumptions C04_payout_exact.
Print Assumptions C04_subscription_demotion_cause.
Print Assumptions C04_subscription_removal_cause.
Print Assumptions C04_subscription_untouched_otherwise.
Print Assumptions C04_session_demotion_cause.
Print Assumptions C04_session_removal_cause.
Print Assumptions C04_pending_session_deadline_fixed.
Print Assumptions C04_node_deactivation_cause.
Print Assumptions C04_session_events_in_one_operation.
Print Assumptions C04_session_settled_at_most_once.
Print Assumptions C04_session_settled_exactly_once.
Print Assumptions C04_hourly_payout_once_per_due_hour.
Print Assumptions C04_hourly_payouts_within_hours.
