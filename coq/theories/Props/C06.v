(* C06 — Bandwidth quota is conserved: sharing moves it, usage only consumes it.
   Statements only; proofs are in Proofs/Quota.v and Proofs/QuotaSum.v. *)
From Hub Require Import Base.Prelude Base.Arith Model.Types Model.Keeper Model.Handlers Model.Hooks Model.Step.
From Hub Require Import Proofs.Tactics Proofs.Frames Proofs.KeysInv Proofs.Lifecycle Proofs.Quota Proofs.InvDefs Proofs.QuotaSum Proofs.Link Proofs.UsageCause.

(* For every allocation 0 <= used <= granted, at every point of every history from genesis
   (after every transaction and every block hook). *)
Theorem C06_used_within_granted : forall g ops s' k al,
  run (init g) ops = RunOk s' -> allocs s' !! k = Some al -> 0 <= al_used al <= al_granted al.
Proof.
  intros g ops s' k al H Hal.
  exact (q_alloc _ (quota_run ops (init g) 0%nat s' (kinv_init g) (quota_inv_init g) H) _ _ Hal).
Qed.

Theorem C06_invariant_inductive : forall s o s', kinv s -> quota_inv s -> step s o = OOk s' -> quota_inv s'.
Proof. exact quota_step. Qed.

(* Used never decreases and grows only when a session of that very holder on that very
   subscription is settled (the session is inactive-pending and is being removed), by at most
   the bytes that session reported; settlement never changes a grant. *)
Theorem C06_usage_only_by_own_settlement : forall s e s' x,
  kinv s -> quota_inv s -> session_expire_one s e = Ok s' -> sessions s !! e.2 = Some x ->
  forall k al al', allocs s !! k = Some al -> allocs s' !! k = Some al' ->
    al_granted al' = al_granted al /\ al_used al <= al_used al' /\
    (al_used al < al_used al' -> k = (ss_sub x, ss_addr x) /\ ss_status x = SPending /\ al_used al' <= al_used al + (ss_up x + ss_down x)).
Proof. exact settlement_usage. Qed.

(* ... and across one WHOLE operation of any kind (any transaction -- the usage report itself included --, either block
   hook with all its loop iterations, governance): the used bytes of a stored allocation never decrease, and they
   can grow only in the end-blocker, where the theorem above names the settled session iteration by iteration. *)
Theorem C06_usage_grows_only_in_end_block : forall k s o s' al al',
  life_inv s -> quota_inv s -> step s o = OOk s' ->
  allocs s !! k = Some al -> allocs s' !! k = Some al' ->
  al_used al <= al_used al' /\ (o <> OEnd -> al_used al' = al_used al).
Proof. exact usage_grows_only_in_end_block. Qed.

(* Sharing quota with another address moves it but never creates or destroys it: the granted
   bytes of every subscription add up to the same total before and after an accepted MsgAllocate,
   and (C06_used_within_granted) it never leaves a holder with less than already used. *)
Theorem C06_sharing_conserves : forall s from id to b s',
  kinv_sub s -> h_sub_allocate s from id to b = Ok s' -> forall id0, gsum s' id0 = gsum s id0.
Proof. exact allocate_conserves. Qed.

Theorem C06_settlement_conserves : forall s sid acc nd b s',
  kinv_sub s -> session_inactive_hook s sid acc nd b = Ok s' -> forall id0, gsum s' id0 = gsum s id0.
Proof. exact settlement_conserves. Qed.

(* A purchase grants exactly what was bought (10^9 bytes per gigabyte, resp. the plan's
   gigabytes) to the new subscription and nothing to any other. *)
Theorem C06_node_purchase_grants : forall s acc nd g h dn s' id,
  kinv_sub s -> create_sub_for_node s acc nd g h dn = Ok (s', id) ->
  gsum s' id = GB * g /\ forall id0, id0 <> id -> gsum s' id0 = gsum s id0.
Proof. exact node_purchase_grants. Qed.

Theorem C06_plan_purchase_grants : forall s acc pid dn s' id,
  kinv_sub s -> create_sub_for_plan s acc pid dn = Ok (s', id) ->
  (exists p, get_plan s pid = Some p /\ gsum s' id = GB * pl_gb p) /\ forall id0, id0 <> id -> gsum s' id0 = gsum s id0.
Proof. exact plan_purchase_grants. Qed.

(* The exact effect of an accepted MsgAllocate on the two allocations. *)
Theorem C06_allocate_effect : forall s from id to b s',
  h_sub_allocate s from id to b = Ok s' ->
  exists sb fal,
    subs s !! id = Some sb /\ allocs s !! (id, ta_bytes from) = Some fal /\ ta_bytes from <> ta_bytes to /\
    let tg := match allocs s !! (id, ta_bytes to) with Some t => al_granted t | None => 0 end in
    let tu := match allocs s !! (id, ta_bytes to) with Some t => al_used t | None => 0 end in
    let tal := match allocs s !! (id, ta_bytes to) with Some t => t | None => {| al_id := id; al_addr := ta_bytes to; al_granted := 0; al_used := 0 |} end in
    al_used fal <= al_granted fal + tg - b /\ tu <= b /\
    allocs s' = <[(id, ta_bytes to) := tal <| al_granted := b |>]>
                  (<[(id, ta_bytes from) := fal <| al_granted := al_granted fal + tg - b |>]> (allocs s)).
Proof. exact h_sub_allocate_spec. Qed.

(* A holder whose quota is exhausted cannot start a new session. *)
Theorem C06_exhausted_cannot_start : forall s from id nd s' sb,
  h_sess_start s from id nd = Ok s' -> subs s !! id = Some sb ->
  (match sb_kind sb with KNode _ _ h _ => h = 0 | KPlan _ _ => True end) ->
  exists al, allocs s !! (id, ta_bytes from) = Some al /\ al_used al < al_granted al.
Proof. exact exhausted_cannot_start. Qed.

(* In every state reachable from any genesis by any history, the granted bytes of the allocations of
   every live subscription add up to exactly what was bought: 10^9 bytes per purchased gigabyte of a
   pay-as-you-go subscription (nothing for an hourly one), 10^9 bytes per gigabyte of the plan for a
   plan subscription -- sharing moves quota between holders, settlement and expiry of OTHER
   subscriptions never touch it, nothing creates or destroys it. *)
Theorem C06_granted_sum_is_bought : forall g ops s' id sb,
  run (init g) ops = RunOk s' -> subs s' !! id = Some sb ->
  match sb_kind sb with
  | KNode _ gb _ _ => gsum s' id = GB * gb
  | KPlan pid _ => exists p, get_plan s' pid = Some p /\ gsum s' id = GB * pl_gb p
  end.
Proof. exact granted_sum_is_bought. Qed.

Theorem C06_sum_invariant_inductive : forall s o s', kinv s -> idx_sub s -> sum_inv s -> step s o = OOk s' -> sum_inv s'.
Proof. exact sum_step. Qed.

Print Assumptions C06_used_within_granted.
Print Assumptions C06_invariant_inductive.
Print Assumptions C06_usage_only_by_own_settlement.
Print Assumptions C06_sharing_conserves.
Print Assumptions C06_settlement_conserves.
Print Assumptions C06_node_purchase_grants.
Print Assumptions C06_plan_purchase_grants.
Print Assumptions C06_allocate_effect.
Print Assumptions C06_exhausted_cannot_start.
Print Assumptions C06_granted_sum_is_bought.
Print Assumptions C06_sum_invariant_inductive.
Print Assumptions C06_usage_grows_only_in_end_block.
