(* C07 — Only a resource's owner can change it; others are rejected without effect.
   Statements only; proofs are in Proofs/Auth.v.

   Shape: "accepted => sent by the owner".  A message that is not accepted is [ORejected],
   and a rejected transaction leaves the whole state unchanged by construction of [step]
   (baseapp's cache-context discipline; the harness checks it on the real keepers by
   comparing a raw dump of every store before and after each rejected transaction). *)
From Hub Require Import Base.Prelude Base.Arith Model.Types Model.Keeper Model.Handlers Model.Hooks Model.Step.
From Hub Require Import Proofs.Tactics Proofs.Frames Proofs.KeysInv Proofs.Auth.

Theorem C07_rejected_without_effect : forall s o ops i,
  step s o = ORejected -> run_from s (o :: ops) i = run_from (clear_events s) ops (S i).
Proof. intros s o ops i H. simpl. rewrite H. reflexivity. Qed.

(* plans, their status and their node links: only the plan's provider (provider-role text of
   exactly the provider's bytes, lower case) *)
Theorem C07_plan_status : forall s from id st s',
  step s (OTx (MPlanUpdateStatus from id st)) = OOk s' -> exists p, get_plan s id = Some p /\ from = canon RProv (pl_prov p).
Proof. exact auth_plan_update_status. Qed.
Theorem C07_plan_link : forall s from id nd s',
  step s (OTx (MPlanLink from id nd)) = OOk s' -> exists p, get_plan s id = Some p /\ from = canon RProv (pl_prov p).
Proof. exact auth_plan_link. Qed.
Theorem C07_plan_unlink : forall s from id nd s',
  step s (OTx (MPlanUnlink from id nd)) = OOk s' -> exists p, get_plan s id = Some p /\ from = canon RProv (pl_prov p).
Proof. exact auth_plan_unlink. Qed.

(* cancelling or sharing a subscription: only its owner *)
Theorem C07_subscription_cancel : forall s from id s',
  step s (OTx (MSubCancel from id)) = OOk s' ->
  exists sb, subs s !! id = Some sb /\ ta_bytes from = sb_addr sb /\ ta_role from = RAcc.
Proof. exact auth_sub_cancel. Qed.
Theorem C07_subscription_share : forall s from id to bytes s',
  step s (OTx (MSubAllocate from id to bytes)) = OOk s' ->
  exists sb, subs s !! id = Some sb /\ ta_bytes from = sb_addr sb /\ ta_role from = RAcc.
Proof. exact auth_sub_allocate. Qed.

(* ending a session: only the account that started it *)
Theorem C07_session_end : forall s from id rating s',
  step s (OTx (MSessEnd from id rating)) = OOk s' -> exists x, sessions s !! id = Some x /\ from = canon RAcc (ss_addr x).
Proof. exact auth_sess_end. Qed.

(* usage reports: only the session's node and, when proof verification is enabled, only with a
   valid signature of the subscriber over exactly the reported figures *)
Theorem C07_usage_report : forall s from id up down duration sig_len sig_ok s',
  step s (OTx (MSessUpdate from id up down duration sig_len sig_ok)) = OOk s' ->
  exists x, sessions s !! id = Some x /\ from = canon RNode (ss_node x) /\ (p_sess_proof (pars s) = true -> sig_ok = true).
Proof. exact auth_sess_update. Qed.

(* a session on a pay-as-you-go subscription: only the subscriber *)
Theorem C07_session_start_own_subscription : forall s from id nd s' sb n g h d,
  step s (OTx (MSessStart from id nd)) = OOk s' -> subs s !! id = Some sb -> sb_kind sb = KNode n g h d ->
  from = canon RAcc (sb_addr sb).
Proof. exact auth_sess_start_node_subscription. Qed.

(* token swaps: only the configured approver *)
Theorem C07_swap : forall s from hash receiver amount s',
  step s (OTx (MSwap from hash receiver amount)) = OOk s' -> p_swap_approver (pars s) = from.
Proof. exact auth_swap. Qed.

(* a provider or node record is changed only by a message from that provider or node: these
   messages act on the record stored under the sender's own bytes and on no other record *)
Theorem C07_provider_update_own_record_only : forall s from n i w d ok st s',
  kinv s -> step s (OTx (MProvUpdate from n i w d ok st)) = OOk s' ->
  forall a, a <> ta_bytes from -> prov_act s' !! a = prov_act s !! a /\ prov_inact s' !! a = prov_inact s !! a.
Proof. exact auth_prov_update_isolated. Qed.
Theorem C07_node_update_own_record_only : forall s from gb hr url ok s',
  kinv s -> step s (OTx (MNodeUpdateDetails from gb hr url ok)) = OOk s' ->
  forall a, a <> ta_bytes from -> node_act s' !! a = node_act s !! a /\ node_inact s' !! a = node_inact s !! a.
Proof. exact auth_node_update_details_isolated. Qed.
Theorem C07_node_status_own_record_only : forall s from st s',
  kinv s -> step s (OTx (MNodeUpdateStatus from st)) = OOk s' ->
  forall a, a <> ta_bytes from -> node_act s' !! a = node_act s !! a /\ node_inact s' !! a = node_inact s !! a.
Proof. exact auth_node_update_status_isolated. Qed.
Theorem C07_node_register_own_record_only : forall s from gb hr url ok s',
  step s (OTx (MNodeRegister from gb hr url ok)) = OOk s' ->
  forall a, a <> ta_bytes from -> node_act s' !! a = node_act s !! a /\ node_inact s' !! a = node_inact s !! a.
Proof. exact auth_node_register_isolated. Qed.

(* O1 (DESIGN section 1): the owner's own address written in upper case is rejected too —
   owner checks compare texts; safe direction only *)
Example C07_uppercase_owner_rejected :
  forall s id st p, get_plan s id = Some p ->
  step s (OTx (MPlanUpdateStatus {| ta_role := RProv; ta_upper := true; ta_bytes := pl_prov p |} id st)) <> OOk s.
Proof.
  intros s id st p Hp H. apply auth_plan_update_status in H as (p' & Hp' & E). rewrite Hp in Hp'. injection Hp' as <-. discriminate E.
Qed.

Print Assumptions C07_plan_status.
Print Assumptions C07_plan_link.
Print Assumptions C07_plan_unlink.
Print Assumptions C07_subscription_cancel.
Print Assumptions C07_subscription_share.
Print Assumptions C07_session_end.
Print Assumptions C07_usage_report.
Print Assumptions C07_session_start_own_subscription.
Print Assumptions C07_swap.
Print Assumptions C07_provider_update_own_record_only.
Print Assumptions C07_node_update_own_record_only.
Print Assumptions C07_node_status_own_record_only.
Print Assumptions C07_node_register_own_record_only.
