(* C02 — Node-subscription deposits settle exactly: paid + refunded = deposited.
   Statements only; proofs are in Proofs/Ledger1.v, Ledger2.v, Ledger3.v, LedgerClosed.v
   ([ledger_inv], [unsettled], [ledger_total] are defined in Proofs/InvDefs.v). *)
From Hub Require Import Base.Prelude Base.Arith Model.Types Model.Keeper Model.Handlers Model.Hooks Model.Step.
From Hub Require Import Proofs.Tactics Proofs.Sorting Proofs.Frames Proofs.Money Proofs.KeysInv Proofs.ArithThm Proofs.Quota Proofs.Pricing
  Proofs.InvDefs Proofs.IndexSub Proofs.IndexSub2 Proofs.Ledger1 Proofs.Ledger2 Proofs.Ledger3 Proofs.LedgerClosed.

(* In every state reachable from any genesis by any history — after every transaction and every
   block hook, not only at block boundaries — each account's escrow record equals, denomination by
   denomination, the sum over that account's live pay-as-you-go subscriptions of the part not yet
   settled: deposit minus the (rounded-up) price of the bytes already settled for a per-gigabyte
   subscription, hourly price times the hours not yet paid out for a per-hour one. *)
Theorem C02_ledger_equation : forall g ops s a d,
  run (init g) ops = RunOk s -> amount_of (dep_of s a) d = ledger_total s a d.
Proof. exact reachable_ledger_equation. Qed.

Theorem C02_ledger_everywhere : forall g ops s, run (init g) ops = RunOk s -> ledger_inv s.
Proof. exact ledger_reachable. Qed.

Theorem C02_invariant_inductive : forall s o s',
  kinv s -> quota_inv s -> idx_sub s -> ledger_inv s -> step s o = OOk s' -> ledger_inv s'.
Proof. exact ledger_step_closed. Qed.

(* Nobody is charged beyond their deposit: the unsettled part of every live subscription stays
   between 0 and the deposit taken at purchase. *)
Theorem C02_never_overcharged : forall s id sb n g h dep,
  kinv s -> idx_sub s -> ledger_inv s -> subs s !! id = Some sb -> sb_kind sb = KNode n g h dep ->
  forall a d, 0 <= unsettled s a d sb <= dep.2.
Proof. exact never_overcharged. Qed.

(* One hourly payout: exactly the hourly price leaves the subscriber's record (in the price's
   denomination, nothing else), the unsettled part of that subscription goes down by the same amount,
   every other subscription is untouched, and the money arrives at the fee collector and the node. *)
Theorem C02_payout_exact : forall s e s' po sb,
  kinv s -> idx_sub s -> ledger_inv s -> e ∈ pay_q s -> payout_step s e = Ok s' ->
  payouts s !! e.2 = Some po -> subs s !! e.2 = Some sb ->
  let amt := (po_price po).2 in
  let d0 := (po_price po).1 in
  0 <= amt /\ po_addr po = sb_addr sb /\
  (forall a d, damt s' a d = damt s a d - dlt (po_addr po) d0 amt a d) /\
  (forall a d, unsettled s' a d sb = unsettled s a d sb - dlt (po_addr po) d0 amt a d) /\
  subs s' = subs s /\
  (forall id' sb', id' <> e.2 -> subs s !! id' = Some sb' -> forall a d, unsettled s' a d sb' = unsettled s a d sb') /\
  exists fee, 0 <= fee <= amt /\
    forall x d', bal s' x d' = bal s x d' + moved (c_deposit (cfg s)) (c_feecoll (cfg s)) d0 fee x d'
                                          + moved (c_deposit (cfg s)) (po_node po) d0 (amt - fee) x d'.
Proof. exact payout_exact. Qed.

(* One metered settlement: the charge is the difference of the exact ceilings of price x bytes
   before and after (so the cumulative charge is the ceiling of price x cumulative bytes), taken from
   the subscriber's own record only. *)
Theorem C02_settlement_exact : forall s sid acc nd b s' x sb n g dep,
  kinv s -> idx_sub s -> ledger_inv s -> 0 <= b -> session_inactive_hook s sid acc nd b = Ok s' ->
  sessions s !! sid = Some x -> subs s !! ss_sub x = Some sb -> sb_kind sb = KNode n g 0 dep ->
  exists al used',
    acc = sb_addr sb /\ allocs s !! (ss_sub x, acc) = Some al /\
    used' = (if al_granted al - al_used al <? b then al_granted al else al_used al + b) /\
    let amt := afb (Z.quot dep.2 g) used' - afb (Z.quot dep.2 g) (al_used al) in
    0 <= amt /\
    (forall a d, damt s' a d = damt s a d - dlt acc dep.1 amt a d) /\
    (forall a d, unsettled s' a d sb = unsettled s a d sb - dlt acc dep.1 amt a d) /\
    subs s' = subs s /\
    (forall id' sb', id' <> ss_sub x -> subs s !! id' = Some sb' -> forall a d, unsettled s' a d sb' = unsettled s a d sb').
Proof. exact settlement_exact. Qed.

(* When a subscription is removed: the refund is exactly its unsettled part, so what was paid to the
   node and the fee collector so far plus the refund is exactly the deposit taken at purchase; the
   subscriber's balance is credited by exactly that, other accounts' records do not change. *)
Theorem C02_removal_refund_exact : forall s e s' sb,
  kinv s -> idx_sub s -> ledger_inv s -> sub_expire_one s e = Ok s' ->
  subs s !! e.2 = Some sb -> sb_status sb <> SActive ->
  (forall a d, damt s' a d = damt s a d - unsettled s a d sb) /\
  (forall a d, a <> sb_addr sb -> damt s' a d = damt s a d) /\
  subs s' = delete e.2 (subs s) /\
  (forall id' sb', id' <> e.2 -> subs s !! id' = Some sb' -> forall a d, unsettled s' a d sb' = unsettled s a d sb') /\
  (forall n g h dep, sb_kind sb = KNode n g h dep ->
     let refund := unsettled s (sb_addr sb) dep.1 sb in
     paid_so_far s sb + refund = dep.2 /\ 0 <= refund <= dep.2 /\
     forall x d', bal s' x d' = bal s x d' + moved (c_deposit (cfg s)) (sb_addr sb) dep.1 refund x d').
Proof. exact removal_refund_exact. Qed.

(* One account's escrow is never spent on another's obligations: a debit of at most the unsettled
   part of the very subscription being processed is always covered by its owner's record ... *)
Theorem C02_no_cross_subsidy : forall s a d id sb amt,
  ledger_inv s -> subs s !! id = Some sb -> 0 < amt <= unsettled s a d sb -> exists c, dep_remaining s a d amt = Ok c.
Proof. exact ledger_covers. Qed.

(* ... and a debit of one account's record changes no other account's record. *)
Theorem C02_debit_own_record_only : forall s from m c s',
  z_dep_to_module s from m c = Ok s' \/ z_dep_to_account s from m c = Ok s' -> forall a d, a <> from -> damt s' a d = damt s a d.
Proof. exact debit_own_record_only. Qed.

(* non-vacuity: one account with a per-gigabyte subscription (500000001 bytes settled: 351 of 1400
   charged, rounded up) and an hourly one (one payout of 11 made, 2 hours left): record 1071 = 1049 + 22 *)
Example C02_nonvacuous :
  match run (init ledger_ex_genesis) ledger_ex_ops with
  | RunOk s =>
      damt s [9%N] 1%N = 1071 /\ ledger_total s [9%N] 1%N = 1071 /\
      map (fun kv => unsettled s [9%N] 1%N kv.2) (map_to_list (subs s)) = [1049; 22] /\
      (al_used <$> allocs s !! (1, [9%N])) = Some 500000001 /\
      ((fun po => (po_price po, po_hours po)) <$> payouts s !! 2) = Some ((1%N, 11), 2)
  | _ => False
  end.
Proof. exact ledger_nonvacuous. Qed.

Print Assumptions C02_ledger_equation.
Print Assumptions C02_ledger_everywhere.
Print Assumptions C02_invariant_inductive.
Print Assumptions C02_never_overcharged.
Print Assumptions C02_payout_exact.
Print Assumptions C02_settlement_exact.
Print Assumptions C02_removal_refund_exact.
Print Assumptions C02_no_cross_subsidy.
Print Assumptions C02_debit_own_record_only.
