(* C16 — Metering arithmetic is exact and monotone.
   Statements only; proofs are in Proofs/ArithThm.v. *)
From Hub Require Import Base.Prelude Base.Arith Proofs.ArithThm.

(* The charge for b bytes at per-gigabyte price p is exactly the smallest whole
   number of base units not below p*b/10^9, for all 0 <= p, b <= 2^128. *)
Theorem C16_charge_is_ceiling : forall p b,
  0 <= p <= 2 ^ 128 -> 0 <= b <= 2 ^ 128 ->
  amount_for_bytes p b = Ok (cdiv (p * b) GB).
Proof. exact afb_exact. Qed.

Theorem C16_charge_is_least : forall p b r,
  0 <= p <= 2 ^ 128 -> 0 <= b <= 2 ^ 128 -> amount_for_bytes p b = Ok r ->
  p * b <= r * GB /\ (forall r', p * b <= r' * GB -> r <= r').
Proof. exact afb_least. Qed.

Theorem C16_zero_bytes_free : forall p, 0 <= p <= 2 ^ 128 -> amount_for_bytes p 0 = Ok 0.
Proof. exact afb_zero. Qed.

Theorem C16_charge_monotone : forall p b b' r r',
  0 <= p <= 2 ^ 128 -> 0 <= b <= b' -> b' <= 2 ^ 128 ->
  amount_for_bytes p b = Ok r -> amount_for_bytes p b' = Ok r' -> r <= r'.
Proof. exact afb_mono. Qed.

(* charging once for the sum never totals more than charging separately, and
   separate charges exceed it by at most one base unit *)
Theorem C16_cumulative_charge : forall p b1 b2 r1 r2 r,
  0 <= p <= 2 ^ 128 -> 0 <= b1 -> 0 <= b2 -> b1 + b2 <= 2 ^ 128 ->
  amount_for_bytes p b1 = Ok r1 -> amount_for_bytes p b2 = Ok r2 ->
  amount_for_bytes p (b1 + b2) = Ok r -> r <= r1 + r2 /\ r1 + r2 <= r + 1.
Proof. exact afb_subadditive. Qed.

(* a proportional share is the exactly (half-even) rounded product, never
   negative and never more than the coin *)
Theorem C16_share_exact : forall a s,
  0 <= a <= 2 ^ 128 -> 0 <= s <= P18 ->
  exists r, proportion a s = Ok r /\ r = chop_round (a * s) /\
            0 <= r <= a /\ - HALF18 <= r * P18 - a * s <= HALF18.
Proof. exact proportion_exact. Qed.

(* rounding up to a precision yields the smallest multiple not below the value *)
Theorem C16_ceil_to_multiple : forall pre v,
  0 < pre -> 0 <= v -> v + pre < MAXINT ->
  exists r, ceil_to1 pre v = Ok r /\ (pre | r) /\ v <= r < v + pre.
Proof. exact ceil_to_spec. Qed.

Theorem C16_ceil_to_least : forall pre v r m,
  0 < pre -> 0 <= v -> v + pre < MAXINT -> ceil_to1 pre v = Ok r ->
  (pre | m) -> v <= m -> r <= m.
Proof. exact ceil_to_least. Qed.

Theorem C16_ceil_to_identity : forall pre v, pre <= 0 -> ceil_to1 pre v = Ok v.
Proof. exact ceil_to_nonpositive. Qed.

(* non-vacuity: concrete instances, including a half-way rounding case *)
Example C16_ex1 : amount_for_bytes 1000003 123456789 = Ok 123458.
Proof. vm_compute. reflexivity. Qed.
Example C16_ex2 : proportion 3 (5 * 10 ^ 17) = Ok 2 /\ proportion 5 (5 * 10 ^ 17) = Ok 2.
Proof. vm_compute. split; reflexivity. Qed.
Example C16_ex3 : ceil_to1 1000 1234 = Ok 2000.
Proof. vm_compute. reflexivity. Qed.

Print Assumptions C16_charge_is_ceiling.
Print Assumptions C16_charge_is_least.
Print Assumptions C16_zero_bytes_free.
Print Assumptions C16_charge_monotone.
Print Assumptions C16_cumulative_charge.
Print Assumptions C16_share_exact.
Print Assumptions C16_ceil_to_multiple.
Print Assumptions C16_ceil_to_least.
Print Assumptions C16_ceil_to_identity.
