(* C12 — Exported genesis is valid and re-imports to an equivalent, live state.
   FALSE of the code as it stands (known findings F5, F8): the full statement is kept as a Definition,
   refuted by concrete reachable witnesses; what does hold is stated module by module.
   Statements only; proofs are in Proofs/GenesisRT.v, the model in Model/Genesis.v.

   [roundtrip s = Ok (v, s')]: v = per-module verdicts of the real Validate functions on ExportGenesis(s),
   s' = a fresh chain (same bank/supply/SDK-mint/time) after the real InitGenesis of that document.
   [genesis_defined s] = the store premises under which neither export nor import panics
   (status partitions consistent, plan links point at existing nodes and plans).
   The [*_index_ok], [*_store_ok], [*_records_ok], [plan_count_ok] premises are invariants of the keepers,
   named in Proofs/GenesisRT.v and proved separately from C12 (index / record invariants). *)
From Hub Require Import Base.Prelude Base.Arith Model.Types Model.Keeper Model.Handlers Model.Hooks Model.Step Model.Genesis.
From Hub Require Import Proofs.Tactics Proofs.Sorting Proofs.KeysInv Proofs.Link Proofs.GenesisRT Proofs.GenesisReach Proofs.RecValid Proofs.RecValidClosed Proofs.GenesisIdentity Proofs.Witness.

(* the property as stated (Definition only: it is false) *)
Definition C12_statement : Prop := C12_full_statement.

Theorem C12_refuted : ~ C12_full_statement.
Proof. exact full_statement_refuted. Qed.

(* F5: a reachable state with one subscription and its allocation; the export validates, the re-imported
   chain has no subscription, no allocation, and its subscription counter is back at 0 *)
Theorem C12_refuted_subscriptions :
  exists ops s v s', run (init w_genesis) ops = RunOk s /\ roundtrip s = Ok (v, s') /\ verdict_ok v = true /\
    is_Some (subs s !! 1) /\ is_Some (allocs s !! (1, [8%N])) /\ sub_count s = 1 /\
    subs s' = ∅ /\ allocs s' = ∅ /\ sub_count s' = 0.
Proof. exact refuted_subscriptions. Qed.

(* F8: session 1 was started, ended and removed; the counter is 1; after the round trip it is 0 again *)
Theorem C12_refuted_session_counter :
  exists ops s v s', run (init w_genesis) ops = RunOk s /\ roundtrip s = Ok (v, s') /\ verdict_ok v = true /\
    sessions s = ∅ /\ sess_count s = 1 /\ sess_count s' = 0.
Proof. exact refuted_session_counter. Qed.

(* consequence of F5: re-imported while session 1 is pending, the chain halts in the EndBlock that settles it *)
Theorem C12_refuted_continuation_halts :
  exists ops s v s', run (init w_genesis) ops = RunOk s /\ roundtrip s = Ok (v, s') /\ verdict_ok v = true /\
    (exists a, run s [OBegin 3000; OEnd] = RunOk a) /\ (exists b i, run s' [OBegin 3000; OEnd] = RunHalt b i).
Proof. exact refuted_continuation_halts. Qed.

(* for EVERY state: nothing of the subscription module but its parameter survives *)
Theorem C12_subscriptions_always_lost : forall s v s',
  genesis_defined s -> roundtrip s = Ok (v, s') ->
  subs s' = ∅ /\ allocs s' = ∅ /\ payouts s' = ∅ /\ sub_count s' = 0 /\
  sub_q s' = ∅ /\ sub_acc s' = ∅ /\ sub_node s' = ∅ /\ sub_plan s' = ∅ /\
  pay_q s' = ∅ /\ pay_acc s' = ∅ /\ pay_node s' = ∅ /\ pay_acc_node s' = ∅.
Proof. exact subscriptions_always_lost. Qed.

(* export and import never panic on a consistent store *)
Theorem C12_roundtrip_defined : forall s, genesis_defined s -> exists v s', roundtrip s = Ok (v, s').
Proof. exact roundtrip_defined. Qed.

(* FOR EVERY REACHABLE STATE (any genesis, any history): the export / import round trip is defined and gives back, module by
   module, exactly the records and the rebuilt indices of providers, nodes (with the lease queue), plans (with the provider
   index, the node links and the counter), deposits, sessions (with all five indices), swaps, the inflation schedule and the
   SDK mint parameters, and all parameter sets -- the premises of the per-module theorems below are invariants of every
   history (Proofs/GenesisReach.v).  What is lost is exactly the subscription module's state (known finding F5). *)
Theorem C12_reachable_roundtrip : forall g ops s, run (init g) ops = RunOk s ->
  exists v s', roundtrip s = Ok (v, s') /\
    deposits s' = deposits s /\
    prov_act s' = prov_act s /\ prov_inact s' = prov_inact s /\
    node_act s' = node_act s /\ node_inact s' = node_inact s /\ node_q s' = node_q s /\
    plan_act s' = plan_act s /\ plan_inact s' = plan_inact s /\ plan_prov s' = plan_prov s /\
    node_plan s' = node_plan s /\ plan_count s' = plan_count s /\
    sessions s' = sessions s /\ sess_q s' = sess_q s /\ sess_acc s' = sess_acc s /\ sess_node s' = sess_node s /\
    sess_sub s' = sess_sub s /\ sess_alloc s' = sess_alloc s /\
    swaps s' = swaps s /\ inflations s' = inflations s /\
    mint_max s' = mint_max s /\ mint_min s' = mint_min s /\ mint_rate s' = mint_rate s /\ mint_inflation s' = mint_inflation s /\
    pars s' = pars s /\
    subs s' = ∅ /\ allocs s' = ∅ /\ payouts s' = ∅ /\ sub_count s' = 0.
Proof. exact reachable_roundtrip. Qed.

Theorem C12_reachable_genesis_defined : forall g ops s, run (init g) ops = RunOk s -> genesis_defined s.
Proof. exact reachable_genesis_defined. Qed.

(* THE EXPORTED GENESIS IS VALID, for every state reachable inside the configuration domain (valid genesis parameter
   sets -- governance keeps them valid by itself: a proposal is executed only if every change passes its per-key validator,
   and those are what Params.Validate checks --, validated inflation schedule, block times after the zero time): every stored record passes its module's
   Validate -- an inductive invariant over every handler and hook, including the end-of-block price sweep, the removal of
   emptied deposits, and every deadline written as now + delay -- so validate (export s) accepts every section. *)
Theorem C12_reachable_export_valid : forall g ops s,
  wf_genesis_rec g -> wf_hist wf_op_rec (init g) ops -> run (init g) ops = RunOk s ->
  exists v s', roundtrip s = Ok (v, s') /\ verdict_ok v = true.
Proof. exact reachable_export_valid. Qed.

Theorem C12_records_valid_inductive : forall s o s', kinv s -> rec_inv s -> wf_op_rec s o -> step s o = OOk s' -> rec_inv s'.
Proof. exact rec_step. Qed.

(** what holds, module by module: records and rebuilt indices agree, the exported part validates *)

Theorem C12_partial_deposit : forall s v s', genesis_defined s -> roundtrip s = Ok (v, s') ->
  deposits s' = deposits s /\ (dep_records_ok s -> v_deposit v = true).
Proof. exact partial_deposit. Qed.

Theorem C12_partial_provider : forall s v s', genesis_defined s -> roundtrip s = Ok (v, s') ->
  prov_act s' = prov_act s /\ prov_inact s' = prov_inact s /\
  (prov_records_ok s -> prov_params_ok (pars s) = true -> v_provider v = true).
Proof. exact partial_provider. Qed.

(* nodes: both status partitions and the lease queue *)
Theorem C12_partial_node : forall s v s', genesis_defined s -> roundtrip s = Ok (v, s') -> node_q_index_ok s ->
  node_act s' = node_act s /\ node_inact s' = node_inact s /\ node_q s' = node_q s /\
  (node_records_ok s -> node_params_ok (pars s) = true -> v_node v = true).
Proof. exact partial_node. Qed.

(* plans: both partitions, the by-provider index, the node links, the counter *)
Theorem C12_partial_plan : forall s v s', genesis_defined s -> roundtrip s = Ok (v, s') ->
  plan_prov_index_ok s -> plan_count_ok s ->
  plan_act s' = plan_act s /\ plan_inact s' = plan_inact s /\ plan_prov s' = plan_prov s /\
  node_plan s' = node_plan s /\ plan_count s' = plan_count s /\
  (plan_records_ok s -> v_plan v = true).
Proof. exact partial_plan. Qed.

(* sessions: records and all five indices; the counter comes back as exactly the largest live id (F8) *)
Theorem C12_partial_session : forall s v s', genesis_defined s -> roundtrip s = Ok (v, s') ->
  sess_store_ok s -> sess_index_ok s ->
  sessions s' = sessions s /\ sess_q s' = sess_q s /\ sess_acc s' = sess_acc s /\ sess_node s' = sess_node s /\
  sess_sub s' = sess_sub s /\ sess_alloc s' = sess_alloc s /\
  (forall id x, sessions s !! id = Some x -> id <= sess_count s') /\
  (sess_count s' = 0 \/ is_Some (sessions s !! sess_count s')) /\
  (sess_records_ok s -> sess_params_ok (pars s) = true -> v_session v = true).
Proof. exact partial_session. Qed.

Theorem C12_partial_swap : forall s v s', genesis_defined s -> roundtrip s = Ok (v, s') -> swap_store_ok s ->
  swaps s' = swaps s /\ (swap_records_ok s -> swap_params_ok (pars s) = true -> v_swap v = true).
Proof. exact partial_swap. Qed.

(* custommint: the schedule; the SDK mint parameters are carried by the SDK's own genesis *)
Theorem C12_partial_custommint : forall s v s', genesis_defined s -> roundtrip s = Ok (v, s') -> infl_store_ok s ->
  inflations s' = inflations s /\ mint_max s' = mint_max s /\ mint_min s' = mint_min s /\
  mint_rate s' = mint_rate s /\ mint_inflation s' = mint_inflation s /\
  (infl_records_ok s -> v_mint v = true).
Proof. exact partial_mint. Qed.

(* all five parameter sets; the x/params "modified" flags are all set in the first block after import *)
Theorem C12_partial_params : forall s v s', genesis_defined s -> roundtrip s = Ok (v, s') ->
  pars s' = pars s /\ modified s' = all_flags /\ (sub_params_ok (pars s) = true -> v_subscription v = true).
Proof. exact partial_params. Qed.

(* non-vacuity: the witness states are reachable, satisfy the premises' conclusion (export validates),
   and carry a node, a deposit, a subscription and a session *)
Example C12_nonvacuous_roundtrip : wit w_ops_live_session
  (fun s v s' => verdict_ok v && bool_decide (is_Some (node_act s' !! [7%N])) && bool_decide (is_Some (deposits s' !! [8%N])) &&
                 bool_decide (is_Some (sessions s' !! 1)) && bool_decide ((1, [8%N], 1) ∈ sess_alloc s') &&
                 bool_decide (is_Some (subs s !! 1))) = true.
Proof. vm_compute. reflexivity. Qed.

Print Assumptions C12_refuted.
Print Assumptions C12_refuted_subscriptions.
Print Assumptions C12_refuted_session_counter.
Print Assumptions C12_refuted_continuation_halts.
Print Assumptions C12_subscriptions_always_lost.
Print Assumptions C12_roundtrip_defined.
Print Assumptions C12_reachable_roundtrip.
Print Assumptions C12_reachable_genesis_defined.
Print Assumptions C12_reachable_export_valid.
Print Assumptions C12_records_valid_inductive.
Print Assumptions C12_partial_deposit.
Print Assumptions C12_partial_provider.
Print Assumptions C12_partial_node.
Print Assumptions C12_partial_plan.
Print Assumptions C12_partial_session.
Print Assumptions C12_partial_swap.
Print Assumptions C12_partial_custommint.
Print Assumptions C12_partial_params.

(* non-vacuity of the domain premises: the witness genesis and history satisfy them (and the exported genesis of the
   resulting state indeed validates: C12_nonvacuous_roundtrip) *)
(* THE ROUND TRIP IS THE IDENTITY wherever the genesis schema can carry the state: for every reachable state in which no
   subscription has been bought yet (the two counters the schema cannot carry, sub_count and sess_count, are still 0),
   export + re-import returns EXACTLY the original state -- all records, indices, counters, parameters, the SDK side --
   up to the event list (empty after an import) and the transient "parameter modified" marks (all set by InitGenesis,
   so the first end-blocker sweeps prices that are already inside their bounds).  Every continuation therefore gives
   the very same results on both chains.  With the refutation witnesses above this locates the failure of the full
   statement exactly in the subscription module's genesis and the session counter (known findings F5 / F8). *)
Theorem C12_roundtrip_is_identity_before_first_subscription : forall g ops s,
  run (init g) ops = RunOk s -> sub_count s = 0 -> sess_count s = 0 ->
  exists v, roundtrip s = Ok (v, clear_events s <| modified := all_flags |>).
Proof. exact reachable_roundtrip_identity. Qed.

Theorem C12_continuation_identical_before_first_subscription : forall g ops s,
  run (init g) ops = RunOk s -> sub_count s = 0 -> sess_count s = 0 -> forall ops2 i,
  exists v s', roundtrip s = Ok (v, s') /\ run_from s' ops2 i = run_from (clear_events s <| modified := all_flags |>) ops2 i.
Proof. exact reachable_continuation_identical. Qed.

(* non-vacuity: a reachable state with an active node in the lease queue, a provider, an active plan with a linked node,
   a recorded swap and both counters still 0 *)
Definition wi_ops : list op :=
  [ OBegin 1000;
    OTx (MNodeRegister (canon RAcc [7%N]) (Some [(1%N, 5)]) (Some [(1%N, 7)]) "https://n:1" true);
    OTx (MNodeUpdateStatus wt_node SActive);
    OTx (MProvRegister (canon RAcc [9%N]) "prov" "" "" "" true);
    OTx (MPlanCreate wt_prov 1000000 5 (Some [(1%N, 20)]));
    OTx (MPlanUpdateStatus wt_prov 1 SActive);
    OTx (MPlanLink wt_prov 1 wt_node);
    OTx (MSwap (canon RAcc [9%N]) (repeat 7%N 32) wt_acc 12345);
    OEnd ].
Example C12_identity_nonvacuous :
  match run (init wt_genesis) wi_ops with
  | RunOk s => (sub_count s, sess_count s, size (node_act s), size (node_q s), size (prov_inact s), size (plan_act s),
                size (node_plan s), size (swaps s), plan_count s) = (0, 0, 1%nat, 1%nat, 1%nat, 1%nat, 1%nat, 1%nat, 1)
  | _ => False
  end.
Proof. vm_compute. reflexivity. Qed.

Example C12_domain_nonvacuous : wf_genesis_rec w_genesis /\ wf_hist wf_op_rec (init w_genesis) w_ops_session_gone.
Proof.
  split; [split; [vm_compute; reflexivity|split]|].
  - repeat split; vm_compute; reflexivity.
  - intros it Hin. vm_compute in Hin. inversion Hin.
  - vm_compute. repeat split.
Qed.
Print Assumptions C12_roundtrip_is_identity_before_first_subscription.
Print Assumptions C12_continuation_identical_before_first_subscription.
