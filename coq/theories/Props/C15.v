(* C15 — Scheduled inflation changes take effect on time, once, in order.
   Statements only; proofs are in Proofs/MintThm.v. *)
From Hub Require Import Base.Prelude Base.Arith Model.Types Model.Keeper Model.Handlers Model.Hooks Model.Step.
From Hub Require Import Proofs.Tactics Proofs.Sorting Proofs.Frames Proofs.MintThm.
From Hub Require Import Gen.Wiring Proofs.WiringThm.

(* After the begin-of-block step at block time t: every entry with a timestamp at or before t
   has left the schedule, every later entry is untouched; if an entry was due, the minting
   parameters are those of the LATEST due entry and the inflation rate is its minimum;
   if none was due nothing changed.  [infl_ok]: entries are stored under their own timestamp
   and passed genesis validation (it holds at genesis and is preserved, see below). *)
Theorem C15_begin_block : forall s t s',
  infl_ok s -> step s (OBegin t) = OOk s' ->
  (forall k, inflations s' !! k = if bool_decide (k <= t) then None else inflations s !! k) /\
  (forall it, inflations s !! inf_ts it = Some it -> inf_ts it <= t ->
     (forall k x, inflations s !! k = Some x -> k <= t -> k <= inf_ts it) -> mint_is s' it) /\
  ((forall k x, inflations s !! k = Some x -> t < k) -> mint_same s s' /\ inflations s' = inflations s).
Proof. exact begin_step_mint. Qed.

(* Every other operation (transactions, governance, end-of-block) leaves the minting
   parameters and the schedule alone; entries are only ever removed, and only by the
   begin-of-block step of a block whose time has reached them. *)
Theorem C15_only_begin_block_applies : forall s o s',
  infl_ok s -> step s o = OOk s' ->
  infl_ok s' /\
  (forall k it, inflations s' !! k = Some it -> inflations s !! k = Some it) /\
  (forall k it, inflations s !! k = Some it -> inflations s' !! k = None -> exists t, o = OBegin t /\ k <= t) /\
  ((forall t, o <> OBegin t) -> mint_same s s' /\ inflations s' = inflations s).
Proof. exact schedule_step. Qed.

(* Applied at most once: an entry is removed when it is applied, and over any history the
   schedule only shrinks — a removed entry never comes back to be applied again. *)
Theorem C15_applied_at_most_once : forall ops s s',
  infl_ok s -> run s ops = RunOk s' ->
  infl_ok s' /\ (forall k it, inflations s' !! k = Some it -> inflations s !! k = Some it).
Proof. intros ops s s'. exact (schedule_run ops s 0%nat s'). Qed.

(* The step cannot panic (part of C03), and a validated genesis schedule satisfies [infl_ok]. *)
Theorem C15_never_halts : forall s t,
  infl_ok s -> exists s1, mint_begin_block (clear_events s <| now := t |>) = Ok s1.
Proof. exact mint_never_halts. Qed.

Theorem C15_genesis : forall g,
  Forall (fun it => mint_params_valid (inf_max it) (inf_min it) (inf_rate it) = true) (g_inflations g) ->
  infl_ok (init g).
Proof. exact infl_ok_init. Qed.

(* non-vacuity: two entries due in one block, one later; the later of the two due wins *)
Definition ex_cfg : config := {| c_deposit := [1%N]; c_feecoll := [2%N]; c_distr := [3%N]; c_swap := [4%N]; c_blocked := [] |}.
Definition ex_params : params :=
  {| p_prov_deposit := (1%N, 10); p_prov_share := 0; p_node_deposit := (1%N, 10); p_node_active := HOUR;
     p_max_gb := ∅; p_min_gb := ∅; p_max_hr := ∅; p_min_hr := ∅;
     p_max_sub_gb := 10; p_min_sub_gb := 1; p_max_sub_hr := 10; p_min_sub_hr := 1; p_node_share := 0;
     p_sub_delay := 120; p_sess_delay := 120; p_sess_proof := false;
     p_swap_enabled := true; p_swap_denom := 1%N; p_swap_approver := canon RAcc [9%N] |}.
Definition ex_genesis : genesis :=
  {| g_cfg := ex_cfg; g_balances := []; g_params := ex_params;
     g_inflations := [ {| inf_max := 30; inf_min := 10; inf_rate := 5; inf_ts := 100 |};
                       {| inf_max := 40; inf_min := 20; inf_rate := 6; inf_ts := 200 |};
                       {| inf_max := 50; inf_min := 25; inf_rate := 7; inf_ts := 900 |} ];
     g_mint := (1, 1, 1, 1); g_time := 0 |}.
Example C15_nonvacuous :
  match step (init ex_genesis) (OBegin 500) with
  | OOk s' => (mint_max s', mint_min s', mint_rate s', mint_inflation s') = (40, 20, 6, 20) /\
              map fst (map_to_list (inflations s')) = [900]
  | _ => False
  end.
Proof. vm_compute. split; reflexivity. Qed.

Section wiring.
Local Open Scope string_scope.
(* app wiring (regenerated from app/module.go on every run): the schedule hook runs before the SDK mint module's
   begin-blocker, which therefore mints with the parameters of the entry that became due in this very block *)
Theorem C15_schedule_hook_runs_before_sdk_mint : runs_before "customminttypes.ModuleName" "minttypes.ModuleName" begin_blockers.
Proof. exact custommint_before_mint. Qed.
End wiring.

Print Assumptions C15_begin_block.
Print Assumptions C15_only_begin_block_applies.
Print Assumptions C15_applied_at_most_once.
Print Assumptions C15_never_halts.
Print Assumptions C15_genesis.
Print Assumptions C15_schedule_hook_runs_before_sdk_mint.
