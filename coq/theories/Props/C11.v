(* C11 — Node prices and purchase sizes always respect the governance bounds.
   Statements only; proofs are in Proofs/Bounds.v. *)
From Hub Require Import Base.Prelude Base.Arith Model.Types Model.Keeper Model.Handlers Model.Hooks Model.Step.
From Hub Require Import Proofs.Tactics Proofs.Frames Proofs.Money Proofs.KeysInv Proofs.Bounds.
From Hub Require Import Gen.Wiring Proofs.WiringThm.

(* The invariant: for each of the four bound vectors, either it was modified in this block
   (flag of the x/params transient store) or every node is within it.  It holds at genesis
   and is preserved by every operation; [wf_op11]: the parameter set is in the domain of
   DESIGN section 5.1 (min <= max for every denomination bounded by both) when a block ends. *)
Theorem C11_invariant_inductive : forall s o s',
  kinv s -> bounds_inv s -> wf_op11 s o -> step s o = OOk s' -> bounds_inv s'.
Proof. intros s o s' Hi Hb Hw H. exact (proj1 (bounds_step s o s' Hi Hb Hw H)). Qed.

Theorem C11_genesis : forall g, bounds_inv (init g).
Proof. exact bounds_inv_init. Qed.

Theorem C11_every_reachable_state : forall ops s s',
  kinv s -> bounds_inv s -> wf_ops11 s ops -> run s ops = RunOk s' -> bounds_inv s'.
Proof. intros ops s s'. exact (bounds_run ops s 0%nat s'). Qed.

(* At every block boundary — right after the end-of-block step, also in the very block in
   which governance changed any subset of the four bound vectors (the change is applied
   before the marketplace end-blocker) — every registered node's per-gigabyte and per-hour
   prices lie within the CURRENT minimum and maximum of every bounded denomination. *)
Theorem C11_prices_within_bounds_at_block_end : forall s s',
  kinv s -> bounds_inv s -> params_consistent (pars s) -> step s OEnd = OOk s' -> all_within s'.
Proof. intros s s' Hi Hb Hw H. exact (proj2 (bounds_step s OEnd s' Hi Hb Hw H) eq_refl). Qed.

(* Registrations and price updates outside the bounds are rejected: an accepted one carries
   prices within the current bounds. *)
Theorem C11_register_checked : forall s from gb hr url s',
  h_node_register s from gb hr url = Ok s' ->
  within_max (coins_of gb) (p_max_gb (pars s)) /\ within_min (coins_of gb) (p_min_gb (pars s)) /\
  within_max (coins_of hr) (p_max_hr (pars s)) /\ within_min (coins_of hr) (p_min_hr (pars s)).
Proof.
  intros s from gb hr url s' H. unfold h_node_register in H.
  apply rbind_ok in H as (u1 & Hg & H). apply ensure_ok, bounds_ok_spec in Hg.
  apply rbind_ok in H as (u2 & Hh & H). apply ensure_ok, bounds_ok_spec in Hh. tauto.
Qed.

Theorem C11_update_checked : forall s from gb hr url s',
  h_node_update_details s from gb hr url = Ok s' ->
  (forall l, gb = Some l -> within_max (coins_of l) (p_max_gb (pars s)) /\ within_min (coins_of l) (p_min_gb (pars s))) /\
  (forall l, hr = Some l -> within_max (coins_of l) (p_max_hr (pars s)) /\ within_min (coins_of l) (p_min_hr (pars s))).
Proof.
  intros s from gb hr url s' H. unfold h_node_update_details in H.
  apply rbind_ok in H as (u1 & Hg & H). apply ensure_ok in Hg.
  apply rbind_ok in H as (u2 & Hh & H). apply ensure_ok in Hh.
  split; intros l ->; apply bounds_ok_spec; assumption.
Qed.

(* Purchases of gigabytes or hours outside the configured minimum/maximum are rejected. *)
Theorem C11_quantity_checked : forall s from nd g h dn s',
  h_node_subscribe s from nd g h dn = Ok s' ->
  (g <> 0 -> p_min_sub_gb (pars s) <= g <= p_max_sub_gb (pars s)) /\
  (h <> 0 -> p_min_sub_hr (pars s) <= h <= p_max_sub_hr (pars s)).
Proof.
  intros s from nd g h dn s' H. unfold h_node_subscribe in H.
  apply rbind_ok in H as (u1 & Hg & H). apply ensure_ok in Hg.
  apply rbind_ok in H as (u2 & Hh & H). apply ensure_ok in Hh.
  unfold valid_sub_gb, valid_sub_hr in *. split; intros Hne.
  - apply orb_true_iff in Hg as [Hg|Hg]; [apply Z.eqb_eq in Hg; contradiction|]. apply andb_true_iff in Hg as [A B]. lia.
  - apply orb_true_iff in Hh as [Hh|Hh]; [apply Z.eqb_eq in Hh; contradiction|]. apply andb_true_iff in Hh as [A B]. lia.
Qed.

(* The premise min <= max is necessary: outside it the sweep cannot satisfy both bounds. *)
Example C11_needs_min_le_max :
  let p := {[ 1%N := 50 ]} : coins in let mx := {[ 1%N := 10 ]} : coins in let mn := {[ 1%N := 20 ]} : coins in
  amount_of (swept true true p mx mn) 1%N = 20 /\ ~ within_max (swept true true p mx mn) mx.
Proof.
  split; [vm_compute; reflexivity|]. intros H. specialize (H 1%N 10 eq_refl). vm_compute in H. apply H. reflexivity.
Qed.

(* non-vacuity: a price stranded above a lowered maximum is clamped by the sweep *)
Example C11_sweep_clamps :
  amount_of (swept true false ({[ 1%N := 50 ]} : coins) ({[ 1%N := 10 ]} : coins) ∅) 1%N = 10.
Proof. vm_compute. reflexivity. Qed.

Section wiring.
Local Open Scope string_scope.
(* app wiring (regenerated from app/module.go on every run): governance enacts parameter changes BEFORE the marketplace
   end-blocker of the same block, so the sweep of that very block sees the Modified flags ([OGov] before [OEnd]) *)
Theorem C11_governance_runs_before_the_sweep : runs_before "govtypes.ModuleName" "vpntypes.ModuleName" end_blockers.
Proof. exact gov_before_vpn_at_block_end. Qed.
End wiring.

Print Assumptions C11_invariant_inductive.
Print Assumptions C11_genesis.
Print Assumptions C11_every_reachable_state.
Print Assumptions C11_prices_within_bounds_at_block_end.
Print Assumptions C11_register_checked.
Print Assumptions C11_update_checked.
Print Assumptions C11_quantity_checked.
Print Assumptions C11_governance_runs_before_the_sweep.
