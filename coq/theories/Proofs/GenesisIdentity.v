(* C12, the positive half at full strength where the code can carry it: for every reachable state in which no
   subscription has been bought yet (the two counters the genesis schema cannot carry are still 0), export +
   validate + re-import gives back EXACTLY the original state -- every record, every index, every counter, every
   parameter, the SDK side -- up to the emitted events (none after an import) and the transient "parameters
   modified" marks (all set after InitGenesis).  Every continuation therefore behaves identically on the original
   and on the re-imported chain.  Together with the refutation witnesses this locates the failure of C12 exactly
   in the subscription module's genesis and the session counter (known findings F5, F8). *)
From Hub Require Import Base.Prelude Base.Arith Model.Types Model.Keeper Model.Handlers Model.Hooks Model.Step Model.Genesis.
From Hub Require Import Proofs.Tactics Proofs.Frames Proofs.KeysInv Proofs.InvDefs Proofs.IndexAll Proofs.GenesisRT Proofs.GenesisReach.

Lemma state_ext (a b : state) :
  cfg a = cfg b -> bank a = bank b -> supply a = supply b -> deposits a = deposits b ->
  prov_act a = prov_act b -> prov_inact a = prov_inact b -> node_act a = node_act b -> node_inact a = node_inact b ->
  node_q a = node_q b -> node_plan a = node_plan b -> plan_count a = plan_count b -> plan_act a = plan_act b ->
  plan_inact a = plan_inact b -> plan_prov a = plan_prov b -> sub_count a = sub_count b -> subs a = subs b ->
  sub_q a = sub_q b -> sub_acc a = sub_acc b -> sub_node a = sub_node b -> sub_plan a = sub_plan b ->
  allocs a = allocs b -> payouts a = payouts b -> pay_q a = pay_q b -> pay_acc a = pay_acc b -> pay_node a = pay_node b ->
  pay_acc_node a = pay_acc_node b -> sess_count a = sess_count b -> sessions a = sessions b -> sess_q a = sess_q b ->
  sess_acc a = sess_acc b -> sess_node a = sess_node b -> sess_sub a = sess_sub b -> sess_alloc a = sess_alloc b ->
  pars a = pars b -> modified a = modified b -> swaps a = swaps b -> inflations a = inflations b ->
  mint_max a = mint_max b -> mint_min a = mint_min b -> mint_rate a = mint_rate b -> mint_inflation a = mint_inflation b ->
  now a = now b -> events a = events b -> a = b.
Proof. destruct a, b; simpl; intros; subst; reflexivity. Qed.

Section identity.
  Context (g : genesis) (ops : list op) (s : state) (Hrun : run (init g) ops = RunOk s).
  Hypothesis Hsub0 : sub_count s = 0.
  Hypothesis Hsess0 : sess_count s = 0.

  Let Hall : all_idx s := all_idx_reachable g ops s Hrun.

  Lemma no_subs : subs s = ∅.
  Proof.
    apply map_empty. intros id. destruct (subs s !! id) as [sb|] eqn:E; [|reflexivity].
    destruct (k_sub _ (ki_sub _ (ai_k _ Hall)) _ _ E) as (_ & R & _). lia.
  Qed.
  Lemma no_allocs : allocs s = ∅.
  Proof.
    apply map_empty. intros k. destruct (allocs s !! k) as [al|] eqn:E; [|reflexivity].
    destruct (k_al _ (ki_sub _ (ai_k _ Hall)) _ _ E) as (_ & _ & R). lia.
  Qed.
  Lemma no_payouts : payouts s = ∅.
  Proof.
    apply map_empty. intros k. destruct (payouts s !! k) as [po|] eqn:E; [|reflexivity].
    destruct (k_po _ (ki_sub _ (ai_k _ Hall)) _ _ E) as (_ & R). lia.
  Qed.
  Lemma no_sessions : sessions s = ∅.
  Proof.
    apply map_empty. intros k. destruct (sessions s !! k) as [x|] eqn:E; [|reflexivity].
    destruct (k_ss _ (ki_sess _ (ai_k _ Hall)) _ _ E) as (_ & R & _). lia.
  Qed.

  Lemma no_sub_indices :
    sub_q s = ∅ /\ sub_acc s = ∅ /\ sub_node s = ∅ /\ sub_plan s = ∅ /\
    pay_q s = ∅ /\ pay_acc s = ∅ /\ pay_node s = ∅ /\ pay_acc_node s = ∅.
  Proof.
    pose proof (ai_sub _ Hall) as Hix. pose proof no_subs as E1. pose proof no_payouts as E2.
    repeat split; apply sets.set_eq; intros x; split; try set_solver; intros Hx; exfalso.
    - destruct x as [t id]. apply (ix_subq _ Hix) in Hx as (sb & Hsb & _). rewrite E1, lookup_empty in Hsb. discriminate.
    - destruct x as [a id]. apply (ix_subacc _ Hix) in Hx as (sb & Hsb & _). rewrite E1, lookup_empty in Hsb. discriminate.
    - destruct x as [a id]. apply (ix_subnode _ Hix) in Hx as (sb & ? & ? & ? & Hsb & _). rewrite E1, lookup_empty in Hsb. discriminate.
    - destruct x as [a id]. apply (ix_subplan _ Hix) in Hx as (sb & ? & Hsb & _). rewrite E1, lookup_empty in Hsb. discriminate.
    - destruct x as [t id]. apply (ix_payq _ Hix) in Hx as (po & ? & Hpo & _). rewrite E2, lookup_empty in Hpo. discriminate.
    - destruct x as [a id]. apply (ix_payacc _ Hix) in Hx as (po & Hpo & _). rewrite E2, lookup_empty in Hpo. discriminate.
    - destruct x as [a id]. apply (ix_paynode _ Hix) in Hx as (po & Hpo & _). rewrite E2, lookup_empty in Hpo. discriminate.
    - destruct x as [[a n] id]. apply (ix_payaccnode _ Hix) in Hx as (po & ? & Hpo & _). rewrite E2, lookup_empty in Hpo. discriminate.
  Qed.

  Theorem reachable_roundtrip_identity :
    exists v, roundtrip s = Ok (v, clear_events s <| modified := all_flags |>).
  Proof.
    pose proof (reachable_genesis_defined g ops s Hrun) as Hd.
    destruct (reachable_roundtrip g ops s Hrun) as (v & s' & Hr & R).
    destruct R as (D1 & P1 & P2 & N1 & N2 & N3 & L1 & L2 & L3 & L4 & L5 & S1 & S2 & S3 & S4 & S5 & S6 & W1 & I1 & M1 & M2 & M3 & M4 & Q1 & X1 & X2 & X3 & X4).
    exists v. rewrite Hr. f_equal. f_equal.
    destruct (rt_inv s v s' Hd Hr) as [_ Es'].
    destruct (pj_subs (doc_of s) s) as (_ & _ & _ & _ & Y1 & Y2 & Y3 & Y4 & Y5 & Y6 & Y7 & Y8).
    destruct (pj_sdk (doc_of s) s) as (K1 & K2 & K3 & K4 & _ & _ & _ & _ & K9).
    rewrite <- Es' in Y1, Y2, Y3, Y4, Y5, Y6, Y7, Y8, K1, K2, K3, K4, K9.
    destruct no_sub_indices as (Z1 & Z2 & Z3 & Z4 & Z5 & Z6 & Z7 & Z8).
    assert (Ec : sess_count s' = 0).
    { pose proof (pj_sess_count (doc_of s) s) as C. rewrite <- Es' in C. rewrite C. simpl. unfold exp_sessions.
      rewrite no_sessions. reflexivity. }
    assert (Ee : events s' = []) by (rewrite Es'; reflexivity).
    apply state_ext; simpl; try assumption; try congruence.
    - rewrite X1. symmetry. apply no_subs.
    - rewrite X2. symmetry. apply no_allocs.
    - rewrite X3. symmetry. apply no_payouts.
  Qed.

  (* ... hence every continuation behaves identically (the very same run result, events included) *)
  Corollary reachable_continuation_identical ops2 i :
    exists v s', roundtrip s = Ok (v, s') /\ run_from s' ops2 i = run_from (clear_events s <| modified := all_flags |>) ops2 i.
  Proof. destruct reachable_roundtrip_identity as (v & Hr). eexists v, _. split; [exact Hr|reflexivity]. Qed.
End identity.
