(* C03 / C04 / C09: every session belongs to a live subscription (and, unless that is hourly, to
   an allocation of it), an active session has an active subscription, and a pending session
   never outlives its subscription ([link_inv] of InvDefs.v) — preserved by every operation of
   a history with increasing block times and parameter changes inside DESIGN §5.3. *)
From Hub Require Import Base.Prelude Base.Arith Model.Types Model.Keeper Model.Handlers Model.Hooks Model.Step.
From Hub Require Import Proofs.Tactics Proofs.Sorting Proofs.Frames Proofs.KeysInv Proofs.ArithThm Proofs.IndexSess Proofs.IndexNode
  Proofs.InvDefs Proofs.Quota Proofs.IndexSub Proofs.Listing Proofs.IndexSub2 Proofs.IndexPlan Proofs.IndexAll.

Lemma elem_of_rev' {A} (l : list A) x : x ∈ rev l <-> x ∈ l.
Proof. rewrite !elem_of_list_In. symmetry. apply in_rev. Qed.
Lemma NoDup_rev' {A} (l : list A) : NoDup l -> NoDup (rev l).
Proof. rewrite !NoDup_ListNoDup. apply List.NoDup_rev. Qed.

(** * what SubscriptionInactivePendingHook does to the sessions *)

Definition demote_sess (id : Z) (t now0 : time) (x : session) : session :=
  if bool_decide (ss_sub x = id /\ ss_status x = SActive)
  then x <| ss_inactive_at := t |> <| ss_status := SPending |> <| ss_status_at := now0 |> else x.

Lemma sub_pending_hook_sessions s id s' :
  kinv_sess s -> idx_sess s -> sub_pending_hook s id = Ok s' ->
  forall sid, sessions s' !! sid = demote_sess id (now s + p_sess_delay (pars s)) (now s) <$> sessions s !! sid.
Proof.
  intros Hk Hix H. unfold sub_pending_hook in H.
  set (l := rev (ids_for_z (sess_sub s) id)) in *.
  set (dm := demote_sess id (now s + p_sess_delay (pars s)) (now s)).
  set (P := fun (rest : list Z) (x : state) =>
              now x = now s /\ pars x = pars s /\ NoDup rest /\ (forall sid, sid ∈ rest -> sid ∈ l) /\
              forall sid, sessions x !! sid = if bool_decide (sid ∈ rest) then sessions s !! sid else dm <$> sessions s !! sid).
  assert (Hl : forall sid, sid ∈ l <-> exists x, sessions s !! sid = Some x /\ ss_sub x = id).
  { intros sid. unfold l. rewrite elem_of_rev', elem_of_ids_for_z. apply (ix_ssub _ Hix). }
  assert (G : P [] s').
  { eapply (IndexSub2.rfold_rest P); [| |exact H].
    - intros sid rest x x' (N1 & N2 & Hnd & Hsubl & Hs) Hstep. cbv beta in Hstep.
      pose proof (Hs sid) as Hsid. rewrite bool_decide_eq_true_2 in Hsid by left.
      destruct (sessions x !! sid) as [y|] eqn:Hy; [|discriminate].
      symmetry in Hsid. destruct (k_ss _ Hk _ _ Hsid) as (E1 & _).
      apply NoDup_cons in Hnd as [Hnotin Hnd].
      assert (Hsub : ss_sub y = id).
      { destruct (proj1 (Hl sid) (Hsubl sid ltac:(left))) as (y0 & Hy0 & E0). congruence. }
      assert (Hsubl' : forall sid0, sid0 ∈ rest -> sid0 ∈ l) by (intros sid0 Hin; apply Hsubl; right; exact Hin).
      case_bool_decide as Hact; injection Hstep as <-.
      + split; [exact N1|]. split; [exact N2|]. split; [exact Hnd|]. split; [exact Hsubl'|]. intros sid'. unfold session_make_pending. simpl.
        destruct (decide (sid' = sid)) as [->|Hne].
        * rewrite E1, lookup_insert. rewrite bool_decide_eq_false_2 by exact Hnotin. rewrite Hsid. simpl. f_equal.
          unfold dm, demote_sess. rewrite N1, N2. rewrite bool_decide_eq_true_2 by (split; assumption). reflexivity.
        * rewrite E1, lookup_insert_ne by congruence. rewrite Hs. repeat case_bool_decide; try reflexivity; set_solver.
      + split; [exact N1|]. split; [exact N2|]. split; [exact Hnd|]. split; [exact Hsubl'|]. intros sid'.
        destruct (decide (sid' = sid)) as [->|Hne].
        * rewrite Hy, Hsid. rewrite bool_decide_eq_false_2 by exact Hnotin. simpl. f_equal. unfold dm, demote_sess.
          rewrite bool_decide_eq_false_2; [reflexivity|]. intros [_ ?]. contradiction.
        * rewrite Hs. repeat case_bool_decide; try reflexivity; set_solver.
    - split; [reflexivity|]. split; [reflexivity|]. split; [unfold l; apply NoDup_rev', NoDup_ids_for_z|]. split; [auto|].
      intros sid. case_bool_decide as Hin; [reflexivity|].
      destruct (sessions s !! sid) as [x|] eqn:Hx; [|reflexivity]. simpl. f_equal. unfold dm, demote_sess.
      rewrite bool_decide_eq_false_2; [reflexivity|]. intros [Hs _]. apply Hin. apply Hl. eauto. }
  destruct G as (_ & _ & _ & _ & G). intros sid. rewrite G. rewrite bool_decide_eq_false_2 by (intros Hin; inversion Hin). reflexivity.
Qed.

(** * frames *)

Lemma link_mono s s' :
  sessions s' = sessions s -> (forall id sb, subs s !! id = Some sb -> subs s' !! id = Some sb) ->
  (forall k, is_Some (allocs s !! k) -> is_Some (allocs s' !! k)) ->
  now s + p_sub_delay (pars s) <= now s' + p_sub_delay (pars s') -> link_inv s -> link_inv s'.
Proof.
  intros E1 Hsub Hal Ht [L]. split. intros sid x Hx. rewrite E1 in Hx.
  destruct (L _ _ Hx) as (sb & Hsb & [Hh|Ha] & L1 & L2 & L3); exists sb; (split; [apply Hsub; exact Hsb|]).
  - split; [left; exact Hh|]. split; [exact L1|]. split; [exact L2|]. intros P1 P2. specialize (L3 P1 P2). lia.
  - split; [right; apply Hal; exact Ha|]. split; [exact L1|]. split; [exact L2|]. intros P1 P2. specialize (L3 P1 P2). lia.
Qed.

Lemma link_keeps T s s' :
  keeps T s s' -> touched GSub T = false -> touched GSess T = false -> touched GPar T = false -> touched GNow T = false ->
  link_inv s -> link_inv s'.
Proof.
  intros (_ & _ & _ & _ & _ & _ & _ & K1 & K2 & K3 & _ & _ & K4) T1 T2 T3 T4. rewrite T1 in K1. rewrite T2 in K2. rewrite T3 in K3. rewrite T4 in K4.
  simpl in *. destruct K1 as (_ & E1 & _ & _ & _ & _ & E2 & _). destruct K2 as (_ & E3 & _). destruct K3 as (E4 & _).
  apply link_mono; [exact E3|rewrite E1; auto|rewrite E2; auto|rewrite E4, K4; lia].
Qed.

(** * demotion of a subscription (MsgCancel, expiry of an active subscription) *)

Lemma link_demote s s' id sb :
  kinv s -> par_ok (pars s) -> link_inv s -> subs s !! id = Some sb -> sb_status sb = SActive ->
  (forall sid, sessions s' !! sid = demote_sess id (now s + p_sess_delay (pars s)) (now s) <$> sessions s !! sid) ->
  subs s' = <[id := sb <| sb_inactive_at := now s + p_sub_delay (pars s) |> <| sb_status := SPending |> <| sb_status_at := now s |>]> (subs s) ->
  (forall k, is_Some (allocs s !! k) -> is_Some (allocs s' !! k)) -> now s' = now s -> pars s' = pars s ->
  link_inv s'.
Proof.
  intros Hi Hp [L] Hsb Hact Hsess Hsubs Hal En Ep. split. intros sid x' Hx'. rewrite Hsess in Hx'.
  destruct (sessions s !! sid) as [x|] eqn:Hx; [|discriminate]. simpl in Hx'. injection Hx' as <-.
  destruct (L _ _ Hx) as (sb0 & Hsb0 & Hha & L1 & L2 & L3).
  assert (Esub : ss_sub (demote_sess id (now s + p_sess_delay (pars s)) (now s) x) = ss_sub x /\
                 ss_addr (demote_sess id (now s + p_sess_delay (pars s)) (now s) x) = ss_addr x).
  { unfold demote_sess. case_bool_decide; simpl; auto. }
  destruct Esub as [Es Ea]. rewrite Es, Ea, Hsubs, En, Ep.
  destruct (k_ss _ (ki_sess _ Hi) _ _ Hx) as (_ & _ & Hlive).
  destruct (decide (ss_sub x = id)) as [Eid|Hne].
  - rewrite Eid in *. rewrite lookup_insert. rewrite Hsb in Hsb0. injection Hsb0 as <-. eexists. split; [reflexivity|].
    split; [destruct Hha as [Hh|Ha]; [left; exact Hh|right; apply Hal; exact Ha]|]. simpl.
    unfold demote_sess. case_bool_decide as Hc; simpl.
    + split; [discriminate|]. split; [intros _ _; destruct Hp; lia|intros _; discriminate].
    + assert (Hpend : ss_status x = SPending) by (destruct Hlive as [Ha|Hpd]; [exfalso; apply Hc; auto|exact Hpd]).
      split; [congruence|]. split; [intros _ _; apply L3; assumption|intros _; discriminate].
  - rewrite lookup_insert_ne by congruence. exists sb0. split; [exact Hsb0|].
    assert (Ed : demote_sess id (now s + p_sess_delay (pars s)) (now s) x = x).
    { unfold demote_sess. rewrite bool_decide_eq_false_2; [reflexivity|]. intros [? _]. contradiction. }
    rewrite Ed. split; [destruct Hha as [Hh|Ha]; [left; exact Hh|right; apply Hal; exact Ha]|]. auto.
Qed.

Lemma detach_payout_fields s sb m s' :
  (forall x, m <> Ok x) -> detach_payout s sb m = Ok s' ->
  sessions s' = sessions s /\ subs s' = subs s /\ allocs s' = allocs s /\ now s' = now s /\ pars s' = pars s /\
  sess_q s' = sess_q s /\ sess_acc s' = sess_acc s /\ sess_node s' = sess_node s /\ sess_sub s' = sess_sub s /\ sess_alloc s' = sess_alloc s /\
  sess_count s' = sess_count s.
Proof.
  intros Hm H. unfold detach_payout in H. repeat case_match; try (injection H as <-); simpl; repeat split; try reflexivity.
  all: exfalso; eapply Hm; eauto.
Qed.

(* the common tail of MsgCancel and of the expiry of an active subscription *)
Lemma link_demote_tail s s1 s2 sb m s' :
  kinv s -> idx_sess s -> par_ok (pars s) -> link_inv s ->
  subs s !! sb_id sb = Some sb -> sb_status sb = SActive ->
  keeps [GSub] s s1 -> subs s1 = subs s -> allocs s1 = allocs s ->
  sub_pending_hook s1 (sb_id sb) = Ok s2 -> (forall x, m <> Ok x) ->
  detach_payout (sub_make_pending s2 sb) sb m = Ok s' -> link_inv s'.
Proof.
  intros Hi Hix Hp Hl Hsb Hact Hk1 Es1 Ea1 Hh Hm Hd.
  assert (F : sessions s1 = sessions s /\ sess_count s1 = sess_count s /\ sess_q s1 = sess_q s /\ sess_acc s1 = sess_acc s /\
              sess_node s1 = sess_node s /\ sess_sub s1 = sess_sub s /\ sess_alloc s1 = sess_alloc s /\ now s1 = now s /\ pars s1 = pars s)
    by (repeat split; keeps_solve).
  destruct F as (F1 & F2 & F3 & F4 & F5 & F6 & F7 & F8 & F9).
  assert (Hk1' : kinv_sess s1) by (eapply kinv_sess_frame; [..|apply (ki_sess _ Hi)]; assumption).
  assert (Hix1 : idx_sess s1) by (eapply idx_sess_frame; [..|exact Hix]; assumption).
  pose proof (sub_pending_hook_sessions _ _ _ Hk1' Hix1 Hh) as Hs2. rewrite F1, F8, F9 in Hs2.
  pose proof (sub_pending_hook_keeps _ _ _ Hh) as Hk2.
  destruct (detach_payout_fields _ _ _ _ Hm Hd) as (D1 & D2 & D3 & D4 & D5 & _).
  unfold sub_make_pending in D1, D2, D3, D4, D5. simpl in D1, D2, D3, D4, D5.
  assert (G : subs s2 = subs s /\ allocs s2 = allocs s /\ now s2 = now s /\ pars s2 = pars s).
  { repeat split; [transitivity (subs s1)|transitivity (allocs s1)|transitivity (now s1)|transitivity (pars s1)]; try assumption; keeps_solve. }
  destruct G as (G1 & G2 & G3 & G4).
  eapply (link_demote s s' (sb_id sb) sb); try eassumption.
  - intros sid. rewrite D1. apply Hs2.
  - rewrite D2, G1, G3, G4. reflexivity.
  - intros k. rewrite D3, G2. auto.
  - rewrite D4. exact G3.
  - rewrite D5. exact G4.
Qed.

Lemma link_h_sub_cancel s from id s' :
  kinv s -> idx_sess s -> par_ok (pars s) -> link_inv s -> h_sub_cancel s from id = Ok s' -> link_inv s'.
Proof.
  intros Hi Hix Hp Hl H. unfold h_sub_cancel in H. destruct (subs s !! id) as [sb|] eqn:Hsb; [|discriminate].
  destruct (k_sub _ (ki_sub _ Hi) _ _ Hsb) as (Eid & _ & _). subst id.
  apply rbind_ok in H as (u1 & Hact & H). apply ensure_ok, bool_decide_eq_true in Hact.
  apply rbind_ok in H as (u2 & _ & H). apply rbind_ok in H as (s2 & Hh & H).
  eapply (link_demote_tail s _ s2 sb Err); try eassumption; [keeps_solve|reflexivity|reflexivity|discriminate].
Qed.

(** * sessions *)

Lemma link_h_sess_start s from id nd s' :
  kinv s -> link_inv s -> h_sess_start s from id nd = Ok s' -> link_inv s'.
Proof.
  intros Hi [L] H. unfold h_sess_start in H. destruct (subs s !! id) as [sb|] eqn:Hsb; [|discriminate].
  apply rbind_ok in H as (u1 & Hact & H). apply ensure_ok, bool_decide_eq_true in Hact.
  destruct (get_node s (ta_bytes nd)) as [n|]; [|discriminate].
  apply rbind_ok in H as (u2 & _ & H). apply rbind_ok in H as (u3 & _ & H).
  apply rbind_ok in H as (chk & Hchk & H). apply rbind_ok in H as (u4 & Hal & H).
  apply rbind_ok in H as (latest & _ & H). apply rbind_ok in H as (u5 & _ & H). injection H as <-.
  assert (Hha : hourly sb = true \/ is_Some (allocs s !! (id, ta_bytes from))).
  { unfold hourly. destruct (sb_kind sb) as [sn g h dep|pid dn].
    - apply rbind_ok in Hchk as (u6 & _ & Hchk). injection Hchk as <-.
      destruct (h =? 0) eqn:Eh; [|left; reflexivity]. right.
      destruct (allocs s !! (id, ta_bytes from)); [eauto|discriminate].
    - injection Hchk as <-. right. destruct (allocs s !! (id, ta_bytes from)); [eauto|discriminate]. }
  assert (Hfresh : sessions s !! (sess_count s + 1) = None).
  { destruct (sessions s !! (sess_count s + 1)) eqn:E0; [|reflexivity]. destruct (k_ss _ (ki_sess _ Hi) _ _ E0) as (_ & ? & _). lia. }
  split. simpl. intros sid x Hx. apply lookup_insert_Some in Hx as [[<- <-]|[Hne Hx]].
  - simpl. exists sb. split; [exact Hsb|]. split; [exact Hha|]. split; [auto|]. split; intros; discriminate.
  - apply (L _ _ Hx).
Qed.

Lemma link_h_sess_update s from id u d du ok s' :
  kinv s -> link_inv s -> h_sess_update s from id u d du ok = Ok s' -> link_inv s'.
Proof.
  intros Hi [L] H. unfold h_sess_update in H. destruct (sessions s !! id) as [x|] eqn:Hx; [|discriminate].
  apply rbind_ok in H as (u1 & _ & H). apply rbind_ok in H as (u2 & _ & H). apply rbind_ok in H as (u3 & _ & H).
  destruct (L _ _ Hx) as (sb & Hsb & Hha & L1 & L2 & L3).
  case_bool_decide as Hact; injection H as <-; split; simpl; intros sid y Hy;
    (apply lookup_insert_Some in Hy as [[<- <-]|[Hne Hy]]; [|apply (L _ _ Hy)]); simpl; exists sb; (split; [exact Hsb|]).
  - split; [exact Hha|]. split; [auto|]. split; intros; congruence.
  - split; [exact Hha|]. auto.
Qed.

(* an active session becomes inactive-pending: MsgEnd and the session end-blocker *)
Lemma link_session_pend s s' x :
  par_ok (pars s) -> link_inv s -> sessions s !! ss_id x = Some x -> ss_status x = SActive ->
  sessions s' = <[ss_id x := x <| ss_inactive_at := now s + p_sess_delay (pars s) |> <| ss_status := SPending |> <| ss_status_at := now s |>]> (sessions s) ->
  subs s' = subs s -> allocs s' = allocs s -> now s' = now s -> pars s' = pars s -> link_inv s'.
Proof.
  intros Hp [L] Hx Hact E1 E2 E3 E4 E5. split. rewrite E1, E2, E3, E4, E5. intros sid y Hy.
  apply lookup_insert_Some in Hy as [[<- <-]|[Hne Hy]]; [|apply (L _ _ Hy)]. simpl.
  destruct (L _ _ Hx) as (sb & Hsb & Hha & L1 & L2 & L3). exists sb. split; [exact Hsb|]. split; [exact Hha|].
  split; [discriminate|]. specialize (L1 Hact). split; [intros _ Hpd; congruence|]. intros _ _. destruct Hp. lia.
Qed.

Lemma link_h_sess_end s from id s' :
  kinv s -> par_ok (pars s) -> link_inv s -> h_sess_end s from id = Ok s' -> link_inv s'.
Proof.
  intros Hi Hp Hl H. unfold h_sess_end in H. destruct (sessions s !! id) as [x|] eqn:Hx; [|discriminate].
  destruct (k_ss _ (ki_sess _ Hi) _ _ Hx) as (Eid & _). subst id.
  apply rbind_ok in H as (u1 & Hact & H). apply ensure_ok, bool_decide_eq_true in Hact.
  apply rbind_ok in H as (u2 & _ & H). injection H as <-.
  eapply (link_session_pend s _ x); try eassumption; reflexivity.
Qed.

(** * transactions *)

Lemma link_handle s m s' :
  kinv s -> idx_sess s -> idx_sub s -> par_ok (pars s) -> link_inv s -> validate_basic m = true -> handle s m = Ok s' -> link_inv s'.
Proof.
  intros Hi Hix Hixs Hp Hl Hv H. destruct m; simpl in H.
  - eapply link_keeps; [eapply h_prov_register_keeps; exact H|reflexivity..|exact Hl].
  - eapply link_keeps; [eapply h_prov_update_keeps; exact H|reflexivity..|exact Hl].
  - eapply link_keeps; [eapply h_node_register_keeps; exact H|reflexivity..|exact Hl].
  - eapply link_keeps; [eapply h_node_update_details_keeps; exact H|reflexivity..|exact Hl].
  - eapply link_keeps; [eapply h_node_update_status_keeps; exact H|reflexivity..|exact Hl].
  - (* node subscribe: a fresh subscription *)
    pose proof (h_node_subscribe_keeps _ _ _ _ _ _ _ H) as Hk.
    pose proof (Lifecycle.sub_step_handle s (MNodeSubscribe from nd gigabytes hours dn) s' Hi H) as Hev.
    unfold h_node_subscribe in H. apply rbind_ok in H as (u1 & _ & H). apply rbind_ok in H as (u2 & _ & H).
    apply rbind_ok in H as ([s1 id] & Hc & H). injection H as <-.
    pose proof (kinv_create_sub_for_node _ _ _ _ _ _ _ _ (ki_sub _ Hi) Hc) as [_ ->].
    assert (Hcase : (gigabytes = 0 /\ 0 < hours) \/ (0 < gigabytes /\ hours = 0)).
    { simpl in Hv. repeat (apply andb_prop in Hv as [Hv ?]).
      destruct (gigabytes =? 0) eqn:Eg, (hours =? 0) eqn:Eh; simpl in *; try discriminate; lia. }
    apply (link_mono s); [keeps_solve| | |replace (now (emit _ s1)) with (now s) by keeps_solve; replace (pars (emit _ s1)) with (pars s) by keeps_solve; lia|exact Hl].
    + intros id sb Hsb. simpl.
      assert (Hne : id <> sub_count s + 1) by (intros ->; rewrite (fresh_sub _ (ki_sub _ Hi)) in Hsb; [discriminate|lia]).
      destruct Hcase as [[-> Hh]|[Hg ->]].
      * destruct (create_node_hr_spec _ _ _ _ _ _ _ Hh Hc) as (dep & _ & _ & E). cbv zeta in E. destruct E as (E1 & _). rewrite E1, lookup_insert_ne by congruence. exact Hsb.
      * destruct (create_node_gb_spec _ _ _ _ _ _ _ Hg Hc) as (dep & inact & _ & _ & E). cbv zeta in E. destruct E as (E1 & _). rewrite E1, lookup_insert_ne by congruence. exact Hsb.
    + intros k Hk0. simpl. destruct Hcase as [[-> Hh]|[Hg ->]].
      * destruct (create_node_hr_spec _ _ _ _ _ _ _ Hh Hc) as (dep & _ & _ & E). cbv zeta in E. destruct E as (_ & _ & _ & _ & _ & E6 & _). rewrite E6. exact Hk0.
      * destruct (create_node_gb_spec _ _ _ _ _ _ _ Hg Hc) as (dep & inact & _ & _ & E). cbv zeta in E. destruct E as (_ & _ & _ & _ & _ & E6 & _). rewrite E6.
        destruct (decide (k = (sub_count s + 1, ta_bytes from))) as [->|Hne]; [rewrite lookup_insert; eauto|rewrite lookup_insert_ne by congruence; exact Hk0].
  - eapply link_keeps; [eapply h_plan_create_keeps; exact H|reflexivity..|exact Hl].
  - eapply link_keeps; [eapply h_plan_update_status_keeps; exact H|reflexivity..|exact Hl].
  - eapply link_keeps; [eapply h_plan_link_keeps; exact H|reflexivity..|exact Hl].
  - eapply link_keeps; [eapply h_plan_unlink_keeps; exact H|reflexivity..|exact Hl].
  - (* plan subscribe *)
    pose proof (h_plan_subscribe_keeps _ _ _ _ _ H) as Hk.
    unfold h_plan_subscribe in H. apply rbind_ok in H as ([s1 sid] & Hc & H). injection H as <-.
    destruct (create_plan_spec _ _ _ _ _ _ Hc) as (p & _ & -> & E). cbv zeta in E. destruct E as (E1 & _ & _ & _ & _ & E6 & _).
    apply (link_mono s); [keeps_solve| | |replace (now (emit _ s1)) with (now s) by keeps_solve; replace (pars (emit _ s1)) with (pars s) by keeps_solve; lia|exact Hl].
    + intros id0 sb Hsb. simpl.
      assert (Hne : id0 <> sub_count s + 1) by (intros ->; rewrite (fresh_sub _ (ki_sub _ Hi)) in Hsb; [discriminate|lia]).
      rewrite E1, lookup_insert_ne by congruence. exact Hsb.
    + intros k Hk0. simpl. rewrite E6.
      destruct (decide (k = (sub_count s + 1, ta_bytes from))) as [->|Hne]; [rewrite lookup_insert; eauto|rewrite lookup_insert_ne by congruence; exact Hk0].
  - eapply link_h_sub_cancel; eauto.
  - (* allocate: allocations only gain keys *)
    pose proof (h_sub_allocate_keeps _ _ _ _ _ _ H) as Hk.
    destruct (h_sub_allocate_spec _ _ _ _ _ _ H) as (sb & fal & _ & Hfal & _ & Hrest). cbv zeta in Hrest. destruct Hrest as (_ & _ & Eal).
    apply (link_mono s); [keeps_solve| | |replace (now s') with (now s) by keeps_solve; replace (pars s') with (pars s) by keeps_solve; lia|exact Hl].
    + intros id0 sb0 Hsb0. assert (E : subs s' = subs s) by (clear -H; unfold h_sub_allocate in H; res_inv; reflexivity). rewrite E. exact Hsb0.
    + intros k Hk0. rewrite Eal.
      destruct (decide (k = (id, ta_bytes to))) as [->|N1]; [rewrite lookup_insert; eauto|rewrite lookup_insert_ne by congruence].
      destruct (decide (k = (id, ta_bytes from))) as [->|N2]; [rewrite lookup_insert; eauto|rewrite lookup_insert_ne by congruence]. exact Hk0.
  - eapply link_h_sess_start; eauto.
  - eapply link_h_sess_update; eauto.
  - eapply link_h_sess_end; eauto.
  - eapply link_keeps; [eapply h_swap_keeps; exact H|reflexivity..|exact Hl].
Qed.

(** * block hooks *)

Lemma link_mono' s s' :
  (forall sid x, sessions s' !! sid = Some x -> sessions s !! sid = Some x) ->
  (forall sid x, sessions s' !! sid = Some x -> forall sb, subs s !! ss_sub x = Some sb -> subs s' !! ss_sub x = Some sb) ->
  (forall sid x, sessions s' !! sid = Some x -> is_Some (allocs s !! (ss_sub x, ss_addr x)) -> is_Some (allocs s' !! (ss_sub x, ss_addr x))) ->
  now s + p_sub_delay (pars s) <= now s' + p_sub_delay (pars s') -> link_inv s -> link_inv s'.
Proof.
  intros E1 Hsub Hal Ht [L]. split. intros sid x Hx. pose proof (E1 _ _ Hx) as Hx0.
  destruct (L _ _ Hx0) as (sb & Hsb & Hha & L1 & L2 & L3). exists sb. split; [eapply Hsub; eauto|].
  split; [destruct Hha as [Hh|Ha]; [left; exact Hh|right; eapply Hal; eauto]|]. split; [exact L1|]. split; [exact L2|].
  intros P1 P2. specialize (L3 P1 P2). lia.
Qed.

Lemma link_payout_step s e s' : link_inv s -> payout_step s e = Ok s' -> link_inv s'.
Proof.
  intros Hl H. pose proof (payout_step_keeps _ _ _ H) as Hk.
  destruct (payouts s !! e.2) as [po|] eqn:Hpo; [|unfold payout_step in H; rewrite Hpo in H; discriminate].
  destruct (payout_step_spec _ _ _ _ Hpo H) as (E1 & E2 & _).
  apply (link_mono s); [keeps_solve|rewrite E1; auto|rewrite E2; auto| |exact Hl].
  replace (now s') with (now s) by keeps_solve. replace (pars s') with (pars s) by keeps_solve. lia.
Qed.

Lemma link_begin_block s t s' : now s < t -> link_inv s -> begin_block (clear_events s <| now := t |>) = Ok s' -> link_inv s'.
Proof.
  intros Ht Hl H. unfold begin_block in H. apply rbind_ok in H as (s1 & Hm & H). apply mint_begin_block_keeps in Hm.
  assert (Hl1 : link_inv s1).
  { apply (link_mono s); [keeps_solve|intros id sb Hsb; replace (subs s1) with (subs s) by keeps_solve; exact Hsb
                         |intros k Hk0; replace (allocs s1) with (allocs s) by keeps_solve; exact Hk0| |exact Hl].
    replace (now s1) with t by keeps_solve. replace (pars s1) with (pars s) by keeps_solve. lia. }
  unfold sub_begin_block in H. eapply (rfold_inv link_inv); [|exact Hl1|exact H]. intros; eapply link_payout_step; eauto.
Qed.

Lemma link_session_expire_one s e s' :
  kinv s -> par_ok (pars s) -> link_inv s -> session_expire_one s e = Ok s' -> link_inv s'.
Proof.
  intros Hi Hp Hl H. unfold session_expire_one in H. destruct (sessions s !! e.2) as [x|] eqn:Hx; [|discriminate].
  destruct (k_ss _ (ki_sess _ Hi) _ _ Hx) as (Eid & _). rewrite <- Eid in Hx.
  case_bool_decide as Hact.
  - injection H as <-. eapply (link_session_pend s _ x); try eassumption; reflexivity.
  - apply rbind_ok in H as (total & _ & H). apply rbind_ok in H as (s1 & Hh & H). apply must_ok in Hh. injection H as <-.
    destruct (session_inactive_hook_subfields _ _ _ _ _ _ Hh) as (E1 & _).
    pose proof (session_inactive_hook_keeps _ _ _ _ _ _ Hh) as Hk.
    assert (Hks : kinv_sub (s <| sess_q ::= fun q => q ∖ {[ (ss_inactive_at x, ss_id x) ]} |>))
      by (eapply kinv_sub_frame; [..|apply (ki_sub _ Hi)]; reflexivity).
    apply (link_mono' s); [| | | |exact Hl]; simpl.
    + intros sid y Hy. apply lookup_delete_Some in Hy as [_ Hy]. replace (sessions s1) with (sessions s) in Hy by (symmetry; keeps_solve). exact Hy.
    + intros sid y _ sb Hsb. rewrite E1. exact Hsb.
    + intros sid y _ Hal.
      destruct (session_inactive_hook_allocs _ _ _ _ _ _ Hks Hh) as [->|(x0 & al & u' & _ & Hal0 & -> & _)]; [exact Hal|].
      destruct (decide ((ss_sub y, ss_addr y) = (ss_sub x0, ss_addr x))) as [->|Hne]; [rewrite lookup_insert; eauto|rewrite lookup_insert_ne by congruence; exact Hal].
    + replace (now s1) with (now s) by keeps_solve. replace (pars s1) with (pars s) by keeps_solve. lia.
Qed.

Lemma link_sub_expire_one s e s' :
  kinv s -> idx_sess s -> idx_sub s -> par_ok (pars s) -> link_inv s -> sess_fresh s -> e ∈ sub_q s -> e.1 <= now s ->
  sub_expire_one s e = Ok s' -> link_inv s'.
Proof.
  intros Hi Hix Hixs Hp Hl Hfresh He Hdue H. pose proof H as H0. unfold sub_expire_one in H.
  match type of H with match ?t with _ => _ end = _ => destruct t as [sb|] eqn:Hsb end; [|discriminate H].
  destruct (k_sub _ (ki_sub _ Hi) _ _ Hsb) as (Eid & _ & Hlive).
  case_bool_decide as Hact.
  - apply rbind_ok in H as (s2 & Hh & H). apply must_ok in Hh. rewrite <- Eid in Hsb.
    eapply (link_demote_tail s _ s2 sb Panic); try eassumption; [keeps_solve|reflexivity|reflexivity|discriminate].
  - (* removal: no session refers to the subscription any more *)
    destruct e as [t id]. simpl in *.
    destruct (proj1 (ix_subq _ Hixs t id) He) as (sb1 & Hsb1 & Hiat). rewrite Hsb in Hsb1. injection Hsb1 as <-.
    assert (Hpend : sb_status sb = SPending) by (destruct Hlive; [contradiction|assumption]).
    assert (Hnone : forall sid x, sessions s !! sid = Some x -> ss_sub x <> id).
    { intros sid x Hx Hs. destruct Hl as [L]. destruct (L _ _ Hx) as (sb1 & Hsb1 & _ & L1 & L2 & _). rewrite Hs, Hsb in Hsb1. injection Hsb1 as <-.
      destruct (k_ss _ (ki_sess _ Hi) _ _ Hx) as (_ & _ & [Ha|Hpd]); [specialize (L1 Ha); congruence|].
      specialize (L2 Hpd Hpend). specialize (Hfresh _ _ Hx). lia. }
    destruct (sub_remove_spec s (t, id) s' sb (ki_sub _ Hi) Hixs Hsb Hact H0) as (R1 & _ & RA & _). simpl in R1, RA.
    pose proof (sub_expire_one_keeps _ _ _ H0) as Hk.
    apply (link_mono' s); [| | | |exact Hl].
    + intros sid y Hy. replace (sessions s') with (sessions s) in Hy; [exact Hy|].
      clear -H Hact. apply rbind_ok in H as (s1 & Hr & H). apply sub_refund_keeps in Hr. apply sub_delete_payout_keeps in H.
      pose proof (sub_cleanup_keeps s1 sb). keeps_solve.
    + intros sid y Hy sb0 Hsb0. rewrite R1.
      assert (Hy0 : sessions s !! sid = Some y).
      { replace (sessions s) with (sessions s'); [exact Hy|]. clear -H Hact. apply rbind_ok in H as (s1 & Hr & H). apply sub_refund_keeps in Hr.
        apply sub_delete_payout_keeps in H. pose proof (sub_cleanup_keeps s1 sb). keeps_solve. }
      rewrite lookup_delete_ne; [exact Hsb0|]. intros E. exact (Hnone _ _ Hy0 (eq_sym E)).
    + intros sid y Hy Hal.
      assert (Hy0 : sessions s !! sid = Some y).
      { replace (sessions s) with (sessions s'); [exact Hy|]. clear -H Hact. apply rbind_ok in H as (s1 & Hr & H). apply sub_refund_keeps in Hr.
        apply sub_delete_payout_keeps in H. pose proof (sub_cleanup_keeps s1 sb). keeps_solve. }
      rewrite RA. simpl. rewrite bool_decide_eq_false_2; [exact Hal|]. exact (Hnone _ _ Hy0).
    + replace (now s') with (now s) by keeps_solve. replace (pars s') with (pars s) by keeps_solve. lia.
Qed.

(** * the end-blocker: every due record is demoted or removed; afterwards every deadline is in the future *)

Definition sub_fresh (s : state) : Prop := forall id sb, subs s !! id = Some sb -> now s < sb_inactive_at sb.
Definition node_fresh (s : state) : Prop := forall a n, node_act s !! a = Some n -> now s < nd_inactive_at n.

Lemma session_expire_one_sessions s e s' x :
  sessions s !! e.2 = Some x -> ss_id x = e.2 -> session_expire_one s e = Ok s' ->
  now s' = now s /\ pars s' = pars s /\
  sessions s' = if bool_decide (ss_status x = SActive)
                then <[e.2 := x <| ss_inactive_at := now s + p_sess_delay (pars s) |> <| ss_status := SPending |> <| ss_status_at := now s |>]> (sessions s)
                else delete e.2 (sessions s).
Proof.
  intros Hx Eid H. pose proof (session_expire_one_keeps _ _ _ H) as Hk.
  split; [keeps_solve|]. split; [keeps_solve|].
  unfold session_expire_one in H. rewrite Hx in H. case_bool_decide as Hact.
  - injection H as <-. simpl. rewrite Eid. reflexivity.
  - apply rbind_ok in H as (total & _ & H). apply rbind_ok in H as (s1 & Hh & H). apply must_ok, session_inactive_hook_keeps in Hh.
    injection H as <-. simpl. rewrite Eid. f_equal. keeps_solve.
Qed.

Record end_inv (s : state) : Prop := {
  ei_k : kinv s; ei_sess : idx_sess s; ei_sub : idx_sub s; ei_par : par_ok (pars s); ei_link : link_inv s }.

Lemma end_inv_session_expire_one s e s' : end_inv s -> session_expire_one s e = Ok s' -> end_inv s'.
Proof.
  intros [A B C D E] H. pose proof (session_expire_one_keeps _ _ _ H) as Hk. split.
  - eapply kinv_session_expire_one; eauto.
  - eapply IndexSess.idx_session_expire_one; eauto. apply A.
  - eapply IndexSub2.idx_session_expire_one; eauto.
  - replace (pars s') with (pars s) by keeps_solve. exact D.
  - eapply link_session_expire_one; eauto.
Qed.

Lemma session_end_block_fresh s s' :
  end_inv s -> session_end_block s = Ok s' -> end_inv s' /\ sess_fresh s' /\ now s' = now s /\ pars s' = pars s.
Proof.
  intros Hinv H. unfold session_end_block in H.
  set (P := fun (rest : list (time * Z)) (x : state) =>
              end_inv x /\ now x = now s /\ pars x = pars s /\ NoDup rest /\ (forall e, e ∈ rest -> e ∈ sess_q x) /\
              forall sid y, sessions x !! sid = Some y -> ss_inactive_at y <= now x -> (ss_inactive_at y, sid) ∈ rest).
  assert (G : P [] s').
  { eapply (IndexSub2.rfold_rest P); [| |exact H].
    - intros e rest x x' (Hx & N1 & N2 & Hnd & Hin & Hdue) Hstep.
      apply NoDup_cons in Hnd as [Hnotin Hnd].
      destruct e as [t id]. assert (He : (t, id) ∈ sess_q x) by (apply Hin; left).
      destruct (proj1 (ix_sq _ (ei_sess _ Hx) t id) He) as (y & Hy & Hiat).
      destruct (k_ss _ (ki_sess _ (ei_k _ Hx)) _ _ Hy) as (Eid & _).
      destruct (session_expire_one_sessions x (t, id) x' y Hy Eid Hstep) as (M1 & M2 & M3). simpl in M3.
      pose proof (end_inv_session_expire_one _ _ _ Hx Hstep) as Hx'.
      split; [exact Hx'|]. split; [congruence|]. split; [congruence|]. split; [exact Hnd|]. split.
      + intros [t' id'] He'. assert (He'q : (t', id') ∈ sess_q x) by (apply Hin; right; exact He').
        apply (ix_sq _ (ei_sess _ Hx')). destruct (proj1 (ix_sq _ (ei_sess _ Hx) t' id') He'q) as (y' & Hy' & Hiat').
        assert (Hne : id' <> id). { intros ->. rewrite Hy in Hy'. injection Hy' as <-. apply Hnotin. rewrite <- Hiat, Hiat'. exact He'. }
        exists y'. split; [|exact Hiat']. rewrite M3. case_bool_decide; [rewrite lookup_insert_ne by congruence|rewrite lookup_delete_ne by congruence]; exact Hy'.
      + intros sid y' Hy' Hle. rewrite M3 in Hy'. rewrite M1 in Hle.
        destruct (decide (sid = id)) as [->|Hne].
        * case_bool_decide; [rewrite lookup_insert in Hy'; injection Hy' as <-; simpl in Hle; destruct (ei_par _ Hx); lia|rewrite lookup_delete in Hy'; discriminate].
        * assert (Hy0 : sessions x !! sid = Some y') by (revert Hy'; case_bool_decide; [rewrite lookup_insert_ne by congruence|rewrite lookup_delete_ne by congruence]; auto).
          specialize (Hdue _ _ Hy0 Hle). apply elem_of_cons in Hdue as [E|Hr]; [congruence|exact Hr].
    - split; [exact Hinv|]. split; [reflexivity|]. split; [reflexivity|]. split; [apply NoDup_due_z|]. split.
      + intros e He. apply elem_of_due_z in He. tauto.
      + intros sid y Hy Hle. apply elem_of_due_z. split; [|exact Hle]. apply (ix_sq _ (ei_sess _ Hinv)). eauto. }
  destruct G as (G1 & G2 & G3 & _ & _ & G4). split; [exact G1|]. split; [|split; assumption].
  intros sid y Hy. destruct (Z_lt_le_dec (now s') (ss_inactive_at y)) as [Hlt|Hle]; [exact Hlt|].
  specialize (G4 _ _ Hy Hle). inversion G4.
Qed.

Lemma idx_sess_sub_expire_one s e s' : kinv s -> idx_sess s -> sub_expire_one s e = Ok s' -> idx_sess s'.
Proof.
  intros Ha Hb Hstep. unfold sub_expire_one in Hstep. destruct (subs s !! e.2) as [sb|]; [|discriminate].
  case_bool_decide.
  - apply rbind_ok in Hstep as (a1 & Hp & Hstep). apply must_ok in Hp.
    pose proof (sub_make_pending_keeps a1 sb) as Hmp. apply detach_payout_keeps in Hstep; [|discriminate].
    eapply (idx_sess_frame a1); try keeps_solve.
    eapply idx_sub_pending_hook; [| |exact Hp]; [eapply kinv_sess_frame; [..|apply (ki_sess _ Ha)]; reflexivity|].
    eapply (idx_sess_frame s); eauto.
  - apply rbind_ok in Hstep as (a1 & Hr & Hstep). apply sub_refund_keeps in Hr. apply sub_delete_payout_keeps in Hstep.
    pose proof (sub_cleanup_keeps a1 sb) as Hc. eapply (idx_sess_frame s); eauto; keeps_solve.
Qed.

Lemma sub_expire_one_effect s e s' sb :
  kinv s -> idx_sess s -> subs s !! e.2 = Some sb -> sb_id sb = e.2 -> sub_expire_one s e = Ok s' ->
  now s' = now s /\ pars s' = pars s /\
  (subs s' = if bool_decide (sb_status sb = SActive)
             then <[e.2 := sb <| sb_inactive_at := now s + p_sub_delay (pars s) |> <| sb_status := SPending |> <| sb_status_at := now s |>]> (subs s)
             else delete e.2 (subs s)) /\
  (forall sid, sessions s' !! sid = if bool_decide (sb_status sb = SActive)
                                    then demote_sess e.2 (now s + p_sess_delay (pars s)) (now s) <$> sessions s !! sid
                                    else sessions s !! sid).
Proof.
  intros Hi Hix Hsb Eid H. pose proof (sub_expire_one_keeps _ _ _ H) as Hk.
  split; [keeps_solve|]. split; [keeps_solve|].
  unfold sub_expire_one in H. rewrite Hsb in H. case_bool_decide as Hact.
  - apply rbind_ok in H as (s2 & Hh & H). apply must_ok in Hh.
    destruct (detach_payout_fields _ _ Panic _ ltac:(intros ? ?; discriminate) H) as (D1 & D2 & _).
    unfold sub_make_pending in D1, D2. simpl in D1, D2.
    pose proof (sub_pending_hook_keeps _ _ _ Hh) as Hk2.
    split.
    + rewrite D2, Eid. replace (subs s2) with (subs s) by (symmetry; keeps_solve).
      replace (now s2) with (now s) by (symmetry; keeps_solve). replace (pars s2) with (pars s) by (symmetry; keeps_solve). reflexivity.
    + intros sid. rewrite D1.
      assert (Hk1' : kinv_sess (s <| sub_q ::= fun q => q ∖ {[ (sb_inactive_at sb, sb_id sb) ]} |>))
        by (eapply kinv_sess_frame; [..|apply (ki_sess _ Hi)]; reflexivity).
      assert (Hix1 : idx_sess (s <| sub_q ::= fun q => q ∖ {[ (sb_inactive_at sb, sb_id sb) ]} |>))
        by (eapply idx_sess_frame; [..|exact Hix]; reflexivity).
      rewrite (sub_pending_hook_sessions _ _ _ Hk1' Hix1 Hh sid). rewrite Eid. reflexivity.
  - apply rbind_ok in H as (s1 & Hr & H). apply sub_refund_keeps in Hr.
    pose proof (sub_cleanup_keeps s1 sb) as Hc.
    assert (F1 : subs (sub_cleanup s1 sb) = subs s1).
    { unfold sub_cleanup. destruct (sb_kind sb); [reflexivity|].
      apply (fold_left_inv (fun y => subs y = subs s1)); [|reflexivity]. intros y al Hy. exact Hy. }
    split.
    + assert (E : subs s' = delete (sb_id sb) (subs (sub_cleanup s1 sb))).
      { unfold sub_delete_payout in H. repeat case_match; try discriminate; injection H as <-; reflexivity. }
      rewrite E, F1, Eid. f_equal. keeps_solve.
    + intros sid. apply sub_delete_payout_keeps in H. f_equal. keeps_solve.
Qed.

Lemma sub_end_block_fresh s s' :
  end_inv s -> sess_fresh s -> sub_end_block s = Ok s' ->
  end_inv s' /\ sess_fresh s' /\ sub_fresh s' /\ now s' = now s /\ pars s' = pars s.
Proof.
  intros Hinv Hfr H. unfold sub_end_block in H.
  set (P := fun (rest : list (time * Z)) (x : state) =>
              end_inv x /\ sess_fresh x /\ now x = now s /\ pars x = pars s /\ NoDup rest /\
              (forall e, e ∈ rest -> e ∈ sub_q x /\ e.1 <= now s) /\
              forall id sb, subs x !! id = Some sb -> sb_inactive_at sb <= now x -> (sb_inactive_at sb, id) ∈ rest).
  assert (G : P [] s').
  { eapply (IndexSub2.rfold_rest P); [| |exact H].
    - intros e rest x x' (Hx & Hfx & N1 & N2 & Hnd & Hin & Hdue) Hstep.
      apply NoDup_cons in Hnd as [Hnotin Hnd].
      destruct e as [t id]. destruct (Hin (t, id) ltac:(left)) as [He Hle]. simpl in Hle.
      destruct (proj1 (ix_subq _ (ei_sub _ Hx) t id) He) as (sb & Hsb & Hiat).
      destruct (k_sub _ (ki_sub _ (ei_k _ Hx)) _ _ Hsb) as (Eid & _).
      destruct (sub_expire_one_effect x (t, id) x' sb (ei_k _ Hx) (ei_sess _ Hx) Hsb Eid Hstep) as (M1 & M2 & M3 & M4). simpl in M3, M4.
      assert (Hx' : end_inv x').
      { destruct Hx as [A B C D E]. split.
        - eapply kinv_sub_expire_one; eauto.
        - eapply idx_sess_sub_expire_one; eauto.
        - eapply idx_sub_expire_one; eauto.
        - rewrite M2. exact D.
        - eapply link_sub_expire_one; eauto. simpl. lia. }
      split; [exact Hx'|]. split.
      { intros sid y Hy. rewrite M4 in Hy. rewrite M1. case_bool_decide.
        - destruct (sessions x !! sid) as [y0|] eqn:Hy0; [|discriminate]. simpl in Hy. injection Hy as <-.
          unfold demote_sess. case_bool_decide; simpl; [destruct (ei_par _ Hx); lia|apply (Hfx _ _ Hy0)].
        - apply (Hfx _ _ Hy). }
      split; [congruence|]. split; [congruence|]. split; [exact Hnd|]. split.
      + intros [t' id'] He'. destruct (Hin (t', id') ltac:(right; exact He')) as [He'q Hle']. split; [|exact Hle'].
        apply (ix_subq _ (ei_sub _ Hx')). destruct (proj1 (ix_subq _ (ei_sub _ Hx) t' id') He'q) as (sb' & Hsb' & Hiat').
        assert (Hne : id' <> id). { intros ->. rewrite Hsb in Hsb'. injection Hsb' as <-. apply Hnotin. rewrite <- Hiat, Hiat'. exact He'. }
        exists sb'. split; [|exact Hiat']. rewrite M3. case_bool_decide; [rewrite lookup_insert_ne by congruence|rewrite lookup_delete_ne by congruence]; exact Hsb'.
      + intros id' sb' Hsb' Hle'. rewrite M3 in Hsb'. rewrite M1 in Hle'.
        destruct (decide (id' = id)) as [->|Hne].
        * case_bool_decide; [rewrite lookup_insert in Hsb'; injection Hsb' as <-; simpl in Hle'; destruct (ei_par _ Hx); lia|rewrite lookup_delete in Hsb'; discriminate].
        * assert (Hs0 : subs x !! id' = Some sb') by (revert Hsb'; case_bool_decide; [rewrite lookup_insert_ne by congruence|rewrite lookup_delete_ne by congruence]; auto).
          specialize (Hdue _ _ Hs0 Hle'). apply elem_of_cons in Hdue as [E|Hr]; [congruence|exact Hr].
    - split; [exact Hinv|]. split; [exact Hfr|]. split; [reflexivity|]. split; [reflexivity|]. split; [apply NoDup_due_z|]. split.
      + intros e He. apply elem_of_due_z in He. tauto.
      + intros id sb Hsb Hle. apply elem_of_due_z. split; [|exact Hle]. apply (ix_subq _ (ei_sub _ Hinv)). eauto. }
  destruct G as (G1 & G2 & G3 & G4 & _ & _ & G5). split; [exact G1|]. split; [exact G2|]. split; [|split; assumption].
  intros id sb Hsb. destruct (Z_lt_le_dec (now s') (sb_inactive_at sb)) as [Hlt|Hle]; [exact Hlt|].
  specialize (G5 _ _ Hsb Hle). inversion G5.
Qed.

(** * nodes: the lease queue *)

Lemma node_expire_one_effect s e s' n :
  kinv_node s -> node_act s !! e.2 = Some n -> node_expire_one s e = Ok s' ->
  now s' = now s /\ node_act s' = delete e.2 (node_act s).
Proof.
  intros Hk Hn H. pose proof (node_expire_one_keeps _ _ _ H) as Hkeep. split; [keeps_solve|].
  unfold node_expire_one in H. unfold get_node in H. rewrite Hn in H.
  destruct (k_na _ Hk _ _ Hn) as [Ea _].
  apply rbind_ok in H as (s2 & Hs & H). apply must_ok in Hs. injection H as <-.
  unfold set_node in Hs. simpl in Hs. injection Hs as <-. simpl. rewrite Ea. reflexivity.
Qed.

Lemma node_sweep_keeps_act_iat s s1 :
  kinv s -> rfold node_sweep_one (all_nodes s) s = Ok s1 ->
  kinv_node s1 /\ node_q s1 = node_q s /\ (forall a, act_iat s1 a = act_iat s a) /\ now s1 = now s.
Proof.
  intros Hi Hsw.
  set (P := fun x => (kinv_node x /\ same_dom (node_act x) (node_act s) /\ same_dom (node_inact x) (node_inact s)) /\
                     (forall a, act_iat x a = act_iat s a) /\ node_q x = node_q s /\ now x = now s).
  assert (HP : P s1).
  { eapply (rfold_inv_in P); [| |exact Hsw].
    - intros x n x' Hn (J & Hiat & Hq & Hnow) Hstep. split; [eapply kinv_node_sweep_one; eauto; apply Hi|].
      destruct (idx_node_sweep_one s x n x' (ki_node _ Hi) Hn J Hiat Hq Hstep) as [I1 I2]. split; [exact I1|]. split; [exact I2|].
      apply node_sweep_one_keeps in Hstep. rewrite <- Hnow. keeps_solve.
    - split; [split; [apply Hi|split; intros k; reflexivity]|]. split; [reflexivity|]. split; reflexivity. }
  destruct HP as ((Hk1 & _) & Hiat & Hq & Hnow). auto.
Qed.

Lemma node_end_block_fresh s s' :
  kinv s -> idx_node s -> node_end_block s = Ok s' -> node_fresh s' /\ now s' = now s.
Proof.
  intros Hi Hix H. unfold node_end_block in H. apply rbind_ok in H as (s1 & Hsw & H).
  assert (H1 : kinv_node s1 /\ idx_node s1 /\ now s1 = now s).
  { destruct (_ || _); [|injection Hsw as <-; split; [apply Hi|split; [exact Hix|reflexivity]]].
    destruct (node_sweep_keeps_act_iat _ _ Hi Hsw) as (K1 & K2 & K3 & K4). split; [exact K1|]. split; [|exact K4].
    eapply idx_node_frame; eauto. }
  destruct H1 as (Hk1 & Hix1 & Hn1).
  set (P := fun (rest : list (time * addr)) (x : state) =>
              kinv_node x /\ idx_node x /\ now x = now s /\ NoDup rest /\ (forall e, e ∈ rest -> e ∈ node_q x) /\
              forall a n, node_act x !! a = Some n -> nd_inactive_at n <= now x -> (nd_inactive_at n, a) ∈ rest).
  assert (G : P [] s').
  { eapply (IndexSub2.rfold_rest P); [| |exact H].
    - intros e rest x x' (Hkx & Hixx & N1 & Hnd & Hin & Hdue) Hstep.
      apply NoDup_cons in Hnd as [Hnotin Hnd]. destruct e as [t a].
      assert (He : (t, a) ∈ node_q x) by (apply Hin; left).
      destruct (proj1 (act_iat_spec x a t) (proj1 (Hixx t a) He)) as (n & Hn & Hiat).
      destruct (node_expire_one_effect x (t, a) x' n Hkx Hn Hstep) as [M1 M2]. simpl in M2.
      pose proof (kinv_node_expire_one _ _ _ Hkx Hstep) as Hkx'. pose proof (idx_node_expire_one _ _ _ Hkx Hixx Hstep) as Hixx'.
      split; [exact Hkx'|]. split; [exact Hixx'|]. split; [congruence|]. split; [exact Hnd|]. split.
      + intros [t' a'] He'. assert (He'q : (t', a') ∈ node_q x) by (apply Hin; right; exact He').
        apply Hixx'. apply act_iat_spec. destruct (proj1 (act_iat_spec x a' t') (proj1 (Hixx t' a') He'q)) as (n' & Hn' & Hiat').
        assert (Hne : a' <> a). { intros ->. rewrite Hn in Hn'. injection Hn' as <-. apply Hnotin. rewrite <- Hiat, Hiat'. exact He'. }
        exists n'. split; [|exact Hiat']. rewrite M2, lookup_delete_ne by congruence. exact Hn'.
      + intros a' n' Hn' Hle'. rewrite M2 in Hn'. rewrite M1 in Hle'. apply lookup_delete_Some in Hn' as [Hne Hn'].
        specialize (Hdue _ _ Hn' Hle'). apply elem_of_cons in Hdue as [E|Hr]; [congruence|exact Hr].
    - split; [exact Hk1|]. split; [exact Hix1|]. split; [exact Hn1|]. split; [apply NoDup_due_a|]. split.
      + intros e He. apply elem_of_due_a in He. tauto.
      + intros a n Hn Hle. apply elem_of_due_a. split; [|exact Hle]. apply Hix1. apply act_iat_spec. eauto. }
  destruct G as (_ & _ & G3 & _ & _ & G5). split; [|exact G3].
  intros a n Hn. destruct (Z_lt_le_dec (now s') (nd_inactive_at n)) as [Hlt|Hle]; [exact Hlt|].
  specialize (G5 _ _ Hn Hle). inversion G5.
Qed.

(** * every operation, every history *)

Record life_inv (s : state) : Prop := { lf_idx : all_idx s; lf_par : par_ok (pars s); lf_link : link_inv s }.

Lemma life_end_inv s : life_inv s -> end_inv s.
Proof. intros [A B C]. split; [apply A|apply A|apply A|exact B|exact C]. Qed.

Lemma link_clear s : link_inv s -> link_inv (clear_events s).
Proof. apply link_mono; auto. simpl. lia. Qed.

(* the state after the three end-blockers *)
Lemma end_block_effect s s' :
  life_inv s -> end_block s = Ok s' ->
  link_inv s' /\ pars s' = pars s /\ now s' = now s /\ sess_fresh s' /\ sub_fresh s' /\ node_fresh s'.
Proof.
  intros Hl H. unfold end_block in H. apply rbind_ok in H as (s1 & H1 & H). apply rbind_ok in H as (s2 & H2 & H3).
  pose proof (life_end_inv _ Hl) as [A B C D E]. destruct Hl as [Hall _ _].
  destruct (node_end_block_fresh _ _ A (ai_node _ Hall) H1) as [Nf N1].
  pose proof (node_end_block_keeps _ _ H1) as K1.
  assert (Hinv1 : end_inv s1).
  { split.
    - eapply kinv_node_end_block; eauto.
    - eapply idx_sess_keeps; eauto.
    - eapply idx_sub_keeps; eauto.
    - replace (pars s1) with (pars s) by keeps_solve. exact D.
    - eapply link_keeps; eauto. }
  destruct (session_end_block_fresh _ _ Hinv1 H2) as (Hinv2 & Sf2 & N2 & P2).
  destruct (sub_end_block_fresh _ _ Hinv2 Sf2 H3) as (Hinv3 & Sf3 & Bf3 & N3 & P3).
  split; [apply Hinv3|]. split; [rewrite P3, P2; keeps_solve|]. split; [lia|]. split; [exact Sf3|]. split; [exact Bf3|].
  intros a n Hn. pose proof (session_end_block_keeps _ _ H2) as K2. pose proof (sub_end_block_keeps _ _ H3) as K3.
  assert (En : node_act s' = node_act s1) by (transitivity (node_act s2); keeps_solve). rewrite En in Hn.
  specialize (Nf _ _ Hn). lia.
Qed.

Lemma pars_fold_clear cs : forall s0, pars (fold_left apply_pchange cs (clear_events s0)) = pars (fold_left apply_pchange cs s0).
Proof.
  induction cs as [|c cs IH]; intros s0; [reflexivity|]. simpl.
  replace (apply_pchange (clear_events s0) c) with (clear_events (apply_pchange s0 c)) by (destruct c; reflexivity). apply IH.
Qed.

Lemma fold_pchange_fields cs : forall s0,
  sessions (fold_left apply_pchange cs s0) = sessions s0 /\ subs (fold_left apply_pchange cs s0) = subs s0 /\
  allocs (fold_left apply_pchange cs s0) = allocs s0 /\ now (fold_left apply_pchange cs s0) = now s0.
Proof.
  induction cs as [|c cs IH]; intros s0; [auto|]. simpl. destruct (IH (apply_pchange s0 c)) as (I1 & I2 & I3 & I4).
  rewrite I1, I2, I3, I4. destruct c; auto.
Qed.

(* the per-key validators keep every single-field condition of [par_ok] *)
Definition par_keys_ok (p : params) : Prop :=
  0 < p_sub_delay p /\ 0 < p_sess_delay p /\ 0 < p_node_active p /\ 0 <= p_node_share p <= P18 /\ 0 <= p_prov_share p <= P18.
Lemma pchange_valid_keys s c : pchange_valid c = true -> par_keys_ok (pars s) -> par_keys_ok (pars (apply_pchange s c)).
Proof.
  unfold par_keys_ok. intros Hv Hk. destruct c; simpl in *; unfold pos_i64, share_ok in Hv; try exact Hk;
    repeat match goal with H : _ && _ = true |- _ => apply andb_true_iff in H as [? ?] end; intuition lia.
Qed.
Lemma gov_par_ok cs : forall s,
  par_ok (pars s) -> forallb pchange_valid cs = true ->
  p_sess_delay (pars (fold_left apply_pchange cs s)) <= p_sub_delay (pars (fold_left apply_pchange cs s)) ->
  par_ok (pars (fold_left apply_pchange cs s)).
Proof.
  intros s [A B C D E F] Hv Hd.
  assert (K : par_keys_ok (pars (fold_left apply_pchange cs s))).
  { assert (K0 : par_keys_ok (pars s)) by (unfold par_keys_ok; auto).
    clear -Hv K0. revert s K0. induction cs as [|c cs IH]; intros s K0; simpl in *; [exact K0|].
    apply andb_true_iff in Hv as [H1 H2]. apply IH; [exact H2|]. apply pchange_valid_keys; assumption. }
  destruct K as (K1 & K2 & K3 & K4 & K5). split; auto.
Qed.

Theorem life_step s o s' : life_inv s -> wf_op_life s o -> step s o = OOk s' -> life_inv s'.
Proof.
  intros Hl Hwf H. pose proof (all_idx_step _ _ _ (lf_idx _ Hl) H) as Hall'. split; [exact Hall'| |].
  - (* parameters only change through governance *)
    unfold step in H. destruct o.
    + destruct (begin_block _) as [x| |] eqn:Hb; try discriminate. injection H as <-. apply begin_block_keeps in Hb.
      replace (pars x) with (pars s) by (symmetry; keeps_solve). apply Hl.
    + unfold run_tx in H. destruct (validate_basic m); [|discriminate]. destruct (handle _ m) as [x| |] eqn:Hh; try discriminate.
      injection H as <-. apply handle_keeps in Hh. replace (pars x) with (pars s) by (symmetry; keeps_solve). apply Hl.
    + destruct (forallb pchange_valid cs) eqn:Hgate; [|discriminate]. injection H as <-. simpl in Hwf. destruct (Hwf Hgate) as [Hp _].
      rewrite pars_fold_clear. apply gov_par_ok; [apply Hl|exact Hgate|exact Hp].
    + destruct (end_block _) as [x| |] eqn:He; try discriminate. injection H as <-. apply end_block_keeps in He.
      simpl. replace (pars x) with (pars s) by (symmetry; keeps_solve). apply Hl.
  - unfold step in H. destruct o.
    + destruct (begin_block _) as [x| |] eqn:Hb; try discriminate. injection H as <-.
      eapply link_begin_block; [exact Hwf|apply Hl|exact Hb].
    + unfold run_tx in H. destruct (validate_basic m) eqn:Hv; [|discriminate]. destruct (handle _ m) as [x| |] eqn:Hh; try discriminate.
      injection H as <-. pose proof (all_idx_clear _ (lf_idx _ Hl)) as Hc.
      eapply link_handle; [apply Hc|apply Hc|apply Hc|apply Hl|apply link_clear; apply Hl|exact Hv|exact Hh].
    + destruct (forallb pchange_valid cs) eqn:Hgate; [|discriminate]. injection H as <-. simpl in Hwf. destruct (Hwf Hgate) as [_ Hb].
      destruct (lf_link _ Hl) as [L]. split.
      assert (F : sessions (fold_left apply_pchange cs (clear_events s)) = sessions s /\ subs (fold_left apply_pchange cs (clear_events s)) = subs s /\
                  allocs (fold_left apply_pchange cs (clear_events s)) = allocs s /\ now (fold_left apply_pchange cs (clear_events s)) = now s /\
                  p_sub_delay (pars (fold_left apply_pchange cs (clear_events s))) = p_sub_delay (pars (fold_left apply_pchange cs s))).
      { destruct (fold_pchange_fields cs (clear_events s)) as (G1 & G2 & G3 & G4). repeat split; try assumption.
        rewrite pars_fold_clear. reflexivity. }
      destruct F as (F1 & F2 & F3 & F4 & F5). rewrite F1, F2, F3, F4, F5. intros sid x Hx.
      destruct (L _ _ Hx) as (sb & Hsb & Hha & L1 & L2 & L3). exists sb. split; [exact Hsb|]. split; [exact Hha|]. split; [exact L1|].
      split; [exact L2|]. intros P1 _. apply (Hb _ _ Hx P1).
    + destruct (end_block _) as [x| |] eqn:He; try discriminate. injection H as <-.
      assert (Hl0 : life_inv (clear_events s)).
      { split; [apply all_idx_clear; apply Hl|apply Hl|apply link_clear; apply Hl]. }
      destruct (end_block_effect _ _ Hl0 He) as (G & _). apply (link_mono x); auto. simpl. lia.
Qed.

(* the state right after the end-blocker: every live deadline lies in the future *)
Theorem deadlines_met s s' :
  life_inv s -> step s OEnd = OOk s' ->
  (forall sid x, sessions s' !! sid = Some x -> now s' < ss_inactive_at x) /\
  (forall id sb, subs s' !! id = Some sb -> now s' < sb_inactive_at sb) /\
  (forall a n, node_act s' !! a = Some n -> now s' < nd_inactive_at n).
Proof.
  intros Hl H. unfold step in H. destruct (end_block _) as [x| |] eqn:He; try discriminate. injection H as <-.
  assert (Hl0 : life_inv (clear_events s)) by (split; [apply all_idx_clear; apply Hl|apply Hl|apply link_clear; apply Hl]).
  destruct (end_block_effect _ _ Hl0 He) as (_ & _ & _ & S & B & N). auto.
Qed.

Fixpoint wf_hist (P : state -> op -> Prop) (s : state) (ops : list op) : Prop :=
  match ops with
  | [] => True
  | o :: r => P s o /\ match step s o with OOk s' => wf_hist P s' r | ORejected => wf_hist P (clear_events s) r | OHalt => True end
  end.

Lemma life_clear s : life_inv s -> life_inv (clear_events s).
Proof. intros Hl. split; [apply all_idx_clear; apply Hl|apply Hl|apply link_clear; apply Hl]. Qed.

Theorem life_run ops : forall s i s', life_inv s -> wf_hist wf_op_life s ops -> run_from s ops i = RunOk s' -> life_inv s'.
Proof.
  induction ops as [|o ops IH]; simpl; intros s i s' Hl Hwf H.
  - injection H as <-. exact Hl.
  - destruct Hwf as [Hw1 Hw2]. destruct (step s o) eqn:E; try discriminate.
    + eapply IH; [eapply life_step; eauto|exact Hw2|exact H].
    + eapply IH; [apply life_clear; exact Hl|exact Hw2|exact H].
Qed.

Lemma link_inv_init g : link_inv (init g).
Proof.
  split. intros sid x Hx. exfalso. revert Hx. unfold init.
  assert (G : forall l s0, sessions s0 = ∅ -> sessions (fold_left (fun s '(a, (d, v)) => set_bal (s <| supply ::= fun c => coins_add c d v |>) a d (bal s a d + v)) l s0) = ∅).
  { induction l as [|[a [d v]] l IH]; intros s0 H0; [exact H0|]. simpl. apply IH. exact H0. }
  destruct (g_mint g) as [[[mx mn] rc] inf]. simpl. rewrite G by reflexivity. rewrite lookup_empty. discriminate.
Qed.

Theorem life_init g : par_ok (g_params g) -> life_inv (init g).
Proof.
  intros Hp. split; [apply all_idx_init| |apply link_inv_init].
  unfold init.
  assert (G : forall l s0, pars (fold_left (fun s '(a, (d, v)) => set_bal (s <| supply ::= fun c => coins_add c d v |>) a d (bal s a d + v)) l s0) = pars s0).
  { induction l as [|[a [d v]] l IH]; intros s0; [reflexivity|]. simpl. rewrite IH. reflexivity. }
  destruct (g_mint g) as [[[mx mn] rc] inf]. simpl. rewrite G. exact Hp.
Qed.
