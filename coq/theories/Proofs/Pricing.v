(* C05: buyers pay exactly the quoted price; every payment is split without loss.
   Exact effect of each payment path on all balances. *)
From Hub Require Import Base.Prelude Base.Arith Model.Types Model.Keeper Model.Handlers Model.Hooks Model.Step.
From Hub Require Import Proofs.Tactics Proofs.ArithThm Proofs.Frames Proofs.Money.

(* balance change of [x] in denomination [d'] when [amt] of [d] moves from [f] to [t] *)
Definition moved (f t : addr) (d : denom) (amt : Z) (x : addr) (d' : denom) : Z :=
  delta (bool_decide (t = x /\ d = d')) amt - delta (bool_decide (f = x /\ d = d')) amt.

Lemma z_send_bal s f t c s' :
  z_send s f t c = Ok s' -> 0 <= c.2 /\ forall x d', bal s' x d' = bal s x d' + moved f t c.1 c.2 x d'.
Proof.
  unfold z_send. destruct (c.2 =? 0) eqn:E.
  - intros [= <-]. apply Z.eqb_eq in E. split; [lia|]. intros x d'. unfold moved, delta. rewrite E. repeat case_bool_decide; lia.
  - intros H. destruct (bank_send_bal _ _ _ _ _ _ H) as [H0 Hb]. split; [exact H0|]. intros x d'. rewrite Hb. unfold moved. lia.
Qed.

Lemma dep_store_bal s a c x d : bal (dep_store s a c) x d = bal s x d.
Proof. unfold bal. rewrite (proj2 (dep_store_frame s a c)). reflexivity. Qed.

Lemma z_dep_to_module_bal s from m c s' :
  z_dep_to_module s from m c = Ok s' ->
  0 <= c.2 /\ cfg s' = cfg s /\ forall x d', bal s' x d' = bal s x d' + moved (c_deposit (cfg s)) m c.1 c.2 x d'.
Proof.
  unfold z_dep_to_module. destruct (c.2 =? 0) eqn:E.
  - intros [= <-]. apply Z.eqb_eq in E. split; [lia|]. split; [reflexivity|]. intros x d'. unfold moved, delta. rewrite E. repeat case_bool_decide; lia.
  - intros H. unfold dep_to_module in H. apply rbind_ok in H as (dep & _ & H). apply rbind_ok in H as (s1 & Hs & H). injection H as <-.
    destruct (bank_send_bal _ _ _ _ _ _ Hs) as [H0 Hb]. split; [exact H0|]. split.
    + simpl. rewrite (proj1 (dep_store_frame _ _ _)). eapply cfg_bank_send; eauto.
    + intros x d'. change (bal (dep_store s1 from dep) x d' = bal s x d' + moved (c_deposit (cfg s)) m c.1 c.2 x d').
      rewrite dep_store_bal, Hb. unfold moved. lia.
Qed.

Lemma z_dep_to_account_bal s from t c s' :
  z_dep_to_account s from t c = Ok s' ->
  0 <= c.2 /\ cfg s' = cfg s /\ forall x d', bal s' x d' = bal s x d' + moved (c_deposit (cfg s)) t c.1 c.2 x d'.
Proof.
  unfold z_dep_to_account. destruct (c.2 =? 0) eqn:E.
  - intros [= <-]. apply Z.eqb_eq in E. split; [lia|]. split; [reflexivity|]. intros x d'. unfold moved, delta. rewrite E. repeat case_bool_decide; lia.
  - intros H. unfold dep_to_account in H. apply rbind_ok in H as (dep & _ & H). apply rbind_ok in H as (s1 & Hs & H). injection H as <-.
    apply bank_send_to_account_inv in Hs as [_ Hs].
    destruct (bank_send_bal _ _ _ _ _ _ Hs) as [H0 Hb]. split; [exact H0|]. split.
    + simpl. rewrite (proj1 (dep_store_frame _ _ _)). eapply cfg_bank_send; eauto.
    + intros x d'. change (bal (dep_store s1 from dep) x d' = bal s x d' + moved (c_deposit (cfg s)) t c.1 c.2 x d').
      rewrite dep_store_bal, Hb. unfold moved. lia.
Qed.

Lemma coin_sub_ok c a r : coin_sub c a = Ok r -> r = (c.1, c.2 - a) /\ 0 <= c.2 - a.
Proof.
  unfold coin_sub, int_sub, chk, new_coin. destruct (fits _); simpl; [|discriminate].
  destruct (c.2 - a <? 0) eqn:E; [discriminate|]. intros [= <-]. split; [reflexivity|lia].
Qed.

Lemma int_mul_ok' a b c : int_mul a b = Ok c -> c = a * b.
Proof. unfold int_mul, chk. destruct (fits _); [intros [= <-]; reflexivity|discriminate]. Qed.

(** * the split of a payment between payee and fee collector *)

(* fee = exactly (half-even) rounded share of the payment; payee gets the rest *)
Definition split_ok (payment share fee payee : Z) : Prop :=
  fee + payee = payment /\ 0 <= fee <= payment /\ fee = chop_round (payment * share) /\
  - HALF18 <= fee * P18 - payment * share <= HALF18.

Lemma split_of_proportion payment share fee r :
  0 <= payment <= 2 ^ 128 -> 0 <= share <= P18 ->
  proportion payment share = Ok fee -> coin_sub (r, payment) fee = Ok (r, payment - fee) ->
  split_ok payment share fee (payment - fee).
Proof.
  intros Hp Hs Hf _. destruct (proportion_exact payment share Hp Hs) as (f & Hf' & E & B1 & B2).
  rewrite Hf in Hf'. injection Hf' as <-. unfold split_ok. repeat split; try lia; try exact E.
Qed.

(** * plan subscriptions *)

Theorem plan_subscribe_pays s acc pid dn s' id :
  create_sub_for_plan s acc pid dn = Ok (s', id) ->
  exists p price fee,
    get_plan s pid = Some p /\ pl_status p = SActive /\ pl_prices p !! dn = Some price /\
    proportion price (p_prov_share (pars s)) = Ok fee /\ 0 <= fee <= price /\
    forall x d', bal s' x d' = bal s x d' + moved acc (c_feecoll (cfg s)) dn fee x d' + moved acc (pl_prov p) dn (price - fee) x d'.
Proof.
  intros H. unfold create_sub_for_plan in H. destruct (get_plan s pid) as [p|] eqn:Hg; [|discriminate].
  apply rbind_ok in H as (u & Hact & H). apply ensure_ok, bool_decide_eq_true in Hact.
  destruct (pl_prices p !! dn) as [price|] eqn:Hp; [|discriminate].
  apply rbind_ok in H as (fee & Hfee & H). apply rbind_ok in H as (s1 & Hs1 & H).
  apply rbind_ok in H as (payment & Hpay & H). apply rbind_ok in H as (s2 & Hs2 & H).
  apply coin_sub_ok in Hpay as [-> Hge]. simpl in Hge.
  destruct (z_send_bal _ _ _ _ _ Hs1) as [Hf0 Hb1]. destruct (z_send_bal _ _ _ _ _ Hs2) as [_ Hb2]. simpl in *.
  apply rbind_ok in H as (g & _ & H). injection H as <- _.
  exists p, price, fee. repeat split; auto; try lia.
  intros x d'. change (bal s2 x d' = bal s x d' + moved acc (c_feecoll (cfg s)) dn fee x d' + moved acc (pl_prov p) dn (price - fee) x d').
  rewrite Hb2, Hb1. reflexivity.
Qed.

(* a plan subscription costs exactly the plan's price; provider and fee collector get exactly the two parts *)
Corollary plan_subscribe_split s acc pid dn s' id p price :
  create_sub_for_plan s acc pid dn = Ok (s', id) -> get_plan s pid = Some p -> pl_prices p !! dn = Some price ->
  0 <= price <= 2 ^ 128 -> 0 <= p_prov_share (pars s) <= P18 ->
  exists fee, split_ok price (p_prov_share (pars s)) fee (price - fee) /\
    forall x d', bal s' x d' = bal s x d' + moved acc (c_feecoll (cfg s)) dn fee x d' + moved acc (pl_prov p) dn (price - fee) x d'.
Proof.
  intros H Hg Hp Hr Hs. destruct (plan_subscribe_pays _ _ _ _ _ _ H) as (p' & price' & fee & Hg' & _ & Hp' & Hfee & _ & Hb).
  rewrite Hg in Hg'. injection Hg' as <-. rewrite Hp in Hp'. injection Hp' as <-.
  exists fee. split; [|exact Hb].
  destruct (proportion_exact price _ Hr Hs) as (f & Hf' & E & B1 & B2). rewrite Hfee in Hf'. injection Hf' as <-.
  unfold split_ok. repeat split; try lia; try exact E.
Qed.

(** * pay-as-you-go subscriptions: the escrowed amount *)

Lemma afb_whole_gigabytes p g :
  0 <= p <= 2 ^ 128 -> 0 <= g -> GB * g <= 2 ^ 128 -> amount_for_bytes p (GB * g) = Ok (p * g).
Proof.
  intros Hp Hg Hb. assert (0 <= GB * g) by (pose proof GB_pos; nia). rewrite afb_exact by lia. f_equal.
  replace (p * (GB * g)) with (GB * (p * g)) by lia. apply cdiv_exact. apply GB_pos.
Qed.

Lemma z_dep_add_bal s a c s' :
  z_dep_add s a c = Ok s' -> 0 <= c.2 /\ forall x d', bal s' x d' = bal s x d' + moved a (c_deposit (cfg s)) c.1 c.2 x d'.
Proof.
  unfold z_dep_add. destruct (c.2 =? 0) eqn:E.
  - intros [= <-]. apply Z.eqb_eq in E. split; [lia|]. intros x d'. unfold moved, delta. rewrite E. repeat case_bool_decide; lia.
  - intros H. unfold dep_add in H. apply rbind_ok in H as (s1 & Hs & H). injection H as <-.
    destruct (bank_send_bal _ _ _ _ _ _ Hs) as [H0 Hb]. split; [exact H0|]. intros x d'.
    change (bal s1 x d' = bal s x d' + moved a (c_deposit (cfg s)) c.1 c.2 x d'). rewrite Hb. unfold moved. lia.
Qed.

(* per-gigabyte purchase: the escrow is the charge for GB*g bytes at the node's quoted price in that denomination;
   a denomination the node does not quote is rejected *)
Theorem node_subscribe_gigabytes s acc nd g dn s' id :
  g <> 0 -> create_sub_for_node s acc nd g 0 dn = Ok (s', id) ->
  exists n price b amount,
    get_node s nd = Some n /\ nd_status n = SActive /\ nd_gb_prices n !! dn = Some price /\
    int_mul GB g = Ok b /\ amount_for_bytes price b = Ok amount /\ 0 <= amount /\
    (forall x d', bal s' x d' = bal s x d' + moved acc (c_deposit (cfg s)) dn amount x d') /\
    exists sb, subs s' !! id = Some sb /\ sb_kind sb = KNode nd g 0 (dn, amount) /\ sb_addr sb = acc.
Proof.
  intros Hg H. unfold create_sub_for_node in H. destruct (get_node s nd) as [n|] eqn:Hn; [|discriminate].
  apply rbind_ok in H as (u & Hact & H). apply ensure_ok, bool_decide_eq_true in Hact.
  assert (Eg : negb (g =? 0) = true) by (apply negb_true_iff, Z.eqb_neq; exact Hg). rewrite Eg in H. simpl in H.
  destruct (nd_gb_prices n !! dn) as [price|] eqn:Hp; [|discriminate]. simpl in H.
  destruct (int_mul GB g) as [b| |] eqn:Hb; try discriminate. simpl in H.
  destruct (amount_for_bytes price b) as [amount| |] eqn:Ha; try discriminate. simpl in H.
  unfold new_coin in H. destruct (amount <? 0) eqn:E; [discriminate|]. simpl in H.
  apply rbind_ok in H as (s1 & Hs1 & H). destruct (z_dep_add_bal _ _ _ _ Hs1) as [_ Hb1]. simpl in Hb1.
  injection H as <- <-.
  exists n, price, b, amount. repeat split; auto; try lia.
  eexists. split; [simpl; apply lookup_insert|]. split; reflexivity.
Qed.

(* per-hour purchase: the escrow is the node's quoted hourly price times the hours *)
Theorem node_subscribe_hours s acc nd h dn s' id :
  h <> 0 -> create_sub_for_node s acc nd 0 h dn = Ok (s', id) ->
  exists n price,
    get_node s nd = Some n /\ nd_status n = SActive /\ nd_hr_prices n !! dn = Some price /\ 0 <= price * h /\
    (forall x d', bal s' x d' = bal s x d' + moved acc (c_deposit (cfg s)) dn (price * h) x d') /\
    exists sb, subs s' !! id = Some sb /\ sb_kind sb = KNode nd 0 h (dn, price * h) /\ sb_addr sb = acc.
Proof.
  intros Hh H. unfold create_sub_for_node in H. destruct (get_node s nd) as [n|] eqn:Hn; [|discriminate].
  apply rbind_ok in H as (u & Hact & H). apply ensure_ok, bool_decide_eq_true in Hact.
  assert (Eh : negb (h =? 0) = true) by (apply negb_true_iff, Z.eqb_neq; exact Hh). rewrite Eh in H. simpl in H.
  destruct (nd_hr_prices n !! dn) as [price|] eqn:Hp; [|discriminate]. simpl in H.
  destruct (int_mul price h) as [a| |] eqn:Ha; try discriminate. apply int_mul_ok' in Ha. subst a. simpl in H.
  unfold new_coin in H. destruct (price * h <? 0) eqn:E; [discriminate|]. simpl in H.
  apply rbind_ok in H as (s1 & Hs1 & H). destruct (z_dep_add_bal _ _ _ _ Hs1) as [_ Hb1]. simpl in Hb1.
  apply rbind_ok in H as (s4 & Hs4 & H). injection H as <- <-.
  apply rbind_ok in Hs4 as (pr & _ & Hs4). apply rbind_ok in Hs4 as (pc & _ & Hs4). injection Hs4 as <-.
  exists n, price. repeat split; auto; try lia.
  eexists. split; [simpl; apply lookup_insert|]. split; reflexivity.
Qed.

(* whole gigabytes at the quoted per-gigabyte price cost exactly price x gigabytes *)
Corollary node_subscribe_gigabyte_price s acc nd g dn s' id n price :
  create_sub_for_node s acc nd g 0 dn = Ok (s', id) -> g <> 0 -> 0 <= g -> GB * g <= 2 ^ 128 ->
  get_node s nd = Some n -> nd_gb_prices n !! dn = Some price -> 0 <= price <= 2 ^ 128 ->
  (forall x d', bal s' x d' = bal s x d' + moved acc (c_deposit (cfg s)) dn (price * g) x d') /\
  exists sb, subs s' !! id = Some sb /\ sb_kind sb = KNode nd g 0 (dn, price * g).
Proof.
  intros H Hg Hg0 Hb Hn Hp Hr.
  destruct (node_subscribe_gigabytes _ _ _ _ _ _ _ Hg H) as (n' & price' & b & amount & Hn' & _ & Hp' & Hm & Ha & _ & Hbal & (sb & Hsb & Hk & _)).
  rewrite Hn in Hn'. injection Hn' as <-. rewrite Hp in Hp'. injection Hp' as <-.
  apply int_mul_ok' in Hm. subst b. rewrite afb_whole_gigabytes in Ha by assumption. injection Ha as <-.
  split; [exact Hbal|]. exists sb. auto.
Qed.

(** * hourly payouts and session settlements: the payment leaves the escrow and is split *)

Theorem payout_split s e s' :
  payout_step s e = Ok s' ->
  exists po fee,
    payouts s !! e.2 = Some po /\ proportion (po_price po).2 (p_node_share (pars s)) = Ok fee /\ 0 <= fee <= (po_price po).2 /\
    forall x d', bal s' x d' = bal s x d' + moved (c_deposit (cfg s)) (c_feecoll (cfg s)) (po_price po).1 fee x d'
                                          + moved (c_deposit (cfg s)) (po_node po) (po_price po).1 ((po_price po).2 - fee) x d'.
Proof.
  intros H. unfold payout_step in H. destruct (payouts s !! e.2) as [po|] eqn:Hp; [|discriminate].
  apply rbind_ok in H as (fee & Hfee & H). apply must_ok in Hfee.
  apply rbind_ok in H as (s2 & Hs2 & H). apply must_ok in Hs2.
  apply rbind_ok in H as (payment & Hpay & H). apply must_ok in Hpay. apply coin_sub_ok in Hpay as [-> Hge].
  apply rbind_ok in H as (s3 & Hs3 & H). apply must_ok in Hs3.
  destruct (z_dep_to_module_bal _ _ _ _ _ Hs2) as (Hf0 & Hc2 & Hb2). destruct (z_dep_to_account_bal _ _ _ _ _ Hs3) as (_ & Hc3 & Hb3).
  simpl in *. exists po, fee. split; [reflexivity|]. split; [exact Hfee|]. split; [lia|].
  intros x d'. assert (Hbal : bal s' x d' = bal s3 x d') by (injection H as <-; destruct (0 <? po_hours po - 1); reflexivity).
  rewrite Hbal, Hb3, Hc2, Hb2. reflexivity.
Qed.

Theorem settlement_split s sid acc nd b s' :
  session_inactive_hook s sid acc nd b = Ok s' ->
  (forall x d', bal s' x d' = bal s x d') \/
  exists dn pay fee,
    proportion pay (p_node_share (pars s)) = Ok fee /\ 0 <= fee <= pay /\
    forall x d', bal s' x d' = bal s x d' + moved (c_deposit (cfg s)) (c_feecoll (cfg s)) dn fee x d'
                                          + moved (c_deposit (cfg s)) nd dn (pay - fee) x d'.
Proof.
  intros H. unfold session_inactive_hook in H.
  destruct (sessions s !! sid) as [x|]; [|discriminate]. apply rbind_ok in H as (u & _ & H).
  destruct (subs s !! ss_sub x) as [sb|]; [|discriminate].
  match type of H with (if ?c then _ else _) = _ => destruct c end; [injection H as <-; left; reflexivity|].
  destruct (allocs s !! (sb_id sb, acc)) as [al|]; [|discriminate].
  apply rbind_ok in H as ([price previous] & _ & H). apply rbind_ok in H as (remaining & _ & H). apply rbind_ok in H as (used' & _ & H).
  destruct (match sb_kind sb with KNode _ g _ dep => if g =? 0 then None else Some (g, dep) | KPlan _ _ => None end);
    [|injection H as <-; left; reflexivity].
  right. apply rbind_ok in H as (current & _ & H). apply rbind_ok in H as (diff & _ & H).
  apply rbind_ok in H as (pay & Hpay & H). unfold new_coin in Hpay. destruct (diff <? 0); [discriminate|]. injection Hpay as <-.
  apply rbind_ok in H as (fee & Hfee & H). apply rbind_ok in H as (s2 & Hs2 & H).
  apply rbind_ok in H as (payment & Hp & H). apply coin_sub_ok in Hp as [-> Hge].
  apply rbind_ok in H as (s3 & Hs3 & H). injection H as <-.
  destruct (z_dep_to_module_bal _ _ _ _ _ Hs2) as (Hf0 & Hc2 & Hb2). destruct (z_dep_to_account_bal _ _ _ _ _ Hs3) as (_ & Hc3 & Hb3).
  simpl in *. exists price.1, diff, fee. split; [exact Hfee|]. split; [lia|].
  intros y d'. change (bal s3 y d' = bal s y d' + moved (c_deposit (cfg s)) (c_feecoll (cfg s)) price.1 fee y d' + moved (c_deposit (cfg s)) nd price.1 (diff - fee) y d').
  rewrite Hb3, Hc2, Hb2. reflexivity.
Qed.

(* whatever proportion computes is the exactly rounded share, within half a unit *)
Theorem fee_within_share pay share fee :
  0 <= pay <= 2 ^ 128 -> 0 <= share <= P18 -> proportion pay share = Ok fee -> split_ok pay share fee (pay - fee).
Proof.
  intros Hp Hs Hf. destruct (proportion_exact pay share Hp Hs) as (f & Hf' & E & B1 & B2).
  rewrite Hf in Hf'. injection Hf' as <-. unfold split_ok. repeat split; try lia; try exact E.
Qed.
