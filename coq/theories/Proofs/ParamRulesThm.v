(* The governance gate of the model IS the per-key validators of the source: [Gen.ParamRules.param_rules] is regenerated on
   every run from x/*/types/params.go (for every parameter: the Go type of its value and the ordered list of its
   refuse / accept tests); this file gives the tests their meaning over the values a parameter-change proposal can carry
   and proves that [pchange_valid] -- the gate [step] applies to an [OGov] operation -- is exactly the meaning of the
   regenerated rule of the parameter each change writes.  A validator that is weakened, strengthened or re-ordered in the
   source changes the regenerated table and breaks this theorem (a new shape breaks the translator instead). *)
From Hub Require Import Base.Prelude Base.Arith Model.Types Model.Keeper Model.Handlers Model.Hooks Model.Step.
From Hub Require Import Gen.ParamRules.
From Coq Require String.

(* what a change carries, after the JSON value of the proposal has been decoded into the Go type of the parameter *)
Inductive pval := VCoin (c : coin) | VCoins (l : list coin) | VInt (z : Z) | VDec (z : Z) | VBool (b : bool) | VDenom (d : denom) | VAddr (t : taddr).

Definition pchange_key (c : pchange) : string * string :=
  match c with
  | PCProvDeposit _ => ("vpn/provider", "Deposit") | PCProvShare _ => ("vpn/provider", "StakingShare")
  | PCNodeDeposit _ => ("vpn/node", "Deposit") | PCNodeActive _ => ("vpn/node", "ActiveDuration")
  | PCMaxGb _ => ("vpn/node", "MaxGigabytePrices") | PCMinGb _ => ("vpn/node", "MinGigabytePrices")
  | PCMaxHr _ => ("vpn/node", "MaxHourlyPrices") | PCMinHr _ => ("vpn/node", "MinHourlyPrices")
  | PCMaxSubGb _ => ("vpn/node", "MaxSubscriptionGigabytes") | PCMinSubGb _ => ("vpn/node", "MinSubscriptionGigabytes")
  | PCMaxSubHr _ => ("vpn/node", "MaxSubscriptionHours") | PCMinSubHr _ => ("vpn/node", "MinSubscriptionHours")
  | PCNodeShare _ => ("vpn/node", "StakingShare")
  | PCSubDelay _ => ("vpn/subscription", "StatusChangeDelay")
  | PCSessDelay _ => ("vpn/session", "StatusChangeDelay") | PCSessProof _ => ("vpn/session", "ProofVerificationEnabled")
  | PCSwapEnabled _ => ("swap", "SwapEnabled") | PCSwapDenom _ => ("swap", "SwapDenom") | PCSwapApprover _ => ("swap", "ApproveBy")
  end%string.

Definition pchange_val (c : pchange) : pval :=
  match c with
  | PCProvDeposit c | PCNodeDeposit c => VCoin c
  | PCProvShare z | PCNodeShare z => VDec z
  | PCNodeActive z | PCSubDelay z | PCSessDelay z | PCMaxSubGb z | PCMinSubGb z | PCMaxSubHr z | PCMinSubHr z => VInt z
  | PCMaxGb l | PCMinGb l | PCMaxHr l | PCMinHr l => VCoins l
  | PCSessProof b | PCSwapEnabled b => VBool b
  | PCSwapDenom d => VDenom d
  | PCSwapApprover t => VAddr t
  end.

(* the value decodes into the Go type: int64 / time.Duration fit 64 bits, sdk.Int amounts fit 256 bits *)
Definition decodes (g : gotype) (v : pval) : bool :=
  match g, v with
  | GCoin, VCoin c => Z.abs c.2 <? MAXINT
  | GCoins, VCoins l => forallb (fun c : coin => Z.abs c.2 <? MAXINT) l
  | GDuration, VInt z | GInt64, VInt z => (- I64MAX - 1 <=? z) && (z <=? I64MAX)
  | GDec, VDec _ => true
  | GBool, VBool _ => true
  | GString, VDenom _ | GString, VAddr _ => true
  | _, _ => false
  end.

(* does a test fire?  A value decoded from JSON is never nil; a denomination / address text is never empty *)
Definition fires (t : ptest) (v : pval) : bool :=
  match t, v with
  | TIsNil, _ | TEqNil, _ | TAnyNil, _ | TEmptyString, _ => false
  | TIsNegative, VCoin c => c.2 <? 0
  | TIsNegative, VDec z => z <? 0
  | TNotValid, VCoin c => negb (denom_ok c.1 && (0 <=? c.2))                (* Coin.IsValid *)
  | TNotValid, VCoins l => negb (coins_sorted l)                             (* Coins.IsValid: sorted, unique, positive, valid denominations *)
  | TLtZero, VInt z => z <? 0
  | TEqZero, VInt z => z =? 0
  | TGtOne, VDec z => P18 <? z
  | TBadDenom, VDenom d => negb (denom_ok d)
  | TBadAccAddress, VAddr t => negb (ta_valid RAcc t)
  | _, _ => true                                                              (* a test applied to a value of another type: refuse *)
  end.

Fixpoint run_tests (ts : list (polarity * ptest)) (v : pval) : bool :=
  match ts with
  | [] => true
  | (PRefuse, t) :: r => if fires t v then false else run_tests r v
  | (PAccept, t) :: r => if fires t v then true else run_tests r v
  end.

Definition lookup_rule (k : string * string) : option (gotype * list (polarity * ptest)) :=
  match List.find (fun r : string * string * string * gotype * list (polarity * ptest) =>
                     String.eqb r.1.1.1.1 k.1 && String.eqb r.1.1.1.2 k.2) param_rules with
  | Some r => Some (r.1.2, r.2)
  | None => None
  end.

Definition rule_valid (c : pchange) : bool :=
  match lookup_rule (pchange_key c) with
  | Some (g, ts) => decodes g (pchange_val c) && run_tests ts (pchange_val c)
  | None => false
  end.

Lemma coins_sorted_decodes l : coins_sorted l = true -> forallb (fun c : coin => Z.abs c.2 <? MAXINT) l = true.
Proof.
  induction l as [|[d a] l IH]; intros H; [reflexivity|]. simpl in *.
  repeat rewrite andb_true_iff in H. destruct H as [[[_ _] A] B]. rewrite A. simpl.
  destruct l as [|[d' a'] l']; [reflexivity|]. apply andb_true_iff in B as [_ B]. exact (IH B).
Qed.

Ltac look := match goal with |- context [lookup_rule ?k] => let r := fresh "r" in set (r := lookup_rule k); vm_compute in r; subst r end.

Theorem pchange_valid_is_the_regenerated_rule : forall c, pchange_valid c = rule_valid c.
Proof.
  intros c. unfold rule_valid. destruct c; cbn [pchange_key pchange_val]; look; cbn [decodes run_tests fires pchange_valid];
    unfold coin_param_ok, share_ok, pos_i64, coins_param_ok, I64MAX.
  all: try (destruct (Z.ltb_spec (Z.abs c.2) MAXINT), (Z.leb_spec 0 c.2), (Z.ltb_spec c.2 MAXINT), (Z.ltb_spec c.2 0), (denom_ok c.1); simpl; try reflexivity; lia).
  all: try (destruct (Z.leb_spec 0 z), (Z.leb_spec z P18), (Z.ltb_spec z 0), (Z.ltb_spec P18 z); simpl; try reflexivity; lia).
  all: try (destruct (Z.ltb_spec 0 z), (Z.leb_spec z 9223372036854775807), (Z.leb_spec (- 9223372036854775807 - 1) z), (Z.ltb_spec z 0), (Z.eqb_spec z 0); simpl; try reflexivity; lia).
  all: try (destruct (coins_sorted c) eqn:E; [rewrite (coins_sorted_decodes _ E), orb_true_r; reflexivity|];
            rewrite andb_false_r, orb_false_r; apply bool_decide_eq_false; intros ->; discriminate).
  all: try (destruct (denom_ok d); reflexivity).
  all: try (destruct (ta_valid RAcc t); reflexivity).
  all: reflexivity.
Qed.

(* every parameter the model can change has a regenerated rule, and the table has no other entries *)
Theorem every_parameter_has_a_rule : forall c, is_Some (lookup_rule (pchange_key c)).
Proof. intros c. destruct c; cbn [pchange_key]; look; eauto. Qed.
Theorem rule_table_is_covered : List.length param_rules = 19%nat.
Proof. reflexivity. Qed.
