(* Proof infrastructure shared by all preservation proofs: inversion of the
   result monad, lifting of invariants through [rfold], finite sums over gmaps. *)
From Hub Require Import Base.Prelude Base.Arith Model.Types Model.Keeper.

Lemma ensure_ok b u : ensure b = Ok u -> b = true.
Proof. destruct b; simpl; [reflexivity|discriminate]. Qed.
Lemma assertp_ok b u : assertp b = Ok u -> b = true.
Proof. destruct b; simpl; [reflexivity|discriminate]. Qed.
Lemma must_ok {A} (m : res A) a : must m = Ok a -> m = Ok a.
Proof. destruct m; simpl; congruence. Qed.

Lemma rbind_err_or_panic {A B} (m : res A) (f : A -> res B) :
  rbind m f <> Panic -> m <> Panic.
Proof. destruct m; simpl; congruence. Qed.

(* one inversion step on a hypothesis of the shape [... = Ok _] *)
Ltac res_inv1 :=
  match goal with
  | H : rbind _ _ = Ok _ |- _ =>
      let x := fresh "x" in let Hx := fresh "Hx" in
      apply rbind_ok in H as (x & Hx & H)
  | H : ensure _ = Ok _ |- _ => apply ensure_ok in H
  | H : assertp _ = Ok _ |- _ => apply assertp_ok in H
  | H : must _ = Ok _ |- _ => apply must_ok in H
  | H : Ok _ = Ok _ |- _ => injection H as H; try subst
  | H : (_, _) = (_, _) |- _ => injection H as ? ?; try subst
  | H : Err = Ok _ |- _ => discriminate H
  | H : Panic = Ok _ |- _ => discriminate H
  | H : (if ?b then _ else _) = Ok _ |- _ => destruct b eqn:?
  | H : (if ?b then _ else _) = (_, _) |- _ => destruct b eqn:?
  | H : (match ?o with Some _ => _ | None => _ end) = (_, _) |- _ => destruct o eqn:?
  | H : (match ?o with Some _ => _ | None => _ end) = Ok _ |- _ => destruct o eqn:?
  | H : (match ?o with Ok _ => _ | Err => _ | Panic => _ end) = Ok _ |- _ => destruct o eqn:?
  | H : (let '(_, _) := ?p in _) = Ok _ |- _ => destruct p eqn:?
  | H : (match ?p with (_, _) => _ end) = Ok _ |- _ => destruct p eqn:?
  | H : (match ?x with _ => _ end) = Ok _ |- _ => destruct x eqn:?
  | H : (match ?x with _ => _ end) = (_, _) |- _ => destruct x eqn:?
  end.
Ltac res_inv := repeat res_inv1.

(* invariants through rfold *)
Lemma rfold_inv {A S} (P : S -> Prop) (f : S -> A -> res S) l s s' :
  (forall s x s', P s -> f s x = Ok s' -> P s') ->
  P s -> rfold f l s = Ok s' -> P s'.
Proof.
  intros Hf. revert s. induction l as [|x l IH]; simpl; intros s Hs H.
  - injection H as <-. exact Hs.
  - apply rbind_ok in H as (s1 & H1 & H2). eapply IH; [|exact H2]. eapply Hf; eauto.
Qed.

(* the same with membership information about the element *)
Lemma rfold_inv_in {A S} (P : S -> Prop) (f : S -> A -> res S) l s s' :
  (forall s x s', x ∈ l -> P s -> f s x = Ok s' -> P s') ->
  P s -> rfold f l s = Ok s' -> P s'.
Proof.
  revert s. induction l as [|x l IH]; simpl; intros s Hf Hs H.
  - injection H as <-. exact Hs.
  - apply rbind_ok in H as (s1 & H1 & H2). eapply IH; [| |exact H2].
    + intros s2 y s3 Hy. apply Hf. right. exact Hy.
    + eapply Hf; eauto. left.
Qed.

(* a reflexive-transitive relation between the state before and after *)
Lemma rfold_rel {A S} (R : S -> S -> Prop) (f : S -> A -> res S) l s s' :
  (forall s, R s s) -> (forall a b c, R a b -> R b c -> R a c) ->
  (forall s x s', f s x = Ok s' -> R s s') ->
  rfold f l s = Ok s' -> R s s'.
Proof.
  intros Hr Ht Hf. revert s. induction l as [|x l IH]; simpl; intros s H.
  - injection H as <-. apply Hr.
  - apply rbind_ok in H as (s1 & H1 & H2). eapply Ht; [eapply Hf; eauto|eapply IH; eauto].
Qed.

Lemma fold_left_inv {A S} (P : S -> Prop) (f : S -> A -> S) l s :
  (forall s x, P s -> P (f s x)) -> P s -> P (fold_left f l s).
Proof. intros Hf. revert s. induction l; simpl; auto. Qed.

(** * sums over finite maps *)

Definition msum {K} `{Countable K} {V} (f : V -> Z) (m : gmap K V) : Z :=
  map_fold (fun _ v acc => acc + f v) 0 m.

Section msum.
  Context {K : Type} `{Countable K} {V : Type} (f : V -> Z).

  Lemma msum_empty : msum f (∅ : gmap K V) = 0.
  Proof. unfold msum. apply map_fold_empty. Qed.

  Lemma msum_insert_fresh (m : gmap K V) k v :
    m !! k = None -> msum f (<[k := v]> m) = msum f m + f v.
  Proof.
    intros Hk. unfold msum.
    rewrite (map_fold_insert_L (fun _ v acc => acc + f v)); [reflexivity| |exact Hk].
    intros; lia.
  Qed.

  Lemma msum_delete (m : gmap K V) k v :
    m !! k = Some v -> msum f m = msum f (delete k m) + f v.
  Proof.
    intros Hk. rewrite <- (insert_delete m k v Hk) at 1.
    apply msum_insert_fresh. apply lookup_delete.
  Qed.

  Lemma msum_insert (m : gmap K V) k v :
    msum f (<[k := v]> m) = msum f m - (match m !! k with Some w => f w | None => 0 end) + f v.
  Proof.
    destruct (m !! k) as [w|] eqn:Hk.
    - rewrite <- insert_delete_insert. rewrite msum_insert_fresh by apply lookup_delete.
      rewrite (msum_delete m k w Hk). lia.
    - rewrite msum_insert_fresh by exact Hk. lia.
  Qed.

  Lemma msum_delete' (m : gmap K V) k :
    msum f (delete k m) = msum f m - (match m !! k with Some w => f w | None => 0 end).
  Proof.
    destruct (m !! k) as [w|] eqn:Hk.
    - rewrite (msum_delete m k w Hk). lia.
    - rewrite delete_notin by exact Hk. lia.
  Qed.
End msum.
