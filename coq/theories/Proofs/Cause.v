(* C04 (run level, subscriptions): WHY a subscription is demoted or removed.  Across one whole
   operation a subscription goes active -> inactive-pending only by its owner's MsgCancel or in the
   end-blocker of a block at or after its deadline, and then it is pending until exactly
   now + status_change_delay; it is removed only in the end-blocker of a block at or after the end of
   its pending period; an active subscription is never removed within the same operation. *)
From Hub Require Import Base.Prelude Base.Arith Model.Types Model.Keeper Model.Handlers Model.Hooks Model.Step.
From Hub Require Import Proofs.Tactics Proofs.Sorting Proofs.Frames Proofs.KeysInv Proofs.Lifecycle Proofs.Quota
  Proofs.IndexSess Proofs.IndexNode Proofs.InvDefs Proofs.IndexSub Proofs.Listing Proofs.IndexSub2 Proofs.IndexPlan Proofs.IndexAll Proofs.Link.

Definition pend_at (s : state) (sb : subscription) : subscription :=
  sb <| sb_inactive_at := now s + p_sub_delay (pars s) |> <| sb_status := SPending |> <| sb_status_at := now s |>.

(** * transactions *)

Lemma h_sub_cancel_subs s from id0 s' :
  kinv_sub s -> h_sub_cancel s from id0 = Ok s' ->
  exists sb0, subs s !! id0 = Some sb0 /\ sb_status sb0 = SActive /\ ta_bytes from = sb_addr sb0 /\
              subs s' = <[id0 := pend_at s sb0]> (subs s).
Proof.
  intros Hk H. unfold h_sub_cancel in H. destruct (subs s !! id0) as [sb0|] eqn:Hsb; [|discriminate].
  destruct (k_sub _ Hk _ _ Hsb) as (E1 & _).
  apply rbind_ok in H as (u & Hact & H). apply ensure_ok, bool_decide_eq_true in Hact.
  apply rbind_ok in H as (u2 & Hown & H). apply ensure_ok, bool_decide_eq_true in Hown.
  apply rbind_ok in H as (s2 & Hp & H). pose proof (sub_pending_hook_keeps _ _ _ Hp) as K2.
  destruct (detach_payout_fields _ _ Err _ ltac:(intros ? ?; discriminate) H) as (_ & D2 & _).
  exists sb0. split; [reflexivity|]. split; [exact Hact|]. split; [exact Hown|].
  rewrite D2. unfold sub_make_pending, pend_at. simpl. rewrite E1.
  replace (subs s2) with (subs s) by (symmetry; keeps_solve).
  replace (now s2) with (now s) by (symmetry; keeps_solve). replace (pars s2) with (pars s) by (symmetry; keeps_solve). reflexivity.
Qed.

(* what one transaction does to one stored subscription *)
Lemma handle_subs s m s' id sb :
  kinv s -> handle s m = Ok s' -> subs s !! id = Some sb ->
  subs s' !! id = Some sb \/
  (exists from, m = MSubCancel from id /\ ta_bytes from = sb_addr sb /\ sb_status sb = SActive /\ subs s' !! id = Some (pend_at s sb)).
Proof.
  intros Hi H Hsb. destruct m; simpl in H.
  all: try (left; replace (subs s') with (subs s); [exact Hsb|]; symmetry; handler_keeps H; keeps_solve; fail).
  - (* node subscribe *) left. unfold h_node_subscribe in H. res_inv.
    match goal with Hc : create_sub_for_node _ _ _ _ _ _ = Ok _ |- _ => destruct (evo_create_sub_for_node _ _ _ _ _ _ _ _ (ki_sub _ Hi) Hc) as [_ _ _ Kp _] end.
    simpl. apply Kp; [exact Hsb|]. destruct (k_sub _ (ki_sub _ Hi) _ _ Hsb) as (_ & ? & _). lia.
  - (* plan subscribe *) left. unfold h_plan_subscribe in H. res_inv.
    match goal with Hc : create_sub_for_plan _ _ _ _ = Ok _ |- _ => destruct (evo_create_sub_for_plan _ _ _ _ _ _ (ki_sub _ Hi) Hc) as [_ _ _ Kp _] end.
    simpl. apply Kp; [exact Hsb|]. destruct (k_sub _ (ki_sub _ Hi) _ _ Hsb) as (_ & ? & _). lia.
  - (* cancel *)
    destruct (h_sub_cancel_subs _ _ _ _ (ki_sub _ Hi) H) as (sb0 & Hsb0 & Hact & Hown & E). rewrite E.
    destruct (decide (id = id0)) as [->|Hne].
    + rewrite Hsb in Hsb0. injection Hsb0 as <-. right. exists from. rewrite lookup_insert. auto.
    + left. rewrite lookup_insert_ne by congruence. exact Hsb.
  - (* allocate *) left. replace (subs s') with (subs s); [exact Hsb|]. unfold h_sub_allocate in H. res_inv; reflexivity.
Qed.

(** * the subscription end-blocker, followed for one subscription *)

(* the three things that can have happened to subscription [id] (stored as [sb] when the loop started) *)
Definition sub_fate (s0 : state) (id : Z) (sb : subscription) (x : state) : Prop :=
  subs x !! id = Some sb \/
  (sb_status sb = SActive /\ sb_inactive_at sb <= now s0 /\ subs x !! id = Some (pend_at s0 sb)) \/
  (sb_status sb <> SActive /\ sb_inactive_at sb <= now s0 /\ subs x !! id = None).

Lemma sub_end_block_fate s s' id sb :
  end_inv s -> sess_fresh s -> sub_end_block s = Ok s' -> subs s !! id = Some sb -> sub_fate s id sb s'.
Proof.
  intros Hinv Hfr H Hsb0. unfold sub_end_block in H.
  set (P := fun (rest : list (time * Z)) (x : state) =>
              end_inv x /\ sess_fresh x /\ now x = now s /\ pars x = pars s /\ NoDup rest /\
              (forall e, e ∈ rest -> e ∈ sub_q x /\ e.1 <= now s) /\
              ((exists t, (t, id) ∈ rest) -> subs x !! id = Some sb) /\ sub_fate s id sb x).
  assert (G : P [] s').
  { eapply (IndexSub2.rfold_rest P); [| |exact H].
    - intros e rest x x' (Hx & Hfx & N1 & N2 & Hnd & Hin & Hpend & Hfate) Hstep.
      apply NoDup_cons in Hnd as [Hnotin Hnd].
      destruct e as [t id1]. destruct (Hin (t, id1) ltac:(left)) as [He Hle]. simpl in Hle.
      destruct (proj1 (ix_subq _ (ei_sub _ Hx) t id1) He) as (sb1 & Hsb1 & Hiat).
      destruct (k_sub _ (ki_sub _ (ei_k _ Hx)) _ _ Hsb1) as (Eid & _).
      destruct (sub_expire_one_effect x (t, id1) x' sb1 (ei_k _ Hx) (ei_sess _ Hx) Hsb1 Eid Hstep) as (M1 & M2 & M3 & M4). simpl in M3, M4.
      assert (Hx' : end_inv x').
      { destruct Hx as [A B C D E]. split.
        - eapply kinv_sub_expire_one; eauto.
        - eapply idx_sess_sub_expire_one; eauto.
        - eapply idx_sub_expire_one; eauto.
        - rewrite M2. exact D.
        - eapply link_sub_expire_one; eauto. simpl. lia. }
      split; [exact Hx'|]. split.
      { intros sid y Hy. rewrite M4 in Hy. rewrite M1. case_bool_decide.
        - destruct (sessions x !! sid) as [y0|] eqn:Hy0; [|discriminate]. simpl in Hy. injection Hy as <-.
          unfold demote_sess. case_bool_decide; simpl; [destruct (ei_par _ Hx); lia|apply (Hfx _ _ Hy0)].
        - apply (Hfx _ _ Hy). }
      split; [congruence|]. split; [congruence|]. split; [exact Hnd|].
      assert (Hrest : forall e, e ∈ rest -> e ∈ sub_q x' /\ e.1 <= now s).
      { intros [t' id'] He'. destruct (Hin (t', id') ltac:(right; exact He')) as [He'q Hle']. split; [|exact Hle'].
        apply (ix_subq _ (ei_sub _ Hx')). destruct (proj1 (ix_subq _ (ei_sub _ Hx) t' id') He'q) as (sb' & Hsb' & Hiat').
        assert (Hne : id' <> id1). { intros ->. rewrite Hsb1 in Hsb'. injection Hsb' as <-. apply Hnotin. rewrite <- Hiat, Hiat'. exact He'. }
        exists sb'. split; [|exact Hiat']. rewrite M3. case_bool_decide; [rewrite lookup_insert_ne by congruence|rewrite lookup_delete_ne by congruence]; exact Hsb'. }
      split; [exact Hrest|].
      destruct (decide (id1 = id)) as [->|Hne].
      + (* this iteration processes [id]: it was untouched so far *)
        assert (Hcur : subs x !! id = Some sb) by (apply Hpend; exists t; left).
        rewrite Hsb1 in Hcur. injection Hcur as ->.
        split.
        * (* no further entry for id *)
          intros [t' Hin']. exfalso. destruct (Hin (t', id) ltac:(right; exact Hin')) as [Hq _].
          destruct (proj1 (ix_subq _ (ei_sub _ Hx) t' id) Hq) as (sb' & Hsb' & Hiat'). rewrite Hsb1 in Hsb'. injection Hsb' as <-.
          apply Hnotin. rewrite <- Hiat, Hiat'. exact Hin'.
        * rewrite <- Hiat in Hle. unfold sub_fate. rewrite M3. case_bool_decide as Hact.
          -- right. left. split; [exact Hact|]. split; [exact Hle|]. rewrite lookup_insert. unfold pend_at. rewrite N1, N2. reflexivity.
          -- right. right. split; [exact Hact|]. split; [exact Hle|]. apply lookup_delete.
      + (* another subscription: [id] is not touched *)
        assert (Hsame : subs x' !! id = subs x !! id).
        { rewrite M3. case_bool_decide; [rewrite lookup_insert_ne by congruence|rewrite lookup_delete_ne by congruence]; reflexivity. }
        split.
        * intros [t' Hin']. rewrite Hsame. apply Hpend. exists t'. right. exact Hin'.
        * unfold sub_fate in *. rewrite Hsame. exact Hfate.
    - split; [exact Hinv|]. split; [exact Hfr|]. split; [reflexivity|]. split; [reflexivity|]. split; [apply NoDup_due_z|]. split.
      + intros e He. apply elem_of_due_z in He. tauto.
      + split; [intros _; exact Hsb0|left; exact Hsb0]. }
  destruct G as (_ & _ & _ & _ & _ & _ & _ & G). exact G.
Qed.

(* the whole end-blocker: nodes and sessions do not touch subscriptions *)
Lemma end_block_sub_fate s s' id sb :
  life_inv s -> end_block s = Ok s' -> subs s !! id = Some sb -> sub_fate s id sb s'.
Proof.
  intros Hl H Hsb. unfold end_block in H. apply rbind_ok in H as (s1 & H1 & H). apply rbind_ok in H as (s2 & H2 & H3).
  pose proof (life_end_inv _ Hl) as [A B C D E]. destruct Hl as [Hall _ _].
  pose proof (node_end_block_keeps _ _ H1) as K1.
  assert (Hinv1 : end_inv s1).
  { split.
    - eapply kinv_node_end_block; eauto.
    - eapply idx_sess_keeps; eauto.
    - eapply idx_sub_keeps; eauto.
    - replace (pars s1) with (pars s) by keeps_solve. exact D.
    - eapply link_keeps; eauto. }
  destruct (session_end_block_fresh _ _ Hinv1 H2) as (Hinv2 & Sf2 & N2 & P2).
  assert (Esub : subs s2 = subs s).
  { transitivity (subs s1); [|keeps_solve]. unfold session_end_block in H2.
    eapply (rfold_inv (fun y => subs y = subs s1)); [|reflexivity|exact H2].
    intros a e b Ha Hs. rewrite <- Ha. unfold session_expire_one in Hs. destruct (sessions a !! e.2) as [x|]; [|discriminate].
    case_bool_decide; [injection Hs as <-; reflexivity|].
    apply rbind_ok in Hs as (total & _ & Hs). apply rbind_ok in Hs as (a1 & Hh & Hs). apply must_ok in Hh. injection Hs as <-.
    destruct (session_inactive_hook_subfields _ _ _ _ _ _ Hh) as (S1 & _). simpl. rewrite S1. reflexivity. }
  assert (Hsb2 : subs s2 !! id = Some sb) by (rewrite Esub; exact Hsb).
  pose proof (sub_end_block_fate s2 s' id sb Hinv2 Sf2 H3 Hsb2) as F.
  assert (En : now s2 = now s) by (rewrite N2; keeps_solve).
  assert (Ep : pars s2 = pars s) by (rewrite P2; keeps_solve).
  unfold sub_fate, pend_at in *. rewrite En, Ep in F. exact F.
Qed.

(** * one whole operation *)

Lemma step_sub_fate s o s' id sb :
  life_inv s -> step s o = OOk s' -> subs s !! id = Some sb ->
  subs s' !! id = Some sb \/
  (exists from, o = OTx (MSubCancel from id) /\ ta_bytes from = sb_addr sb /\ sb_status sb = SActive /\ subs s' !! id = Some (pend_at s sb)) \/
  (o = OEnd /\ sb_status sb = SActive /\ sb_inactive_at sb <= now s /\ subs s' !! id = Some (pend_at s sb)) \/
  (o = OEnd /\ sb_status sb <> SActive /\ sb_inactive_at sb <= now s /\ subs s' !! id = None).
Proof.
  intros Hl Hstep Hsb. pose proof (ai_k _ (lf_idx _ Hl)) as Hi. unfold step in Hstep. destruct o.
  - left. destruct (begin_block _) as [x| |] eqn:H; try discriminate. injection Hstep as <-.
    unfold begin_block in H. apply rbind_ok in H as (s1 & Hm & H). apply mint_begin_block_keeps in Hm.
    replace (subs x) with (subs s); [exact Hsb|]. transitivity (subs s1); [keeps_solve|].
    unfold sub_begin_block in H. symmetry. eapply (rfold_inv (fun y => subs y = subs s1)); [|reflexivity|exact H].
    intros a e b Ha Hs. rewrite <- Ha. destruct (payouts a !! e.2) as [po|] eqn:Hpo; [|unfold payout_step in Hs; rewrite Hpo in Hs; discriminate].
    destruct (payout_step_spec a e b po Hpo Hs) as (S1 & _). exact S1.
  - unfold run_tx in Hstep. destruct (validate_basic m); [|discriminate].
    destruct (handle _ m) as [x| |] eqn:H; try discriminate. injection Hstep as <-.
    destruct (handle_subs (clear_events s) m x id sb (kinv_clear _ Hi) H Hsb) as [F|(from & -> & F1 & F2 & F3)]; [left; exact F|].
    right. left. exists from. auto.
  - left. destruct (forallb pchange_valid _); [|discriminate]. injection Hstep as <-. destruct (fold_pchange_fields cs (clear_events s)) as (_ & G2 & _). rewrite G2. exact Hsb.
  - destruct (end_block _) as [x| |] eqn:H; try discriminate. injection Hstep as <-.
    destruct (end_block_sub_fate (clear_events s) x id sb (life_clear _ Hl) H Hsb) as [F|[(F1 & F2 & F3)|(F1 & F2 & F3)]]; simpl; auto.
    + right. right. left. auto.
    + right. right. right. auto.
Qed.

(* demotion: only by the owner's MsgCancel, or in the end-blocker of a block at or after the deadline;
   the pending period then lasts exactly the delay in force at that moment *)
Theorem sub_demotion_cause s o s' id sb sb' :
  life_inv s -> step s o = OOk s' -> subs s !! id = Some sb -> subs s' !! id = Some sb' ->
  sb_status sb = SActive -> sb_status sb' = SPending ->
  sb_inactive_at sb' = now s + p_sub_delay (pars s) /\
  ((exists from, o = OTx (MSubCancel from id) /\ ta_bytes from = sb_addr sb) \/ (o = OEnd /\ sb_inactive_at sb <= now s)).
Proof.
  intros Hl Hstep Hsb Hsb' Hact Hpend.
  destruct (step_sub_fate _ _ _ _ _ Hl Hstep Hsb) as [F|[(from & -> & F1 & _ & F3)|[(-> & _ & F2 & F3)|(_ & _ & _ & F3)]]].
  - rewrite F in Hsb'. injection Hsb' as <-. congruence.
  - rewrite F3 in Hsb'. injection Hsb' as <-. split; [reflexivity|]. left. eauto.
  - rewrite F3 in Hsb'. injection Hsb' as <-. split; [reflexivity|]. right. auto.
  - rewrite F3 in Hsb'. discriminate.
Qed.

(* removal: only in the end-blocker of a block at or after the end of the pending period, and never of
   a subscription that was still active when the operation started *)
Theorem sub_removal_cause s o s' id sb :
  life_inv s -> step s o = OOk s' -> subs s !! id = Some sb -> subs s' !! id = None ->
  o = OEnd /\ sb_status sb = SPending /\ sb_inactive_at sb <= now s.
Proof.
  intros Hl Hstep Hsb Hnone.
  destruct (step_sub_fate _ _ _ _ _ Hl Hstep Hsb) as [F|[(from & _ & _ & _ & F3)|[(_ & _ & _ & F3)|(-> & F1 & F2 & _)]]].
  - rewrite Hnone in F. discriminate.
  - rewrite Hnone in F3. discriminate.
  - rewrite Hnone in F3. discriminate.
  - split; [reflexivity|]. split; [|exact F2].
    destruct (k_sub _ (ki_sub _ (ai_k _ (lf_idx _ Hl))) _ _ Hsb) as (_ & _ & [Hs|Hs]); [contradiction|exact Hs].
Qed.

(* nothing else happens to a stored subscription in one operation *)
Theorem sub_untouched_otherwise s o s' id sb sb' :
  life_inv s -> step s o = OOk s' -> subs s !! id = Some sb -> subs s' !! id = Some sb' ->
  sb_status sb' = sb_status sb -> sb' = sb.
Proof.
  intros Hl Hstep Hsb Hsb' Hst.
  destruct (step_sub_fate _ _ _ _ _ Hl Hstep Hsb) as [F|[(from & _ & _ & F2 & F3)|[(_ & F2 & _ & F3)|(_ & _ & _ & F3)]]].
  - rewrite F in Hsb'. injection Hsb' as <-. reflexivity.
  - rewrite F3 in Hsb'. injection Hsb' as <-. simpl in Hst. congruence.
  - rewrite F3 in Hsb'. injection Hsb' as <-. simpl in Hst. congruence.
  - rewrite F3 in Hsb'. discriminate.
Qed.
